(* GENERATED from /repo by harness/translate_schema.py on every run - do not edit *)
From PV Require Import Lib.Base Model.Schema.
Open Scope N_scope.

Definition s0 : str := (s2l "None").
Definition s1 : str := ([]:str).
Definition s2 : str := (s2l "xs:NMTOKEN").
Definition s3 : str := (s2l "anonymity").
Definition s4 : str := (s2l "verinymity").
Definition s5 : str := (s2l "pseudonymity").
Definition s6 : str := (s2l "anyURI").
Definition s7 : str := (s2l "boolean").
Definition s8 : str := (s2l "integer").
Definition s9 : str := (s2l "string").
Definition s10 : str := (s2l "hardware").
Definition s11 : str := (s2l "software").
Definition s12 : str := (s2l "true").
Definition s13 : str := (s2l "false").
Definition s14 : str := (s2l "duration").
Definition s15 : str := (s2l "memory").
Definition s16 : str := (s2l "smartcard").
Definition s17 : str := (s2l "token").
Definition s18 : str := (s2l "MobileDevice").
Definition s19 : str := (s2l "MobileAuthCard").
Definition s20 : str := (s2l "ID").
Definition s21 : str := (s2l "positiveInteger").
Definition s22 : str := (s2l "datetime").
Definition s23 : str := (s2l "md:entityIDType").
Definition s24 : str := (s2l "unsignedShort").
Definition s25 : str := (s2l "dateTime").
Definition s26 : str := (s2l "list").
Definition s27 : str := (s2l "mdui:listOfStrings").
Definition s28 : str := (s2l "unsignedByte").
Definition s29 : str := (s2l "1").
Definition s30 : str := (s2l "xsd:string").
Definition s31 : str := (s2l "public").
Definition s32 : str := (s2l "private").
Definition s33 : str := (s2l "technical").
Definition s34 : str := (s2l "support").
Definition s35 : str := (s2l "administrative").
Definition s36 : str := (s2l "billing").
Definition s37 : str := (s2l "other").
Definition s38 : str := (s2l "encryption").
Definition s39 : str := (s2l "signing").
Definition s40 : str := (s2l "saml.AttributeValueBase.harvest_element_tree").
Definition s41 : str := (s2l "saml.AttributeValueBase.set_text").
Definition s42 : str := (s2l "saml.AttributeValueBase.__setattr__").
Definition s43 : str := (s2l "saml.AttributeValueBase").
Definition s44 : str := (s2l "NCName").
Definition s45 : str := (s2l "nonNegativeInteger").
Definition s46 : str := (s2l "anyType").
Definition s47 : str := (s2l "Permit").
Definition s48 : str := (s2l "Deny").
Definition s49 : str := (s2l "Indeterminate").
Definition s50 : str := (s2l "saml.SubjectLocality").
Definition s51 : str := (s2l "saml.AuthnContextType_").
Definition s52 : str := (s2l "urn:oasis:names:tc:SAML:2.0:attrname-format:uri").
Definition s53 : str := (s2l "saml.ConditionsType_").
Definition s54 : str := (s2l "saml.AssertionType_").
Definition s55 : str := (s2l "exact").
Definition s56 : str := (s2l "minimum").
Definition s57 : str := (s2l "maximum").
Definition s58 : str := (s2l "better").
Definition s59 : str := (s2l "xs:string").
Definition s60 : str := (s2l "rpc").
Definition s61 : str := (s2l "document").
Definition s62 : str := (s2l "literal").
Definition s63 : str := (s2l "encoded").
Definition s64 : str := (s2l "NMTOKENS").
Definition s65 : str := (s2l "QName").
Definition s66 : str := (s2l "NMTOKEN").
Definition s67 : str := (s2l "xs:anyURI").
Definition s68 : str := (s2l "http://www.w3.org/2005/08/addressing/reply").
Definition s69 : str := (s2l "xs:QName").
Definition s70 : str := (s2l "tns:InvalidAddressingHeader").
Definition s71 : str := (s2l "tns:InvalidAddress").
Definition s72 : str := (s2l "tns:InvalidEPR").
Definition s73 : str := (s2l "tns:InvalidCardinality").
Definition s74 : str := (s2l "tns:MissingAddressInEPR").
Definition s75 : str := (s2l "tns:DuplicateMessageID").
Definition s76 : str := (s2l "tns:ActionMismatch").
Definition s77 : str := (s2l "tns:MessageAddressingHeaderRequired").
Definition s78 : str := (s2l "tns:DestinationUnreachable").
Definition s79 : str := (s2l "tns:ActionNotSupported").
Definition s80 : str := (s2l "tns:EndpointUnavailable").
Definition s81 : str := (s2l "unsignedLong").
Definition s82 : str := (s2l "base64Binary").
Definition s83 : str := (s2l "http://schemas.xmlsoap.org/ws/2004/09/policy/Sha1Exc").
Definition s84 : str := (s2l "tns:OperatorContentType").
Definition s85 : str := (s2l "xsd:QName").
Definition s86 : str := (s2l "wsse:UnsupportedSecurityToken").
Definition s87 : str := (s2l "wsse:UnsupportedAlgorithm").
Definition s88 : str := (s2l "wsse:InvalidSecurity").
Definition s89 : str := (s2l "wsse:InvalidSecurityToken").
Definition s90 : str := (s2l "wsse:FailedAuthentication").
Definition s91 : str := (s2l "wsse:FailedCheck").
Definition s92 : str := (s2l "wsse:SecurityTokenUnavailable").
Definition s93 : str := (s2l "http://docs.oasis-open.org/ws-sx/ws-trust/200512/Issue").
Definition s94 : str := (s2l "http://docs.oasis-open.org/ws-sx/ws-trust/200512/Renew").
Definition s95 : str := (s2l "http://docs.oasis-open.org/ws-sx/ws-trust/200512/Cancel").
Definition s96 : str := (s2l "http://docs.oasis-open.org/ws-sx/ws-trust/200512/STSCancel").
Definition s97 : str := (s2l "http://docs.oasis-open.org/ws-sx/ws-trust/200512/Validate").
Definition s98 : str := (s2l "http://docs.oasis-open.org/ws-sx/ws-trust/200512/AsymmetricKey").
Definition s99 : str := (s2l "http://docs.oasis-open.org/ws-sx/ws-trust/200512/SymmetricKey").
Definition s100 : str := (s2l "http://docs.oasis-open.org/ws-sx/ws-trust/200512/Nonce").
Definition s101 : str := (s2l "http://docs.oasis-open.org/ws-sx/ws-trust/200512/CK/PSHA1").
Definition s102 : str := (s2l "http://docs.oasis-open.org/ws-sx/ws-trust/200512/CK/HASH").
Definition s103 : str := (s2l "http://docs.oasis-open.org/ws-sx/ws-trust/200512/status/valid").
Definition s104 : str := (s2l "http://docs.oasis-open.org/ws-sx/ws-trust/200512/status/invalid").
Definition s105 : str := (s2l "http://docs.oasis-open.org/ws-sx/ws-trust/200512/PublicKey").
Definition s106 : str := (s2l "http://docs.oasis-open.org/wssx/wstrust/200512/Bearer").
Definition s107 : str := (s2l "unsignedInt").

Definition m_subject : N := 0.
Definition m_attribute_statement : N := 1.
Definition m_statement : N := 2.
Definition m_authn_statement : N := 3.
Definition m_authz_decision_statement : N := 4.
Definition m_one_time_use : N := 5.
Definition m_proxy_restriction : N := 6.
Definition m_authn_context_decl : N := 7.
Definition m_authn_context_decl_ref : N := 8.
Definition m_address : N := 9.
Definition m_dns_name : N := 10.
Definition x_xsi_nil : N := 11.
Definition x_xsi_type : N := 12.
Definition x_xmlns_xs : N := 13.

Definition class_local_tag : list N := [1611;1628;1661;1666;1671;1676;1679;1681;1682;1683;1688;1689;1690;1691;1692;1693;1698;1617;1618;1624;1626;1660;1665;1626;1678;1685;1686;1687;1697;1637;1641;1659;1673;1675;1680;1684;1696;1612;1619;1620;1621;1623;1625;1627;1633;1634;1635;1636;1638;1639;1640;1642;1643;1645;1646;1647;1648;1649;1650;1651;1652;1653;1654;1657;1658;1662;1669;1674;1677;1695;1701;1610;1622;1631;1644;1656;1664;1667;1670;1616;1630;1655;1672;1694;1700;1614;1615;1629;1663;1613;1699;1609;1668;1632;1611;1628;1661;1666;1671;1676;1679;1681;1682;1683;1688;1689;1690;1691;1692;1698;1693;1617;1618;1624;1626;1660;1665;1626;1678;1685;1686;1687;1697;1637;1641;1659;1673;1675;1680;1684;1696;1612;1619;1620;1621;1623;1625;1627;1633;1634;1635;1636;1638;1639;1640;1642;1643;1645;1646;1647;1648;1649;1650;1651;1652;1653;1654;1657;1658;1674;1677;1668;1669;1695;1662;1610;1622;1632;1644;1656;1667;1670;1701;1664;1616;1630;1631;1655;1700;1672;1694;1614;1615;1629;1663;1613;1699;1609;1611;1628;1661;1666;1671;1676;1679;1681;1682;1683;1688;1689;1690;1691;1692;1693;1698;1617;1618;1624;1626;1660;1665;1626;1678;1685;1686;1687;1697;1637;1641;1659;1673;1675;1680;1684;1696;1612;1619;1620;1621;1623;1625;1627;1633;1634;1635;1636;1638;1639;1640;1642;1643;1645;1646;1647;1648;1649;1650;1651;1652;1653;1654;1657;1658;1662;1674;1677;1695;1701;1669;1610;1622;1631;1644;1656;1664;1667;1670;1616;1630;1655;1672;1694;1700;1614;1615;1629;1663;1613;1699;1609;1668;1632;1611;1628;1661;1666;1671;1676;1679;1681;1682;1683;1688;1689;1690;1691;1692;1693;1698;1617;1618;1624;1626;1660;1665;1626;1678;1685;1686;1687;1697;1637;1641;1659;1673;1675;1680;1684;1696;1612;1619;1620;1621;1623;1625;1627;1633;1634;1635;1636;1638;1639;1640;1642;1643;1645;1646;1647;1648;1649;1650;1651;1652;1653;1654;1657;1658;1662;1669;1674;1677;1695;1701;1610;1622;1631;1644;1656;1664;1667;1670;1616;1630;1655;1672;1694;1700;1614;1615;1629;1663;1613;1699;1609;1668;1632;1611;1628;1661;1666;1671;1676;1679;1681;1682;1683;1688;1689;1690;1691;1692;1693;1698;1641;1617;1618;1624;1626;1638;1639;1640;1660;1665;1626;1678;1685;1686;1687;1697;1701;1631;1637;1659;1673;1675;1680;1684;1696;1612;1619;1620;1621;1623;1625;1627;1633;1634;1635;1636;1642;1643;1645;1646;1647;1648;1649;1650;1651;1652;1653;1654;1657;1658;1662;1674;1677;1695;1667;1669;1610;1622;1630;1644;1656;1664;1670;1700;1616;1629;1655;1672;1694;1614;1615;1663;1613;1699;1609;1668;1632;1611;1628;1661;1666;1671;1676;1679;1681;1682;1688;1689;1690;1691;1692;1693;1698;1683;1617;1618;1624;1626;1660;1665;1626;1678;1685;1686;1687;1697;1680;1623;1637;1641;1659;1673;1675;1684;1696;1667;1612;1619;1620;1621;1625;1627;1630;1633;1634;1635;1636;1638;1639;1640;1642;1643;1645;1646;1647;1648;1649;1650;1651;1652;1653;1654;1657;1658;1662;1669;1674;1677;1695;1610;1622;1644;1656;1664;1670;1616;1655;1672;1694;1614;1615;1663;1613;1668;1632;1701;1631;1700;1629;1699;1609;1703;1705;1702;1704;673;675;1708;1712;1715;1716;1717;1711;1714;1710;1713;1709;1707;1706;1718;1720;1719;1717;1708;1726;1714;1722;1725;1713;1721;1724;1723;1729;1730;1731;1732;1735;1734;1737;1740;1741;1742;1733;1736;1739;1728;1738;1727;1744;1743;1745;1749;1748;1747;1746;1750;1751;1753;1752;1729;1730;1731;1732;1737;1740;1741;1742;1736;1739;1728;1738;1727;1754;1755;1756;1758;1759;1760;1767;1768;1769;1772;1773;1774;1775;1776;1777;1779;1781;1784;1785;1786;1787;1788;1789;1792;1793;1794;1795;1798;1801;1802;1749;1805;1808;1811;1814;1757;1766;1771;1778;1783;1748;1765;1770;1782;1815;1816;1791;1800;1804;1807;1810;1813;1780;1790;1799;1803;1806;1809;1812;1797;1796;1764;1763;1762;1761;1818;1820;1822;1817;1819;1821;1818;1820;1817;1819;1823;2208;1878;1826;1827;1828;1829;1830;1831;1839;1840;1879;1846;1848;1850;1853;1880;1858;1861;1862;1863;1864;1867;1869;1876;1877;1824;1825;1838;1843;1845;1847;1849;1854;1857;1860;1868;1875;1837;1844;1859;1874;1836;1842;1856;1873;1835;1841;1855;1872;1834;1871;1870;1866;1865;1833;1832;1852;1851;1758;1886;1888;1896;1904;1907;1911;1912;1915;1920;1921;1923;1025;1757;1887;1932;1890;1933;1895;1898;1900;1903;1910;1914;1922;1926;1929;1889;1891;1894;1897;1899;1909;1913;1919;1925;1928;1893;1908;1918;1892;1906;1905;1902;1901;1883;1882;1881;1820;1917;1924;1927;1931;1819;1916;1930;1885;1884;1167;1935;1936;1938;1943;1939;1941;1942;1934;1234;1937;1225;1184;9;695;1195;1940;1194;1945;1946;1167;1197;1198;1199;1200;1944;1945;1946;1200;1947;1944;1947;1948;1204;1949;1964;1965;1952;1953;1955;1936;1957;1939;1958;1959;1223;1224;1225;1960;1962;1966;1244;1245;1172;1954;1234;1956;1234;1934;1238;1961;1171;1963;695;936;1951;1950;1970;1972;1976;1265;1981;1982;1983;1985;1987;1988;973;1969;1971;1973;1975;1980;1868;1984;1986;1991;1990;1968;1974;1977;1978;1979;1989;1967;1996;1998;1997;1995;1992;1993;1994;1999;2000;2001;2021;2002;2003;2004;2005;2006;2007;2008;2009;2010;2011;2012;2013;2014;2015;2016;2017;2018;1621;2019;2020;2023;1680;2024;2025;2027;2029;2032;2033;2035;2037;2039;2022;2041;2045;2046;2049;2051;2054;2056;2058;2060;2062;2064;2065;2066;2070;2072;2074;2076;2078;2080;1829;2081;2083;2084;2085;2086;2087;2088;2089;2091;2093;2095;2096;2097;2098;2100;2101;2102;2105;2022;1818;2026;2028;2031;2034;2036;2038;2040;2043;2044;2047;2048;2050;2052;2053;2055;2057;2059;2061;2063;2106;1098;1883;2069;2071;2073;2075;2077;2079;2082;2090;2092;2094;2099;2107;2108;2104;2030;2042;1882;2067;2068;1631;2103;2109;2110;2111;2114;2115;2112;2113;2116;2120;2124;2161;2130;1703;2132;2135;2136;2162;2163;2143;2164;2165;2145;2166;2147;2149;2155;2156;2167;2168;2169;2170;2171;2172;2173;2158;2174;2175;2160;2119;2123;2176;2126;2129;1702;2131;2177;2178;2179;2180;2181;2142;2144;2146;2148;2154;2157;2159;2125;2128;2138;2141;2153;2127;2137;2140;2152;2006;2139;2013;2134;2151;2122;2133;2150;2121;2118;2117;2183;2199;2128;2200;2201;2202;2193;2006;2198;2085;2203;2182;2127;2187;1785;2192;2204;2205;2194;2197;2186;2196;2185;2195;2184;2207;2189;2206;2191;2188;2190].

Definition actual_schema : schema := [
 KR 0 14 [] [AR 15 16 (TN s0) false] [] [] None [] [] [] s1 true;
 KR 1 17 [] [AR 18 18 (TN s0) true] [] [] None [] [] [] s1 true;
 KR 2 19 [] [] [] [] (Some (VT s2 (Some [s3;s4;s5]) None None)) [] [] [] s1 true;
 KR 3 20 [] [AR 21 22 (TN s6) true] [] [] None [] [] [] s1 true;
 KR 4 23 [] [AR 24 24 (TN s7) true] [] [] None [] [] [] s1 true;
 KR 5 25 [] [AR 26 26 (TN s0) true;AR 27 27 (TN s8) false] [] [] None [] [] [] s1 true;
 KR 6 28 [] [AR 29 30 (TN s9) true;AR 31 32 (TN s9) false;AR 33 33 (TN s9) false] [] [] None [] [] [] s1 true;
 KR 7 34 [] [] [] [] (Some (VT s2 (Some [s10;s11]) None None)) [] [] [] s1 true;
 KR 8 35 [] [] [] [] (Some (VT s2 (Some [s12;s13]) None None)) [] [] [] s1 true;
 KR 9 36 [] [AR 37 38 (TC 7) true;AR 39 40 (TN s8) true;AR 41 42 (TC 8) true] [] [] None [] [] [] s1 true;
 KR 10 43 [] [AR 44 44 (TN s14) true] [] [] None [] [] [] s1 true;
 KR 11 45 [] [AR 46 46 (TN s8) true] [] [] None [] [] [] s1 true;
 KR 12 47 [] [] [] [] None [] [] [] s1 true;
 KR 13 48 [] [AR 26 26 (TN s8) true;AR 27 27 (TN s8) false] [] [] None [] [] [] s1 true;
 KR 14 49 [] [] [] [] (Some (VT s2 (Some [s15;s16;s17;s18;s19]) None None)) [] [] [] s1 true;
 KR 15 50 [] [AR 51 51 (TC 14) true] [] [] None [] [] [] s1 true;
 KR 16 52 [] [] [] [] None [] [] [] s1 true;
 KR 17 53 [] [AR 24 24 (TN s7) true] [] [] None [] [] [] s1 true;
 KR 18 54 [] [AR 51 51 (TC 14) true] [] [] None [] [] [] s1 true;
 KR 19 55 [] [AR 37 38 (TC 7) true;AR 39 40 (TN s8) true;AR 41 42 (TC 8) true] [] [] None [] [] [] s1 true;
 KR 20 56 [] [AR 26 26 (TN s8) true;AR 27 27 (TN s8) false] [] [] None [] [] [] s1 true;
 KR 21 57 [] [AR 21 22 (TN s6) true] [] [] None [] [] [] s1 true;
 KR 22 58 [CR 57 22 (Some 21) true] [] [22] [(22,((Some 1%Z),None))] None [] [] [] s1 true;
 KR 23 56 [] [AR 26 26 (TN s0) true;AR 27 27 (TN s8) false] [] [] None [] [] [] s1 true;
 KR 24 59 [] [AR 29 30 (TN s9) true;AR 31 32 (TN s9) false;AR 33 33 (TN s9) false] [] [] None [] [] [] s1 true;
 KR 25 60 [] [AR 44 44 (TN s14) true] [] [] None [] [] [] s1 true;
 KR 26 61 [] [AR 46 46 (TN s8) true] [] [] None [] [] [] s1 true;
 KR 27 62 [] [] [] [] None [] [] [] s1 true;
 KR 28 63 [] [] [] [] None [] [] [] s1 true;
 KR 29 64 [CR 63 65 (Some 28) true] [AR 66 66 (TN s6) false] [65] [(65,((Some 0%Z),None))] None [] [] [] s1 true;
 KR 30 67 [CR 63 65 (Some 28) true] [AR 68 69 (TN s0) false] [65] [(65,((Some 0%Z),None))] None [] [] [] s1 true;
 KR 31 70 [CR 57 22 (Some 21) true] [] [22] [(22,((Some 1%Z),None))] None [] [] [] s1 true;
 KR 32 71 [CR 56 72 (Some 20) false;CR 59 73 (Some 24) false;CR 17 74 (Some 1) false;CR 63 65 (Some 28) true] [AR 75 76 (TN s6) false] [72;73;74;65] [(72,((Some 0%Z),(Some 1%Z)));(73,((Some 0%Z),(Some 1%Z)));(74,((Some 0%Z),(Some 1%Z)));(65,((Some 0%Z),None))] None [] [] [] s1 true;
 KR 33 77 [CR 56 72 (Some 23) false;CR 17 74 (Some 1) false;CR 63 65 (Some 28) true] [AR 75 76 (TN s6) false] [72;74;65] [(74,((Some 0%Z),(Some 1%Z)));(65,((Some 0%Z),None))] None [] [] [] s1 true;
 KR 34 78 [CR 55 79 (Some 19) false;CR 63 65 (Some 28) true] [] [79;65] [(65,((Some 0%Z),None))] None [] [] [] s1 true;
 KR 35 80 [CR 60 81 (Some 25) false;CR 61 82 (Some 26) false;CR 62 83 (Some 27) false] [] [81;82;83] [(81,((Some 0%Z),(Some 1%Z)));(82,((Some 0%Z),(Some 1%Z)));(83,((Some 0%Z),(Some 1%Z)))] None [] [] [] s1 true;
 KR 36 84 [CR 63 65 (Some 28) true] [] [65] [(65,((Some 0%Z),None))] None [] [] [] s1 true;
 KR 37 85 [CR 63 65 (Some 28) true] [] [65] [(65,((Some 0%Z),None))] None [] [] [] s1 true;
 KR 38 86 [CR 63 65 (Some 28) true] [] [65] [(65,((Some 0%Z),None))] None [] [] [] s1 true;
 KR 39 87 [CR 63 65 (Some 28) true] [] [65] [(65,((Some 0%Z),None))] None [] [] [] s1 true;
 KR 40 88 [CR 56 72 (Some 20) false;CR 59 73 (Some 24) false;CR 17 74 (Some 1) false;CR 63 65 (Some 28) true] [AR 75 76 (TN s6) false] [72;73;74;65] [(72,((Some 0%Z),(Some 1%Z)));(73,((Some 0%Z),(Some 1%Z)));(74,((Some 0%Z),(Some 1%Z)));(65,((Some 0%Z),None))] None [] [] [] s1 true;
 KR 41 89 [CR 55 79 (Some 19) false;CR 63 65 (Some 28) true] [] [79;65] [(65,((Some 0%Z),None))] None [] [] [] s1 true;
 KR 42 90 [CR 63 65 (Some 28) true] [] [65] [(65,((Some 0%Z),None))] None [] [] [] s1 true;
 KR 43 91 [CR 60 81 (Some 25) false;CR 61 82 (Some 26) false;CR 62 83 (Some 27) false] [] [81;82;83] [(81,((Some 0%Z),(Some 1%Z)));(82,((Some 0%Z),(Some 1%Z)));(83,((Some 0%Z),(Some 1%Z)))] None [] [] [] s1 true;
 KR 44 92 [CR 63 65 (Some 28) true] [] [65] [(65,((Some 0%Z),None))] None [] [] [] s1 true;
 KR 45 93 [CR 63 65 (Some 28) true] [] [65] [(65,((Some 0%Z),None))] None [] [] [] s1 true;
 KR 46 94 [CR 63 65 (Some 28) true] [] [65] [(65,((Some 0%Z),None))] None [] [] [] s1 true;
 KR 47 95 [CR 63 65 (Some 28) true] [AR 66 66 (TN s6) false] [65] [(65,((Some 0%Z),None))] None [] [] [] s1 true;
 KR 48 96 [CR 63 65 (Some 28) true] [AR 68 69 (TN s0) false] [65] [(65,((Some 0%Z),None))] None [] [] [] s1 true;
 KR 49 97 [CR 63 65 (Some 28) true] [AR 68 69 (TN s0) false] [65] [(65,((Some 0%Z),None))] None [] [] [] s1 true;
 KR 50 98 [CR 63 65 (Some 28) true] [AR 68 69 (TN s0) false] [65] [(65,((Some 0%Z),None))] None [] [] [] s1 true;
 KR 51 99 [CR 63 65 (Some 28) true] [] [65] [(65,((Some 0%Z),None))] None [] [] [] s1 true;
 KR 52 100 [CR 63 65 (Some 28) true] [] [65] [(65,((Some 0%Z),None))] None [] [] [] s1 true;
 KR 53 101 [CR 63 65 (Some 28) true] [] [65] [(65,((Some 0%Z),None))] None [] [] [] s1 true;
 KR 54 102 [CR 63 65 (Some 28) true] [] [65] [(65,((Some 0%Z),None))] None [] [] [] s1 true;
 KR 55 103 [CR 63 65 (Some 28) true] [] [65] [(65,((Some 0%Z),None))] None [] [] [] s1 true;
 KR 56 104 [CR 63 65 (Some 28) true] [] [65] [(65,((Some 0%Z),None))] None [] [] [] s1 true;
 KR 57 105 [CR 63 65 (Some 28) true] [] [65] [(65,((Some 0%Z),None))] None [] [] [] s1 true;
 KR 58 106 [CR 63 65 (Some 28) true] [] [65] [(65,((Some 0%Z),None))] None [] [] [] s1 true;
 KR 59 107 [CR 63 65 (Some 28) true] [] [65] [(65,((Some 0%Z),None))] None [] [] [] s1 true;
 KR 60 108 [CR 63 65 (Some 28) true] [] [65] [(65,((Some 0%Z),None))] None [] [] [] s1 true;
 KR 61 109 [CR 63 65 (Some 28) true] [] [65] [(65,((Some 0%Z),None))] None [] [] [] s1 true;
 KR 62 110 [CR 63 65 (Some 28) true] [] [65] [(65,((Some 0%Z),None))] None [] [] [] s1 true;
 KR 63 111 [CR 63 65 (Some 28) true] [] [65] [(65,((Some 0%Z),None))] None [] [] [] s1 true;
 KR 64 112 [CR 63 65 (Some 28) true] [] [65] [(65,((Some 0%Z),None))] None [] [] [] s1 true;
 KR 65 113 [CR 14 114 (Some 0) false;CR 85 115 (Some 37) false;CR 70 116 (Some 31) false;CR 63 65 (Some 28) true] [AR 117 117 (TC 2) false] [114;115;116;65] [(114,((Some 0%Z),(Some 1%Z)));(115,((Some 0%Z),(Some 1%Z)));(116,((Some 0%Z),(Some 1%Z)));(65,((Some 0%Z),None))] None [] [] [] s1 true;
 KR 66 118 [CR 101 119 (Some 53) false;CR 107 120 (Some 59) false;CR 104 121 (Some 56) false;CR 105 122 (Some 57) false;CR 106 123 (Some 58) false;CR 103 124 (Some 55) false;CR 102 125 (Some 54) false;CR 108 126 (Some 60) false;CR 109 127 (Some 61) false;CR 110 128 (Some 62) false;CR 63 65 (Some 28) true] [] [119;120;121;122;123;124;125;126;127;128;65] [(119,((Some 0%Z),(Some 1%Z)));(120,((Some 0%Z),(Some 1%Z)));(121,((Some 0%Z),(Some 1%Z)));(122,((Some 0%Z),(Some 1%Z)));(123,((Some 0%Z),(Some 1%Z)));(124,((Some 0%Z),(Some 1%Z)));(125,((Some 0%Z),(Some 1%Z)));(126,((Some 0%Z),(Some 1%Z)));(127,((Some 0%Z),(Some 1%Z)));(128,((Some 0%Z),(Some 1%Z)));(65,((Some 0%Z),None))] None [] [] [] s1 true;
 KR 67 129 [CR 56 72 (Some 23) false;CR 17 74 (Some 1) false;CR 63 65 (Some 28) true] [AR 75 76 (TN s6) false] [72;74;65] [(74,((Some 0%Z),(Some 1%Z)));(65,((Some 0%Z),None))] None [] [] [] s1 true;
 KR 68 130 [CR 56 72 (Some 20) false;CR 59 73 (Some 24) false;CR 17 74 (Some 1) false;CR 91 131 (Some 43) false;CR 63 65 (Some 28) true] [] [72;73;74;131;65] [(72,((Some 0%Z),(Some 1%Z)));(73,((Some 0%Z),(Some 1%Z)));(74,((Some 0%Z),(Some 1%Z)));(131,((Some 0%Z),(Some 1%Z)));(65,((Some 0%Z),None))] None [] [] [] s1 true;
 KR 69 132 [CR 111 133 (Some 63) false;CR 63 65 (Some 28) true] [] [133;65] [(133,((Some 0%Z),(Some 1%Z)));(65,((Some 0%Z),None))] None [] [] [] s1 true;
 KR 70 134 [CR 88 135 (Some 40) false;CR 99 136 (Some 51) false;CR 63 65 (Some 28) true] [] [135;136;65] [(65,((Some 0%Z),None))] None [] [] [] s1 true;
 KR 71 137 [CR 14 114 (Some 0) false;CR 85 115 (Some 37) false;CR 70 116 (Some 31) false;CR 63 65 (Some 28) true] [AR 117 117 (TC 2) false] [114;115;116;65] [(114,((Some 0%Z),(Some 1%Z)));(115,((Some 0%Z),(Some 1%Z)));(116,((Some 0%Z),(Some 1%Z)));(65,((Some 0%Z),None))] None [] [] [] s1 true;
 KR 72 138 [CR 56 72 (Some 20) false;CR 59 73 (Some 24) false;CR 17 74 (Some 1) false;CR 91 131 (Some 43) false;CR 63 65 (Some 28) true] [] [72;73;74;131;65] [(72,((Some 0%Z),(Some 1%Z)));(73,((Some 0%Z),(Some 1%Z)));(74,((Some 0%Z),(Some 1%Z)));(131,((Some 0%Z),(Some 1%Z)));(65,((Some 0%Z),None))] None [] [] [] s1 true;
 KR 73 139 [CR 88 135 (Some 40) false;CR 99 136 (Some 51) false;CR 63 65 (Some 28) true] [] [135;136;65] [(65,((Some 0%Z),None))] None [] [] [] s1 true;
 KR 74 140 [CR 101 119 (Some 53) false;CR 107 120 (Some 59) false;CR 104 121 (Some 56) false;CR 105 122 (Some 57) false;CR 106 123 (Some 58) false;CR 103 124 (Some 55) false;CR 102 125 (Some 54) false;CR 108 126 (Some 60) false;CR 109 127 (Some 61) false;CR 110 128 (Some 62) false;CR 63 65 (Some 28) true] [] [119;120;121;122;123;124;125;126;127;128;65] [(119,((Some 0%Z),(Some 1%Z)));(120,((Some 0%Z),(Some 1%Z)));(121,((Some 0%Z),(Some 1%Z)));(122,((Some 0%Z),(Some 1%Z)));(123,((Some 0%Z),(Some 1%Z)));(124,((Some 0%Z),(Some 1%Z)));(125,((Some 0%Z),(Some 1%Z)));(126,((Some 0%Z),(Some 1%Z)));(127,((Some 0%Z),(Some 1%Z)));(128,((Some 0%Z),(Some 1%Z)));(65,((Some 0%Z),None))] None [] [] [] s1 true;
 KR 75 141 [CR 111 133 (Some 63) false;CR 63 65 (Some 28) true] [] [133;65] [(133,((Some 0%Z),(Some 1%Z)));(65,((Some 0%Z),None))] None [] [] [] s1 true;
 KR 76 142 [CR 141 143 (Some 75) false;CR 112 144 (Some 64) false;CR 63 65 (Some 28) true] [] [143;144;65] [(143,((Some 0%Z),(Some 1%Z)));(144,((Some 0%Z),(Some 1%Z)));(65,((Some 0%Z),None))] None [] [] [] s1 true;
 KR 77 145 [CR 88 135 (Some 40) false;CR 129 146 (Some 67) false;CR 89 147 (Some 41) false;CR 90 148 (Some 42) false;CR 138 149 (Some 72) false;CR 63 65 (Some 28) true] [AR 150 150 (TN s8) false] [135;146;147;148;149;65] [(135,((Some 0%Z),(Some 1%Z)));(146,((Some 0%Z),(Some 1%Z)));(147,((Some 0%Z),(Some 1%Z)));(148,((Some 0%Z),(Some 1%Z)));(149,((Some 0%Z),(Some 1%Z)));(65,((Some 0%Z),None))] None [] [] [] s1 true;
 KR 78 151 [CR 138 149 (Some 72) false;CR 63 65 (Some 28) true] [] [149;65] [(149,((Some 0%Z),(Some 1%Z)));(65,((Some 0%Z),None))] None [] [] [] s1 true;
 KR 79 152 [CR 138 149 (Some 72) false;CR 63 65 (Some 28) true] [] [149;65] [(149,((Some 0%Z),(Some 1%Z)));(65,((Some 0%Z),None))] None [] [] [] s1 true;
 KR 80 153 [CR 88 135 (Some 40) false;CR 129 146 (Some 67) false;CR 89 147 (Some 41) false;CR 90 148 (Some 42) false;CR 138 149 (Some 72) false;CR 63 65 (Some 28) true] [AR 150 150 (TN s8) false] [135;146;147;148;149;65] [(135,((Some 0%Z),(Some 1%Z)));(146,((Some 0%Z),(Some 1%Z)));(147,((Some 0%Z),(Some 1%Z)));(148,((Some 0%Z),(Some 1%Z)));(149,((Some 0%Z),(Some 1%Z)));(65,((Some 0%Z),None))] None [] [] [] s1 true;
 KR 81 154 [CR 141 143 (Some 75) false;CR 112 144 (Some 64) false;CR 63 65 (Some 28) true] [] [143;144;65] [(143,((Some 0%Z),(Some 1%Z)));(144,((Some 0%Z),(Some 1%Z)));(65,((Some 0%Z),None))] None [] [] [] s1 true;
 KR 82 155 [CR 152 156 (Some 79) false;CR 54 157 (Some 18) false;CR 53 158 (Some 17) false;CR 63 65 (Some 28) true] [] [156;157;158;65] [(156,((Some 0%Z),(Some 1%Z)));(157,((Some 0%Z),(Some 1%Z)));(158,((Some 0%Z),(Some 1%Z)));(65,((Some 0%Z),None))] None [] [] [] s1 true;
 KR 83 159 [CR 152 156 (Some 79) false;CR 54 157 (Some 18) false;CR 63 65 (Some 28) true] [] [156;157;65] [(156,((Some 0%Z),(Some 1%Z)));(157,((Some 0%Z),(Some 1%Z)));(65,((Some 0%Z),None))] None [] [] [] s1 true;
 KR 84 160 [CR 153 161 (Some 80) false;CR 139 162 (Some 73) false;CR 140 163 (Some 74) false;CR 63 65 (Some 28) true] [] [161;162;163;65] [(161,((Some 0%Z),(Some 1%Z)));(163,((Some 0%Z),(Some 1%Z)));(65,((Some 0%Z),None))] None [] [] [] s1 true;
 KR 85 164 [CR 152 156 (Some 79) false;CR 54 157 (Some 18) false;CR 63 65 (Some 28) true] [] [156;157;65] [(156,((Some 0%Z),(Some 1%Z)));(157,((Some 0%Z),(Some 1%Z)));(65,((Some 0%Z),None))] None [] [] [] s1 true;
 KR 86 165 [CR 152 156 (Some 79) false;CR 54 157 (Some 18) false;CR 53 158 (Some 17) false;CR 63 65 (Some 28) true] [] [156;157;158;65] [(156,((Some 0%Z),(Some 1%Z)));(157,((Some 0%Z),(Some 1%Z)));(158,((Some 0%Z),(Some 1%Z)));(65,((Some 0%Z),None))] None [] [] [] s1 true;
 KR 87 166 [CR 153 161 (Some 80) false;CR 139 162 (Some 73) false;CR 140 163 (Some 74) false;CR 63 65 (Some 28) true] [] [161;162;163;65] [(161,((Some 0%Z),(Some 1%Z)));(163,((Some 0%Z),(Some 1%Z)));(65,((Some 0%Z),None))] None [] [] [] s1 true;
 KR 88 167 [CR 165 168 (Some 86) false;CR 164 169 (Some 85) false;CR 63 65 (Some 28) true] [] [168;169;65] [(168,((Some 0%Z),(Some 1%Z)));(169,((Some 0%Z),(Some 1%Z)));(65,((Some 0%Z),None))] None [] [] [] s1 true;
 KR 89 170 [CR 165 168 (Some 86) false;CR 164 169 (Some 85) false;CR 63 65 (Some 28) true] [] [168;169;65] [(168,((Some 0%Z),(Some 1%Z)));(169,((Some 0%Z),(Some 1%Z)));(65,((Some 0%Z),None))] None [] [] [] s1 true;
 KR 90 171 [CR 137 172 (Some 71) false;CR 170 173 (Some 89) false;CR 154 174 (Some 81) false;CR 166 175 (Some 87) false;CR 70 116 (Some 31) false;CR 63 65 (Some 28) true] [AR 176 177 (TN s20) false] [172;173;174;175;116;65] [(172,((Some 0%Z),(Some 1%Z)));(173,((Some 0%Z),(Some 1%Z)));(174,((Some 0%Z),(Some 1%Z)));(116,((Some 0%Z),(Some 1%Z)));(65,((Some 0%Z),None))] None [] [] [] s1 true;
 KR 91 178 [CR 137 172 (Some 71) false;CR 170 173 (Some 89) false;CR 154 174 (Some 81) false;CR 166 175 (Some 87) false;CR 70 116 (Some 31) false;CR 63 65 (Some 28) true] [AR 176 177 (TN s20) false] [172;173;174;175;116;65] [(172,((Some 0%Z),(Some 1%Z)));(173,((Some 0%Z),(Some 1%Z)));(174,((Some 0%Z),(Some 1%Z)));(116,((Some 0%Z),(Some 1%Z)));(65,((Some 0%Z),None))] None [] [] [] s1 true;
 KR 92 179 [CR 92 180 (Some 44) false;CR 93 181 (Some 45) false;CR 96 182 (Some 48) false;CR 88 135 (Some 40) false;CR 129 146 (Some 67) false;CR 94 183 (Some 46) false;CR 95 184 (Some 47) false;CR 100 185 (Some 52) false;CR 99 136 (Some 51) false;CR 97 186 (Some 49) false;CR 98 187 (Some 50) false;CR 86 188 (Some 38) false;CR 87 189 (Some 39) false;CR 63 65 (Some 28) true;CR 190 191 (Some 93) false] [] [180;181;182;135;146;183;184;185;136;186;187;188;189;191;65] [(180,((Some 0%Z),(Some 1%Z)));(181,((Some 0%Z),(Some 1%Z)));(182,((Some 0%Z),(Some 1%Z)));(135,((Some 0%Z),(Some 1%Z)));(146,((Some 0%Z),(Some 1%Z)));(183,((Some 0%Z),(Some 1%Z)));(184,((Some 0%Z),(Some 1%Z)));(185,((Some 0%Z),(Some 1%Z)));(136,((Some 0%Z),(Some 1%Z)));(186,((Some 0%Z),(Some 1%Z)));(187,((Some 0%Z),(Some 1%Z)));(188,((Some 0%Z),(Some 1%Z)));(189,((Some 0%Z),(Some 1%Z)));(191,((Some 0%Z),(Some 1%Z)));(65,((Some 0%Z),None))] None [] [] [] s1 true;
 KR 93 190 [CR 92 180 (Some 44) false;CR 93 181 (Some 45) false;CR 96 182 (Some 48) false;CR 88 135 (Some 40) false;CR 129 146 (Some 67) false;CR 94 183 (Some 46) false;CR 95 184 (Some 47) false;CR 100 185 (Some 52) false;CR 99 136 (Some 51) false;CR 97 186 (Some 49) false;CR 98 187 (Some 50) false;CR 86 188 (Some 38) false;CR 87 189 (Some 39) false;CR 63 65 (Some 28) true;CR 190 191 (Some 93) false] [] [180;181;182;135;146;183;184;185;136;186;187;188;189;191;65] [(180,((Some 0%Z),(Some 1%Z)));(181,((Some 0%Z),(Some 1%Z)));(182,((Some 0%Z),(Some 1%Z)));(135,((Some 0%Z),(Some 1%Z)));(146,((Some 0%Z),(Some 1%Z)));(183,((Some 0%Z),(Some 1%Z)));(184,((Some 0%Z),(Some 1%Z)));(185,((Some 0%Z),(Some 1%Z)));(136,((Some 0%Z),(Some 1%Z)));(186,((Some 0%Z),(Some 1%Z)));(187,((Some 0%Z),(Some 1%Z)));(188,((Some 0%Z),(Some 1%Z)));(189,((Some 0%Z),(Some 1%Z)));(191,((Some 0%Z),(Some 1%Z)));(65,((Some 0%Z),None))] None [] [] [] s1 true;
 KR 94 192 [] [AR 15 16 (TN s0) false] [] [] None [] [] [] s1 true;
 KR 95 193 [] [AR 18 18 (TN s0) true] [] [] None [] [] [] s1 true;
 KR 96 194 [] [] [] [] (Some (VT s2 (Some [s3;s4;s5]) None None)) [] [] [] s1 true;
 KR 97 195 [] [AR 21 22 (TN s6) true] [] [] None [] [] [] s1 true;
 KR 98 196 [] [AR 24 24 (TN s7) true] [] [] None [] [] [] s1 true;
 KR 99 197 [] [AR 26 26 (TN s0) true;AR 27 27 (TN s8) false] [] [] None [] [] [] s1 true;
 KR 100 198 [] [AR 29 30 (TN s9) true;AR 31 32 (TN s9) false;AR 33 33 (TN s9) false] [] [] None [] [] [] s1 true;
 KR 101 199 [] [] [] [] (Some (VT s2 (Some [s10;s11]) None None)) [] [] [] s1 true;
 KR 102 200 [] [] [] [] (Some (VT s2 (Some [s12;s13]) None None)) [] [] [] s1 true;
 KR 103 201 [] [AR 37 38 (TC 101) true;AR 39 40 (TN s8) true;AR 41 42 (TC 102) true] [] [] None [] [] [] s1 true;
 KR 104 202 [] [AR 44 44 (TN s14) true] [] [] None [] [] [] s1 true;
 KR 105 203 [] [AR 46 46 (TN s8) true] [] [] None [] [] [] s1 true;
 KR 106 204 [] [] [] [] None [] [] [] s1 true;
 KR 107 205 [] [AR 26 26 (TN s8) true;AR 27 27 (TN s8) false] [] [] None [] [] [] s1 true;
 KR 108 206 [] [] [] [] (Some (VT s2 (Some [s15;s16;s17;s18;s19]) None None)) [] [] [] s1 true;
 KR 109 207 [] [] [] [] None [] [] [] s1 true;
 KR 110 208 [] [AR 51 51 (TN s0) true] [] [] None [] [] [] s1 true;
 KR 111 209 [] [AR 24 24 (TN s7) true] [] [] None [] [] [] s1 true;
 KR 112 210 [] [AR 51 51 (TN s0) true] [] [] None [] [] [] s1 true;
 KR 113 211 [] [AR 37 38 (TC 101) true;AR 39 40 (TN s8) true;AR 41 42 (TC 102) true] [] [] None [] [] [] s1 true;
 KR 114 212 [] [AR 26 26 (TN s8) true;AR 27 27 (TN s8) false] [] [] None [] [] [] s1 true;
 KR 115 213 [] [AR 21 22 (TN s6) true] [] [] None [] [] [] s1 true;
 KR 116 214 [CR 213 22 (Some 115) true] [] [22] [(22,((Some 1%Z),None))] None [] [] [] s1 true;
 KR 117 212 [] [AR 26 26 (TN s0) true;AR 27 27 (TN s8) false] [] [] None [] [] [] s1 true;
 KR 118 215 [] [AR 29 30 (TN s9) true;AR 31 32 (TN s9) false;AR 33 33 (TN s9) false] [] [] None [] [] [] s1 true;
 KR 119 216 [] [AR 44 44 (TN s14) true] [] [] None [] [] [] s1 true;
 KR 120 217 [] [AR 46 46 (TN s8) true] [] [] None [] [] [] s1 true;
 KR 121 218 [] [] [] [] None [] [] [] s1 true;
 KR 122 219 [] [] [] [] None [] [] [] s1 true;
 KR 123 220 [CR 219 65 (Some 122) true] [AR 66 66 (TN s6) false] [65] [(65,((Some 0%Z),None))] None [] [] [] s1 true;
 KR 124 221 [CR 219 65 (Some 122) true] [AR 68 69 (TN s0) false] [65] [(65,((Some 0%Z),None))] None [] [] [] s1 true;
 KR 125 222 [CR 213 22 (Some 115) true] [] [22] [(22,((Some 1%Z),None))] None [] [] [] s1 true;
 KR 126 223 [CR 212 72 (Some 114) false;CR 215 73 (Some 118) false;CR 193 74 (Some 95) false;CR 219 65 (Some 122) true] [AR 75 76 (TN s6) false] [72;73;74;65] [(72,((Some 0%Z),(Some 1%Z)));(73,((Some 0%Z),(Some 1%Z)));(74,((Some 0%Z),(Some 1%Z)));(65,((Some 0%Z),None))] None [] [] [] s1 true;
 KR 127 224 [CR 212 72 (Some 117) false;CR 193 74 (Some 95) false;CR 219 65 (Some 122) true] [AR 75 76 (TN s6) false] [72;74;65] [(74,((Some 0%Z),(Some 1%Z)));(65,((Some 0%Z),None))] None [] [] [] s1 true;
 KR 128 225 [CR 211 79 (Some 113) false;CR 219 65 (Some 122) true] [] [79;65] [(65,((Some 0%Z),None))] None [] [] [] s1 true;
 KR 129 226 [CR 216 81 (Some 119) false;CR 217 82 (Some 120) false;CR 218 83 (Some 121) false] [] [81;82;83] [(81,((Some 0%Z),(Some 1%Z)));(82,((Some 0%Z),(Some 1%Z)));(83,((Some 0%Z),(Some 1%Z)))] None [] [] [] s1 true;
 KR 130 227 [CR 219 65 (Some 122) true] [] [65] [(65,((Some 0%Z),None))] None [] [] [] s1 true;
 KR 131 228 [CR 219 65 (Some 122) true] [] [65] [(65,((Some 0%Z),None))] None [] [] [] s1 true;
 KR 132 229 [CR 219 65 (Some 122) true] [] [65] [(65,((Some 0%Z),None))] None [] [] [] s1 true;
 KR 133 230 [CR 219 65 (Some 122) true] [] [65] [(65,((Some 0%Z),None))] None [] [] [] s1 true;
 KR 134 231 [CR 212 72 (Some 114) false;CR 215 73 (Some 118) false;CR 193 74 (Some 95) false;CR 219 65 (Some 122) true] [AR 75 76 (TN s6) false] [72;73;74;65] [(72,((Some 0%Z),(Some 1%Z)));(73,((Some 0%Z),(Some 1%Z)));(74,((Some 0%Z),(Some 1%Z)));(65,((Some 0%Z),None))] None [] [] [] s1 true;
 KR 135 232 [CR 211 79 (Some 113) false;CR 219 65 (Some 122) true] [] [79;65] [(65,((Some 0%Z),None))] None [] [] [] s1 true;
 KR 136 233 [CR 219 65 (Some 122) true] [] [65] [(65,((Some 0%Z),None))] None [] [] [] s1 true;
 KR 137 234 [CR 216 81 (Some 119) false;CR 217 82 (Some 120) false;CR 218 83 (Some 121) false] [] [81;82;83] [(81,((Some 0%Z),(Some 1%Z)));(82,((Some 0%Z),(Some 1%Z)));(83,((Some 0%Z),(Some 1%Z)))] None [] [] [] s1 true;
 KR 138 235 [CR 219 65 (Some 122) true] [] [65] [(65,((Some 0%Z),None))] None [] [] [] s1 true;
 KR 139 236 [CR 219 65 (Some 122) true] [] [65] [(65,((Some 0%Z),None))] None [] [] [] s1 true;
 KR 140 237 [CR 219 65 (Some 122) true] [] [65] [(65,((Some 0%Z),None))] None [] [] [] s1 true;
 KR 141 238 [CR 219 65 (Some 122) true] [AR 66 66 (TN s6) false] [65] [(65,((Some 0%Z),None))] None [] [] [] s1 true;
 KR 142 239 [CR 219 65 (Some 122) true] [AR 68 69 (TN s0) false] [65] [(65,((Some 0%Z),None))] None [] [] [] s1 true;
 KR 143 240 [CR 219 65 (Some 122) true] [AR 68 69 (TN s0) false] [65] [(65,((Some 0%Z),None))] None [] [] [] s1 true;
 KR 144 241 [CR 219 65 (Some 122) true] [AR 68 69 (TN s0) false] [65] [(65,((Some 0%Z),None))] None [] [] [] s1 true;
 KR 145 242 [CR 219 65 (Some 122) true] [] [65] [(65,((Some 0%Z),None))] None [] [] [] s1 true;
 KR 146 243 [CR 219 65 (Some 122) true] [] [65] [(65,((Some 0%Z),None))] None [] [] [] s1 true;
 KR 147 244 [CR 219 65 (Some 122) true] [] [65] [(65,((Some 0%Z),None))] None [] [] [] s1 true;
 KR 148 245 [CR 219 65 (Some 122) true] [] [65] [(65,((Some 0%Z),None))] None [] [] [] s1 true;
 KR 149 246 [CR 219 65 (Some 122) true] [] [65] [(65,((Some 0%Z),None))] None [] [] [] s1 true;
 KR 150 247 [CR 219 65 (Some 122) true] [] [65] [(65,((Some 0%Z),None))] None [] [] [] s1 true;
 KR 151 248 [CR 219 65 (Some 122) true] [] [65] [(65,((Some 0%Z),None))] None [] [] [] s1 true;
 KR 152 249 [CR 219 65 (Some 122) true] [] [65] [(65,((Some 0%Z),None))] None [] [] [] s1 true;
 KR 153 250 [CR 219 65 (Some 122) true] [] [65] [(65,((Some 0%Z),None))] None [] [] [] s1 true;
 KR 154 251 [CR 219 65 (Some 122) true] [] [65] [(65,((Some 0%Z),None))] None [] [] [] s1 true;
 KR 155 252 [CR 219 65 (Some 122) true] [] [65] [(65,((Some 0%Z),None))] None [] [] [] s1 true;
 KR 156 253 [CR 219 65 (Some 122) true] [] [65] [(65,((Some 0%Z),None))] None [] [] [] s1 true;
 KR 157 254 [CR 219 65 (Some 122) true] [] [65] [(65,((Some 0%Z),None))] None [] [] [] s1 true;
 KR 158 255 [CR 219 65 (Some 122) true] [] [65] [(65,((Some 0%Z),None))] None [] [] [] s1 true;
 KR 159 256 [CR 212 72 (Some 117) false;CR 193 74 (Some 95) false;CR 219 65 (Some 122) true] [AR 75 76 (TN s6) false] [72;74;65] [(74,((Some 0%Z),(Some 1%Z)));(65,((Some 0%Z),None))] None [] [] [] s1 true;
 KR 160 257 [CR 212 72 (Some 114) false;CR 215 73 (Some 118) false;CR 193 74 (Some 95) false;CR 234 131 (Some 137) false;CR 219 65 (Some 122) true] [] [72;73;74;131;65] [(72,((Some 0%Z),(Some 1%Z)));(73,((Some 0%Z),(Some 1%Z)));(74,((Some 0%Z),(Some 1%Z)));(131,((Some 0%Z),(Some 1%Z)));(65,((Some 0%Z),None))] None [] [] [] s1 true;
 KR 161 258 [CR 238 184 (Some 141) false;CR 243 185 (Some 146) false;CR 231 135 (Some 134) false] [] [184;185;135] [(184,((Some 0%Z),(Some 1%Z)));(185,((Some 0%Z),(Some 1%Z)))] None [] [] [] s1 true;
 KR 162 259 [CR 250 120 (Some 153) false;CR 247 121 (Some 150) false;CR 248 122 (Some 151) false;CR 249 123 (Some 152) false;CR 246 124 (Some 149) false;CR 219 65 (Some 122) true] [] [120;121;122;123;124;65] [(120,((Some 0%Z),(Some 1%Z)));(121,((Some 0%Z),(Some 1%Z)));(122,((Some 0%Z),(Some 1%Z)));(123,((Some 0%Z),(Some 1%Z)));(124,((Some 0%Z),(Some 1%Z)));(65,((Some 0%Z),None))] None [] [] [] s1 true;
 KR 163 260 [CR 254 133 (Some 157) false;CR 219 65 (Some 122) true] [] [133;65] [(65,((Some 0%Z),None))] None [] [] [] s1 true;
 KR 164 261 [CR 192 114 (Some 94) false;CR 228 115 (Some 131) false;CR 222 116 (Some 125) false;CR 219 65 (Some 122) true] [AR 117 117 (TN s0) false] [114;115;116;65] [(65,((Some 0%Z),None))] None [] [] [] s1 true;
 KR 165 262 [CR 192 114 (Some 94) false;CR 228 115 (Some 131) false;CR 222 116 (Some 125) false;CR 219 65 (Some 122) true] [AR 117 117 (TN s0) false] [114;115;116;65] [(65,((Some 0%Z),None))] None [] [] [] s1 true;
 KR 166 263 [CR 212 72 (Some 114) false;CR 215 73 (Some 118) false;CR 193 74 (Some 95) false;CR 234 131 (Some 137) false;CR 219 65 (Some 122) true] [] [72;73;74;131;65] [(72,((Some 0%Z),(Some 1%Z)));(73,((Some 0%Z),(Some 1%Z)));(74,((Some 0%Z),(Some 1%Z)));(131,((Some 0%Z),(Some 1%Z)));(65,((Some 0%Z),None))] None [] [] [] s1 true;
 KR 167 264 [CR 238 184 (Some 141) false;CR 243 185 (Some 146) false;CR 231 135 (Some 134) false] [] [184;185;135] [(184,((Some 0%Z),(Some 1%Z)));(185,((Some 0%Z),(Some 1%Z)))] None [] [] [] s1 true;
 KR 168 265 [CR 250 120 (Some 153) false;CR 247 121 (Some 150) false;CR 248 122 (Some 151) false;CR 249 123 (Some 152) false;CR 246 124 (Some 149) false;CR 219 65 (Some 122) true] [] [120;121;122;123;124;65] [(120,((Some 0%Z),(Some 1%Z)));(121,((Some 0%Z),(Some 1%Z)));(122,((Some 0%Z),(Some 1%Z)));(123,((Some 0%Z),(Some 1%Z)));(124,((Some 0%Z),(Some 1%Z)));(65,((Some 0%Z),None))] None [] [] [] s1 true;
 KR 169 266 [CR 254 133 (Some 157) false;CR 219 65 (Some 122) true] [] [133;65] [(65,((Some 0%Z),None))] None [] [] [] s1 true;
 KR 170 267 [CR 231 135 (Some 134) false;CR 256 146 (Some 159) false;CR 232 147 (Some 135) false;CR 233 148 (Some 136) false;CR 263 149 (Some 166) false;CR 219 65 (Some 122) true] [AR 150 150 (TN s8) false] [135;146;147;148;149;65] [(135,((Some 0%Z),(Some 1%Z)));(146,((Some 0%Z),(Some 1%Z)));(147,((Some 0%Z),(Some 1%Z)));(148,((Some 0%Z),(Some 1%Z)));(149,((Some 0%Z),(Some 1%Z)));(65,((Some 0%Z),None))] None [] [] [] s1 true;
 KR 171 268 [CR 263 149 (Some 166) false;CR 219 65 (Some 122) true] [] [149;65] [(149,((Some 0%Z),(Some 1%Z)));(65,((Some 0%Z),None))] None [] [] [] s1 true;
 KR 172 269 [CR 239 182 (Some 142) false;CR 237 183 (Some 140) false;CR 238 184 (Some 141) false;CR 243 185 (Some 146) false;CR 240 186 (Some 143) false;CR 241 187 (Some 144) false;CR 264 191 (Some 167) false;CR 219 65 (Some 122) true] [] [182;183;184;185;186;187;191;65] [(182,((Some 0%Z),(Some 1%Z)));(183,((Some 0%Z),(Some 1%Z)));(184,((Some 0%Z),(Some 1%Z)));(185,((Some 0%Z),(Some 1%Z)));(186,((Some 0%Z),(Some 1%Z)));(187,((Some 0%Z),(Some 1%Z)));(191,((Some 0%Z),(Some 1%Z)));(65,((Some 0%Z),None))] None [] [] [] s1 true;
 KR 173 270 [CR 266 143 (Some 169) false;CR 255 144 (Some 158) false;CR 219 65 (Some 122) true] [] [143;144;65] [(65,((Some 0%Z),None))] None [] [] [] s1 true;
 KR 174 271 [CR 263 149 (Some 166) false;CR 219 65 (Some 122) true] [] [149;65] [(149,((Some 0%Z),(Some 1%Z)));(65,((Some 0%Z),None))] None [] [] [] s1 true;
 KR 175 272 [CR 231 135 (Some 134) false;CR 256 146 (Some 159) false;CR 232 147 (Some 135) false;CR 233 148 (Some 136) false;CR 263 149 (Some 166) false;CR 219 65 (Some 122) true] [AR 150 150 (TN s8) false] [135;146;147;148;149;65] [(135,((Some 0%Z),(Some 1%Z)));(146,((Some 0%Z),(Some 1%Z)));(147,((Some 0%Z),(Some 1%Z)));(148,((Some 0%Z),(Some 1%Z)));(149,((Some 0%Z),(Some 1%Z)));(65,((Some 0%Z),None))] None [] [] [] s1 true;
 KR 176 273 [CR 239 182 (Some 142) false;CR 237 183 (Some 140) false;CR 238 184 (Some 141) false;CR 243 185 (Some 146) false;CR 240 186 (Some 143) false;CR 241 187 (Some 144) false;CR 264 191 (Some 167) false;CR 219 65 (Some 122) true] [] [182;183;184;185;186;187;191;65] [(182,((Some 0%Z),(Some 1%Z)));(183,((Some 0%Z),(Some 1%Z)));(184,((Some 0%Z),(Some 1%Z)));(185,((Some 0%Z),(Some 1%Z)));(186,((Some 0%Z),(Some 1%Z)));(187,((Some 0%Z),(Some 1%Z)));(191,((Some 0%Z),(Some 1%Z)));(65,((Some 0%Z),None))] None [] [] [] s1 true;
 KR 177 274 [CR 266 143 (Some 169) false;CR 255 144 (Some 158) false;CR 219 65 (Some 122) true] [] [143;144;65] [(65,((Some 0%Z),None))] None [] [] [] s1 true;
 KR 178 275 [CR 272 161 (Some 175) false;CR 273 162 (Some 176) false;CR 265 163 (Some 168) false;CR 219 65 (Some 122) true] [] [161;162;163;65] [(161,((Some 0%Z),(Some 1%Z)));(163,((Some 0%Z),(Some 1%Z)));(65,((Some 0%Z),None))] None [] [] [] s1 true;
 KR 179 276 [CR 271 156 (Some 174) false;CR 210 157 (Some 112) false;CR 219 65 (Some 122) true] [] [156;157;65] [(65,((Some 0%Z),None))] None [] [] [] s1 true;
 KR 180 277 [CR 271 156 (Some 174) false;CR 210 157 (Some 112) false;CR 219 65 (Some 122) true] [] [156;157;65] [(65,((Some 0%Z),None))] None [] [] [] s1 true;
 KR 181 278 [CR 271 156 (Some 174) false;CR 210 157 (Some 112) false;CR 219 65 (Some 122) true] [] [156;157;65] [(65,((Some 0%Z),None))] None [] [] [] s1 true;
 KR 182 279 [CR 271 156 (Some 174) false;CR 210 157 (Some 112) false;CR 219 65 (Some 122) true] [] [156;157;65] [(65,((Some 0%Z),None))] None [] [] [] s1 true;
 KR 183 280 [CR 272 161 (Some 175) false;CR 273 162 (Some 176) false;CR 265 163 (Some 168) false;CR 219 65 (Some 122) true] [] [161;162;163;65] [(161,((Some 0%Z),(Some 1%Z)));(163,((Some 0%Z),(Some 1%Z)));(65,((Some 0%Z),None))] None [] [] [] s1 true;
 KR 184 281 [CR 279 168 (Some 182) false;CR 278 169 (Some 181) false;CR 219 65 (Some 122) true] [] [168;169;65] [(168,((Some 0%Z),(Some 1%Z)));(169,((Some 0%Z),(Some 1%Z)));(65,((Some 0%Z),None))] None [] [] [] s1 true;
 KR 185 282 [CR 279 168 (Some 182) false;CR 278 169 (Some 181) false;CR 219 65 (Some 122) true] [] [168;169;65] [(168,((Some 0%Z),(Some 1%Z)));(169,((Some 0%Z),(Some 1%Z)));(65,((Some 0%Z),None))] None [] [] [] s1 true;
 KR 186 283 [CR 262 172 (Some 165) false;CR 282 173 (Some 185) false;CR 274 174 (Some 177) false;CR 280 175 (Some 183) false;CR 222 116 (Some 125) false;CR 219 65 (Some 122) true] [AR 176 177 (TN s20) false] [172;173;174;175;116;65] [(172,((Some 0%Z),(Some 1%Z)));(173,((Some 0%Z),(Some 1%Z)));(174,((Some 0%Z),(Some 1%Z)));(116,((Some 0%Z),(Some 1%Z)));(65,((Some 0%Z),None))] None [] [] [] s1 true;
 KR 187 284 [CR 262 172 (Some 165) false;CR 282 173 (Some 185) false;CR 274 174 (Some 177) false;CR 280 175 (Some 183) false;CR 222 116 (Some 125) false;CR 219 65 (Some 122) true] [AR 176 177 (TN s20) false] [172;173;174;175;116;65] [(172,((Some 0%Z),(Some 1%Z)));(173,((Some 0%Z),(Some 1%Z)));(174,((Some 0%Z),(Some 1%Z)));(116,((Some 0%Z),(Some 1%Z)));(65,((Some 0%Z),None))] None [] [] [] s1 true;
 KR 188 285 [] [AR 15 16 (TN s0) false] [] [] None [] [] [] s1 true;
 KR 189 286 [] [AR 18 18 (TN s0) true] [] [] None [] [] [] s1 true;
 KR 190 287 [] [] [] [] (Some (VT s2 (Some [s3;s4;s5]) None None)) [] [] [] s1 true;
 KR 191 288 [] [AR 21 22 (TN s6) true] [] [] None [] [] [] s1 true;
 KR 192 289 [] [AR 24 24 (TN s7) true] [] [] None [] [] [] s1 true;
 KR 193 290 [] [AR 26 26 (TN s0) true;AR 27 27 (TN s8) false] [] [] None [] [] [] s1 true;
 KR 194 291 [] [AR 29 30 (TN s9) true;AR 31 32 (TN s9) false;AR 33 33 (TN s9) false] [] [] None [] [] [] s1 true;
 KR 195 292 [] [] [] [] (Some (VT s2 (Some [s10;s11]) None None)) [] [] [] s1 true;
 KR 196 293 [] [] [] [] (Some (VT s2 (Some [s12;s13]) None None)) [] [] [] s1 true;
 KR 197 294 [] [AR 37 38 (TC 195) true;AR 39 40 (TN s8) true;AR 41 42 (TC 196) true] [] [] None [] [] [] s1 true;
 KR 198 295 [] [AR 44 44 (TN s14) true] [] [] None [] [] [] s1 true;
 KR 199 296 [] [AR 46 46 (TN s8) true] [] [] None [] [] [] s1 true;
 KR 200 297 [] [] [] [] None [] [] [] s1 true;
 KR 201 298 [] [AR 26 26 (TN s8) true;AR 27 27 (TN s8) false] [] [] None [] [] [] s1 true;
 KR 202 299 [] [] [] [] (Some (VT s2 (Some [s15;s16;s17;s18;s19]) None None)) [] [] [] s1 true;
 KR 203 300 [] [AR 51 51 (TC 202) true] [] [] None [] [] [] s1 true;
 KR 204 301 [] [] [] [] None [] [] [] s1 true;
 KR 205 302 [] [AR 24 24 (TN s7) true] [] [] None [] [] [] s1 true;
 KR 206 303 [] [AR 51 51 (TC 202) true] [] [] None [] [] [] s1 true;
 KR 207 304 [] [AR 37 38 (TC 195) true;AR 39 40 (TN s8) true;AR 41 42 (TC 196) true] [] [] None [] [] [] s1 true;
 KR 208 305 [] [AR 26 26 (TN s8) true;AR 27 27 (TN s8) false] [] [] None [] [] [] s1 true;
 KR 209 306 [] [AR 21 22 (TN s6) true] [] [] None [] [] [] s1 true;
 KR 210 307 [CR 306 22 (Some 209) true] [] [22] [(22,((Some 1%Z),None))] None [] [] [] s1 true;
 KR 211 305 [] [AR 26 26 (TN s0) true;AR 27 27 (TN s8) false] [] [] None [] [] [] s1 true;
 KR 212 308 [] [AR 29 30 (TN s9) true;AR 31 32 (TN s9) false;AR 33 33 (TN s9) false] [] [] None [] [] [] s1 true;
 KR 213 309 [] [AR 44 44 (TN s14) true] [] [] None [] [] [] s1 true;
 KR 214 310 [] [AR 46 46 (TN s8) true] [] [] None [] [] [] s1 true;
 KR 215 311 [] [] [] [] None [] [] [] s1 true;
 KR 216 312 [] [] [] [] None [] [] [] s1 true;
 KR 217 313 [CR 312 65 (Some 216) true] [AR 66 66 (TN s6) false] [65] [(65,((Some 0%Z),None))] None [] [] [] s1 true;
 KR 218 314 [CR 312 65 (Some 216) true] [AR 68 69 (TN s0) false] [65] [(65,((Some 0%Z),None))] None [] [] [] s1 true;
 KR 219 315 [CR 306 22 (Some 209) true] [] [22] [(22,((Some 1%Z),None))] None [] [] [] s1 true;
 KR 220 316 [CR 305 72 (Some 208) false;CR 308 73 (Some 212) false;CR 286 74 (Some 189) false;CR 312 65 (Some 216) true] [AR 75 76 (TN s6) false] [72;73;74;65] [(72,((Some 0%Z),(Some 1%Z)));(73,((Some 0%Z),(Some 1%Z)));(74,((Some 0%Z),(Some 1%Z)));(65,((Some 0%Z),None))] None [] [] [] s1 true;
 KR 221 317 [CR 305 72 (Some 211) false;CR 286 74 (Some 189) false;CR 312 65 (Some 216) true] [AR 75 76 (TN s6) false] [72;74;65] [(74,((Some 0%Z),(Some 1%Z)));(65,((Some 0%Z),None))] None [] [] [] s1 true;
 KR 222 318 [CR 304 79 (Some 207) false;CR 312 65 (Some 216) true] [] [79;65] [(65,((Some 0%Z),None))] None [] [] [] s1 true;
 KR 223 319 [CR 309 81 (Some 213) false;CR 310 82 (Some 214) false;CR 311 83 (Some 215) false] [] [81;82;83] [(81,((Some 0%Z),(Some 1%Z)));(82,((Some 0%Z),(Some 1%Z)));(83,((Some 0%Z),(Some 1%Z)))] None [] [] [] s1 true;
 KR 224 320 [CR 312 65 (Some 216) true] [] [65] [(65,((Some 0%Z),None))] None [] [] [] s1 true;
 KR 225 321 [CR 312 65 (Some 216) true] [] [65] [(65,((Some 0%Z),None))] None [] [] [] s1 true;
 KR 226 322 [CR 312 65 (Some 216) true] [] [65] [(65,((Some 0%Z),None))] None [] [] [] s1 true;
 KR 227 323 [CR 312 65 (Some 216) true] [] [65] [(65,((Some 0%Z),None))] None [] [] [] s1 true;
 KR 228 324 [CR 305 72 (Some 208) false;CR 308 73 (Some 212) false;CR 286 74 (Some 189) false;CR 312 65 (Some 216) true] [AR 75 76 (TN s6) false] [72;73;74;65] [(72,((Some 0%Z),(Some 1%Z)));(73,((Some 0%Z),(Some 1%Z)));(74,((Some 0%Z),(Some 1%Z)));(65,((Some 0%Z),None))] None [] [] [] s1 true;
 KR 229 325 [CR 304 79 (Some 207) false;CR 312 65 (Some 216) true] [] [79;65] [(65,((Some 0%Z),None))] None [] [] [] s1 true;
 KR 230 326 [CR 312 65 (Some 216) true] [] [65] [(65,((Some 0%Z),None))] None [] [] [] s1 true;
 KR 231 327 [CR 309 81 (Some 213) false;CR 310 82 (Some 214) false;CR 311 83 (Some 215) false] [] [81;82;83] [(81,((Some 0%Z),(Some 1%Z)));(82,((Some 0%Z),(Some 1%Z)));(83,((Some 0%Z),(Some 1%Z)))] None [] [] [] s1 true;
 KR 232 328 [CR 312 65 (Some 216) true] [] [65] [(65,((Some 0%Z),None))] None [] [] [] s1 true;
 KR 233 329 [CR 312 65 (Some 216) true] [] [65] [(65,((Some 0%Z),None))] None [] [] [] s1 true;
 KR 234 330 [CR 312 65 (Some 216) true] [] [65] [(65,((Some 0%Z),None))] None [] [] [] s1 true;
 KR 235 331 [CR 312 65 (Some 216) true] [AR 66 66 (TN s6) false] [65] [(65,((Some 0%Z),None))] None [] [] [] s1 true;
 KR 236 332 [CR 312 65 (Some 216) true] [AR 68 69 (TN s0) false] [65] [(65,((Some 0%Z),None))] None [] [] [] s1 true;
 KR 237 333 [CR 312 65 (Some 216) true] [AR 68 69 (TN s0) false] [65] [(65,((Some 0%Z),None))] None [] [] [] s1 true;
 KR 238 334 [CR 312 65 (Some 216) true] [AR 68 69 (TN s0) false] [65] [(65,((Some 0%Z),None))] None [] [] [] s1 true;
 KR 239 335 [CR 312 65 (Some 216) true] [] [65] [(65,((Some 0%Z),None))] None [] [] [] s1 true;
 KR 240 336 [CR 312 65 (Some 216) true] [] [65] [(65,((Some 0%Z),None))] None [] [] [] s1 true;
 KR 241 337 [CR 312 65 (Some 216) true] [] [65] [(65,((Some 0%Z),None))] None [] [] [] s1 true;
 KR 242 338 [CR 312 65 (Some 216) true] [] [65] [(65,((Some 0%Z),None))] None [] [] [] s1 true;
 KR 243 339 [CR 312 65 (Some 216) true] [] [65] [(65,((Some 0%Z),None))] None [] [] [] s1 true;
 KR 244 340 [CR 312 65 (Some 216) true] [] [65] [(65,((Some 0%Z),None))] None [] [] [] s1 true;
 KR 245 341 [CR 312 65 (Some 216) true] [] [65] [(65,((Some 0%Z),None))] None [] [] [] s1 true;
 KR 246 342 [CR 312 65 (Some 216) true] [] [65] [(65,((Some 0%Z),None))] None [] [] [] s1 true;
 KR 247 343 [CR 312 65 (Some 216) true] [] [65] [(65,((Some 0%Z),None))] None [] [] [] s1 true;
 KR 248 344 [CR 312 65 (Some 216) true] [] [65] [(65,((Some 0%Z),None))] None [] [] [] s1 true;
 KR 249 345 [CR 312 65 (Some 216) true] [] [65] [(65,((Some 0%Z),None))] None [] [] [] s1 true;
 KR 250 346 [CR 312 65 (Some 216) true] [] [65] [(65,((Some 0%Z),None))] None [] [] [] s1 true;
 KR 251 347 [CR 312 65 (Some 216) true] [] [65] [(65,((Some 0%Z),None))] None [] [] [] s1 true;
 KR 252 348 [CR 312 65 (Some 216) true] [] [65] [(65,((Some 0%Z),None))] None [] [] [] s1 true;
 KR 253 349 [CR 285 114 (Some 188) false;CR 321 115 (Some 225) false;CR 315 116 (Some 219) false;CR 312 65 (Some 216) true] [AR 117 117 (TC 190) false] [114;115;116;65] [(114,((Some 0%Z),(Some 1%Z)));(115,((Some 0%Z),(Some 1%Z)));(116,((Some 0%Z),(Some 1%Z)));(65,((Some 0%Z),None))] None [] [] [] s1 true;
 KR 254 350 [CR 305 72 (Some 211) false;CR 286 74 (Some 189) false;CR 312 65 (Some 216) true] [AR 75 76 (TN s6) false] [72;74;65] [(74,((Some 0%Z),(Some 1%Z)));(65,((Some 0%Z),None))] None [] [] [] s1 true;
 KR 255 351 [CR 305 72 (Some 208) false;CR 308 73 (Some 212) false;CR 286 74 (Some 189) false;CR 327 131 (Some 231) false;CR 312 65 (Some 216) true] [] [72;73;74;131;65] [(72,((Some 0%Z),(Some 1%Z)));(73,((Some 0%Z),(Some 1%Z)));(74,((Some 0%Z),(Some 1%Z)));(131,((Some 0%Z),(Some 1%Z)));(65,((Some 0%Z),None))] None [] [] [] s1 true;
 KR 256 352 [CR 347 133 (Some 251) false;CR 312 65 (Some 216) true] [] [133;65] [(133,((Some 0%Z),(Some 1%Z)));(65,((Some 0%Z),None))] None [] [] [] s1 true;
 KR 257 353 [CR 350 146 (Some 254) false] [] [146] [] None [] [] [] s1 true;
 KR 258 354 [CR 343 120 (Some 247) false;CR 341 122 (Some 245) false;CR 342 123 (Some 246) false;CR 339 124 (Some 243) false;CR 338 125 (Some 242) false;CR 312 65 (Some 216) true] [] [120;122;123;124;125;65] [(120,((Some 0%Z),(Some 1%Z)));(122,((Some 0%Z),(Some 1%Z)));(123,((Some 0%Z),(Some 1%Z)));(124,((Some 0%Z),(Some 1%Z)));(125,((Some 0%Z),(Some 1%Z)));(65,((Some 0%Z),None))] None [] [] [] s1 true;
 KR 259 355 [CR 285 114 (Some 188) false;CR 321 115 (Some 225) false;CR 315 116 (Some 219) false;CR 312 65 (Some 216) true] [AR 117 117 (TC 190) false] [114;115;116;65] [(114,((Some 0%Z),(Some 1%Z)));(115,((Some 0%Z),(Some 1%Z)));(116,((Some 0%Z),(Some 1%Z)));(65,((Some 0%Z),None))] None [] [] [] s1 true;
 KR 260 356 [CR 305 72 (Some 208) false;CR 308 73 (Some 212) false;CR 286 74 (Some 189) false;CR 327 131 (Some 231) false;CR 312 65 (Some 216) true] [] [72;73;74;131;65] [(72,((Some 0%Z),(Some 1%Z)));(73,((Some 0%Z),(Some 1%Z)));(74,((Some 0%Z),(Some 1%Z)));(131,((Some 0%Z),(Some 1%Z)));(65,((Some 0%Z),None))] None [] [] [] s1 true;
 KR 261 357 [CR 350 146 (Some 254) false] [] [146] [] None [] [] [] s1 true;
 KR 262 358 [CR 343 120 (Some 247) false;CR 341 122 (Some 245) false;CR 342 123 (Some 246) false;CR 339 124 (Some 243) false;CR 338 125 (Some 242) false;CR 312 65 (Some 216) true] [] [120;122;123;124;125;65] [(120,((Some 0%Z),(Some 1%Z)));(122,((Some 0%Z),(Some 1%Z)));(123,((Some 0%Z),(Some 1%Z)));(124,((Some 0%Z),(Some 1%Z)));(125,((Some 0%Z),(Some 1%Z)));(65,((Some 0%Z),None))] None [] [] [] s1 true;
 KR 263 359 [CR 347 133 (Some 251) false;CR 312 65 (Some 216) true] [] [133;65] [(133,((Some 0%Z),(Some 1%Z)));(65,((Some 0%Z),None))] None [] [] [] s1 true;
 KR 264 360 [CR 359 143 (Some 263) false;CR 348 144 (Some 252) false;CR 312 65 (Some 216) true] [] [143;144;65] [(143,((Some 0%Z),(Some 1%Z)));(144,((Some 0%Z),(Some 1%Z)));(65,((Some 0%Z),None))] None [] [] [] s1 true;
 KR 265 361 [CR 324 135 (Some 228) false;CR 350 146 (Some 254) false;CR 325 147 (Some 229) false;CR 326 148 (Some 230) false;CR 356 149 (Some 260) false;CR 312 65 (Some 216) true] [AR 150 150 (TN s8) false] [135;146;147;148;149;65] [(135,((Some 0%Z),(Some 1%Z)));(146,((Some 0%Z),(Some 1%Z)));(147,((Some 0%Z),(Some 1%Z)));(148,((Some 0%Z),(Some 1%Z)));(149,((Some 0%Z),(Some 1%Z)));(65,((Some 0%Z),None))] None [] [] [] s1 true;
 KR 266 362 [CR 356 149 (Some 260) false;CR 312 65 (Some 216) true] [] [149;65] [(149,((Some 0%Z),(Some 1%Z)));(65,((Some 0%Z),None))] None [] [] [] s1 true;
 KR 267 363 [CR 356 149 (Some 260) false;CR 312 65 (Some 216) true] [] [149;65] [(149,((Some 0%Z),(Some 1%Z)));(65,((Some 0%Z),None))] None [] [] [] s1 true;
 KR 268 364 [CR 324 135 (Some 228) false;CR 350 146 (Some 254) false;CR 325 147 (Some 229) false;CR 326 148 (Some 230) false;CR 356 149 (Some 260) false;CR 312 65 (Some 216) true] [AR 150 150 (TN s8) false] [135;146;147;148;149;65] [(135,((Some 0%Z),(Some 1%Z)));(146,((Some 0%Z),(Some 1%Z)));(147,((Some 0%Z),(Some 1%Z)));(148,((Some 0%Z),(Some 1%Z)));(149,((Some 0%Z),(Some 1%Z)));(65,((Some 0%Z),None))] None [] [] [] s1 true;
 KR 269 365 [CR 359 143 (Some 263) false;CR 348 144 (Some 252) false;CR 312 65 (Some 216) true] [] [143;144;65] [(143,((Some 0%Z),(Some 1%Z)));(144,((Some 0%Z),(Some 1%Z)));(65,((Some 0%Z),None))] None [] [] [] s1 true;
 KR 270 366 [CR 363 156 (Some 267) false;CR 303 157 (Some 206) false;CR 302 158 (Some 205) false;CR 312 65 (Some 216) true] [] [156;157;158;65] [(156,((Some 0%Z),(Some 1%Z)));(157,((Some 0%Z),(Some 1%Z)));(158,((Some 0%Z),(Some 1%Z)));(65,((Some 0%Z),None))] None [] [] [] s1 true;
 KR 271 367 [CR 363 156 (Some 267) false;CR 303 157 (Some 206) false;CR 312 65 (Some 216) true] [] [156;157;65] [(156,((Some 0%Z),(Some 1%Z)));(157,((Some 0%Z),(Some 1%Z)));(65,((Some 0%Z),None))] None [] [] [] s1 true;
 KR 272 368 [CR 364 161 (Some 268) false;CR 357 162 (Some 261) false;CR 358 163 (Some 262) false;CR 312 65 (Some 216) true] [] [161;162;163;65] [(161,((Some 0%Z),(Some 1%Z)));(65,((Some 0%Z),None))] None [] [] [] s1 true;
 KR 273 369 [CR 363 156 (Some 267) false;CR 303 157 (Some 206) false;CR 312 65 (Some 216) true] [] [156;157;65] [(156,((Some 0%Z),(Some 1%Z)));(157,((Some 0%Z),(Some 1%Z)));(65,((Some 0%Z),None))] None [] [] [] s1 true;
 KR 274 370 [CR 363 156 (Some 267) false;CR 303 157 (Some 206) false;CR 302 158 (Some 205) false;CR 312 65 (Some 216) true] [] [156;157;158;65] [(156,((Some 0%Z),(Some 1%Z)));(157,((Some 0%Z),(Some 1%Z)));(158,((Some 0%Z),(Some 1%Z)));(65,((Some 0%Z),None))] None [] [] [] s1 true;
 KR 275 371 [CR 364 161 (Some 268) false;CR 357 162 (Some 261) false;CR 358 163 (Some 262) false;CR 312 65 (Some 216) true] [] [161;162;163;65] [(161,((Some 0%Z),(Some 1%Z)));(65,((Some 0%Z),None))] None [] [] [] s1 true;
 KR 276 372 [CR 370 168 (Some 274) false;CR 369 169 (Some 273) false;CR 312 65 (Some 216) true] [] [168;169;65] [(168,((Some 0%Z),(Some 1%Z)));(169,((Some 0%Z),(Some 1%Z)));(65,((Some 0%Z),None))] None [] [] [] s1 true;
 KR 277 373 [CR 370 168 (Some 274) false;CR 369 169 (Some 273) false;CR 312 65 (Some 216) true] [] [168;169;65] [(168,((Some 0%Z),(Some 1%Z)));(169,((Some 0%Z),(Some 1%Z)));(65,((Some 0%Z),None))] None [] [] [] s1 true;
 KR 278 374 [CR 355 172 (Some 259) false;CR 373 173 (Some 277) false;CR 365 174 (Some 269) false;CR 371 175 (Some 275) false;CR 315 116 (Some 219) false;CR 312 65 (Some 216) true] [AR 176 177 (TN s20) false] [172;173;174;175;116;65] [(172,((Some 0%Z),(Some 1%Z)));(173,((Some 0%Z),(Some 1%Z)));(174,((Some 0%Z),(Some 1%Z)));(116,((Some 0%Z),(Some 1%Z)));(65,((Some 0%Z),None))] None [] [] [] s1 true;
 KR 279 375 [CR 355 172 (Some 259) false;CR 373 173 (Some 277) false;CR 365 174 (Some 269) false;CR 371 175 (Some 275) false;CR 315 116 (Some 219) false;CR 312 65 (Some 216) true] [AR 176 177 (TN s20) false] [172;173;174;175;116;65] [(172,((Some 0%Z),(Some 1%Z)));(173,((Some 0%Z),(Some 1%Z)));(174,((Some 0%Z),(Some 1%Z)));(116,((Some 0%Z),(Some 1%Z)));(65,((Some 0%Z),None))] None [] [] [] s1 true;
 KR 280 376 [CR 328 180 (Some 232) false;CR 329 181 (Some 233) false;CR 332 182 (Some 236) false;CR 324 135 (Some 228) false;CR 350 146 (Some 254) false;CR 330 183 (Some 234) false;CR 331 184 (Some 235) false;CR 336 185 (Some 240) false;CR 335 136 (Some 239) false;CR 333 186 (Some 237) false;CR 334 187 (Some 238) false;CR 322 188 (Some 226) false;CR 323 189 (Some 227) false;CR 312 65 (Some 216) true;CR 377 191 (Some 281) false] [] [180;181;182;135;146;183;184;185;136;186;187;188;189;191;65] [(180,((Some 0%Z),(Some 1%Z)));(181,((Some 0%Z),(Some 1%Z)));(182,((Some 0%Z),(Some 1%Z)));(135,((Some 0%Z),(Some 1%Z)));(146,((Some 0%Z),(Some 1%Z)));(183,((Some 0%Z),(Some 1%Z)));(184,((Some 0%Z),(Some 1%Z)));(185,((Some 0%Z),(Some 1%Z)));(136,((Some 0%Z),(Some 1%Z)));(186,((Some 0%Z),(Some 1%Z)));(187,((Some 0%Z),(Some 1%Z)));(188,((Some 0%Z),(Some 1%Z)));(189,((Some 0%Z),(Some 1%Z)));(191,((Some 0%Z),(Some 1%Z)));(65,((Some 0%Z),None))] None [] [] [] s1 true;
 KR 281 377 [CR 328 180 (Some 232) false;CR 329 181 (Some 233) false;CR 332 182 (Some 236) false;CR 324 135 (Some 228) false;CR 350 146 (Some 254) false;CR 330 183 (Some 234) false;CR 331 184 (Some 235) false;CR 336 185 (Some 240) false;CR 335 136 (Some 239) false;CR 333 186 (Some 237) false;CR 334 187 (Some 238) false;CR 322 188 (Some 226) false;CR 323 189 (Some 227) false;CR 312 65 (Some 216) true;CR 377 191 (Some 281) false] [] [180;181;182;135;146;183;184;185;136;186;187;188;189;191;65] [(180,((Some 0%Z),(Some 1%Z)));(181,((Some 0%Z),(Some 1%Z)));(182,((Some 0%Z),(Some 1%Z)));(135,((Some 0%Z),(Some 1%Z)));(146,((Some 0%Z),(Some 1%Z)));(183,((Some 0%Z),(Some 1%Z)));(184,((Some 0%Z),(Some 1%Z)));(185,((Some 0%Z),(Some 1%Z)));(136,((Some 0%Z),(Some 1%Z)));(186,((Some 0%Z),(Some 1%Z)));(187,((Some 0%Z),(Some 1%Z)));(188,((Some 0%Z),(Some 1%Z)));(189,((Some 0%Z),(Some 1%Z)));(191,((Some 0%Z),(Some 1%Z)));(65,((Some 0%Z),None))] None [] [] [] s1 true;
 KR 282 378 [] [AR 15 16 (TN s0) false] [] [] None [] [] [] s1 true;
 KR 283 379 [] [AR 18 18 (TN s0) true] [] [] None [] [] [] s1 true;
 KR 284 380 [] [] [] [] (Some (VT s2 (Some [s3;s4;s5]) None None)) [] [] [] s1 true;
 KR 285 381 [] [AR 21 22 (TN s6) true] [] [] None [] [] [] s1 true;
 KR 286 382 [] [AR 24 24 (TN s7) true] [] [] None [] [] [] s1 true;
 KR 287 383 [] [AR 26 26 (TN s0) true;AR 27 27 (TN s8) false] [] [] None [] [] [] s1 true;
 KR 288 384 [] [AR 29 30 (TN s9) true;AR 31 32 (TN s9) false;AR 33 33 (TN s9) false] [] [] None [] [] [] s1 true;
 KR 289 385 [] [] [] [] (Some (VT s2 (Some [s10;s11]) None None)) [] [] [] s1 true;
 KR 290 386 [] [] [] [] (Some (VT s2 (Some [s12;s13]) None None)) [] [] [] s1 true;
 KR 291 387 [] [AR 37 38 (TC 289) true;AR 39 40 (TN s8) true;AR 41 42 (TC 290) true] [] [] None [] [] [] s1 true;
 KR 292 388 [] [AR 44 44 (TN s14) true] [] [] None [] [] [] s1 true;
 KR 293 389 [] [AR 46 46 (TN s8) true] [] [] None [] [] [] s1 true;
 KR 294 390 [] [] [] [] None [] [] [] s1 true;
 KR 295 391 [] [AR 26 26 (TN s8) true;AR 27 27 (TN s8) false] [] [] None [] [] [] s1 true;
 KR 296 392 [] [] [] [] (Some (VT s2 (Some [s15;s16;s17;s18;s19]) None None)) [] [] [] s1 true;
 KR 297 393 [] [AR 51 51 (TC 296) true] [] [] None [] [] [] s1 true;
 KR 298 394 [] [] [] [] None [] [] [] s1 true;
 KR 299 395 [] [AR 24 24 (TN s7) true] [] [] None [] [] [] s1 true;
 KR 300 396 [] [AR 51 51 (TC 296) true] [] [] None [] [] [] s1 true;
 KR 301 397 [] [AR 37 38 (TC 289) true;AR 39 40 (TN s8) true;AR 41 42 (TC 290) true] [] [] None [] [] [] s1 true;
 KR 302 398 [] [AR 26 26 (TN s8) true;AR 27 27 (TN s8) false] [] [] None [] [] [] s1 true;
 KR 303 399 [] [AR 21 22 (TN s6) true] [] [] None [] [] [] s1 true;
 KR 304 400 [CR 399 22 (Some 303) true] [] [22] [(22,((Some 1%Z),None))] None [] [] [] s1 true;
 KR 305 398 [] [AR 26 26 (TN s0) true;AR 27 27 (TN s8) false] [] [] None [] [] [] s1 true;
 KR 306 401 [] [AR 29 30 (TN s9) true;AR 31 32 (TN s9) false;AR 33 33 (TN s9) false] [] [] None [] [] [] s1 true;
 KR 307 402 [] [AR 44 44 (TN s14) true] [] [] None [] [] [] s1 true;
 KR 308 403 [] [AR 46 46 (TN s8) true] [] [] None [] [] [] s1 true;
 KR 309 404 [] [] [] [] None [] [] [] s1 true;
 KR 310 405 [] [] [] [] None [] [] [] s1 true;
 KR 311 406 [CR 405 65 (Some 310) true] [AR 66 66 (TN s6) false] [65] [(65,((Some 0%Z),None))] None [] [] [] s1 true;
 KR 312 407 [CR 405 65 (Some 310) true] [AR 68 69 (TN s0) false] [65] [(65,((Some 0%Z),None))] None [] [] [] s1 true;
 KR 313 408 [CR 399 22 (Some 303) true] [] [22] [(22,((Some 1%Z),None))] None [] [] [] s1 true;
 KR 314 409 [CR 398 72 (Some 302) false;CR 401 73 (Some 306) false;CR 379 74 (Some 283) false;CR 405 65 (Some 310) true] [AR 75 76 (TN s6) false] [72;73;74;65] [(72,((Some 0%Z),(Some 1%Z)));(73,((Some 0%Z),(Some 1%Z)));(74,((Some 0%Z),(Some 1%Z)));(65,((Some 0%Z),None))] None [] [] [] s1 true;
 KR 315 410 [CR 398 72 (Some 305) false;CR 379 74 (Some 283) false;CR 405 65 (Some 310) true] [AR 75 76 (TN s6) false] [72;74;65] [(74,((Some 0%Z),(Some 1%Z)));(65,((Some 0%Z),None))] None [] [] [] s1 true;
 KR 316 411 [CR 397 79 (Some 301) false;CR 405 65 (Some 310) true] [] [79;65] [(65,((Some 0%Z),None))] None [] [] [] s1 true;
 KR 317 412 [CR 402 81 (Some 307) false;CR 403 82 (Some 308) false;CR 404 83 (Some 309) false] [] [81;82;83] [(81,((Some 0%Z),(Some 1%Z)));(82,((Some 0%Z),(Some 1%Z)));(83,((Some 0%Z),(Some 1%Z)))] None [] [] [] s1 true;
 KR 318 413 [CR 405 65 (Some 310) true] [] [65] [(65,((Some 0%Z),None))] None [] [] [] s1 true;
 KR 319 414 [CR 405 65 (Some 310) true] [] [65] [(65,((Some 0%Z),None))] None [] [] [] s1 true;
 KR 320 415 [CR 405 65 (Some 310) true] [] [65] [(65,((Some 0%Z),None))] None [] [] [] s1 true;
 KR 321 416 [CR 405 65 (Some 310) true] [] [65] [(65,((Some 0%Z),None))] None [] [] [] s1 true;
 KR 322 417 [CR 398 72 (Some 302) false;CR 401 73 (Some 306) false;CR 379 74 (Some 283) false;CR 405 65 (Some 310) true] [AR 75 76 (TN s6) false] [72;73;74;65] [(72,((Some 0%Z),(Some 1%Z)));(73,((Some 0%Z),(Some 1%Z)));(74,((Some 0%Z),(Some 1%Z)));(65,((Some 0%Z),None))] None [] [] [] s1 true;
 KR 323 418 [CR 397 79 (Some 301) false;CR 405 65 (Some 310) true] [] [79;65] [(65,((Some 0%Z),None))] None [] [] [] s1 true;
 KR 324 419 [CR 405 65 (Some 310) true] [] [65] [(65,((Some 0%Z),None))] None [] [] [] s1 true;
 KR 325 420 [CR 402 81 (Some 307) false;CR 403 82 (Some 308) false;CR 404 83 (Some 309) false] [] [81;82;83] [(81,((Some 0%Z),(Some 1%Z)));(82,((Some 0%Z),(Some 1%Z)));(83,((Some 0%Z),(Some 1%Z)))] None [] [] [] s1 true;
 KR 326 421 [CR 405 65 (Some 310) true] [] [65] [(65,((Some 0%Z),None))] None [] [] [] s1 true;
 KR 327 422 [CR 405 65 (Some 310) true] [] [65] [(65,((Some 0%Z),None))] None [] [] [] s1 true;
 KR 328 423 [CR 405 65 (Some 310) true] [] [65] [(65,((Some 0%Z),None))] None [] [] [] s1 true;
 KR 329 424 [CR 405 65 (Some 310) true] [AR 66 66 (TN s6) false] [65] [(65,((Some 0%Z),None))] None [] [] [] s1 true;
 KR 330 425 [CR 405 65 (Some 310) true] [AR 68 69 (TN s0) false] [65] [(65,((Some 0%Z),None))] None [] [] [] s1 true;
 KR 331 426 [CR 405 65 (Some 310) true] [AR 68 69 (TN s0) false] [65] [(65,((Some 0%Z),None))] None [] [] [] s1 true;
 KR 332 427 [CR 405 65 (Some 310) true] [AR 68 69 (TN s0) false] [65] [(65,((Some 0%Z),None))] None [] [] [] s1 true;
 KR 333 428 [CR 405 65 (Some 310) true] [] [65] [(65,((Some 0%Z),None))] None [] [] [] s1 true;
 KR 334 429 [CR 405 65 (Some 310) true] [] [65] [(65,((Some 0%Z),None))] None [] [] [] s1 true;
 KR 335 430 [CR 405 65 (Some 310) true] [] [65] [(65,((Some 0%Z),None))] None [] [] [] s1 true;
 KR 336 431 [CR 405 65 (Some 310) true] [] [65] [(65,((Some 0%Z),None))] None [] [] [] s1 true;
 KR 337 432 [CR 405 65 (Some 310) true] [] [65] [(65,((Some 0%Z),None))] None [] [] [] s1 true;
 KR 338 433 [CR 405 65 (Some 310) true] [] [65] [(65,((Some 0%Z),None))] None [] [] [] s1 true;
 KR 339 434 [CR 405 65 (Some 310) true] [] [65] [(65,((Some 0%Z),None))] None [] [] [] s1 true;
 KR 340 435 [CR 405 65 (Some 310) true] [] [65] [(65,((Some 0%Z),None))] None [] [] [] s1 true;
 KR 341 436 [CR 405 65 (Some 310) true] [] [65] [(65,((Some 0%Z),None))] None [] [] [] s1 true;
 KR 342 437 [CR 405 65 (Some 310) true] [] [65] [(65,((Some 0%Z),None))] None [] [] [] s1 true;
 KR 343 438 [CR 405 65 (Some 310) true] [] [65] [(65,((Some 0%Z),None))] None [] [] [] s1 true;
 KR 344 439 [CR 405 65 (Some 310) true] [] [65] [(65,((Some 0%Z),None))] None [] [] [] s1 true;
 KR 345 440 [CR 405 65 (Some 310) true] [] [65] [(65,((Some 0%Z),None))] None [] [] [] s1 true;
 KR 346 441 [CR 405 65 (Some 310) true] [] [65] [(65,((Some 0%Z),None))] None [] [] [] s1 true;
 KR 347 442 [CR 378 114 (Some 282) false;CR 414 115 (Some 319) false;CR 408 116 (Some 313) false;CR 405 65 (Some 310) true] [AR 117 117 (TC 284) false] [114;115;116;65] [(114,((Some 0%Z),(Some 1%Z)));(115,((Some 0%Z),(Some 1%Z)));(116,((Some 0%Z),(Some 1%Z)));(65,((Some 0%Z),None))] None [] [] [] s1 true;
 KR 348 443 [CR 430 119 (Some 335) false;CR 436 120 (Some 341) false;CR 433 121 (Some 338) false;CR 434 122 (Some 339) false;CR 435 123 (Some 340) false;CR 432 124 (Some 337) false;CR 431 125 (Some 336) false;CR 437 126 (Some 342) false;CR 438 127 (Some 343) false;CR 439 128 (Some 344) false;CR 405 65 (Some 310) true] [] [119;120;121;122;123;124;125;126;127;128;65] [(119,((Some 0%Z),(Some 1%Z)));(120,((Some 0%Z),(Some 1%Z)));(121,((Some 0%Z),(Some 1%Z)));(122,((Some 0%Z),(Some 1%Z)));(123,((Some 0%Z),(Some 1%Z)));(124,((Some 0%Z),(Some 1%Z)));(125,((Some 0%Z),(Some 1%Z)));(126,((Some 0%Z),(Some 1%Z)));(127,((Some 0%Z),(Some 1%Z)));(128,((Some 0%Z),(Some 1%Z)));(65,((Some 0%Z),None))] None [] [] [] s1 true;
 KR 349 444 [CR 398 72 (Some 305) false;CR 379 74 (Some 283) false;CR 405 65 (Some 310) true] [AR 75 76 (TN s6) false] [72;74;65] [(74,((Some 0%Z),(Some 1%Z)));(65,((Some 0%Z),None))] None [] [] [] s1 true;
 KR 350 445 [CR 398 72 (Some 302) false;CR 401 73 (Some 306) false;CR 379 74 (Some 283) false;CR 420 131 (Some 325) false;CR 405 65 (Some 310) true] [] [72;73;74;131;65] [(72,((Some 0%Z),(Some 1%Z)));(73,((Some 0%Z),(Some 1%Z)));(74,((Some 0%Z),(Some 1%Z)));(131,((Some 0%Z),(Some 1%Z)));(65,((Some 0%Z),None))] None [] [] [] s1 true;
 KR 351 446 [CR 440 133 (Some 345) false;CR 405 65 (Some 310) true] [] [133;65] [(133,((Some 0%Z),(Some 1%Z)));(65,((Some 0%Z),None))] None [] [] [] s1 true;
 KR 352 447 [CR 444 146 (Some 349) false] [] [146] [] None [] [] [] s1 true;
 KR 353 448 [CR 378 114 (Some 282) false;CR 414 115 (Some 319) false;CR 408 116 (Some 313) false;CR 405 65 (Some 310) true] [AR 117 117 (TC 284) false] [114;115;116;65] [(114,((Some 0%Z),(Some 1%Z)));(115,((Some 0%Z),(Some 1%Z)));(116,((Some 0%Z),(Some 1%Z)));(65,((Some 0%Z),None))] None [] [] [] s1 true;
 KR 354 449 [CR 398 72 (Some 302) false;CR 401 73 (Some 306) false;CR 379 74 (Some 283) false;CR 420 131 (Some 325) false;CR 405 65 (Some 310) true] [] [72;73;74;131;65] [(72,((Some 0%Z),(Some 1%Z)));(73,((Some 0%Z),(Some 1%Z)));(74,((Some 0%Z),(Some 1%Z)));(131,((Some 0%Z),(Some 1%Z)));(65,((Some 0%Z),None))] None [] [] [] s1 true;
 KR 355 450 [CR 444 146 (Some 349) false] [] [146] [] None [] [] [] s1 true;
 KR 356 451 [CR 430 119 (Some 335) false;CR 436 120 (Some 341) false;CR 433 121 (Some 338) false;CR 434 122 (Some 339) false;CR 435 123 (Some 340) false;CR 432 124 (Some 337) false;CR 431 125 (Some 336) false;CR 437 126 (Some 342) false;CR 438 127 (Some 343) false;CR 439 128 (Some 344) false;CR 405 65 (Some 310) true] [] [119;120;121;122;123;124;125;126;127;128;65] [(119,((Some 0%Z),(Some 1%Z)));(120,((Some 0%Z),(Some 1%Z)));(121,((Some 0%Z),(Some 1%Z)));(122,((Some 0%Z),(Some 1%Z)));(123,((Some 0%Z),(Some 1%Z)));(124,((Some 0%Z),(Some 1%Z)));(125,((Some 0%Z),(Some 1%Z)));(126,((Some 0%Z),(Some 1%Z)));(127,((Some 0%Z),(Some 1%Z)));(128,((Some 0%Z),(Some 1%Z)));(65,((Some 0%Z),None))] None [] [] [] s1 true;
 KR 357 452 [CR 440 133 (Some 345) false;CR 405 65 (Some 310) true] [] [133;65] [(133,((Some 0%Z),(Some 1%Z)));(65,((Some 0%Z),None))] None [] [] [] s1 true;
 KR 358 453 [CR 452 143 (Some 357) false;CR 441 144 (Some 346) false;CR 405 65 (Some 310) true] [] [143;144;65] [(143,((Some 0%Z),(Some 1%Z)));(144,((Some 0%Z),(Some 1%Z)));(65,((Some 0%Z),None))] None [] [] [] s1 true;
 KR 359 454 [CR 417 135 (Some 322) false;CR 444 146 (Some 349) false;CR 418 147 (Some 323) false;CR 419 148 (Some 324) false;CR 449 149 (Some 354) false;CR 405 65 (Some 310) true] [AR 150 150 (TN s8) false] [135;146;147;148;149;65] [(135,((Some 0%Z),(Some 1%Z)));(146,((Some 0%Z),(Some 1%Z)));(147,((Some 0%Z),(Some 1%Z)));(148,((Some 0%Z),(Some 1%Z)));(149,((Some 0%Z),(Some 1%Z)));(65,((Some 0%Z),None))] None [] [] [] s1 true;
 KR 360 455 [CR 449 149 (Some 354) false;CR 405 65 (Some 310) true] [] [149;65] [(149,((Some 0%Z),(Some 1%Z)));(65,((Some 0%Z),None))] None [] [] [] s1 true;
 KR 361 456 [CR 449 149 (Some 354) false;CR 405 65 (Some 310) true] [] [149;65] [(149,((Some 0%Z),(Some 1%Z)));(65,((Some 0%Z),None))] None [] [] [] s1 true;
 KR 362 457 [CR 417 135 (Some 322) false;CR 444 146 (Some 349) false;CR 418 147 (Some 323) false;CR 419 148 (Some 324) false;CR 449 149 (Some 354) false;CR 405 65 (Some 310) true] [AR 150 150 (TN s8) false] [135;146;147;148;149;65] [(135,((Some 0%Z),(Some 1%Z)));(146,((Some 0%Z),(Some 1%Z)));(147,((Some 0%Z),(Some 1%Z)));(148,((Some 0%Z),(Some 1%Z)));(149,((Some 0%Z),(Some 1%Z)));(65,((Some 0%Z),None))] None [] [] [] s1 true;
 KR 363 458 [CR 452 143 (Some 357) false;CR 441 144 (Some 346) false;CR 405 65 (Some 310) true] [] [143;144;65] [(143,((Some 0%Z),(Some 1%Z)));(144,((Some 0%Z),(Some 1%Z)));(65,((Some 0%Z),None))] None [] [] [] s1 true;
 KR 364 459 [CR 456 156 (Some 361) false;CR 396 157 (Some 300) false;CR 395 158 (Some 299) false;CR 405 65 (Some 310) true] [] [156;157;158;65] [(156,((Some 0%Z),(Some 1%Z)));(157,((Some 0%Z),(Some 1%Z)));(158,((Some 0%Z),(Some 1%Z)));(65,((Some 0%Z),None))] None [] [] [] s1 true;
 KR 365 460 [CR 456 156 (Some 361) false;CR 396 157 (Some 300) false;CR 405 65 (Some 310) true] [] [156;157;65] [(156,((Some 0%Z),(Some 1%Z)));(157,((Some 0%Z),(Some 1%Z)));(65,((Some 0%Z),None))] None [] [] [] s1 true;
 KR 366 461 [CR 457 161 (Some 362) false;CR 450 162 (Some 355) false;CR 451 163 (Some 356) false;CR 405 65 (Some 310) true] [] [161;162;163;65] [(161,((Some 0%Z),(Some 1%Z)));(163,((Some 0%Z),(Some 1%Z)));(65,((Some 0%Z),None))] None [] [] [] s1 true;
 KR 367 462 [CR 456 156 (Some 361) false;CR 396 157 (Some 300) false;CR 405 65 (Some 310) true] [] [156;157;65] [(156,((Some 0%Z),(Some 1%Z)));(157,((Some 0%Z),(Some 1%Z)));(65,((Some 0%Z),None))] None [] [] [] s1 true;
 KR 368 463 [CR 456 156 (Some 361) false;CR 396 157 (Some 300) false;CR 395 158 (Some 299) false;CR 405 65 (Some 310) true] [] [156;157;158;65] [(156,((Some 0%Z),(Some 1%Z)));(157,((Some 0%Z),(Some 1%Z)));(158,((Some 0%Z),(Some 1%Z)));(65,((Some 0%Z),None))] None [] [] [] s1 true;
 KR 369 464 [CR 457 161 (Some 362) false;CR 450 162 (Some 355) false;CR 451 163 (Some 356) false;CR 405 65 (Some 310) true] [] [161;162;163;65] [(161,((Some 0%Z),(Some 1%Z)));(163,((Some 0%Z),(Some 1%Z)));(65,((Some 0%Z),None))] None [] [] [] s1 true;
 KR 370 465 [CR 463 168 (Some 368) false;CR 462 169 (Some 367) false;CR 405 65 (Some 310) true] [] [168;169;65] [(168,((Some 0%Z),(Some 1%Z)));(169,((Some 0%Z),(Some 1%Z)));(65,((Some 0%Z),None))] None [] [] [] s1 true;
 KR 371 466 [CR 463 168 (Some 368) false;CR 462 169 (Some 367) false;CR 405 65 (Some 310) true] [] [168;169;65] [(168,((Some 0%Z),(Some 1%Z)));(169,((Some 0%Z),(Some 1%Z)));(65,((Some 0%Z),None))] None [] [] [] s1 true;
 KR 372 467 [CR 448 172 (Some 353) false;CR 466 173 (Some 371) false;CR 458 174 (Some 363) false;CR 464 175 (Some 369) false;CR 408 116 (Some 313) false;CR 405 65 (Some 310) true] [AR 176 177 (TN s20) false] [172;173;174;175;116;65] [(172,((Some 0%Z),(Some 1%Z)));(173,((Some 0%Z),(Some 1%Z)));(174,((Some 0%Z),(Some 1%Z)));(116,((Some 0%Z),(Some 1%Z)));(65,((Some 0%Z),None))] None [] [] [] s1 true;
 KR 373 468 [CR 448 172 (Some 353) false;CR 466 173 (Some 371) false;CR 458 174 (Some 363) false;CR 464 175 (Some 369) false;CR 408 116 (Some 313) false;CR 405 65 (Some 310) true] [AR 176 177 (TN s20) false] [172;173;174;175;116;65] [(172,((Some 0%Z),(Some 1%Z)));(173,((Some 0%Z),(Some 1%Z)));(174,((Some 0%Z),(Some 1%Z)));(116,((Some 0%Z),(Some 1%Z)));(65,((Some 0%Z),None))] None [] [] [] s1 true;
 KR 374 469 [CR 421 180 (Some 326) false;CR 422 181 (Some 327) false;CR 425 182 (Some 330) false;CR 417 135 (Some 322) false;CR 444 146 (Some 349) false;CR 423 183 (Some 328) false;CR 424 184 (Some 329) false;CR 429 185 (Some 334) false;CR 428 136 (Some 333) false;CR 426 186 (Some 331) false;CR 427 187 (Some 332) false;CR 415 188 (Some 320) false;CR 416 189 (Some 321) false;CR 405 65 (Some 310) true;CR 470 191 (Some 375) false] [] [180;181;182;135;146;183;184;185;136;186;187;188;189;191;65] [(180,((Some 0%Z),(Some 1%Z)));(181,((Some 0%Z),(Some 1%Z)));(182,((Some 0%Z),(Some 1%Z)));(135,((Some 0%Z),(Some 1%Z)));(146,((Some 0%Z),(Some 1%Z)));(183,((Some 0%Z),(Some 1%Z)));(184,((Some 0%Z),(Some 1%Z)));(185,((Some 0%Z),(Some 1%Z)));(136,((Some 0%Z),(Some 1%Z)));(186,((Some 0%Z),(Some 1%Z)));(187,((Some 0%Z),(Some 1%Z)));(188,((Some 0%Z),(Some 1%Z)));(189,((Some 0%Z),(Some 1%Z)));(191,((Some 0%Z),(Some 1%Z)));(65,((Some 0%Z),None))] None [] [] [] s1 true;
 KR 375 470 [CR 421 180 (Some 326) false;CR 422 181 (Some 327) false;CR 425 182 (Some 330) false;CR 417 135 (Some 322) false;CR 444 146 (Some 349) false;CR 423 183 (Some 328) false;CR 424 184 (Some 329) false;CR 429 185 (Some 334) false;CR 428 136 (Some 333) false;CR 426 186 (Some 331) false;CR 427 187 (Some 332) false;CR 415 188 (Some 320) false;CR 416 189 (Some 321) false;CR 405 65 (Some 310) true;CR 470 191 (Some 375) false] [] [180;181;182;135;146;183;184;185;136;186;187;188;189;191;65] [(180,((Some 0%Z),(Some 1%Z)));(181,((Some 0%Z),(Some 1%Z)));(182,((Some 0%Z),(Some 1%Z)));(135,((Some 0%Z),(Some 1%Z)));(146,((Some 0%Z),(Some 1%Z)));(183,((Some 0%Z),(Some 1%Z)));(184,((Some 0%Z),(Some 1%Z)));(185,((Some 0%Z),(Some 1%Z)));(136,((Some 0%Z),(Some 1%Z)));(186,((Some 0%Z),(Some 1%Z)));(187,((Some 0%Z),(Some 1%Z)));(188,((Some 0%Z),(Some 1%Z)));(189,((Some 0%Z),(Some 1%Z)));(191,((Some 0%Z),(Some 1%Z)));(65,((Some 0%Z),None))] None [] [] [] s1 true;
 KR 376 471 [] [AR 15 16 (TN s0) false] [] [] None [] [] [] s1 true;
 KR 377 472 [] [AR 18 18 (TN s0) true] [] [] None [] [] [] s1 true;
 KR 378 473 [] [] [] [] (Some (VT s2 (Some [s3;s4;s5]) None None)) [] [] [] s1 true;
 KR 379 474 [] [AR 21 22 (TN s6) true] [] [] None [] [] [] s1 true;
 KR 380 475 [] [AR 24 24 (TN s7) true] [] [] None [] [] [] s1 true;
 KR 381 476 [] [AR 26 26 (TN s0) true;AR 27 27 (TN s8) false] [] [] None [] [] [] s1 true;
 KR 382 477 [] [AR 29 30 (TN s9) true;AR 31 32 (TN s9) false;AR 33 33 (TN s9) false] [] [] None [] [] [] s1 true;
 KR 383 478 [] [] [] [] (Some (VT s2 (Some [s10;s11]) None None)) [] [] [] s1 true;
 KR 384 479 [] [] [] [] (Some (VT s2 (Some [s12;s13]) None None)) [] [] [] s1 true;
 KR 385 480 [] [AR 37 38 (TC 383) true;AR 39 40 (TN s8) true;AR 41 42 (TC 384) true] [] [] None [] [] [] s1 true;
 KR 386 481 [] [AR 44 44 (TN s14) true] [] [] None [] [] [] s1 true;
 KR 387 482 [] [AR 46 46 (TN s8) true] [] [] None [] [] [] s1 true;
 KR 388 483 [] [] [] [] None [] [] [] s1 true;
 KR 389 484 [] [AR 26 26 (TN s8) true;AR 27 27 (TN s8) false] [] [] None [] [] [] s1 true;
 KR 390 485 [] [] [] [] (Some (VT s2 (Some [s15;s16;s17;s18;s19]) None None)) [] [] [] s1 true;
 KR 391 486 [] [AR 51 51 (TC 390) true] [] [] None [] [] [] s1 true;
 KR 392 487 [] [] [] [] None [] [] [] s1 true;
 KR 393 488 [] [AR 68 69 (TN s6) false] [] [] None [69] [] [] s1 true;
 KR 394 489 [] [AR 24 24 (TN s7) true] [] [] None [] [] [] s1 true;
 KR 395 490 [] [AR 51 51 (TC 390) true] [] [] None [] [] [] s1 true;
 KR 396 491 [] [AR 37 38 (TC 383) true;AR 39 40 (TN s8) true;AR 41 42 (TC 384) true] [] [] None [] [] [] s1 true;
 KR 397 492 [] [AR 26 26 (TN s8) true;AR 27 27 (TN s8) false] [] [] None [] [] [] s1 true;
 KR 398 493 [] [AR 68 69 (TN s6) false] [] [] None [69] [] [] s1 true;
 KR 399 494 [] [AR 68 69 (TN s6) false] [] [] None [69] [] [] s1 true;
 KR 400 495 [] [AR 68 69 (TN s6) false] [] [] None [69] [] [] s1 true;
 KR 401 496 [] [AR 21 22 (TN s6) true] [] [] None [] [] [] s1 true;
 KR 402 497 [CR 496 22 (Some 401) true] [] [22] [(22,((Some 1%Z),None))] None [] [] [] s1 true;
 KR 403 492 [] [AR 26 26 (TN s0) true;AR 27 27 (TN s8) false] [] [] None [] [] [] s1 true;
 KR 404 498 [] [AR 29 30 (TN s9) true;AR 31 32 (TN s9) false;AR 33 33 (TN s9) false] [] [] None [] [] [] s1 true;
 KR 405 499 [] [AR 44 44 (TN s14) true] [] [] None [] [] [] s1 true;
 KR 406 500 [] [AR 46 46 (TN s8) true] [] [] None [] [] [] s1 true;
 KR 407 501 [] [] [] [] None [] [] [] s1 true;
 KR 408 502 [] [] [] [] None [] [] [] s1 true;
 KR 409 503 [CR 493 182 (Some 398) false] [] [182] [] None [] [] [] s1 true;
 KR 410 504 [CR 493 182 (Some 398) false] [] [182] [] None [] [] [] s1 true;
 KR 411 505 [CR 502 65 (Some 408) true] [AR 66 66 (TN s6) false] [65] [(65,((Some 0%Z),None))] None [] [] [] s1 true;
 KR 412 506 [CR 496 22 (Some 401) true] [] [22] [(22,((Some 1%Z),None))] None [] [] [] s1 true;
 KR 413 507 [CR 492 72 (Some 397) false;CR 498 73 (Some 404) false;CR 472 74 (Some 377) false;CR 502 65 (Some 408) true] [AR 75 76 (TN s6) false] [72;73;74;65] [(72,((Some 0%Z),(Some 1%Z)));(73,((Some 0%Z),(Some 1%Z)));(74,((Some 0%Z),(Some 1%Z)));(65,((Some 0%Z),None))] None [] [] [] s1 true;
 KR 414 508 [CR 492 72 (Some 403) false;CR 472 74 (Some 377) false;CR 502 65 (Some 408) true] [AR 75 76 (TN s6) false] [72;74;65] [(74,((Some 0%Z),(Some 1%Z)));(65,((Some 0%Z),None))] None [] [] [] s1 true;
 KR 415 509 [CR 491 79 (Some 396) false;CR 502 65 (Some 408) true] [] [79;65] [(65,((Some 0%Z),None))] None [] [] [] s1 true;
 KR 416 510 [CR 499 81 (Some 405) false;CR 500 82 (Some 406) false;CR 501 83 (Some 407) false] [] [81;82;83] [(81,((Some 0%Z),(Some 1%Z)));(82,((Some 0%Z),(Some 1%Z)));(83,((Some 0%Z),(Some 1%Z)))] None [] [] [] s1 true;
 KR 417 511 [CR 502 65 (Some 408) true] [] [65] [(65,((Some 0%Z),None))] None [] [] [] s1 true;
 KR 418 512 [CR 502 65 (Some 408) true] [] [65] [(65,((Some 0%Z),None))] None [] [] [] s1 true;
 KR 419 513 [CR 502 65 (Some 408) true] [] [65] [(65,((Some 0%Z),None))] None [] [] [] s1 true;
 KR 420 514 [CR 502 65 (Some 408) true] [] [65] [(65,((Some 0%Z),None))] None [] [] [] s1 true;
 KR 421 515 [CR 492 72 (Some 397) false;CR 498 73 (Some 404) false;CR 472 74 (Some 377) false;CR 502 65 (Some 408) true] [AR 75 76 (TN s6) false] [72;73;74;65] [(72,((Some 0%Z),(Some 1%Z)));(73,((Some 0%Z),(Some 1%Z)));(74,((Some 0%Z),(Some 1%Z)));(65,((Some 0%Z),None))] None [] [] [] s1 true;
 KR 422 516 [CR 491 79 (Some 396) false;CR 502 65 (Some 408) true] [] [79;65] [(65,((Some 0%Z),None))] None [] [] [] s1 true;
 KR 423 517 [CR 502 65 (Some 408) true] [] [65] [(65,((Some 0%Z),None))] None [] [] [] s1 true;
 KR 424 518 [CR 499 81 (Some 405) false;CR 500 82 (Some 406) false;CR 501 83 (Some 407) false] [] [81;82;83] [(81,((Some 0%Z),(Some 1%Z)));(82,((Some 0%Z),(Some 1%Z)));(83,((Some 0%Z),(Some 1%Z)))] None [] [] [] s1 true;
 KR 425 519 [CR 502 65 (Some 408) true] [] [65] [(65,((Some 0%Z),None))] None [] [] [] s1 true;
 KR 426 520 [CR 502 65 (Some 408) true] [] [65] [(65,((Some 0%Z),None))] None [] [] [] s1 true;
 KR 427 521 [CR 502 65 (Some 408) true] [] [65] [(65,((Some 0%Z),None))] None [] [] [] s1 true;
 KR 428 522 [CR 502 65 (Some 408) true] [AR 66 66 (TN s6) false] [65] [(65,((Some 0%Z),None))] None [] [] [] s1 true;
 KR 429 523 [CR 502 65 (Some 408) true] [] [65] [(65,((Some 0%Z),None))] None [] [] [] s1 true;
 KR 430 524 [CR 502 65 (Some 408) true] [] [65] [(65,((Some 0%Z),None))] None [] [] [] s1 true;
 KR 431 525 [CR 502 65 (Some 408) true] [] [65] [(65,((Some 0%Z),None))] None [] [] [] s1 true;
 KR 432 526 [CR 502 65 (Some 408) true] [] [65] [(65,((Some 0%Z),None))] None [] [] [] s1 true;
 KR 433 527 [CR 502 65 (Some 408) true] [] [65] [(65,((Some 0%Z),None))] None [] [] [] s1 true;
 KR 434 528 [CR 502 65 (Some 408) true] [] [65] [(65,((Some 0%Z),None))] None [] [] [] s1 true;
 KR 435 529 [CR 502 65 (Some 408) true] [] [65] [(65,((Some 0%Z),None))] None [] [] [] s1 true;
 KR 436 530 [CR 502 65 (Some 408) true] [] [65] [(65,((Some 0%Z),None))] None [] [] [] s1 true;
 KR 437 531 [CR 502 65 (Some 408) true] [] [65] [(65,((Some 0%Z),None))] None [] [] [] s1 true;
 KR 438 532 [CR 502 65 (Some 408) true] [] [65] [(65,((Some 0%Z),None))] None [] [] [] s1 true;
 KR 439 533 [CR 502 65 (Some 408) true] [] [65] [(65,((Some 0%Z),None))] None [] [] [] s1 true;
 KR 440 534 [CR 502 65 (Some 408) true] [] [65] [(65,((Some 0%Z),None))] None [] [] [] s1 true;
 KR 441 535 [CR 502 65 (Some 408) true] [] [65] [(65,((Some 0%Z),None))] None [] [] [] s1 true;
 KR 442 536 [CR 502 65 (Some 408) true] [] [65] [(65,((Some 0%Z),None))] None [] [] [] s1 true;
 KR 443 537 [CR 471 114 (Some 376) false;CR 512 115 (Some 418) false;CR 506 116 (Some 412) false;CR 502 65 (Some 408) true] [AR 117 117 (TC 378) false] [114;115;116;65] [(114,((Some 0%Z),(Some 1%Z)));(115,((Some 0%Z),(Some 1%Z)));(116,((Some 0%Z),(Some 1%Z)));(65,((Some 0%Z),None))] None [] [] [] s1 true;
 KR 444 538 [CR 492 72 (Some 403) false;CR 472 74 (Some 377) false;CR 502 65 (Some 408) true] [AR 75 76 (TN s6) false] [72;74;65] [(74,((Some 0%Z),(Some 1%Z)));(65,((Some 0%Z),None))] None [] [] [] s1 true;
 KR 445 539 [CR 492 72 (Some 397) false;CR 498 73 (Some 404) false;CR 472 74 (Some 377) false;CR 518 131 (Some 424) false;CR 502 65 (Some 408) true] [] [72;73;74;131;65] [(72,((Some 0%Z),(Some 1%Z)));(73,((Some 0%Z),(Some 1%Z)));(74,((Some 0%Z),(Some 1%Z)));(131,((Some 0%Z),(Some 1%Z)));(65,((Some 0%Z),None))] None [] [] [] s1 true;
 KR 446 540 [CR 535 133 (Some 441) false;CR 502 65 (Some 408) true] [] [133;65] [(133,((Some 0%Z),(Some 1%Z)));(65,((Some 0%Z),None))] None [] [] [] s1 true;
 KR 447 541 [CR 538 146 (Some 444) false] [AR 150 150 (TN s8) false] [146] [] None [] [] [] s1 true;
 KR 448 542 [CR 531 120 (Some 437) false;CR 527 124 (Some 433) false;CR 502 65 (Some 408) true] [] [120;124;65] [(120,((Some 0%Z),(Some 1%Z)));(124,((Some 0%Z),(Some 1%Z)));(65,((Some 0%Z),None))] None [] [] [] s1 true;
 KR 449 543 [CR 471 114 (Some 376) false;CR 512 115 (Some 418) false;CR 506 116 (Some 412) false;CR 502 65 (Some 408) true] [AR 117 117 (TC 378) false] [114;115;116;65] [(114,((Some 0%Z),(Some 1%Z)));(115,((Some 0%Z),(Some 1%Z)));(116,((Some 0%Z),(Some 1%Z)));(65,((Some 0%Z),None))] None [] [] [] s1 true;
 KR 450 544 [CR 492 72 (Some 397) false;CR 498 73 (Some 404) false;CR 472 74 (Some 377) false;CR 518 131 (Some 424) false;CR 502 65 (Some 408) true] [] [72;73;74;131;65] [(72,((Some 0%Z),(Some 1%Z)));(73,((Some 0%Z),(Some 1%Z)));(74,((Some 0%Z),(Some 1%Z)));(131,((Some 0%Z),(Some 1%Z)));(65,((Some 0%Z),None))] None [] [] [] s1 true;
 KR 451 545 [CR 538 146 (Some 444) false] [AR 150 150 (TN s8) false] [146] [] None [] [] [] s1 true;
 KR 452 546 [CR 531 120 (Some 437) false;CR 527 124 (Some 433) false;CR 502 65 (Some 408) true] [] [120;124;65] [(120,((Some 0%Z),(Some 1%Z)));(124,((Some 0%Z),(Some 1%Z)));(65,((Some 0%Z),None))] None [] [] [] s1 true;
 KR 453 547 [CR 535 133 (Some 441) false;CR 502 65 (Some 408) true] [] [133;65] [(133,((Some 0%Z),(Some 1%Z)));(65,((Some 0%Z),None))] None [] [] [] s1 true;
 KR 454 548 [CR 547 143 (Some 453) false;CR 536 144 (Some 442) false;CR 502 65 (Some 408) true] [] [143;144;65] [(143,((Some 0%Z),(Some 1%Z)));(144,((Some 0%Z),(Some 1%Z)));(65,((Some 0%Z),None))] None [] [] [] s1 true;
 KR 455 549 [CR 544 149 (Some 450) false;CR 502 65 (Some 408) true] [] [149;65] [(149,((Some 0%Z),(Some 1%Z)));(65,((Some 0%Z),None))] None [] [] [] s1 true;
 KR 456 550 [CR 545 161 (Some 451) false;CR 504 162 (Some 410) false;CR 546 163 (Some 452) false;CR 502 65 (Some 408) true] [] [161;162;163;65] [(163,((Some 0%Z),(Some 1%Z)));(65,((Some 0%Z),None))] None [] [] [] s1 true;
 KR 457 551 [CR 544 149 (Some 450) false;CR 502 65 (Some 408) true] [] [149;65] [(149,((Some 0%Z),(Some 1%Z)));(65,((Some 0%Z),None))] None [] [] [] s1 true;
 KR 458 552 [CR 545 161 (Some 451) false;CR 504 162 (Some 410) false;CR 546 163 (Some 452) false;CR 502 65 (Some 408) true] [] [161;162;163;65] [(163,((Some 0%Z),(Some 1%Z)));(65,((Some 0%Z),None))] None [] [] [] s1 true;
 KR 459 553 [CR 547 143 (Some 453) false;CR 536 144 (Some 442) false;CR 502 65 (Some 408) true] [] [143;144;65] [(143,((Some 0%Z),(Some 1%Z)));(144,((Some 0%Z),(Some 1%Z)));(65,((Some 0%Z),None))] None [] [] [] s1 true;
 KR 460 554 [CR 551 156 (Some 457) false;CR 490 157 (Some 395) false;CR 489 158 (Some 394) false;CR 502 65 (Some 408) true] [] [156;157;158;65] [(156,((Some 0%Z),(Some 1%Z)));(157,((Some 0%Z),(Some 1%Z)));(158,((Some 0%Z),(Some 1%Z)));(65,((Some 0%Z),None))] None [] [] [] s1 true;
 KR 461 555 [CR 551 156 (Some 457) false;CR 490 157 (Some 395) false;CR 502 65 (Some 408) true] [] [156;157;65] [(156,((Some 0%Z),(Some 1%Z)));(157,((Some 0%Z),(Some 1%Z)));(65,((Some 0%Z),None))] None [] [] [] s1 true;
 KR 462 556 [CR 551 156 (Some 457) false;CR 490 157 (Some 395) false;CR 502 65 (Some 408) true] [] [156;157;65] [(156,((Some 0%Z),(Some 1%Z)));(157,((Some 0%Z),(Some 1%Z)));(65,((Some 0%Z),None))] None [] [] [] s1 true;
 KR 463 557 [CR 551 156 (Some 457) false;CR 490 157 (Some 395) false;CR 489 158 (Some 394) false;CR 502 65 (Some 408) true] [] [156;157;158;65] [(156,((Some 0%Z),(Some 1%Z)));(157,((Some 0%Z),(Some 1%Z)));(158,((Some 0%Z),(Some 1%Z)));(65,((Some 0%Z),None))] None [] [] [] s1 true;
 KR 464 558 [CR 557 168 (Some 463) false;CR 556 169 (Some 462) false;CR 502 65 (Some 408) true] [] [168;169;65] [(168,((Some 0%Z),(Some 1%Z)));(169,((Some 0%Z),(Some 1%Z)));(65,((Some 0%Z),None))] None [] [] [] s1 true;
 KR 465 559 [CR 557 168 (Some 463) false;CR 556 169 (Some 462) false;CR 502 65 (Some 408) true] [] [168;169;65] [(168,((Some 0%Z),(Some 1%Z)));(169,((Some 0%Z),(Some 1%Z)));(65,((Some 0%Z),None))] None [] [] [] s1 true;
 KR 466 560 [CR 543 172 (Some 449) false;CR 559 173 (Some 465) false;CR 553 174 (Some 459) false;CR 552 175 (Some 458) false;CR 506 116 (Some 412) false;CR 502 65 (Some 408) true] [AR 176 177 (TN s20) false] [172;173;174;175;116;65] [(172,((Some 0%Z),(Some 1%Z)));(173,((Some 0%Z),(Some 1%Z)));(174,((Some 0%Z),(Some 1%Z)));(116,((Some 0%Z),(Some 1%Z)));(65,((Some 0%Z),None))] None [] [] [] s1 true;
 KR 467 561 [CR 543 172 (Some 449) false;CR 559 173 (Some 465) false;CR 553 174 (Some 459) false;CR 552 175 (Some 458) false;CR 506 116 (Some 412) false;CR 502 65 (Some 408) true] [AR 176 177 (TN s20) false] [172;173;174;175;116;65] [(172,((Some 0%Z),(Some 1%Z)));(173,((Some 0%Z),(Some 1%Z)));(174,((Some 0%Z),(Some 1%Z)));(116,((Some 0%Z),(Some 1%Z)));(65,((Some 0%Z),None))] None [] [] [] s1 true;
 KR 468 562 [CR 519 180 (Some 425) false;CR 520 181 (Some 426) false;CR 493 182 (Some 398) false;CR 515 135 (Some 421) false;CR 538 146 (Some 444) false;CR 521 183 (Some 427) false;CR 522 184 (Some 428) false;CR 524 185 (Some 430) false;CR 523 136 (Some 429) false;CR 494 186 (Some 399) false;CR 495 187 (Some 400) false;CR 513 188 (Some 419) false;CR 514 189 (Some 420) false;CR 502 65 (Some 408) true;CR 563 191 (Some 469) false] [] [180;181;182;135;146;183;184;185;136;186;187;188;189;191;65] [(180,((Some 0%Z),(Some 1%Z)));(181,((Some 0%Z),(Some 1%Z)));(182,((Some 0%Z),(Some 1%Z)));(135,((Some 0%Z),(Some 1%Z)));(146,((Some 0%Z),(Some 1%Z)));(183,((Some 0%Z),(Some 1%Z)));(184,((Some 0%Z),(Some 1%Z)));(185,((Some 0%Z),(Some 1%Z)));(136,((Some 0%Z),(Some 1%Z)));(186,((Some 0%Z),(Some 1%Z)));(187,((Some 0%Z),(Some 1%Z)));(188,((Some 0%Z),(Some 1%Z)));(189,((Some 0%Z),(Some 1%Z)));(191,((Some 0%Z),(Some 1%Z)));(65,((Some 0%Z),None))] None [] [] [] s1 true;
 KR 469 563 [CR 519 180 (Some 425) false;CR 520 181 (Some 426) false;CR 493 182 (Some 398) false;CR 515 135 (Some 421) false;CR 538 146 (Some 444) false;CR 521 183 (Some 427) false;CR 522 184 (Some 428) false;CR 524 185 (Some 430) false;CR 523 136 (Some 429) false;CR 494 186 (Some 399) false;CR 495 187 (Some 400) false;CR 513 188 (Some 419) false;CR 514 189 (Some 420) false;CR 502 65 (Some 408) true;CR 563 191 (Some 469) false] [] [180;181;182;135;146;183;184;185;136;186;187;188;189;191;65] [(180,((Some 0%Z),(Some 1%Z)));(181,((Some 0%Z),(Some 1%Z)));(182,((Some 0%Z),(Some 1%Z)));(135,((Some 0%Z),(Some 1%Z)));(146,((Some 0%Z),(Some 1%Z)));(183,((Some 0%Z),(Some 1%Z)));(184,((Some 0%Z),(Some 1%Z)));(185,((Some 0%Z),(Some 1%Z)));(136,((Some 0%Z),(Some 1%Z)));(186,((Some 0%Z),(Some 1%Z)));(187,((Some 0%Z),(Some 1%Z)));(188,((Some 0%Z),(Some 1%Z)));(189,((Some 0%Z),(Some 1%Z)));(191,((Some 0%Z),(Some 1%Z)));(65,((Some 0%Z),None))] None [] [] [] s1 true;
 KR 470 564 [] [AR 15 16 (TN s0) false] [] [] None [] [] [] s1 true;
 KR 471 565 [] [AR 18 18 (TN s0) true] [] [] None [] [] [] s1 true;
 KR 472 566 [] [] [] [] (Some (VT s2 (Some [s3;s4;s5]) None None)) [] [] [] s1 true;
 KR 473 567 [] [AR 21 22 (TN s6) true] [] [] None [] [] [] s1 true;
 KR 474 568 [] [AR 24 24 (TN s7) true] [] [] None [] [] [] s1 true;
 KR 475 569 [] [AR 26 26 (TN s0) true;AR 27 27 (TN s8) false] [] [] None [] [] [] s1 true;
 KR 476 570 [] [AR 29 30 (TN s9) true;AR 31 32 (TN s9) false;AR 33 33 (TN s9) false] [] [] None [] [] [] s1 true;
 KR 477 571 [] [] [] [] (Some (VT s2 (Some [s10;s11]) None None)) [] [] [] s1 true;
 KR 478 572 [] [] [] [] (Some (VT s2 (Some [s12;s13]) None None)) [] [] [] s1 true;
 KR 479 573 [] [AR 44 44 (TN s14) true] [] [] None [] [] [] s1 true;
 KR 480 574 [] [AR 46 46 (TN s8) true] [] [] None [] [] [] s1 true;
 KR 481 575 [] [] [] [] None [] [] [] s1 true;
 KR 482 576 [] [AR 26 26 (TN s8) true;AR 27 27 (TN s8) false] [] [] None [] [] [] s1 true;
 KR 483 577 [] [] [] [] (Some (VT s2 (Some [s15;s16;s17;s18;s19]) None None)) [] [] [] s1 true;
 KR 484 578 [] [AR 51 51 (TC 483) true] [] [] None [] [] [] s1 true;
 KR 485 579 [] [] [] [] None [] [] [] s1 true;
 KR 486 580 [] [AR 37 38 (TN s0) true;AR 39 40 (TN s0) true;AR 41 42 (TN s0) true] [] [] None [] [] [] s1 true;
 KR 487 581 [] [AR 24 24 (TN s7) true] [] [] None [] [] [] s1 true;
 KR 488 582 [] [AR 51 51 (TC 483) true] [] [] None [] [] [] s1 true;
 KR 489 583 [] [AR 37 38 (TN s0) true;AR 39 40 (TN s0) true;AR 41 42 (TN s0) true] [] [] None [] [] [] s1 true;
 KR 490 584 [] [AR 26 26 (TN s8) true;AR 27 27 (TN s8) false] [] [] None [] [] [] s1 true;
 KR 491 585 [] [AR 21 22 (TN s6) true] [] [] None [] [] [] s1 true;
 KR 492 586 [CR 585 22 (Some 491) true] [] [22] [(22,((Some 1%Z),None))] None [] [] [] s1 true;
 KR 493 584 [] [AR 26 26 (TN s0) true;AR 27 27 (TN s8) false] [] [] None [] [] [] s1 true;
 KR 494 587 [] [AR 29 30 (TN s9) true;AR 31 32 (TN s9) false;AR 33 33 (TN s9) false] [] [] None [] [] [] s1 true;
 KR 495 588 [] [AR 44 44 (TN s14) true] [] [] None [] [] [] s1 true;
 KR 496 589 [] [AR 46 46 (TN s8) true] [] [] None [] [] [] s1 true;
 KR 497 590 [] [] [] [] None [] [] [] s1 true;
 KR 498 591 [] [] [] [] None [] [] [] s1 true;
 KR 499 592 [CR 583 79 (Some 489) false;CR 591 65 (Some 498) true] [] [79;65] [(65,((Some 0%Z),None))] None [] [] [] s1 true;
 KR 500 593 [CR 583 79 (Some 489) false;CR 591 65 (Some 498) true] [] [79;65] [(65,((Some 0%Z),None))] None [] [] [] s1 true;
 KR 501 594 [CR 591 65 (Some 498) true] [AR 66 66 (TN s6) false] [65] [(65,((Some 0%Z),None))] None [] [] [] s1 true;
 KR 502 595 [CR 591 65 (Some 498) true] [AR 68 69 (TN s0) false] [65] [(65,((Some 0%Z),None))] None [] [] [] s1 true;
 KR 503 596 [CR 585 22 (Some 491) true] [] [22] [(22,((Some 1%Z),None))] None [] [] [] s1 true;
 KR 504 597 [CR 584 72 (Some 490) false;CR 587 73 (Some 494) false;CR 565 74 (Some 471) false;CR 591 65 (Some 498) true] [AR 75 76 (TN s6) false] [72;73;74;65] [(72,((Some 0%Z),(Some 1%Z)));(73,((Some 0%Z),(Some 1%Z)));(74,((Some 0%Z),(Some 1%Z)));(65,((Some 0%Z),None))] None [] [] [] s1 true;
 KR 505 598 [CR 584 72 (Some 493) false;CR 565 74 (Some 471) false;CR 591 65 (Some 498) true] [AR 75 76 (TN s6) false] [72;74;65] [(74,((Some 0%Z),(Some 1%Z)));(65,((Some 0%Z),None))] None [] [] [] s1 true;
 KR 506 599 [CR 588 81 (Some 495) false;CR 589 82 (Some 496) false;CR 590 83 (Some 497) false] [] [81;82;83] [(81,((Some 0%Z),(Some 1%Z)));(82,((Some 0%Z),(Some 1%Z)));(83,((Some 0%Z),(Some 1%Z)))] None [] [] [] s1 true;
 KR 507 600 [CR 591 65 (Some 498) true] [] [65] [(65,((Some 0%Z),None))] None [] [] [] s1 true;
 KR 508 601 [CR 593 147 (Some 500) false] [] [147] [] None [] [] [] s1 true;
 KR 509 602 [CR 591 65 (Some 498) true] [] [65] [(65,((Some 0%Z),None))] None [] [] [] s1 true;
 KR 510 603 [CR 591 65 (Some 498) true] [] [65] [(65,((Some 0%Z),None))] None [] [] [] s1 true;
 KR 511 604 [CR 591 65 (Some 498) true] [] [65] [(65,((Some 0%Z),None))] None [] [] [] s1 true;
 KR 512 605 [CR 584 72 (Some 490) false;CR 587 73 (Some 494) false;CR 565 74 (Some 471) false;CR 591 65 (Some 498) true] [AR 75 76 (TN s6) false] [72;73;74;65] [(72,((Some 0%Z),(Some 1%Z)));(73,((Some 0%Z),(Some 1%Z)));(74,((Some 0%Z),(Some 1%Z)));(65,((Some 0%Z),None))] None [] [] [] s1 true;
 KR 513 606 [CR 591 65 (Some 498) true] [] [65] [(65,((Some 0%Z),None))] None [] [] [] s1 true;
 KR 514 607 [CR 588 81 (Some 495) false;CR 589 82 (Some 496) false;CR 590 83 (Some 497) false] [] [81;82;83] [(81,((Some 0%Z),(Some 1%Z)));(82,((Some 0%Z),(Some 1%Z)));(83,((Some 0%Z),(Some 1%Z)))] None [] [] [] s1 true;
 KR 515 608 [CR 593 147 (Some 500) false] [] [147] [] None [] [] [] s1 true;
 KR 516 609 [CR 591 65 (Some 498) true] [] [65] [(65,((Some 0%Z),None))] None [] [] [] s1 true;
 KR 517 610 [CR 591 65 (Some 498) true] [] [65] [(65,((Some 0%Z),None))] None [] [] [] s1 true;
 KR 518 611 [CR 591 65 (Some 498) true] [] [65] [(65,((Some 0%Z),None))] None [] [] [] s1 true;
 KR 519 612 [CR 591 65 (Some 498) true] [AR 66 66 (TN s6) false] [65] [(65,((Some 0%Z),None))] None [] [] [] s1 true;
 KR 520 613 [CR 591 65 (Some 498) true] [AR 68 69 (TN s0) false] [65] [(65,((Some 0%Z),None))] None [] [] [] s1 true;
 KR 521 614 [CR 591 65 (Some 498) true] [AR 68 69 (TN s0) false] [65] [(65,((Some 0%Z),None))] None [] [] [] s1 true;
 KR 522 615 [CR 591 65 (Some 498) true] [AR 68 69 (TN s0) false] [65] [(65,((Some 0%Z),None))] None [] [] [] s1 true;
 KR 523 616 [CR 591 65 (Some 498) true] [] [65] [(65,((Some 0%Z),None))] None [] [] [] s1 true;
 KR 524 617 [CR 591 65 (Some 498) true] [] [65] [(65,((Some 0%Z),None))] None [] [] [] s1 true;
 KR 525 618 [CR 591 65 (Some 498) true] [] [65] [(65,((Some 0%Z),None))] None [] [] [] s1 true;
 KR 526 619 [CR 591 65 (Some 498) true] [] [65] [(65,((Some 0%Z),None))] None [] [] [] s1 true;
 KR 527 620 [CR 591 65 (Some 498) true] [] [65] [(65,((Some 0%Z),None))] None [] [] [] s1 true;
 KR 528 621 [CR 591 65 (Some 498) true] [] [65] [(65,((Some 0%Z),None))] None [] [] [] s1 true;
 KR 529 622 [CR 591 65 (Some 498) true] [] [65] [(65,((Some 0%Z),None))] None [] [] [] s1 true;
 KR 530 623 [CR 591 65 (Some 498) true] [] [65] [(65,((Some 0%Z),None))] None [] [] [] s1 true;
 KR 531 624 [CR 591 65 (Some 498) true] [] [65] [(65,((Some 0%Z),None))] None [] [] [] s1 true;
 KR 532 625 [CR 591 65 (Some 498) true] [] [65] [(65,((Some 0%Z),None))] None [] [] [] s1 true;
 KR 533 626 [CR 591 65 (Some 498) true] [] [65] [(65,((Some 0%Z),None))] None [] [] [] s1 true;
 KR 534 627 [CR 591 65 (Some 498) true] [] [65] [(65,((Some 0%Z),None))] None [] [] [] s1 true;
 KR 535 628 [CR 591 65 (Some 498) true] [] [65] [(65,((Some 0%Z),None))] None [] [] [] s1 true;
 KR 536 629 [CR 591 65 (Some 498) true] [] [65] [(65,((Some 0%Z),None))] None [] [] [] s1 true;
 KR 537 630 [CR 564 114 (Some 470) false;CR 602 115 (Some 509) false;CR 596 116 (Some 503) false;CR 591 65 (Some 498) true] [AR 117 117 (TC 472) false] [114;115;116;65] [(114,((Some 0%Z),(Some 1%Z)));(115,((Some 0%Z),(Some 1%Z)));(116,((Some 0%Z),(Some 1%Z)));(65,((Some 0%Z),None))] None [] [] [] s1 true;
 KR 538 631 [CR 618 119 (Some 525) false;CR 624 120 (Some 531) false;CR 621 121 (Some 528) false;CR 622 122 (Some 529) false;CR 623 123 (Some 530) false;CR 620 124 (Some 527) false;CR 619 125 (Some 526) false;CR 625 126 (Some 532) false;CR 626 127 (Some 533) false;CR 627 128 (Some 534) false;CR 591 65 (Some 498) true] [] [119;120;121;122;123;124;125;126;127;128;65] [(119,((Some 0%Z),(Some 1%Z)));(120,((Some 0%Z),(Some 1%Z)));(121,((Some 0%Z),(Some 1%Z)));(122,((Some 0%Z),(Some 1%Z)));(123,((Some 0%Z),(Some 1%Z)));(124,((Some 0%Z),(Some 1%Z)));(125,((Some 0%Z),(Some 1%Z)));(126,((Some 0%Z),(Some 1%Z)));(127,((Some 0%Z),(Some 1%Z)));(128,((Some 0%Z),(Some 1%Z)));(65,((Some 0%Z),None))] None [] [] [] s1 true;
 KR 539 632 [CR 584 72 (Some 493) false;CR 565 74 (Some 471) false;CR 591 65 (Some 498) true] [AR 75 76 (TN s6) false] [72;74;65] [(74,((Some 0%Z),(Some 1%Z)));(65,((Some 0%Z),None))] None [] [] [] s1 true;
 KR 540 633 [CR 584 72 (Some 490) false;CR 587 73 (Some 494) false;CR 565 74 (Some 471) false;CR 607 131 (Some 514) false;CR 591 65 (Some 498) true] [] [72;73;74;131;65] [(72,((Some 0%Z),(Some 1%Z)));(73,((Some 0%Z),(Some 1%Z)));(74,((Some 0%Z),(Some 1%Z)));(131,((Some 0%Z),(Some 1%Z)));(65,((Some 0%Z),None))] None [] [] [] s1 true;
 KR 541 634 [CR 628 133 (Some 535) false;CR 591 65 (Some 498) true] [] [133;65] [(133,((Some 0%Z),(Some 1%Z)));(65,((Some 0%Z),None))] None [] [] [] s1 true;
 KR 542 635 [CR 564 114 (Some 470) false;CR 602 115 (Some 509) false;CR 596 116 (Some 503) false;CR 591 65 (Some 498) true] [AR 117 117 (TC 472) false] [114;115;116;65] [(114,((Some 0%Z),(Some 1%Z)));(115,((Some 0%Z),(Some 1%Z)));(116,((Some 0%Z),(Some 1%Z)));(65,((Some 0%Z),None))] None [] [] [] s1 true;
 KR 543 636 [CR 584 72 (Some 490) false;CR 587 73 (Some 494) false;CR 565 74 (Some 471) false;CR 607 131 (Some 514) false;CR 591 65 (Some 498) true] [] [72;73;74;131;65] [(72,((Some 0%Z),(Some 1%Z)));(73,((Some 0%Z),(Some 1%Z)));(74,((Some 0%Z),(Some 1%Z)));(131,((Some 0%Z),(Some 1%Z)));(65,((Some 0%Z),None))] None [] [] [] s1 true;
 KR 544 637 [CR 618 119 (Some 525) false;CR 624 120 (Some 531) false;CR 621 121 (Some 528) false;CR 622 122 (Some 529) false;CR 623 123 (Some 530) false;CR 620 124 (Some 527) false;CR 619 125 (Some 526) false;CR 625 126 (Some 532) false;CR 626 127 (Some 533) false;CR 627 128 (Some 534) false;CR 591 65 (Some 498) true] [] [119;120;121;122;123;124;125;126;127;128;65] [(119,((Some 0%Z),(Some 1%Z)));(120,((Some 0%Z),(Some 1%Z)));(121,((Some 0%Z),(Some 1%Z)));(122,((Some 0%Z),(Some 1%Z)));(123,((Some 0%Z),(Some 1%Z)));(124,((Some 0%Z),(Some 1%Z)));(125,((Some 0%Z),(Some 1%Z)));(126,((Some 0%Z),(Some 1%Z)));(127,((Some 0%Z),(Some 1%Z)));(128,((Some 0%Z),(Some 1%Z)));(65,((Some 0%Z),None))] None [] [] [] s1 true;
 KR 545 638 [CR 628 133 (Some 535) false;CR 591 65 (Some 498) true] [] [133;65] [(133,((Some 0%Z),(Some 1%Z)));(65,((Some 0%Z),None))] None [] [] [] s1 true;
 KR 546 639 [CR 638 143 (Some 545) false;CR 629 144 (Some 536) false;CR 591 65 (Some 498) true] [] [143;144;65] [(143,((Some 0%Z),(Some 1%Z)));(144,((Some 0%Z),(Some 1%Z)));(65,((Some 0%Z),None))] None [] [] [] s1 true;
 KR 547 640 [CR 636 149 (Some 543) false;CR 591 65 (Some 498) true] [] [149;65] [(149,((Some 0%Z),(Some 1%Z)));(65,((Some 0%Z),None))] None [] [] [] s1 true;
 KR 548 641 [CR 636 149 (Some 543) false;CR 591 65 (Some 498) true] [] [149;65] [(149,((Some 0%Z),(Some 1%Z)));(65,((Some 0%Z),None))] None [] [] [] s1 true;
 KR 549 642 [CR 638 143 (Some 545) false;CR 629 144 (Some 536) false;CR 591 65 (Some 498) true] [] [143;144;65] [(143,((Some 0%Z),(Some 1%Z)));(144,((Some 0%Z),(Some 1%Z)));(65,((Some 0%Z),None))] None [] [] [] s1 true;
 KR 550 643 [CR 641 156 (Some 548) false;CR 582 157 (Some 488) false;CR 581 158 (Some 487) false;CR 591 65 (Some 498) true] [] [156;157;158;65] [(156,((Some 0%Z),(Some 1%Z)));(157,((Some 0%Z),(Some 1%Z)));(158,((Some 0%Z),(Some 1%Z)));(65,((Some 0%Z),None))] None [] [] [] s1 true;
 KR 551 644 [CR 641 156 (Some 548) false;CR 582 157 (Some 488) false;CR 591 65 (Some 498) true] [] [156;157;65] [(156,((Some 0%Z),(Some 1%Z)));(157,((Some 0%Z),(Some 1%Z)));(65,((Some 0%Z),None))] None [] [] [] s1 true;
 KR 552 645 [CR 641 156 (Some 548) false;CR 582 157 (Some 488) false;CR 591 65 (Some 498) true] [] [156;157;65] [(156,((Some 0%Z),(Some 1%Z)));(157,((Some 0%Z),(Some 1%Z)));(65,((Some 0%Z),None))] None [] [] [] s1 true;
 KR 553 646 [CR 641 156 (Some 548) false;CR 582 157 (Some 488) false;CR 581 158 (Some 487) false;CR 591 65 (Some 498) true] [] [156;157;158;65] [(156,((Some 0%Z),(Some 1%Z)));(157,((Some 0%Z),(Some 1%Z)));(158,((Some 0%Z),(Some 1%Z)));(65,((Some 0%Z),None))] None [] [] [] s1 true;
 KR 554 647 [CR 646 168 (Some 553) false;CR 645 169 (Some 552) false;CR 591 65 (Some 498) true] [] [168;169;65] [(168,((Some 0%Z),(Some 1%Z)));(169,((Some 0%Z),(Some 1%Z)));(65,((Some 0%Z),None))] None [] [] [] s1 true;
 KR 555 648 [CR 646 168 (Some 553) false;CR 645 169 (Some 552) false;CR 591 65 (Some 498) true] [] [168;169;65] [(168,((Some 0%Z),(Some 1%Z)));(169,((Some 0%Z),(Some 1%Z)));(65,((Some 0%Z),None))] None [] [] [] s1 true;
 KR 556 649 [CR 609 180 (Some 516) false;CR 610 181 (Some 517) false;CR 613 182 (Some 520) false;CR 605 135 (Some 512) false;CR 632 146 (Some 539) false;CR 611 183 (Some 518) false;CR 612 184 (Some 519) false;CR 617 185 (Some 524) false;CR 616 136 (Some 523) false;CR 614 186 (Some 521) false;CR 615 187 (Some 522) false;CR 603 188 (Some 510) false;CR 604 189 (Some 511) false;CR 591 65 (Some 498) true;CR 650 191 (Some 557) false] [] [180;181;182;135;146;183;184;185;136;186;187;188;189;191;65] [(180,((Some 0%Z),(Some 1%Z)));(181,((Some 0%Z),(Some 1%Z)));(182,((Some 0%Z),(Some 1%Z)));(135,((Some 0%Z),(Some 1%Z)));(146,((Some 0%Z),(Some 1%Z)));(183,((Some 0%Z),(Some 1%Z)));(184,((Some 0%Z),(Some 1%Z)));(185,((Some 0%Z),(Some 1%Z)));(136,((Some 0%Z),(Some 1%Z)));(186,((Some 0%Z),(Some 1%Z)));(187,((Some 0%Z),(Some 1%Z)));(188,((Some 0%Z),(Some 1%Z)));(189,((Some 0%Z),(Some 1%Z)));(191,((Some 0%Z),(Some 1%Z)));(65,((Some 0%Z),None))] None [] [] [] s1 true;
 KR 557 650 [CR 609 180 (Some 516) false;CR 610 181 (Some 517) false;CR 613 182 (Some 520) false;CR 605 135 (Some 512) false;CR 632 146 (Some 539) false;CR 611 183 (Some 518) false;CR 612 184 (Some 519) false;CR 617 185 (Some 524) false;CR 616 136 (Some 523) false;CR 614 186 (Some 521) false;CR 615 187 (Some 522) false;CR 603 188 (Some 510) false;CR 604 189 (Some 511) false;CR 591 65 (Some 498) true;CR 650 191 (Some 557) false] [] [180;181;182;135;146;183;184;185;136;186;187;188;189;191;65] [(180,((Some 0%Z),(Some 1%Z)));(181,((Some 0%Z),(Some 1%Z)));(182,((Some 0%Z),(Some 1%Z)));(135,((Some 0%Z),(Some 1%Z)));(146,((Some 0%Z),(Some 1%Z)));(183,((Some 0%Z),(Some 1%Z)));(184,((Some 0%Z),(Some 1%Z)));(185,((Some 0%Z),(Some 1%Z)));(136,((Some 0%Z),(Some 1%Z)));(186,((Some 0%Z),(Some 1%Z)));(187,((Some 0%Z),(Some 1%Z)));(188,((Some 0%Z),(Some 1%Z)));(189,((Some 0%Z),(Some 1%Z)));(191,((Some 0%Z),(Some 1%Z)));(65,((Some 0%Z),None))] None [] [] [] s1 true;
 KR 558 651 [CR 609 180 (Some 516) false;CR 610 181 (Some 517) false;CR 613 182 (Some 520) false;CR 605 135 (Some 512) false;CR 632 146 (Some 539) false;CR 611 183 (Some 518) false;CR 612 184 (Some 519) false;CR 617 185 (Some 524) false;CR 616 136 (Some 523) false;CR 614 186 (Some 521) false;CR 615 187 (Some 522) false;CR 603 188 (Some 510) false;CR 604 189 (Some 511) false;CR 650 191 (Some 557) false;CR 591 65 (Some 498) true] [] [180;181;182;135;146;183;184;185;136;186;187;188;189;191;65] [(180,((Some 0%Z),(Some 1%Z)));(181,((Some 0%Z),(Some 1%Z)));(182,((Some 0%Z),(Some 1%Z)));(135,((Some 0%Z),(Some 1%Z)));(146,((Some 0%Z),(Some 1%Z)));(183,((Some 0%Z),(Some 1%Z)));(184,((Some 0%Z),(Some 1%Z)));(185,((Some 0%Z),(Some 1%Z)));(136,((Some 0%Z),(Some 1%Z)));(186,((Some 0%Z),(Some 1%Z)));(187,((Some 0%Z),(Some 1%Z)));(188,((Some 0%Z),(Some 1%Z)));(189,((Some 0%Z),(Some 1%Z)));(191,((Some 0%Z),(Some 1%Z)));(65,((Some 0%Z),None))] None [] [] [] s1 true;
 KR 559 652 [CR 609 180 (Some 516) false;CR 610 181 (Some 517) false;CR 613 182 (Some 520) false;CR 605 135 (Some 512) false;CR 632 146 (Some 539) false;CR 611 183 (Some 518) false;CR 612 184 (Some 519) false;CR 617 185 (Some 524) false;CR 616 136 (Some 523) false;CR 614 186 (Some 521) false;CR 615 187 (Some 522) false;CR 603 188 (Some 510) false;CR 604 189 (Some 511) false;CR 650 191 (Some 557) false;CR 591 65 (Some 498) true] [] [180;181;182;135;146;183;184;185;136;186;187;188;189;191;65] [(180,((Some 0%Z),(Some 1%Z)));(181,((Some 0%Z),(Some 1%Z)));(182,((Some 0%Z),(Some 1%Z)));(135,((Some 0%Z),(Some 1%Z)));(146,((Some 0%Z),(Some 1%Z)));(183,((Some 0%Z),(Some 1%Z)));(184,((Some 0%Z),(Some 1%Z)));(185,((Some 0%Z),(Some 1%Z)));(136,((Some 0%Z),(Some 1%Z)));(186,((Some 0%Z),(Some 1%Z)));(187,((Some 0%Z),(Some 1%Z)));(188,((Some 0%Z),(Some 1%Z)));(189,((Some 0%Z),(Some 1%Z)));(191,((Some 0%Z),(Some 1%Z)));(65,((Some 0%Z),None))] None [] [] [] s1 true;
 KR 560 653 [CR 608 161 (Some 515) false;CR 652 162 (Some 559) false;CR 637 163 (Some 544) false;CR 591 65 (Some 498) true] [] [161;162;163;65] [(161,((Some 0%Z),(Some 1%Z)));(163,((Some 0%Z),(Some 1%Z)));(65,((Some 0%Z),None))] None [] [] [] s1 true;
 KR 561 654 [CR 608 161 (Some 515) false;CR 652 162 (Some 559) false;CR 637 163 (Some 544) false;CR 591 65 (Some 498) true] [] [161;162;163;65] [(161,((Some 0%Z),(Some 1%Z)));(163,((Some 0%Z),(Some 1%Z)));(65,((Some 0%Z),None))] None [] [] [] s1 true;
 KR 562 655 [CR 635 172 (Some 542) false;CR 648 173 (Some 555) false;CR 642 174 (Some 549) false;CR 654 175 (Some 561) false;CR 596 116 (Some 503) false;CR 591 65 (Some 498) true] [AR 176 177 (TN s20) false] [172;173;174;175;116;65] [(172,((Some 0%Z),(Some 1%Z)));(173,((Some 0%Z),(Some 1%Z)));(174,((Some 0%Z),(Some 1%Z)));(116,((Some 0%Z),(Some 1%Z)));(65,((Some 0%Z),None))] None [] [] [] s1 true;
 KR 563 656 [CR 635 172 (Some 542) false;CR 648 173 (Some 555) false;CR 642 174 (Some 549) false;CR 654 175 (Some 561) false;CR 596 116 (Some 503) false;CR 591 65 (Some 498) true] [AR 176 177 (TN s20) false] [172;173;174;175;116;65] [(172,((Some 0%Z),(Some 1%Z)));(173,((Some 0%Z),(Some 1%Z)));(174,((Some 0%Z),(Some 1%Z)));(116,((Some 0%Z),(Some 1%Z)));(65,((Some 0%Z),None))] None [] [] [] s1 true;
 KR 564 657 [] [AR 658 659 (TN s6) true] [] [] None [] [] [] s1 true;
 KR 565 660 [] [AR 658 659 (TN s6) true;AR 661 662 (TN s21) false;AR 663 664 (TN s21) false] [] [] None [] [] [] s1 true;
 KR 566 665 [] [AR 658 659 (TN s6) true] [] [] None [] [] [] s1 true;
 KR 567 666 [] [AR 658 659 (TN s6) true;AR 661 662 (TN s21) false;AR 663 664 (TN s21) false] [] [] None [] [] [] s1 true;
 KR 568 667 [] [] [] [] (Some (VT s22 None None None)) [] [] [] s1 true;
 KR 569 668 [] [] [] [] (Some (VT s9 None None None)) [] [] [] s1 true;
 KR 570 669 [] [] [] [] (Some (VT s6 None None None)) [] [] [] s1 true;
 KR 571 670 [] [AR 671 672 (TN s23) true;AR 673 674 (TN s22) false;AR 675 676 (TN s9) false] [] [] None [] [] [] s1 true;
 KR 572 677 [] [] [] [] (Some (VT s6 None None (Some 1024%Z))) [] [] [] s1 true;
 KR 573 678 [] [] [] [] (Some (VT s22 None None None)) [] [] [] s1 true;
 KR 574 679 [] [] [] [] (Some (VT s6 None None None)) [] [] [] s1 true;
 KR 575 680 [] [AR 671 672 (TN s23) true;AR 673 674 (TN s22) false;AR 675 676 (TN s9) false] [] [] None [] [] [] s1 true;
 KR 576 681 [CR 677 682 (Some 572) false;CR 678 683 (Some 573) false;CR 679 684 (Some 574) false] [] [682;683;684] [(684,((Some 0%Z),(Some 1%Z)))] None [] [] [] s1 true;
 KR 577 685 [CR 680 686 (Some 575) true] [] [686] [(686,((Some 0%Z),None))] None [] [] [] s1 true;
 KR 578 687 [CR 677 682 (Some 572) false;CR 678 683 (Some 573) false;CR 679 684 (Some 574) false] [] [682;683;684] [(684,((Some 0%Z),(Some 1%Z)))] None [] [] [] s1 true;
 KR 579 688 [CR 680 686 (Some 575) true] [] [686] [(686,((Some 0%Z),None))] None [] [] [] s1 true;
 KR 580 689 [CR 667 674 (Some 568) false;CR 668 676 (Some 569) false;CR 669 690 (Some 570) false;CR 688 691 (Some 579) false] [] [674;676;690;691] [(674,((Some 0%Z),(Some 1%Z)));(676,((Some 0%Z),(Some 1%Z)));(690,((Some 0%Z),(Some 1%Z)));(691,((Some 0%Z),(Some 1%Z)))] None [] [] [] s1 true;
 KR 581 692 [CR 667 674 (Some 568) false;CR 668 676 (Some 569) false;CR 669 690 (Some 570) false;CR 688 691 (Some 579) false] [] [674;676;690;691] [(674,((Some 0%Z),(Some 1%Z)));(676,((Some 0%Z),(Some 1%Z)));(690,((Some 0%Z),(Some 1%Z)));(691,((Some 0%Z),(Some 1%Z)))] None [] [] [] s1 true;
 KR 582 693 [] [AR 694 695 (TN s6) true;AR 696 697 (TN s6) true;AR 698 699 (TN s6) false;AR 700 700 (TN s24) true;AR 701 702 (TN s7) false] [] [] None [] [] [] s1 true;
 KR 583 703 [CR 704 705 (Some 751) true;CR 706 707 (Some 766) true] [] [705;707] [(705,((Some 0%Z),None));(707,((Some 0%Z),None))] None [] [] [] s1 true;
 KR 584 708 [CR 704 705 (Some 751) true;CR 706 707 (Some 766) true] [] [705;707] [(705,((Some 0%Z),None));(707,((Some 0%Z),None))] None [] [] [] s1 true;
 KR 585 709 [] [AR 710 711 (TN s6) true] [] [] (Some (VT s6 None None None)) [] [] [] s1 true;
 KR 586 712 [] [AR 710 711 (TN s6) true] [] [] (Some (VT s6 None None None)) [] [] [] s1 true;
 KR 587 713 [] [AR 686 686 (TN s9) true;AR 714 674 (TN s25) false;AR 715 716 (TN s9) false] [] [] None [] [] [] s1 true;
 KR 588 717 [CR 709 684 (Some 585) true] [AR 718 682 (TN s9) true;AR 719 683 (TN s25) false] [684] [(684,((Some 0%Z),None))] None [] [] [] s1 true;
 KR 589 720 [CR 712 690 (Some 586) true] [AR 686 686 (TN s9) true;AR 714 674 (TN s25) false;AR 715 716 (TN s9) false] [690] [(690,((Some 0%Z),None))] None [] [] [] s1 true;
 KR 590 721 [] [AR 686 686 (TN s9) true;AR 714 674 (TN s25) false;AR 715 716 (TN s9) false] [] [] None [] [] [] s1 true;
 KR 591 722 [CR 709 684 (Some 585) true] [AR 718 682 (TN s9) true;AR 719 683 (TN s25) false] [684] [(684,((Some 0%Z),None))] None [] [] [] s1 true;
 KR 592 723 [CR 712 690 (Some 586) true] [AR 686 686 (TN s9) true;AR 714 674 (TN s25) false;AR 715 716 (TN s9) false] [690] [(690,((Some 0%Z),None))] None [] [] [] s1 true;
 KR 593 724 [CR 721 725 (Some 590) true] [] [725] [(725,((Some 0%Z),None))] None [] [] [] s1 true;
 KR 594 726 [CR 721 725 (Some 590) true] [] [725] [(725,((Some 0%Z),None))] None [] [] [] s1 true;
 KR 595 727 [] [AR 710 711 (TN s9) true] [] [] (Some (VT s9 None None None)) [] [] [] s1 true;
 KR 596 728 [] [AR 710 711 (TN s9) true] [] [] (Some (VT s9 None None None)) [] [] [] s1 true;
 KR 597 729 [] [AR 710 711 (TN s6) true] [] [] (Some (VT s6 None None None)) [] [] [] s1 true;
 KR 598 730 [] [AR 710 711 (TN s6) true] [] [] (Some (VT s6 None None None)) [] [] [] s1 true;
 KR 599 731 [] [] [] [] (Some (VT s26 None (Some s9) None)) [] [] [] s1 true;
 KR 600 732 [] [AR 710 711 (TN s27) true] [] [] (Some (VT s26 None (Some s9) None)) [] [] [] s1 true;
 KR 601 733 [] [AR 734 734 (TN s21) true;AR 735 735 (TN s21) true;AR 710 711 (TN s6) false] [] [] (Some (VT s6 None None None)) [] [] [] s1 true;
 KR 602 736 [] [] [] [] (Some (VT s9 None None None)) [] [] [] s1 true;
 KR 603 737 [] [] [] [] (Some (VT s9 None None None)) [] [] [] s1 true;
 KR 604 738 [] [] [] [] (Some (VT s6 None None None)) [] [] [] s1 true;
 KR 605 739 [] [AR 710 711 (TN s27) true] [] [] (Some (VT s26 None (Some s9) None)) [] [] [] s1 true;
 KR 606 740 [] [AR 734 734 (TN s21) true;AR 735 735 (TN s21) true;AR 710 711 (TN s6) false] [] [] (Some (VT s6 None None None)) [] [] [] s1 true;
 KR 607 741 [CR 736 742 (Some 602) true;CR 737 743 (Some 603) true;CR 738 744 (Some 604) true] [] [742;743;744] [(742,((Some 0%Z),None));(743,((Some 0%Z),None));(744,((Some 0%Z),None))] None [] [] [] s1 true;
 KR 608 745 [CR 727 746 (Some 595) true;CR 728 747 (Some 596) true;CR 739 748 (Some 605) true;CR 740 749 (Some 606) true;CR 729 750 (Some 597) true;CR 730 751 (Some 598) true] [] [746;747;748;749;750;751] [(746,((Some 0%Z),None));(747,((Some 0%Z),None));(748,((Some 0%Z),None));(749,((Some 0%Z),None));(750,((Some 0%Z),None));(751,((Some 0%Z),None))] None [] [] [] s1 true;
 KR 609 752 [CR 736 742 (Some 602) true;CR 737 743 (Some 603) true;CR 738 744 (Some 604) true] [] [742;743;744] [(742,((Some 0%Z),None));(743,((Some 0%Z),None));(744,((Some 0%Z),None))] None [] [] [] s1 true;
 KR 610 753 [CR 727 746 (Some 595) true;CR 728 747 (Some 596) true;CR 739 748 (Some 605) true;CR 740 749 (Some 606) true;CR 729 750 (Some 597) true;CR 730 751 (Some 598) true] [] [746;747;748;749;750;751] [(746,((Some 0%Z),None));(747,((Some 0%Z),None));(748,((Some 0%Z),None));(749,((Some 0%Z),None));(750,((Some 0%Z),None));(751,((Some 0%Z),None))] None [] [] [] s1 true;
 KR 611 754 [CR 755 756 (Some 1120) true] [AR 757 758 (TN s28) false] [756] [(756,((Some 1%Z),None))] None [] [(758,s29)] [] s1 true;
 KR 612 759 [CR 755 756 (Some 1120) true] [AR 757 758 (TN s28) false] [756] [(756,((Some 1%Z),None))] None [] [(758,s29)] [] s1 true;
 KR 613 760 [] [AR 694 695 (TN s6) true;AR 696 697 (TN s6) true;AR 698 699 (TN s6) false] [] [] None [] [] [] s1 true;
 KR 614 761 [CR 762 763 (Some 734) true] [AR 764 765 (TN s0) true;AR 766 767 (TN s0) true;AR 768 769 (TN s0) false;AR 770 771 (TN s0) false] [763] [(763,((Some 0%Z),None))] None [] [] [] s1 true;
 KR 615 772 [CR 762 763 (Some 734) true] [AR 764 765 (TN s0) true;AR 766 767 (TN s0) true;AR 768 769 (TN s0) false;AR 770 771 (TN s0) false] [763] [(763,((Some 0%Z),None))] None [] [] [] s1 true;
 KR 616 773 [CR 772 774 (Some 615) true] [] [774] [(774,((Some 0%Z),None))] None [] [] [] s1 true;
 KR 617 775 [CR 772 774 (Some 615) true] [] [774] [(774,((Some 0%Z),None))] None [] [] [] s1 true;
 KR 618 776 [] [AR 777 777 (TN s7) false] [] [] (Some (VT s9 None None None)) [] [(777,s13)] [] s1 true;
 KR 619 778 [CR 755 756 (Some 1120) true] [AR 757 758 (TN s28) false] [756] [(756,((Some 1%Z),None))] None [] [(758,s29)] [] s1 true;
 KR 620 779 [] [] [] [] (Some (VT s30 (Some [s31;s32]) None None)) [] [] [] s1 true;
 KR 621 780 [] [] [] [] (Some (VT s30 (Some [s31;s32]) None None)) [] [] [] s1 true;
 KR 622 727 [] [AR 710 711 (TN s9) true] [] [] (Some (VT s9 None None None)) [] [] [] s1 true;
 KR 623 728 [] [AR 710 711 (TN s9) true] [] [] (Some (VT s9 None None None)) [] [] [] s1 true;
 KR 624 729 [] [AR 710 711 (TN s6) true] [] [] (Some (VT s6 None None None)) [] [] [] s1 true;
 KR 625 730 [] [AR 710 711 (TN s6) true] [] [] (Some (VT s6 None None None)) [] [] [] s1 true;
 KR 626 733 [] [AR 734 734 (TN s21) true;AR 735 735 (TN s21) true;AR 710 711 (TN s6) false] [] [] (Some (VT s6 None None None)) [] [] [] s1 true;
 KR 627 736 [] [] [] [] (Some (VT s9 None None None)) [] [] [] s1 true;
 KR 628 737 [] [] [] [] (Some (VT s9 None None None)) [] [] [] s1 true;
 KR 629 738 [] [] [] [] (Some (VT s6 None None None)) [] [] [] s1 true;
 KR 630 740 [] [AR 734 734 (TN s21) true;AR 735 735 (TN s21) true;AR 710 711 (TN s6) false] [] [] (Some (VT s6 None None None)) [] [] [] s1 true;
 KR 631 741 [CR 736 742 (Some 627) true;CR 737 743 (Some 628) true;CR 738 744 (Some 629) true] [] [742;743;744] [(742,((Some 0%Z),None));(743,((Some 0%Z),None));(744,((Some 0%Z),None))] None [] [] [] s1 true;
 KR 632 745 [CR 727 746 (Some 622) true;CR 728 747 (Some 623) true;CR 740 749 (Some 630) true;CR 729 750 (Some 624) true;CR 730 751 (Some 625) true] [] [746;747;749;750;751] [(746,((Some 0%Z),None));(747,((Some 0%Z),None));(749,((Some 0%Z),None));(750,((Some 0%Z),None));(751,((Some 0%Z),None))] None [] [] [] s1 true;
 KR 633 752 [CR 736 742 (Some 627) true;CR 737 743 (Some 628) true;CR 738 744 (Some 629) true] [] [742;743;744] [(742,((Some 0%Z),None));(743,((Some 0%Z),None));(744,((Some 0%Z),None))] None [] [] [] s1 true;
 KR 634 753 [CR 727 746 (Some 622) true;CR 728 747 (Some 623) true;CR 740 749 (Some 630) true;CR 729 750 (Some 624) true;CR 730 751 (Some 625) true] [] [746;747;749;750;751] [(746,((Some 0%Z),None));(747,((Some 0%Z),None));(749,((Some 0%Z),None));(750,((Some 0%Z),None));(751,((Some 0%Z),None))] None [] [] [] s1 true;
 KR 635 781 [] [] [] [] (Some (VT s6 None None (Some 1024%Z))) [] [] [] s1 true;
 KR 636 782 [] [AR 710 711 (TN s9) true] [] [] (Some (VT s9 None None None)) [] [] [] s1 true;
 KR 637 783 [] [AR 710 711 (TN s6) true] [] [] (Some (VT s6 None None None)) [] [] [] s1 true;
 KR 638 784 [] [] [] [] None [] [] [] s1 true;
 KR 639 785 [] [AR 694 695 (TN s6) true;AR 696 697 (TN s6) true;AR 698 699 (TN s6) false] [] [] None [] [] [] s1 true;
 KR 640 786 [] [AR 694 695 (TN s6) true;AR 696 697 (TN s6) true;AR 698 699 (TN s6) false;AR 700 700 (TN s24) true;AR 701 702 (TN s7) false] [] [] None [] [] [] s1 true;
 KR 641 787 [] [AR 710 711 (TN s9) true] [] [] (Some (VT s9 None None None)) [] [] [] s1 true;
 KR 642 788 [] [AR 710 711 (TN s9) true] [] [] (Some (VT s9 None None None)) [] [] [] s1 true;
 KR 643 789 [] [AR 710 711 (TN s6) true] [] [] (Some (VT s6 None None None)) [] [] [] s1 true;
 KR 644 790 [] [] [] [] (Some (VT s9 None None None)) [] [] [] s1 true;
 KR 645 791 [] [] [] [] (Some (VT s9 None None None)) [] [] [] s1 true;
 KR 646 792 [] [] [] [] (Some (VT s9 None None None)) [] [] [] s1 true;
 KR 647 793 [] [] [] [] (Some (VT s6 None None None)) [] [] [] s1 true;
 KR 648 794 [] [] [] [] (Some (VT s9 None None None)) [] [] [] s1 true;
 KR 649 795 [] [] [] [] (Some (VT s9 (Some [s33;s34;s35;s36;s37]) None None)) [] [] [] s1 true;
 KR 650 796 [] [AR 797 797 (TN s6) true] [] [] (Some (VT s6 None None None)) [] [] [] s1 true;
 KR 651 798 [] [] [] [] (Some (VT s26 None (Some s6) None)) [] [] [] s1 true;
 KR 652 799 [] [] [] [] (Some (VT s9 (Some [s38;s39]) None None)) [] [] [] s1 true;
 KR 653 800 [CR 801 802 (Some 1134) false;CR 803 804 (Some 1135) false] [AR 658 659 (TN s6) true] [802;804] [(802,((Some 0%Z),(Some 1%Z)));(804,((Some 0%Z),(Some 1%Z)))] None [] [] [] s1 true;
 KR 654 805 [] [AR 694 695 (TN s6) true;AR 696 697 (TN s6) true;AR 698 699 (TN s6) false;AR 700 700 (TN s24) true;AR 701 702 (TN s7) false] [] [] None [] [] [] s1 true;
 KR 655 806 [] [AR 694 695 (TN s6) true;AR 696 697 (TN s6) true;AR 698 699 (TN s6) false] [] [] None [] [] [] s1 true;
 KR 656 807 [] [AR 694 695 (TN s6) true;AR 696 697 (TN s6) true;AR 698 699 (TN s6) false] [] [] None [] [] [] s1 true;
 KR 657 808 [] [] [] [] (Some (VT s6 None None None)) [] [] [] s1 true;
 KR 658 809 [] [AR 694 695 (TN s6) true;AR 696 697 (TN s6) true;AR 698 699 (TN s6) false] [] [] None [] [] [] s1 true;
 KR 659 810 [] [AR 694 695 (TN s6) true;AR 696 697 (TN s6) true;AR 698 699 (TN s6) false] [] [] None [] [] [] s1 true;
 KR 660 811 [] [AR 694 695 (TN s6) true;AR 696 697 (TN s6) true;AR 698 699 (TN s6) false] [] [] None [] [] [] s1 true;
 KR 661 812 [] [] [] [] (Some (VT s6 None None None)) [] [] [] s1 true;
 KR 662 813 [] [AR 694 695 (TN s6) true;AR 696 697 (TN s6) true;AR 698 699 (TN s6) false;AR 700 700 (TN s24) true;AR 701 702 (TN s7) false] [] [] None [] [] [] s1 true;
 KR 663 814 [] [AR 710 711 (TN s9) true] [] [] (Some (VT s9 None None None)) [] [] [] s1 true;
 KR 664 815 [] [AR 710 711 (TN s9) true] [] [] (Some (VT s9 None None None)) [] [] [] s1 true;
 KR 665 816 [CR 762 763 (Some 734) true] [AR 764 765 (TN s9) true;AR 766 767 (TN s6) false;AR 768 769 (TN s9) false;AR 770 771 (TN s7) false] [763] [(763,((Some 0%Z),None))] None [] [] [] s1 true;
 KR 666 817 [] [AR 694 695 (TN s6) true;AR 696 697 (TN s6) true;AR 698 699 (TN s6) false] [] [] None [] [] [] s1 true;
 KR 667 818 [] [AR 694 695 (TN s6) true;AR 696 697 (TN s6) true;AR 698 699 (TN s6) false] [] [] None [] [] [] s1 true;
 KR 668 819 [] [AR 694 695 (TN s6) true;AR 696 697 (TN s6) true;AR 698 699 (TN s6) false] [] [] None [] [] [] s1 true;
 KR 669 820 [] [] [] [] (Some (VT s6 None None (Some 1024%Z))) [] [] [] s1 true;
 KR 670 821 [] [] [] [] None [] [] [] s1 true;
 KR 671 822 [CR 821 823 (Some 670) false;CR 787 824 (Some 641) true;CR 788 825 (Some 642) true;CR 789 826 (Some 643) true] [] [823;824;825;826] [(823,((Some 0%Z),(Some 1%Z)));(824,((Some 1%Z),None));(825,((Some 1%Z),None));(826,((Some 1%Z),None))] None [] [] [] s1 true;
 KR 672 827 [CR 821 823 (Some 670) false;CR 790 828 (Some 644) false;CR 791 829 (Some 645) false;CR 792 830 (Some 646) false;CR 793 831 (Some 647) true;CR 794 832 (Some 648) true] [AR 833 834 (TC 649) true] [823;828;829;830;831;832] [(823,((Some 0%Z),(Some 1%Z)));(828,((Some 0%Z),(Some 1%Z)));(829,((Some 0%Z),(Some 1%Z)));(830,((Some 0%Z),(Some 1%Z)));(831,((Some 0%Z),None));(832,((Some 0%Z),None))] None [] [] [] s1 true;
 KR 673 835 [] [AR 797 797 (TN s6) true] [] [] (Some (VT s6 None None None)) [] [] [] s1 true;
 KR 674 836 [CR 755 756 (Some 1120) false;CR 800 837 (Some 653) true] [AR 838 838 (TC 652) false] [756;837] [(837,((Some 0%Z),None))] None [] [] [] s1 true;
 KR 675 839 [CR 762 763 (Some 734) true] [AR 764 765 (TN s9) true;AR 766 767 (TN s6) false;AR 768 769 (TN s9) false;AR 770 771 (TN s7) false] [763] [(763,((Some 0%Z),None))] None [] [] [] s1 true;
 KR 676 840 [CR 821 823 (Some 670) false;CR 787 824 (Some 641) true;CR 788 825 (Some 642) true;CR 789 826 (Some 643) true] [] [823;824;825;826] [(823,((Some 0%Z),(Some 1%Z)));(824,((Some 1%Z),None));(825,((Some 1%Z),None));(826,((Some 1%Z),None))] None [] [] [] s1 true;
 KR 677 841 [CR 821 823 (Some 670) false;CR 790 828 (Some 644) false;CR 791 829 (Some 645) false;CR 792 830 (Some 646) false;CR 793 831 (Some 647) true;CR 794 832 (Some 648) true] [AR 833 834 (TC 649) true] [823;828;829;830;831;832] [(823,((Some 0%Z),(Some 1%Z)));(828,((Some 0%Z),(Some 1%Z)));(829,((Some 0%Z),(Some 1%Z)));(830,((Some 0%Z),(Some 1%Z)));(831,((Some 0%Z),None));(832,((Some 0%Z),None))] None [] [] [] s1 true;
 KR 678 842 [CR 755 756 (Some 1120) false;CR 800 837 (Some 653) true] [AR 838 838 (TC 652) false] [756;837] [(837,((Some 0%Z),None))] None [] [] [] s1 true;
 KR 679 843 [CR 844 845 (Some 1124) false;CR 821 823 (Some 670) false;CR 842 846 (Some 678) true;CR 840 847 (Some 676) false;CR 841 848 (Some 677) true] [AR 176 177 (TN s20) false;AR 849 850 (TN s25) false;AR 851 852 (TN s14) false;AR 853 854 (TC 651) true;AR 855 856 (TN s6) false] [845;823;846;847;848] [(845,((Some 0%Z),(Some 1%Z)));(823,((Some 0%Z),(Some 1%Z)));(846,((Some 0%Z),None));(847,((Some 0%Z),(Some 1%Z)));(848,((Some 0%Z),None))] None [] [] [] s1 true;
 KR 680 857 [CR 844 845 (Some 1124) false;CR 821 823 (Some 670) false;CR 842 846 (Some 678) true;CR 840 847 (Some 676) false;CR 841 848 (Some 677) true;CR 805 858 (Some 654) true;CR 806 859 (Some 655) true;CR 807 860 (Some 656) true;CR 808 861 (Some 657) true] [AR 176 177 (TN s20) false;AR 849 850 (TN s25) false;AR 851 852 (TN s14) false;AR 853 854 (TC 651) true;AR 855 856 (TN s6) false] [845;823;846;847;848;858;859;860;861] [(845,((Some 0%Z),(Some 1%Z)));(823,((Some 0%Z),(Some 1%Z)));(846,((Some 0%Z),None));(847,((Some 0%Z),(Some 1%Z)));(848,((Some 0%Z),None));(858,((Some 0%Z),None));(859,((Some 0%Z),None));(860,((Some 0%Z),None));(861,((Some 0%Z),None))] None [] [] [] s1 true;
 KR 681 862 [CR 844 845 (Some 1124) false;CR 821 823 (Some 670) false;CR 842 846 (Some 678) true;CR 840 847 (Some 676) false;CR 841 848 (Some 677) true;CR 805 858 (Some 654) true;CR 806 859 (Some 655) true;CR 807 860 (Some 656) true;CR 808 861 (Some 657) true;CR 809 863 (Some 658) true;CR 810 864 (Some 659) true;CR 811 865 (Some 660) true;CR 812 866 (Some 661) true;CR 704 705 (Some 751) true] [AR 176 177 (TN s20) false;AR 849 850 (TN s25) false;AR 851 852 (TN s14) false;AR 853 854 (TC 651) true;AR 855 856 (TN s6) false;AR 867 868 (TN s7) false] [845;823;846;847;848;858;859;860;861;863;864;865;866;705] [(845,((Some 0%Z),(Some 1%Z)));(823,((Some 0%Z),(Some 1%Z)));(846,((Some 0%Z),None));(847,((Some 0%Z),(Some 1%Z)));(848,((Some 0%Z),None));(858,((Some 0%Z),None));(859,((Some 0%Z),None));(860,((Some 0%Z),None));(861,((Some 0%Z),None));(863,((Some 1%Z),None));(864,((Some 0%Z),None));(865,((Some 0%Z),None));(866,((Some 0%Z),None));(705,((Some 0%Z),None))] None [] [] [] s1 true;
 KR 682 869 [CR 814 870 (Some 663) true;CR 815 871 (Some 664) true;CR 839 774 (Some 675) true] [AR 700 700 (TN s24) true;AR 701 702 (TN s7) false] [870;871;774] [(870,((Some 1%Z),None));(871,((Some 0%Z),None));(774,((Some 1%Z),None))] None [] [] [] s1 true;
 KR 683 872 [CR 844 845 (Some 1124) false;CR 821 823 (Some 670) false;CR 842 846 (Some 678) true;CR 840 847 (Some 676) false;CR 841 848 (Some 677) true;CR 817 873 (Some 666) true;CR 811 865 (Some 660) true;CR 808 861 (Some 657) true] [AR 176 177 (TN s20) false;AR 849 850 (TN s25) false;AR 851 852 (TN s14) false;AR 853 854 (TC 651) true;AR 855 856 (TN s6) false] [845;823;846;847;848;873;865;861] [(845,((Some 0%Z),(Some 1%Z)));(823,((Some 0%Z),(Some 1%Z)));(846,((Some 0%Z),None));(847,((Some 0%Z),(Some 1%Z)));(848,((Some 0%Z),None));(873,((Some 1%Z),None));(865,((Some 0%Z),None));(861,((Some 0%Z),None))] None [] [] [] s1 true;
 KR 684 874 [CR 844 845 (Some 1124) false;CR 821 823 (Some 670) false;CR 842 846 (Some 678) true;CR 840 847 (Some 676) false;CR 841 848 (Some 677) true;CR 818 875 (Some 667) true;CR 811 865 (Some 660) true;CR 808 861 (Some 657) true] [AR 176 177 (TN s20) false;AR 849 850 (TN s25) false;AR 851 852 (TN s14) false;AR 853 854 (TC 651) true;AR 855 856 (TN s6) false] [845;823;846;847;848;875;865;861] [(845,((Some 0%Z),(Some 1%Z)));(823,((Some 0%Z),(Some 1%Z)));(846,((Some 0%Z),None));(847,((Some 0%Z),(Some 1%Z)));(848,((Some 0%Z),None));(875,((Some 1%Z),None));(865,((Some 0%Z),None));(861,((Some 0%Z),None))] None [] [] [] s1 true;
 KR 685 876 [CR 844 845 (Some 1124) false;CR 821 823 (Some 670) false;CR 842 846 (Some 678) true;CR 840 847 (Some 676) false;CR 841 848 (Some 677) true;CR 819 877 (Some 668) true;CR 811 865 (Some 660) true;CR 808 861 (Some 657) true;CR 812 866 (Some 661) true;CR 704 705 (Some 751) true] [AR 176 177 (TN s20) false;AR 849 850 (TN s25) false;AR 851 852 (TN s14) false;AR 853 854 (TC 651) true;AR 855 856 (TN s6) false] [845;823;846;847;848;877;865;861;866;705] [(845,((Some 0%Z),(Some 1%Z)));(823,((Some 0%Z),(Some 1%Z)));(846,((Some 0%Z),None));(847,((Some 0%Z),(Some 1%Z)));(848,((Some 0%Z),None));(877,((Some 1%Z),None));(865,((Some 0%Z),None));(861,((Some 0%Z),None));(866,((Some 0%Z),None));(705,((Some 0%Z),None))] None [] [] [] s1 true;
 KR 686 878 [CR 844 845 (Some 1124) false;CR 821 823 (Some 670) false;CR 820 879 (Some 669) true;CR 842 846 (Some 678) true] [AR 880 881 (TC 635) true;AR 849 850 (TN s25) false;AR 851 852 (TN s14) false;AR 176 177 (TN s20) false] [845;823;879;846] [(845,((Some 0%Z),(Some 1%Z)));(823,((Some 0%Z),(Some 1%Z)));(879,((Some 1%Z),None));(846,((Some 0%Z),None))] None [] [] [] s1 true;
 KR 687 882 [CR 844 845 (Some 1124) false;CR 821 823 (Some 670) false;CR 842 846 (Some 678) true;CR 840 847 (Some 676) false;CR 841 848 (Some 677) true] [AR 176 177 (TN s20) false;AR 849 850 (TN s25) false;AR 851 852 (TN s14) false;AR 853 854 (TC 651) true;AR 855 856 (TN s6) false] [845;823;846;847;848] [(845,((Some 0%Z),(Some 1%Z)));(823,((Some 0%Z),(Some 1%Z)));(846,((Some 0%Z),None));(847,((Some 0%Z),(Some 1%Z)));(848,((Some 0%Z),None))] None [] [] [] s1 true;
 KR 688 883 [CR 844 845 (Some 1124) false;CR 821 823 (Some 670) false;CR 842 846 (Some 678) true;CR 840 847 (Some 676) false;CR 841 848 (Some 677) true;CR 805 858 (Some 654) true;CR 806 859 (Some 655) true;CR 807 860 (Some 656) true;CR 808 861 (Some 657) true;CR 809 863 (Some 658) true;CR 810 864 (Some 659) true;CR 811 865 (Some 660) true;CR 812 866 (Some 661) true;CR 704 705 (Some 751) true] [AR 176 177 (TN s20) false;AR 849 850 (TN s25) false;AR 851 852 (TN s14) false;AR 853 854 (TC 651) true;AR 855 856 (TN s6) false;AR 867 868 (TN s7) false] [845;823;846;847;848;858;859;860;861;863;864;865;866;705] [(845,((Some 0%Z),(Some 1%Z)));(823,((Some 0%Z),(Some 1%Z)));(846,((Some 0%Z),None));(847,((Some 0%Z),(Some 1%Z)));(848,((Some 0%Z),None));(858,((Some 0%Z),None));(859,((Some 0%Z),None));(860,((Some 0%Z),None));(861,((Some 0%Z),None));(863,((Some 1%Z),None));(864,((Some 0%Z),None));(865,((Some 0%Z),None));(866,((Some 0%Z),None));(705,((Some 0%Z),None))] None [] [] [] s1 true;
 KR 689 884 [CR 814 870 (Some 663) true;CR 815 871 (Some 664) true;CR 839 774 (Some 675) true] [AR 700 700 (TN s24) true;AR 701 702 (TN s7) false] [870;871;774] [(870,((Some 1%Z),None));(871,((Some 0%Z),None));(774,((Some 1%Z),None))] None [] [] [] s1 true;
 KR 690 885 [CR 844 845 (Some 1124) false;CR 821 823 (Some 670) false;CR 842 846 (Some 678) true;CR 840 847 (Some 676) false;CR 841 848 (Some 677) true;CR 817 873 (Some 666) true;CR 811 865 (Some 660) true;CR 808 861 (Some 657) true] [AR 176 177 (TN s20) false;AR 849 850 (TN s25) false;AR 851 852 (TN s14) false;AR 853 854 (TC 651) true;AR 855 856 (TN s6) false] [845;823;846;847;848;873;865;861] [(845,((Some 0%Z),(Some 1%Z)));(823,((Some 0%Z),(Some 1%Z)));(846,((Some 0%Z),None));(847,((Some 0%Z),(Some 1%Z)));(848,((Some 0%Z),None));(873,((Some 1%Z),None));(865,((Some 0%Z),None));(861,((Some 0%Z),None))] None [] [] [] s1 true;
 KR 691 886 [CR 844 845 (Some 1124) false;CR 821 823 (Some 670) false;CR 842 846 (Some 678) true;CR 840 847 (Some 676) false;CR 841 848 (Some 677) true;CR 818 875 (Some 667) true;CR 811 865 (Some 660) true;CR 808 861 (Some 657) true] [AR 176 177 (TN s20) false;AR 849 850 (TN s25) false;AR 851 852 (TN s14) false;AR 853 854 (TC 651) true;AR 855 856 (TN s6) false] [845;823;846;847;848;875;865;861] [(845,((Some 0%Z),(Some 1%Z)));(823,((Some 0%Z),(Some 1%Z)));(846,((Some 0%Z),None));(847,((Some 0%Z),(Some 1%Z)));(848,((Some 0%Z),None));(875,((Some 1%Z),None));(865,((Some 0%Z),None));(861,((Some 0%Z),None))] None [] [] [] s1 true;
 KR 692 887 [CR 844 845 (Some 1124) false;CR 821 823 (Some 670) false;CR 842 846 (Some 678) true;CR 840 847 (Some 676) false;CR 841 848 (Some 677) true;CR 819 877 (Some 668) true;CR 811 865 (Some 660) true;CR 808 861 (Some 657) true;CR 812 866 (Some 661) true;CR 704 705 (Some 751) true] [AR 176 177 (TN s20) false;AR 849 850 (TN s25) false;AR 851 852 (TN s14) false;AR 853 854 (TC 651) true;AR 855 856 (TN s6) false] [845;823;846;847;848;877;865;861;866;705] [(845,((Some 0%Z),(Some 1%Z)));(823,((Some 0%Z),(Some 1%Z)));(846,((Some 0%Z),None));(847,((Some 0%Z),(Some 1%Z)));(848,((Some 0%Z),None));(877,((Some 1%Z),None));(865,((Some 0%Z),None));(861,((Some 0%Z),None));(866,((Some 0%Z),None));(705,((Some 0%Z),None))] None [] [] [] s1 true;
 KR 693 888 [CR 844 845 (Some 1124) false;CR 821 823 (Some 670) false;CR 820 879 (Some 669) true;CR 842 846 (Some 678) true] [AR 880 881 (TC 635) true;AR 849 850 (TN s25) false;AR 851 852 (TN s14) false;AR 176 177 (TN s20) false] [845;823;879;846] [(845,((Some 0%Z),(Some 1%Z)));(823,((Some 0%Z),(Some 1%Z)));(879,((Some 1%Z),None));(846,((Some 0%Z),None))] None [] [] [] s1 true;
 KR 694 889 [CR 844 845 (Some 1124) false;CR 821 823 (Some 670) false;CR 842 846 (Some 678) true;CR 840 847 (Some 676) false;CR 841 848 (Some 677) true;CR 805 858 (Some 654) true;CR 806 859 (Some 655) true;CR 807 860 (Some 656) true;CR 808 861 (Some 657) true;CR 813 890 (Some 662) true;CR 884 891 (Some 689) true] [AR 176 177 (TN s20) false;AR 849 850 (TN s25) false;AR 851 852 (TN s14) false;AR 853 854 (TC 651) true;AR 855 856 (TN s6) false;AR 892 893 (TN s7) false;AR 894 895 (TN s7) false] [845;823;846;847;848;858;859;860;861;890;891] [(845,((Some 0%Z),(Some 1%Z)));(823,((Some 0%Z),(Some 1%Z)));(846,((Some 0%Z),None));(847,((Some 0%Z),(Some 1%Z)));(848,((Some 0%Z),None));(858,((Some 0%Z),None));(859,((Some 0%Z),None));(860,((Some 0%Z),None));(861,((Some 0%Z),None));(890,((Some 1%Z),None));(891,((Some 0%Z),None))] None [] [] [] s1 true;
 KR 695 896 [CR 844 845 (Some 1124) false;CR 821 823 (Some 670) false;CR 842 846 (Some 678) true;CR 840 847 (Some 676) false;CR 841 848 (Some 677) true;CR 805 858 (Some 654) true;CR 806 859 (Some 655) true;CR 807 860 (Some 656) true;CR 808 861 (Some 657) true;CR 813 890 (Some 662) true;CR 884 891 (Some 689) true] [AR 176 177 (TN s20) false;AR 849 850 (TN s25) false;AR 851 852 (TN s14) false;AR 853 854 (TC 651) true;AR 855 856 (TN s6) false;AR 892 893 (TN s7) false;AR 894 895 (TN s7) false] [845;823;846;847;848;858;859;860;861;890;891] [(845,((Some 0%Z),(Some 1%Z)));(823,((Some 0%Z),(Some 1%Z)));(846,((Some 0%Z),None));(847,((Some 0%Z),(Some 1%Z)));(848,((Some 0%Z),None));(858,((Some 0%Z),None));(859,((Some 0%Z),None));(860,((Some 0%Z),None));(861,((Some 0%Z),None));(890,((Some 1%Z),None));(891,((Some 0%Z),None))] None [] [] [] s1 true;
 KR 696 897 [CR 844 845 (Some 1124) false;CR 821 823 (Some 670) false;CR 882 898 (Some 687) true;CR 883 899 (Some 688) true;CR 896 900 (Some 695) true;CR 885 901 (Some 690) true;CR 887 902 (Some 692) true;CR 886 903 (Some 691) true;CR 888 904 (Some 693) false;CR 840 847 (Some 676) false;CR 841 848 (Some 677) true;CR 835 905 (Some 673) true] [AR 906 907 (TC 635) true;AR 849 850 (TN s25) false;AR 851 852 (TN s14) false;AR 176 177 (TN s20) false] [845;823;898;899;900;901;902;903;904;847;848;905] [(845,((Some 0%Z),(Some 1%Z)));(823,((Some 0%Z),(Some 1%Z)));(898,((Some 0%Z),None));(899,((Some 0%Z),None));(900,((Some 0%Z),None));(901,((Some 0%Z),None));(902,((Some 0%Z),None));(903,((Some 0%Z),None));(904,((Some 0%Z),(Some 1%Z)));(847,((Some 0%Z),(Some 1%Z)));(848,((Some 0%Z),None));(905,((Some 0%Z),None))] None [] [] [] s1 true;
 KR 697 908 [CR 844 845 (Some 1124) false;CR 821 823 (Some 670) false;CR 882 898 (Some 687) true;CR 883 899 (Some 688) true;CR 896 900 (Some 695) true;CR 885 901 (Some 690) true;CR 887 902 (Some 692) true;CR 886 903 (Some 691) true;CR 888 904 (Some 693) false;CR 840 847 (Some 676) false;CR 841 848 (Some 677) true;CR 835 905 (Some 673) true] [AR 906 907 (TC 635) true;AR 849 850 (TN s25) false;AR 851 852 (TN s14) false;AR 176 177 (TN s20) false] [845;823;898;899;900;901;902;903;904;847;848;905] [(845,((Some 0%Z),(Some 1%Z)));(823,((Some 0%Z),(Some 1%Z)));(898,((Some 0%Z),None));(899,((Some 0%Z),None));(900,((Some 0%Z),None));(901,((Some 0%Z),None));(902,((Some 0%Z),None));(903,((Some 0%Z),None));(904,((Some 0%Z),(Some 1%Z)));(847,((Some 0%Z),(Some 1%Z)));(848,((Some 0%Z),None));(905,((Some 0%Z),None))] None [] [] [] s1 true;
 KR 698 909 [CR 844 845 (Some 1124) false;CR 821 823 (Some 670) false;CR 908 910 (Some 697) true;CR 911 912 (Some 699) true] [AR 849 850 (TN s25) false;AR 851 852 (TN s14) false;AR 176 177 (TN s20) false;AR 764 765 (TN s9) false] [845;823;910;912] [(845,((Some 0%Z),(Some 1%Z)));(823,((Some 0%Z),(Some 1%Z)));(910,((Some 0%Z),None));(912,((Some 0%Z),None))] None [] [] [] s1 true;
 KR 699 911 [CR 844 845 (Some 1124) false;CR 821 823 (Some 670) false;CR 908 910 (Some 697) true;CR 911 912 (Some 699) true] [AR 849 850 (TN s25) false;AR 851 852 (TN s14) false;AR 176 177 (TN s20) false;AR 764 765 (TN s9) false] [845;823;910;912] [(845,((Some 0%Z),(Some 1%Z)));(823,((Some 0%Z),(Some 1%Z)));(910,((Some 0%Z),None));(912,((Some 0%Z),None))] None [] [] [] s1 true;
 KR 700 913 [CR 914 915 (Some 716) false;CR 916 917 (Some 807) false] [AR 918 919 (TN s0) true;AR 920 921 (TN s0) true;AR 922 923 (TN s9) false;AR 924 925 (TN s7) false] [915;917] [(917,((Some 0%Z),(Some 1%Z)))] None [] [] [] s1 true;
 KR 701 926 [] [AR 918 919 (TN s0) true;AR 920 921 (TN s0) true;AR 927 928 (TN s6) true] [] [] None [] [] [] s1 true;
 KR 702 929 [] [AR 918 919 (TN s9) true;AR 920 921 (TN s9) true] [] [] (Some (VT s9 None None None)) [] [] [] s1 true;
 KR 703 930 [CR 914 915 (Some 716) false;CR 916 917 (Some 807) false] [AR 918 919 (TN s0) true;AR 920 921 (TN s0) true;AR 922 923 (TN s9) false;AR 924 925 (TN s7) false] [915;917] [(917,((Some 0%Z),(Some 1%Z)))] None [] [] [] s1 true;
 KR 704 931 [] [AR 918 919 (TN s0) true;AR 920 921 (TN s0) true;AR 927 928 (TN s6) true] [] [] None [] [] [] s1 true;
 KR 705 932 [] [AR 918 919 (TN s9) true;AR 920 921 (TN s9) true] [] [] (Some (VT s9 None None None)) [] [] [] s1 true;
 KR 706 933 [] [AR 934 935 (TN s6) true;AR 936 936 (TN s6) true;AR 937 938 (TN s0) false;AR 918 919 (TN s0) true;AR 920 921 (TN s0) true] [] [] None [] [] [] s1 true;
 KR 707 939 [] [AR 940 941 (TN s0) false;AR 918 919 (TN s0) true;AR 920 921 (TN s0) true] [] [] None [] [] [] s1 true;
 KR 708 942 [] [AR 934 935 (TN s6) true;AR 936 936 (TN s6) true;AR 937 938 (TN s0) false;AR 918 919 (TN s0) true;AR 920 921 (TN s0) true] [] [] None [] [] [] s1 true;
 KR 709 943 [] [AR 940 941 (TN s0) false;AR 918 919 (TN s0) true;AR 920 921 (TN s0) true] [] [] None [] [] [] s1 true;
 KR 710 944 [] [] [] [] None [] [] [] s1 true;
 KR 711 945 [] [] [] [] None [] [] [s40;s41;s42] s43 true;
 KR 712 946 [] [AR 947 948 (TN s9) false;AR 949 950 (TN s9) false] [] [] None [] [] [] s1 true;
 KR 713 951 [] [AR 947 948 (TN s9) false;AR 949 950 (TN s9) false;AR 952 953 (TN s6) false;AR 954 955 (TN s9) false] [] [] (Some (VT s9 None None None)) [] [] [] s1 true;
 KR 714 956 [CR 957 958 (Some 1154) false;CR 959 960 (Some 1155) true] [] [958;960] [(960,((Some 0%Z),None))] None [] [] [] s1 true;
 KR 715 961 [CR 957 958 (Some 1154) false;CR 959 960 (Some 1155) true] [] [958;960] [(960,((Some 0%Z),None))] None [] [] [] s1 true;
 KR 716 914 [] [AR 947 948 (TN s9) false;AR 949 950 (TN s9) false;AR 952 953 (TN s6) false;AR 954 955 (TN s9) false] [] [] (Some (VT s9 None None None)) [] [] [] s1 true;
 KR 717 962 [] [] [] [] (Some (VT s44 None None None)) [] [] [] s1 true;
 KR 718 963 [] [] [] [] (Some (VT s6 None None None)) [] [] [] s1 true;
 KR 719 964 [] [AR 965 966 (TN s25) false;AR 967 968 (TN s25) false;AR 969 970 (TN s6) false;AR 971 972 (TN s44) false;AR 973 9 (TN s9) false] [] [] None [] [] [] s1 true;
 KR 720 974 [CR 755 756 (Some 1120) true] [] [756] [(756,((Some 1%Z),None))] None [] [] [] s1 true;
 KR 721 975 [] [] [] [] None [] [] [] s1 true;
 KR 722 976 [] [] [] [] (Some (VT s6 None None None)) [] [] [] s1 true;
 KR 723 977 [] [] [] [] None [] [] [] s1 true;
 KR 724 978 [CR 976 979 (Some 722) true] [AR 980 981 (TN s45) false] [979] [(979,((Some 0%Z),None))] None [] [] [] s1 true;
 KR 725 982 [CR 957 958 (Some 1154) false;CR 959 960 (Some 1155) true] [] [958;960] [(960,((Some 0%Z),None))] None [] [] [] s1 true;
 KR 726 983 [] [] [] [] None [] [] [] s1 true;
 KR 727 984 [] [AR 973 9 (TN s9) false;AR 985 10 (TN s9) false] [] [] None [] [] [] s1 true;
 KR 728 986 [] [] [] [] (Some (VT s6 None None None)) [] [] [] s1 true;
 KR 729 987 [] [] [] [] (Some (VT s6 None None None)) [] [] [] s1 true;
 KR 730 988 [] [] [] [] (Some (VT s46 None None None)) [] [] [] s1 true;
 KR 731 989 [] [] [] [] (Some (VT s6 None None None)) [] [] [] s1 true;
 KR 732 990 [] [] [] [] (Some (VT s9 (Some [s47;s48;s49]) None None)) [] [] [] s1 true;
 KR 733 991 [] [AR 992 797 (TN s6) true] [] [] (Some (VT s9 None None None)) [] [] [] s1 true;
 KR 734 762 [] [] [] [] (Some (VT s46 None None None)) [] [] [s40;s41;s42] s43 true;
 KR 735 993 [CR 957 958 (Some 1154) false;CR 959 960 (Some 1155) true] [] [958;960] [(960,((Some 0%Z),None))] None [] [] [] s1 true;
 KR 736 994 [] [AR 947 948 (TN s9) false;AR 949 950 (TN s9) false] [] [] None [] [] [] s1 true;
 KR 737 995 [] [AR 947 948 (TN s9) false;AR 949 950 (TN s9) false;AR 952 953 (TN s6) false;AR 954 955 (TN s9) false] [] [] (Some (VT s9 None None None)) [] [] [] s1 true;
 KR 738 996 [] [AR 965 966 (TN s25) false;AR 967 968 (TN s25) false;AR 969 970 (TN s6) false;AR 971 972 (TN s44) false;AR 973 9 (TN s9) false] [] [] None [] [] [] s1 true;
 KR 739 997 [] [] [] [] None [] [] [] s1 true;
 KR 740 998 [CR 976 979 (Some 722) true] [] [979] [(979,((Some 1%Z),None))] None [] [] [] s1 true;
 KR 741 999 [] [] [] [] None [] [] [] s1 true;
 KR 742 1000 [CR 976 979 (Some 722) true] [AR 980 981 (TN s45) false] [979] [(979,((Some 0%Z),None))] None [] [] [] s1 true;
 KR 743 1001 [] [] [] [] None [] [] [] s1 true;
 KR 744 1002 [] [AR 973 9 (TN s9) false;AR 985 10 (TN s9) false] [] [] None [] [] [] s50 true;
 KR 745 1003 [CR 986 1004 (Some 728) false;CR 988 7 (Some 730) false;CR 987 8 (Some 729) false;CR 989 1005 (Some 731) true] [] [1004;7;8;1005] [(7,((Some 0%Z),(Some 1%Z)));(8,((Some 0%Z),(Some 1%Z)));(1005,((Some 0%Z),None))] None [] [] [] s51 true;
 KR 746 1006 [] [AR 992 797 (TN s6) true] [] [] (Some (VT s9 None None None)) [] [] [] s1 true;
 KR 747 1007 [CR 762 763 (Some 734) true] [AR 764 765 (TN s9) true;AR 766 767 (TN s6) false;AR 768 769 (TN s9) false] [763] [(763,((Some 0%Z),None))] None [] [(767,s52)] [] s1 true;
 KR 748 1008 [CR 994 1009 (Some 736) false;CR 995 1010 (Some 737) false;CR 961 1011 (Some 715) false;CR 996 1012 (Some 738) false] [AR 1013 66 (TN s6) true] [1009;1010;1011;1012] [(1009,((Some 0%Z),(Some 1%Z)));(1010,((Some 0%Z),(Some 1%Z)));(1011,((Some 0%Z),(Some 1%Z)));(1012,((Some 0%Z),(Some 1%Z)))] None [] [] [] s1 true;
 KR 749 1014 [CR 976 979 (Some 722) true] [] [979] [(979,((Some 1%Z),None))] None [] [] [] s1 true;
 KR 750 1015 [CR 986 1004 (Some 728) false;CR 988 7 (Some 730) false;CR 987 8 (Some 729) false;CR 989 1005 (Some 731) true] [] [1004;7;8;1005] [(7,((Some 0%Z),(Some 1%Z)));(8,((Some 0%Z),(Some 1%Z)));(1005,((Some 0%Z),None))] None [] [] [] s51 true;
 KR 751 704 [CR 762 763 (Some 734) true] [AR 764 765 (TN s9) true;AR 766 767 (TN s6) false;AR 768 769 (TN s9) false] [763] [(763,((Some 0%Z),None))] None [] [(767,s52)] [] s1 true;
 KR 752 1016 [CR 994 1009 (Some 736) false;CR 995 1010 (Some 737) false;CR 961 1011 (Some 715) false;CR 996 1012 (Some 738) false] [AR 1013 66 (TN s6) true] [1009;1010;1011;1012] [(1009,((Some 0%Z),(Some 1%Z)));(1010,((Some 0%Z),(Some 1%Z)));(1011,((Some 0%Z),(Some 1%Z)));(1012,((Some 0%Z),(Some 1%Z)))] None [] [] [] s1 true;
 KR 753 1017 [CR 997 1018 (Some 739) true;CR 1014 1019 (Some 749) true;CR 999 5 (Some 741) true;CR 1000 6 (Some 742) true] [AR 965 966 (TN s25) false;AR 967 968 (TN s25) false] [1018;1019;5;6] [(1018,((Some 0%Z),None));(1019,((Some 0%Z),None));(5,((Some 0%Z),None));(6,((Some 0%Z),None))] None [] [] [] s53 true;
 KR 754 1020 [CR 1002 1021 (Some 744) false;CR 1015 1022 (Some 750) false] [AR 1023 1024 (TN s25) true;AR 1025 1026 (TN s9) false;AR 1027 1028 (TN s25) false] [1021;1022] [(1021,((Some 0%Z),(Some 1%Z)))] None [] [] [] s1 true;
 KR 755 1029 [CR 704 705 (Some 751) true;CR 993 1030 (Some 735) true] [] [705;1030] [(705,((Some 0%Z),None));(1030,((Some 0%Z),None))] None [] [] [] s1 true;
 KR 756 1031 [CR 994 1009 (Some 736) false;CR 995 1010 (Some 737) false;CR 961 1011 (Some 715) false;CR 1016 1032 (Some 752) true] [] [1009;1010;1011;1032] [(1009,((Some 0%Z),(Some 1%Z)));(1010,((Some 0%Z),(Some 1%Z)));(1011,((Some 0%Z),(Some 1%Z)));(1032,((Some 0%Z),None))] None [] [] [] s1 true;
 KR 757 1033 [CR 997 1018 (Some 739) true;CR 1014 1019 (Some 749) true;CR 999 5 (Some 741) true;CR 1000 6 (Some 742) true] [AR 965 966 (TN s25) false;AR 967 968 (TN s25) false] [1018;1019;5;6] [(1018,((Some 0%Z),None));(1019,((Some 0%Z),None));(5,((Some 0%Z),None));(6,((Some 0%Z),None))] None [] [] [] s53 true;
 KR 758 1034 [CR 1002 1021 (Some 744) false;CR 1015 1022 (Some 750) false] [AR 1023 1024 (TN s25) true;AR 1025 1026 (TN s9) false;AR 1027 1028 (TN s25) false] [1021;1022] [(1021,((Some 0%Z),(Some 1%Z)))] None [] [] [] s1 true;
 KR 759 1035 [CR 704 705 (Some 751) true;CR 993 1030 (Some 735) true] [] [705;1030] [(705,((Some 0%Z),None));(1030,((Some 0%Z),None))] None [] [] [] s1 true;
 KR 760 1036 [CR 994 1009 (Some 736) false;CR 995 1010 (Some 737) false;CR 961 1011 (Some 715) false;CR 1016 1032 (Some 752) true] [] [1009;1010;1011;1032] [(1009,((Some 0%Z),(Some 1%Z)));(1010,((Some 0%Z),(Some 1%Z)));(1011,((Some 0%Z),(Some 1%Z)));(1032,((Some 0%Z),None))] None [] [] [] s1 true;
 KR 761 1037 [CR 962 1038 (Some 717) true;CR 963 1039 (Some 718) true;CR 982 1040 (Some 725) true;CR 706 707 (Some 766) true] [] [1038;1039;707;1040] [(1038,((Some 0%Z),None));(1039,((Some 0%Z),None));(707,((Some 0%Z),None));(1040,((Some 0%Z),None))] None [] [] [] s1 true;
 KR 762 1041 [CR 962 1038 (Some 717) true;CR 963 1039 (Some 718) true;CR 982 1040 (Some 725) true;CR 706 707 (Some 766) true] [] [1038;1039;707;1040] [(1038,((Some 0%Z),None));(1039,((Some 0%Z),None));(707,((Some 0%Z),None));(1040,((Some 0%Z),None))] None [] [] [] s1 true;
 KR 763 1042 [CR 1006 1043 (Some 746) true;CR 1041 1044 (Some 762) false] [AR 1045 1046 (TN s6) true;AR 1047 1048 (TC 732) true] [1043;1044] [(1043,((Some 1%Z),None));(1044,((Some 0%Z),(Some 1%Z)))] None [] [] [] s1 true;
 KR 764 1049 [CR 1006 1043 (Some 746) true;CR 1041 1044 (Some 762) false] [AR 1045 1046 (TN s6) true;AR 1047 1048 (TC 732) true] [1043;1044] [(1043,((Some 1%Z),None));(1044,((Some 0%Z),(Some 1%Z)))] None [] [] [] s1 true;
 KR 765 1050 [CR 914 915 (Some 716) false;CR 844 845 (Some 1124) false;CR 1036 0 (Some 760) false;CR 1033 1051 (Some 757) false;CR 1001 2 (Some 743) true;CR 1034 3 (Some 758) true;CR 1049 4 (Some 764) true;CR 1035 1 (Some 759) true;CR 1052 1053 (Some 768) false] [AR 1054 1055 (TN s9) true;AR 176 177 (TN s20) true;AR 1056 1057 (TN s25) true] [915;845;0;1051;1053;2;3;4;1] [(845,((Some 0%Z),(Some 1%Z)));(0,((Some 0%Z),(Some 1%Z)));(1051,((Some 0%Z),(Some 1%Z)));(1053,((Some 0%Z),(Some 1%Z)));(2,((Some 0%Z),None));(3,((Some 0%Z),None));(4,((Some 0%Z),None));(1,((Some 0%Z),None))] None [] [] [] s54 true;
 KR 766 706 [CR 914 915 (Some 716) false;CR 844 845 (Some 1124) false;CR 1036 0 (Some 760) false;CR 1033 1051 (Some 757) false;CR 1001 2 (Some 743) true;CR 1034 3 (Some 758) true;CR 1049 4 (Some 764) true;CR 1035 1 (Some 759) true;CR 1052 1053 (Some 768) false] [AR 1054 1055 (TN s9) true;AR 176 177 (TN s20) true;AR 1056 1057 (TN s25) true] [915;845;0;1051;1053;2;3;4;1] [(845,((Some 0%Z),(Some 1%Z)));(0,((Some 0%Z),(Some 1%Z)));(1051,((Some 0%Z),(Some 1%Z)));(1053,((Some 0%Z),(Some 1%Z)));(2,((Some 0%Z),None));(3,((Some 0%Z),None));(4,((Some 0%Z),None));(1,((Some 0%Z),None))] None [] [] [] s54 true;
 KR 767 1058 [CR 962 1038 (Some 717) true;CR 963 1039 (Some 718) true;CR 706 707 (Some 766) true;CR 982 1040 (Some 725) true] [] [1038;1039;707;1040] [(1038,((Some 0%Z),None));(1039,((Some 0%Z),None));(707,((Some 0%Z),None));(1040,((Some 0%Z),None))] None [] [] [] s1 true;
 KR 768 1052 [CR 962 1038 (Some 717) true;CR 963 1039 (Some 718) true;CR 706 707 (Some 766) true;CR 982 1040 (Some 725) true] [] [1038;1039;707;1040] [(1038,((Some 0%Z),None));(1039,((Some 0%Z),None));(707,((Some 0%Z),None));(1040,((Some 0%Z),None))] None [] [] [] s1 true;
 KR 769 1059 [] [] [] [] None [] [] [] s1 true;
 KR 770 1060 [] [] [] [] (Some (VT s9 None None None)) [] [] [] s1 true;
 KR 771 1061 [] [] [] [] None [] [] [] s1 true;
 KR 772 1062 [] [] [] [] (Some (VT s9 (Some [s55;s56;s57;s58]) None None)) [] [] [] s1 true;
 KR 773 1063 [] [AR 952 953 (TN s6) false;AR 949 950 (TN s9) false;AR 1064 1065 (TN s7) false] [] [] None [] [] [] s1 true;
 KR 774 1066 [] [] [] [] (Some (VT s6 None None None)) [] [] [] s1 true;
 KR 775 1067 [] [AR 1068 1069 (TN s6) true;AR 764 765 (TN s9) false;AR 1070 1071 (TN s6) false] [] [] None [] [] [] s1 true;
 KR 776 1072 [] [] [] [] (Some (VT s6 None None None)) [] [] [] s1 true;
 KR 777 1073 [] [] [] [] (Some (VT s9 None None None)) [] [] [] s1 true;
 KR 778 1074 [] [] [] [] (Some (VT s9 None None None)) [] [] [] s1 true;
 KR 779 1075 [CR 957 958 (Some 1154) false;CR 959 960 (Some 1155) true] [] [958;960] [(960,((Some 0%Z),None))] None [] [] [] s1 true;
 KR 780 1076 [] [] [] [] None [] [] [] s1 true;
 KR 781 1077 [] [] [] [] (Some (VT s9 None None None)) [] [] [] s1 true;
 KR 782 1078 [] [] [] [] None [] [] [] s1 true;
 KR 783 1079 [] [] [] [] None [] [] [] s1 true;
 KR 784 1080 [CR 914 915 (Some 716) false;CR 844 845 (Some 1124) false;CR 1078 823 (Some 782) false] [AR 176 177 (TN s20) true;AR 1054 1055 (TN s9) true;AR 1056 1057 (TN s25) true;AR 1081 1082 (TN s6) false;AR 1083 1084 (TN s6) false] [915;845;823] [(915,((Some 0%Z),(Some 1%Z)));(845,((Some 0%Z),(Some 1%Z)));(823,((Some 0%Z),(Some 1%Z)))] None [] [] [] s1 true;
 KR 785 1085 [CR 914 915 (Some 716) false;CR 844 845 (Some 1124) false;CR 1078 823 (Some 782) false;CR 962 1038 (Some 717) true] [AR 176 177 (TN s20) true;AR 1054 1055 (TN s9) true;AR 1056 1057 (TN s25) true;AR 1081 1082 (TN s6) false;AR 1083 1084 (TN s6) false] [915;845;823;1038] [(915,((Some 0%Z),(Some 1%Z)));(845,((Some 0%Z),(Some 1%Z)));(823,((Some 0%Z),(Some 1%Z)));(1038,((Some 1%Z),None))] None [] [] [] s1 true;
 KR 786 1086 [CR 914 915 (Some 716) false;CR 844 845 (Some 1124) false;CR 1078 823 (Some 782) false;CR 1036 0 (Some 760) false] [AR 176 177 (TN s20) true;AR 1054 1055 (TN s9) true;AR 1056 1057 (TN s25) true;AR 1081 1082 (TN s6) false;AR 1083 1084 (TN s6) false] [915;845;823;0] [(915,((Some 0%Z),(Some 1%Z)));(845,((Some 0%Z),(Some 1%Z)));(823,((Some 0%Z),(Some 1%Z)))] None [] [] [] s1 true;
 KR 787 1087 [CR 986 1004 (Some 728) true;CR 987 8 (Some 729) true] [AR 1088 1089 (TC 772) false] [1004;8] [(1004,((Some 0%Z),None));(8,((Some 0%Z),None))] None [] [] [] s1 true;
 KR 788 1090 [CR 914 915 (Some 716) false;CR 844 845 (Some 1124) false;CR 1078 823 (Some 782) false;CR 1036 0 (Some 760) false;CR 704 705 (Some 751) true] [AR 176 177 (TN s20) true;AR 1054 1055 (TN s9) true;AR 1056 1057 (TN s25) true;AR 1081 1082 (TN s6) false;AR 1083 1084 (TN s6) false] [915;845;823;0;705] [(915,((Some 0%Z),(Some 1%Z)));(845,((Some 0%Z),(Some 1%Z)));(823,((Some 0%Z),(Some 1%Z)));(705,((Some 0%Z),None))] None [] [] [] s1 true;
 KR 789 1091 [CR 914 915 (Some 716) false;CR 844 845 (Some 1124) false;CR 1078 823 (Some 782) false;CR 1036 0 (Some 760) false;CR 1006 1043 (Some 746) true;CR 1041 1044 (Some 762) false] [AR 176 177 (TN s20) true;AR 1054 1055 (TN s9) true;AR 1056 1057 (TN s25) true;AR 1081 1082 (TN s6) false;AR 1083 1084 (TN s6) false;AR 1045 1046 (TN s6) true] [915;845;823;0;1043;1044] [(915,((Some 0%Z),(Some 1%Z)));(845,((Some 0%Z),(Some 1%Z)));(823,((Some 0%Z),(Some 1%Z)));(1043,((Some 1%Z),None));(1044,((Some 0%Z),(Some 1%Z)))] None [] [] [] s1 true;
 KR 790 1092 [] [AR 952 953 (TN s6) false;AR 949 950 (TN s9) false;AR 1064 1065 (TN s7) false] [] [] None [] [] [] s1 true;
 KR 791 1093 [] [AR 1068 1069 (TN s6) true;AR 764 765 (TN s9) false;AR 1070 1071 (TN s6) false] [] [] None [] [] [] s1 true;
 KR 792 1094 [CR 914 915 (Some 716) false;CR 844 845 (Some 1124) false;CR 1078 823 (Some 782) false;CR 1073 1095 (Some 777) false] [AR 176 177 (TN s20) true;AR 1054 1055 (TN s9) true;AR 1056 1057 (TN s25) true;AR 1081 1082 (TN s6) false;AR 1083 1084 (TN s6) false] [915;845;823;1095] [(915,((Some 0%Z),(Some 1%Z)));(845,((Some 0%Z),(Some 1%Z)));(823,((Some 0%Z),(Some 1%Z)))] None [] [] [] s1 true;
 KR 793 1096 [] [] [] [] None [] [] [] s1 true;
 KR 794 1097 [CR 914 915 (Some 716) false;CR 844 845 (Some 1124) false;CR 1078 823 (Some 782) false;CR 994 1009 (Some 736) false;CR 995 1010 (Some 737) false;CR 961 1011 (Some 715) false;CR 1077 1026 (Some 781) true] [AR 176 177 (TN s20) true;AR 1054 1055 (TN s9) true;AR 1056 1057 (TN s25) true;AR 1081 1082 (TN s6) false;AR 1083 1084 (TN s6) false;AR 1098 1099 (TN s9) false;AR 967 968 (TN s25) false] [915;845;823;1009;1010;1011;1026] [(915,((Some 0%Z),(Some 1%Z)));(845,((Some 0%Z),(Some 1%Z)));(823,((Some 0%Z),(Some 1%Z)));(1009,((Some 0%Z),(Some 1%Z)));(1010,((Some 0%Z),(Some 1%Z)));(1011,((Some 0%Z),(Some 1%Z)));(1026,((Some 0%Z),None))] None [] [] [] s1 true;
 KR 795 1100 [CR 914 915 (Some 716) false;CR 844 845 (Some 1124) false;CR 1078 823 (Some 782) false;CR 994 1009 (Some 736) false;CR 995 1010 (Some 737) false;CR 961 1011 (Some 715) false;CR 1092 1101 (Some 790) false] [AR 176 177 (TN s20) true;AR 1054 1055 (TN s9) true;AR 1056 1057 (TN s25) true;AR 1081 1082 (TN s6) false;AR 1083 1084 (TN s6) false] [915;845;823;1009;1010;1011;1101] [(915,((Some 0%Z),(Some 1%Z)));(845,((Some 0%Z),(Some 1%Z)));(823,((Some 0%Z),(Some 1%Z)));(1009,((Some 0%Z),(Some 1%Z)));(1010,((Some 0%Z),(Some 1%Z)));(1011,((Some 0%Z),(Some 1%Z)))] None [] [] [] s1 true;
 KR 796 1102 [CR 914 915 (Some 716) false;CR 844 845 (Some 1124) false;CR 1078 823 (Some 782) false;CR 962 1038 (Some 717) true] [AR 176 177 (TN s20) true;AR 1054 1055 (TN s9) true;AR 1056 1057 (TN s25) true;AR 1081 1082 (TN s6) false;AR 1083 1084 (TN s6) false] [915;845;823;1038] [(915,((Some 0%Z),(Some 1%Z)));(845,((Some 0%Z),(Some 1%Z)));(823,((Some 0%Z),(Some 1%Z)));(1038,((Some 1%Z),None))] None [] [] [] s1 true;
 KR 797 1103 [CR 914 915 (Some 716) false;CR 844 845 (Some 1124) false;CR 1078 823 (Some 782) false;CR 1036 0 (Some 760) false] [AR 176 177 (TN s20) true;AR 1054 1055 (TN s9) true;AR 1056 1057 (TN s25) true;AR 1081 1082 (TN s6) false;AR 1083 1084 (TN s6) false] [915;845;823;0] [(915,((Some 0%Z),(Some 1%Z)));(845,((Some 0%Z),(Some 1%Z)));(823,((Some 0%Z),(Some 1%Z)))] None [] [] [] s1 true;
 KR 798 1104 [CR 986 1004 (Some 728) true;CR 987 8 (Some 729) true] [AR 1088 1089 (TC 772) false] [1004;8] [(1004,((Some 0%Z),None));(8,((Some 0%Z),None))] None [] [] [] s1 true;
 KR 799 1105 [CR 914 915 (Some 716) false;CR 844 845 (Some 1124) false;CR 1078 823 (Some 782) false;CR 1036 0 (Some 760) false;CR 704 705 (Some 751) true] [AR 176 177 (TN s20) true;AR 1054 1055 (TN s9) true;AR 1056 1057 (TN s25) true;AR 1081 1082 (TN s6) false;AR 1083 1084 (TN s6) false] [915;845;823;0;705] [(915,((Some 0%Z),(Some 1%Z)));(845,((Some 0%Z),(Some 1%Z)));(823,((Some 0%Z),(Some 1%Z)));(705,((Some 0%Z),None))] None [] [] [] s1 true;
 KR 800 1106 [CR 914 915 (Some 716) false;CR 844 845 (Some 1124) false;CR 1078 823 (Some 782) false;CR 1036 0 (Some 760) false;CR 1006 1043 (Some 746) true;CR 1041 1044 (Some 762) false] [AR 176 177 (TN s20) true;AR 1054 1055 (TN s9) true;AR 1056 1057 (TN s25) true;AR 1081 1082 (TN s6) false;AR 1083 1084 (TN s6) false;AR 1045 1046 (TN s6) true] [915;845;823;0;1043;1044] [(915,((Some 0%Z),(Some 1%Z)));(845,((Some 0%Z),(Some 1%Z)));(823,((Some 0%Z),(Some 1%Z)));(1043,((Some 1%Z),None));(1044,((Some 0%Z),(Some 1%Z)))] None [] [] [] s1 true;
 KR 801 1107 [CR 1093 1108 (Some 791) true;CR 1072 1109 (Some 776) false] [] [1108;1109] [(1108,((Some 1%Z),None));(1109,((Some 0%Z),(Some 1%Z)))] None [] [] [] s1 true;
 KR 802 1110 [CR 914 915 (Some 716) false;CR 844 845 (Some 1124) false;CR 1078 823 (Some 782) false;CR 1073 1095 (Some 777) false] [AR 176 177 (TN s20) true;AR 1054 1055 (TN s9) true;AR 1056 1057 (TN s25) true;AR 1081 1082 (TN s6) false;AR 1083 1084 (TN s6) false] [915;845;823;1095] [(915,((Some 0%Z),(Some 1%Z)));(845,((Some 0%Z),(Some 1%Z)));(823,((Some 0%Z),(Some 1%Z)))] None [] [] [] s1 true;
 KR 803 1111 [CR 914 915 (Some 716) false;CR 844 845 (Some 1124) false;CR 1078 823 (Some 782) false;CR 995 1010 (Some 737) false;CR 961 1011 (Some 715) false;CR 1074 1112 (Some 778) false;CR 1075 1113 (Some 779) false;CR 1096 1114 (Some 793) false] [AR 176 177 (TN s20) true;AR 1054 1055 (TN s9) true;AR 1056 1057 (TN s25) true;AR 1081 1082 (TN s6) false;AR 1083 1084 (TN s6) false] [915;845;823;1010;1011;1112;1113;1114] [(915,((Some 0%Z),(Some 1%Z)));(845,((Some 0%Z),(Some 1%Z)));(823,((Some 0%Z),(Some 1%Z)));(1010,((Some 0%Z),(Some 1%Z)));(1011,((Some 0%Z),(Some 1%Z)));(1112,((Some 0%Z),(Some 1%Z)));(1113,((Some 0%Z),(Some 1%Z)));(1114,((Some 0%Z),(Some 1%Z)))] None [] [] [] s1 true;
 KR 804 1115 [CR 914 915 (Some 716) false;CR 844 845 (Some 1124) false;CR 1078 823 (Some 782) false;CR 994 1009 (Some 736) false;CR 995 1010 (Some 737) false;CR 961 1011 (Some 715) false;CR 1077 1026 (Some 781) true] [AR 176 177 (TN s20) true;AR 1054 1055 (TN s9) true;AR 1056 1057 (TN s25) true;AR 1081 1082 (TN s6) false;AR 1083 1084 (TN s6) false;AR 1098 1099 (TN s9) false;AR 967 968 (TN s25) false] [915;845;823;1009;1010;1011;1026] [(915,((Some 0%Z),(Some 1%Z)));(845,((Some 0%Z),(Some 1%Z)));(823,((Some 0%Z),(Some 1%Z)));(1009,((Some 0%Z),(Some 1%Z)));(1010,((Some 0%Z),(Some 1%Z)));(1011,((Some 0%Z),(Some 1%Z)));(1026,((Some 0%Z),None))] None [] [] [] s1 true;
 KR 805 1116 [CR 914 915 (Some 716) false;CR 844 845 (Some 1124) false;CR 1078 823 (Some 782) false;CR 994 1009 (Some 736) false;CR 995 1010 (Some 737) false;CR 961 1011 (Some 715) false;CR 1092 1101 (Some 790) false] [AR 176 177 (TN s20) true;AR 1054 1055 (TN s9) true;AR 1056 1057 (TN s25) true;AR 1081 1082 (TN s6) false;AR 1083 1084 (TN s6) false] [915;845;823;1009;1010;1011;1101] [(915,((Some 0%Z),(Some 1%Z)));(845,((Some 0%Z),(Some 1%Z)));(823,((Some 0%Z),(Some 1%Z)));(1009,((Some 0%Z),(Some 1%Z)));(1010,((Some 0%Z),(Some 1%Z)));(1011,((Some 0%Z),(Some 1%Z)))] None [] [] [] s1 true;
 KR 806 1117 [CR 914 915 (Some 716) false;CR 844 845 (Some 1124) false;CR 1078 823 (Some 782) false;CR 1036 0 (Some 760) false;CR 1104 1118 (Some 798) false] [AR 176 177 (TN s20) true;AR 1054 1055 (TN s9) true;AR 1056 1057 (TN s25) true;AR 1081 1082 (TN s6) false;AR 1083 1084 (TN s6) false;AR 1025 1026 (TN s9) false] [915;845;823;0;1118] [(915,((Some 0%Z),(Some 1%Z)));(845,((Some 0%Z),(Some 1%Z)));(823,((Some 0%Z),(Some 1%Z)));(1118,((Some 0%Z),(Some 1%Z)))] None [] [] [] s1 true;
 KR 807 916 [CR 1093 1108 (Some 791) true;CR 1072 1109 (Some 776) false] [] [1108;1109] [(1108,((Some 1%Z),None));(1109,((Some 0%Z),(Some 1%Z)))] None [] [] [] s1 true;
 KR 808 1119 [CR 914 915 (Some 716) false;CR 844 845 (Some 1124) false;CR 1078 823 (Some 782) false;CR 995 1010 (Some 737) false;CR 961 1011 (Some 715) false;CR 1074 1112 (Some 778) false;CR 1075 1113 (Some 779) false;CR 1096 1114 (Some 793) false] [AR 176 177 (TN s20) true;AR 1054 1055 (TN s9) true;AR 1056 1057 (TN s25) true;AR 1081 1082 (TN s6) false;AR 1083 1084 (TN s6) false] [915;845;823;1010;1011;1112;1113;1114] [(915,((Some 0%Z),(Some 1%Z)));(845,((Some 0%Z),(Some 1%Z)));(823,((Some 0%Z),(Some 1%Z)));(1010,((Some 0%Z),(Some 1%Z)));(1011,((Some 0%Z),(Some 1%Z)));(1112,((Some 0%Z),(Some 1%Z)));(1113,((Some 0%Z),(Some 1%Z)));(1114,((Some 0%Z),(Some 1%Z)))] None [] [] [] s1 true;
 KR 809 1120 [CR 914 915 (Some 716) false;CR 844 845 (Some 1124) false;CR 1078 823 (Some 782) false;CR 1036 0 (Some 760) false;CR 1104 1118 (Some 798) false] [AR 176 177 (TN s20) true;AR 1054 1055 (TN s9) true;AR 1056 1057 (TN s25) true;AR 1081 1082 (TN s6) false;AR 1083 1084 (TN s6) false;AR 1025 1026 (TN s9) false] [915;845;823;0;1118] [(915,((Some 0%Z),(Some 1%Z)));(845,((Some 0%Z),(Some 1%Z)));(823,((Some 0%Z),(Some 1%Z)));(1118,((Some 0%Z),(Some 1%Z)))] None [] [] [] s1 true;
 KR 810 1121 [CR 916 917 (Some 807) false;CR 1066 1122 (Some 774) true] [AR 1123 1124 (TN s45) false] [917;1122] [(917,((Some 0%Z),(Some 1%Z)));(1122,((Some 0%Z),None))] None [] [] [] s1 true;
 KR 811 1125 [CR 916 917 (Some 807) false;CR 1066 1122 (Some 774) true] [AR 1123 1124 (TN s45) false] [917;1122] [(917,((Some 0%Z),(Some 1%Z)));(1122,((Some 0%Z),None))] None [] [] [] s1 true;
 KR 812 1126 [CR 914 915 (Some 716) false;CR 844 845 (Some 1124) false;CR 1078 823 (Some 782) false;CR 1036 0 (Some 760) false;CR 1092 1101 (Some 790) false;CR 1033 1051 (Some 757) false;CR 1104 1118 (Some 798) false;CR 1125 1127 (Some 811) false] [AR 176 177 (TN s20) true;AR 1054 1055 (TN s9) true;AR 1056 1057 (TN s25) true;AR 1081 1082 (TN s6) false;AR 1083 1084 (TN s6) false;AR 1128 1129 (TN s7) false;AR 924 925 (TN s7) false;AR 1130 1131 (TN s6) false;AR 1132 1133 (TN s24) false;AR 927 928 (TN s6) false;AR 1134 1135 (TN s24) false;AR 922 923 (TN s9) false] [915;845;823;0;1101;1051;1118;1127] [(915,((Some 0%Z),(Some 1%Z)));(845,((Some 0%Z),(Some 1%Z)));(823,((Some 0%Z),(Some 1%Z)));(0,((Some 0%Z),(Some 1%Z)));(1101,((Some 0%Z),(Some 1%Z)));(1051,((Some 0%Z),(Some 1%Z)));(1118,((Some 0%Z),(Some 1%Z)));(1127,((Some 0%Z),(Some 1%Z)))] None [] [] [] s1 true;
 KR 813 1136 [CR 914 915 (Some 716) false;CR 844 845 (Some 1124) false;CR 1078 823 (Some 782) false;CR 1036 0 (Some 760) false;CR 1092 1101 (Some 790) false;CR 1033 1051 (Some 757) false;CR 1104 1118 (Some 798) false;CR 1125 1127 (Some 811) false] [AR 176 177 (TN s20) true;AR 1054 1055 (TN s9) true;AR 1056 1057 (TN s25) true;AR 1081 1082 (TN s6) false;AR 1083 1084 (TN s6) false;AR 1128 1129 (TN s7) false;AR 924 925 (TN s7) false;AR 1130 1131 (TN s6) false;AR 1132 1133 (TN s24) false;AR 927 928 (TN s6) false;AR 1134 1135 (TN s24) false;AR 922 923 (TN s9) false] [915;845;823;0;1101;1051;1118;1127] [(915,((Some 0%Z),(Some 1%Z)));(845,((Some 0%Z),(Some 1%Z)));(823,((Some 0%Z),(Some 1%Z)));(0,((Some 0%Z),(Some 1%Z)));(1101,((Some 0%Z),(Some 1%Z)));(1051,((Some 0%Z),(Some 1%Z)));(1118,((Some 0%Z),(Some 1%Z)));(1127,((Some 0%Z),(Some 1%Z)))] None [] [] [] s1 true;
 KR 814 1137 [CR 1060 1138 (Some 770) false;CR 1079 1139 (Some 783) false;CR 1140 1141 (Some 826) false] [] [1141;1138;1139] [(1138,((Some 0%Z),(Some 1%Z)));(1139,((Some 0%Z),(Some 1%Z)))] None [] [] [] s1 true;
 KR 815 1142 [CR 1060 1138 (Some 770) false;CR 1079 1139 (Some 783) false;CR 1140 1141 (Some 826) false] [] [1141;1138;1139] [(1138,((Some 0%Z),(Some 1%Z)));(1139,((Some 0%Z),(Some 1%Z)))] None [] [] [] s1 true;
 KR 816 1143 [CR 914 915 (Some 716) false;CR 844 845 (Some 1124) false;CR 1078 823 (Some 782) false;CR 1142 1144 (Some 815) false] [AR 176 177 (TN s20) true;AR 971 972 (TN s44) false;AR 1054 1055 (TN s9) true;AR 1056 1057 (TN s25) true;AR 1081 1082 (TN s6) false;AR 1083 1084 (TN s6) false] [915;845;823;1144] [(915,((Some 0%Z),(Some 1%Z)));(845,((Some 0%Z),(Some 1%Z)));(823,((Some 0%Z),(Some 1%Z)))] None [] [] [] s1 true;
 KR 817 1145 [CR 914 915 (Some 716) false;CR 844 845 (Some 1124) false;CR 1078 823 (Some 782) false;CR 1142 1144 (Some 815) false;CR 706 707 (Some 766) true;CR 982 1040 (Some 725) true] [AR 176 177 (TN s20) true;AR 971 972 (TN s44) false;AR 1054 1055 (TN s9) true;AR 1056 1057 (TN s25) true;AR 1081 1082 (TN s6) false;AR 1083 1084 (TN s6) false] [915;845;823;1144;707;1040] [(915,((Some 0%Z),(Some 1%Z)));(845,((Some 0%Z),(Some 1%Z)));(823,((Some 0%Z),(Some 1%Z)));(707,((Some 0%Z),None));(1040,((Some 0%Z),None))] None [] [] [] s1 true;
 KR 818 1146 [CR 914 915 (Some 716) false;CR 844 845 (Some 1124) false;CR 1078 823 (Some 782) false;CR 1142 1144 (Some 815) false] [AR 176 177 (TN s20) true;AR 971 972 (TN s44) false;AR 1054 1055 (TN s9) true;AR 1056 1057 (TN s25) true;AR 1081 1082 (TN s6) false;AR 1083 1084 (TN s6) false] [915;845;823;1144] [(915,((Some 0%Z),(Some 1%Z)));(845,((Some 0%Z),(Some 1%Z)));(823,((Some 0%Z),(Some 1%Z)))] None [] [] [] s1 true;
 KR 819 1147 [CR 914 915 (Some 716) false;CR 844 845 (Some 1124) false;CR 1078 823 (Some 782) false;CR 1142 1144 (Some 815) false] [AR 176 177 (TN s20) true;AR 971 972 (TN s44) false;AR 1054 1055 (TN s9) true;AR 1056 1057 (TN s25) true;AR 1081 1082 (TN s6) false;AR 1083 1084 (TN s6) false] [915;845;823;1144] [(915,((Some 0%Z),(Some 1%Z)));(845,((Some 0%Z),(Some 1%Z)));(823,((Some 0%Z),(Some 1%Z)))] None [] [] [] s1 true;
 KR 820 1148 [CR 914 915 (Some 716) false;CR 844 845 (Some 1124) false;CR 1078 823 (Some 782) false;CR 1142 1144 (Some 815) false] [AR 176 177 (TN s20) true;AR 971 972 (TN s44) false;AR 1054 1055 (TN s9) true;AR 1056 1057 (TN s25) true;AR 1081 1082 (TN s6) false;AR 1083 1084 (TN s6) false] [915;845;823;1144] [(915,((Some 0%Z),(Some 1%Z)));(845,((Some 0%Z),(Some 1%Z)));(823,((Some 0%Z),(Some 1%Z)))] None [] [] [] s1 true;
 KR 821 1149 [CR 914 915 (Some 716) false;CR 844 845 (Some 1124) false;CR 1078 823 (Some 782) false;CR 1142 1144 (Some 815) false;CR 995 1010 (Some 737) false;CR 961 1011 (Some 715) false] [AR 176 177 (TN s20) true;AR 971 972 (TN s44) false;AR 1054 1055 (TN s9) true;AR 1056 1057 (TN s25) true;AR 1081 1082 (TN s6) false;AR 1083 1084 (TN s6) false] [915;845;823;1144;1010;1011] [(915,((Some 0%Z),(Some 1%Z)));(845,((Some 0%Z),(Some 1%Z)));(823,((Some 0%Z),(Some 1%Z)));(1010,((Some 0%Z),(Some 1%Z)));(1011,((Some 0%Z),(Some 1%Z)))] None [] [] [] s1 true;
 KR 822 1150 [CR 914 915 (Some 716) false;CR 844 845 (Some 1124) false;CR 1078 823 (Some 782) false;CR 1142 1144 (Some 815) false;CR 706 707 (Some 766) true;CR 982 1040 (Some 725) true] [AR 176 177 (TN s20) true;AR 971 972 (TN s44) false;AR 1054 1055 (TN s9) true;AR 1056 1057 (TN s25) true;AR 1081 1082 (TN s6) false;AR 1083 1084 (TN s6) false] [915;845;823;1144;707;1040] [(915,((Some 0%Z),(Some 1%Z)));(845,((Some 0%Z),(Some 1%Z)));(823,((Some 0%Z),(Some 1%Z)));(707,((Some 0%Z),None));(1040,((Some 0%Z),None))] None [] [] [] s1 true;
 KR 823 1151 [CR 914 915 (Some 716) false;CR 844 845 (Some 1124) false;CR 1078 823 (Some 782) false;CR 1142 1144 (Some 815) false] [AR 176 177 (TN s20) true;AR 971 972 (TN s44) false;AR 1054 1055 (TN s9) true;AR 1056 1057 (TN s25) true;AR 1081 1082 (TN s6) false;AR 1083 1084 (TN s6) false] [915;845;823;1144] [(915,((Some 0%Z),(Some 1%Z)));(845,((Some 0%Z),(Some 1%Z)));(823,((Some 0%Z),(Some 1%Z)))] None [] [] [] s1 true;
 KR 824 1152 [CR 914 915 (Some 716) false;CR 844 845 (Some 1124) false;CR 1078 823 (Some 782) false;CR 1142 1144 (Some 815) false;CR 995 1010 (Some 737) false;CR 961 1011 (Some 715) false] [AR 176 177 (TN s20) true;AR 971 972 (TN s44) false;AR 1054 1055 (TN s9) true;AR 1056 1057 (TN s25) true;AR 1081 1082 (TN s6) false;AR 1083 1084 (TN s6) false] [915;845;823;1144;1010;1011] [(915,((Some 0%Z),(Some 1%Z)));(845,((Some 0%Z),(Some 1%Z)));(823,((Some 0%Z),(Some 1%Z)));(1010,((Some 0%Z),(Some 1%Z)));(1011,((Some 0%Z),(Some 1%Z)))] None [] [] [] s1 true;
 KR 825 1153 [CR 1140 1141 (Some 826) false] [AR 1154 1155 (TN s6) true] [1141] [(1141,((Some 0%Z),(Some 1%Z)))] None [] [] [] s1 true;
 KR 826 1140 [CR 1140 1141 (Some 826) false] [AR 1154 1155 (TN s6) true] [1141] [(1141,((Some 0%Z),(Some 1%Z)))] None [] [] [] s1 true;
 KR 827 1156 [] [] [] [] None [] [] [] s1 true;
 KR 828 1157 [] [] [] [] (Some (VT s59 (Some [s60;s61]) None None)) [] [] [] s1 true;
 KR 829 1158 [] [AR 1159 1159 (TN s0) false;AR 1160 1161 (TN s6) false;AR 1162 1162 (TC 828) false] [] [] None [] [] [] s1 true;
 KR 830 1163 [] [] [] [] (Some (VT s59 (Some [s62;s63]) None None)) [] [] [] s1 true;
 KR 831 1164 [] [AR 1165 1159 (TN s0) false;AR 1166 1166 (TN s64) false;AR 1167 1168 (TC 827) false;AR 838 838 (TC 830) false;AR 797 797 (TN s6) false] [] [] None [] [] [] s1 true;
 KR 832 1169 [] [AR 1165 1159 (TN s0) false;AR 1166 1166 (TN s64) false;AR 1167 1168 (TC 827) false;AR 838 838 (TC 830) false;AR 797 797 (TN s6) false;AR 765 765 (TN s44) true] [] [] None [] [] [] s1 true;
 KR 833 1170 [] [AR 1171 1171 (TN s65) true;AR 1172 1172 (TN s66) true;AR 838 838 (TC 830) true;AR 1167 1168 (TC 827) false;AR 797 797 (TN s6) false] [] [] None [] [] [] s1 true;
 KR 834 1173 [] [AR 1159 1159 (TN s0) false;AR 697 697 (TN s6) true] [] [] None [] [] [] s1 true;
 KR 835 1174 [] [AR 1159 1159 (TN s0) false;AR 1175 1175 (TN s6) true;AR 1162 1162 (TC 828) false] [] [] None [] [] [] s1 true;
 KR 836 1176 [] [AR 1159 1159 (TN s0) false;AR 1160 1161 (TN s6) false;AR 1162 1162 (TC 828) false] [] [] None [] [] [] s1 true;
 KR 837 1177 [] [AR 1159 1159 (TN s0) false;AR 1166 1166 (TN s64) false;AR 1167 1168 (TC 827) false;AR 838 838 (TC 830) false;AR 797 797 (TN s6) false] [] [] None [] [] [] s1 true;
 KR 838 1178 [] [AR 1165 1159 (TN s0) false;AR 1166 1166 (TN s64) false;AR 1167 1168 (TC 827) false;AR 838 838 (TC 830) false;AR 797 797 (TN s6) false;AR 765 765 (TN s44) true] [] [] None [] [] [] s1 true;
 KR 839 1179 [] [AR 1171 1171 (TN s65) true;AR 1172 1172 (TN s66) true;AR 838 838 (TC 830) true;AR 1167 1168 (TC 827) false;AR 797 797 (TN s6) false] [] [] None [] [] [] s1 true;
 KR 840 1180 [] [AR 1159 1159 (TN s0) false;AR 697 697 (TN s6) true] [] [] None [] [] [] s1 true;
 KR 841 1181 [] [AR 1159 1159 (TN s0) false;AR 1175 1175 (TN s6) true;AR 1162 1162 (TC 828) false] [] [] None [] [] [] s1 true;
 KR 842 1182 [] [AR 1159 1159 (TN s0) false;AR 1166 1166 (TN s64) false;AR 1167 1168 (TC 827) false;AR 838 838 (TC 830) false;AR 797 797 (TN s6) false] [] [] None [] [] [] s1 true;
 KR 843 1183 [CR 1179 1184 (Some 839) true] [AR 1159 1159 (TN s0) false;AR 1171 1171 (TN s65) true;AR 1172 1172 (TN s66) true;AR 838 838 (TC 830) true;AR 1167 1168 (TC 827) false;AR 797 797 (TN s6) false] [1184] [(1184,((Some 0%Z),None))] None [] [] [] s1 true;
 KR 844 1185 [CR 1179 1184 (Some 839) true] [AR 1159 1159 (TN s0) false;AR 1171 1171 (TN s65) true;AR 1172 1172 (TN s66) true;AR 838 838 (TC 830) true;AR 1167 1168 (TC 827) false;AR 797 797 (TN s6) false] [1184] [(1184,((Some 0%Z),None))] None [] [] [] s1 true;
 KR 845 1186 [] [] [] [] None [] [] [] s1 true;
 KR 846 1187 [] [] [] [] None [] [] [] s1 true;
 KR 847 1188 [] [] [] [] None [] [] [] s1 true;
 KR 848 1189 [] [] [] [] (Some (VT s65 None None None)) [] [] [] s1 true;
 KR 849 1190 [] [] [] [] (Some (VT s9 None None None)) [] [] [] s1 true;
 KR 850 1191 [] [] [] [] (Some (VT s6 None None None)) [] [] [] s1 true;
 KR 851 1192 [] [] [] [] None [] [] [] s1 true;
 KR 852 1193 [CR 1186 1194 (Some 845) false;CR 1187 1195 (Some 846) false] [] [1194;1195] [(1194,((Some 0%Z),(Some 1%Z)))] None [] [] [] s1 true;
 KR 853 1186 [] [] [] [] None [] [] [] s1 true;
 KR 854 1187 [] [] [] [] None [] [] [] s1 true;
 KR 855 1192 [] [] [] [] None [] [] [] s1 true;
 KR 856 1196 [CR 1189 1197 (Some 848) false;CR 1190 1198 (Some 849) false;CR 1191 1199 (Some 850) false;CR 1192 1200 (Some 855) false] [] [1197;1198;1199;1200] [(1199,((Some 0%Z),(Some 1%Z)));(1200,((Some 0%Z),(Some 1%Z)))] None [] [] [] s1 true;
 KR 857 1193 [CR 1186 1194 (Some 845) false;CR 1187 1195 (Some 846) false] [] [1194;1195] [(1194,((Some 0%Z),(Some 1%Z)))] None [] [] [] s1 true;
 KR 858 1196 [CR 1189 1197 (Some 848) false;CR 1190 1198 (Some 849) false;CR 1191 1199 (Some 850) false;CR 1192 1200 (Some 855) false] [] [1197;1198;1199;1200] [(1199,((Some 0%Z),(Some 1%Z)));(1200,((Some 0%Z),(Some 1%Z)))] None [] [] [] s1 true;
 KR 859 1201 [] [] [] [] None [] [] [] s1 true;
 KR 860 1202 [] [] [] [] None [] [] [] s1 true;
 KR 861 1203 [CR 1202 1204 (Some 860) false] [] [1204] [(1204,((Some 0%Z),(Some 1%Z)))] None [] [] [] s1 true;
 KR 862 1205 [CR 1202 1204 (Some 860) false] [] [1204] [(1204,((Some 0%Z),(Some 1%Z)))] None [] [] [] s1 true;
 KR 863 1206 [CR 1202 1204 (Some 860) false] [] [1204] [(1204,((Some 0%Z),(Some 1%Z)))] None [] [] [] s1 true;
 KR 864 1207 [CR 1202 1204 (Some 860) false] [AR 797 797 (TN s6) true;AR 697 697 (TN s6) true] [1204] [(1204,((Some 0%Z),(Some 1%Z)))] None [] [] [] s1 true;
 KR 865 1208 [CR 1202 1204 (Some 860) false] [] [1204] [(1204,((Some 0%Z),(Some 1%Z)))] None [] [] [] s1 true;
 KR 866 1209 [CR 1202 1204 (Some 860) false] [AR 765 765 (TN s44) true;AR 1210 1210 (TN s65) false;AR 1211 1211 (TN s65) false] [1204] [(1204,((Some 0%Z),(Some 1%Z)))] None [] [] [] s1 true;
 KR 867 1212 [CR 1202 1204 (Some 860) false] [AR 765 765 (TN s44) true;AR 1213 1214 (TN s64) false] [1204] [(1204,((Some 0%Z),(Some 1%Z)))] None [] [] [] s1 true;
 KR 868 1215 [CR 1202 1204 (Some 860) false] [AR 765 765 (TN s44) false;AR 1171 1171 (TN s65) true] [1204] [(1204,((Some 0%Z),(Some 1%Z)))] None [] [] [] s1 true;
 KR 869 1216 [CR 1202 1204 (Some 860) false] [AR 765 765 (TN s44) true;AR 1171 1171 (TN s65) true] [1204] [(1204,((Some 0%Z),(Some 1%Z)))] None [] [] [] s1 true;
 KR 870 1217 [CR 1202 1204 (Some 860) false] [AR 765 765 (TN s44) false] [1204] [(1204,((Some 0%Z),(Some 1%Z)))] None [] [] [] s1 true;
 KR 871 1218 [CR 1202 1204 (Some 860) false] [AR 765 765 (TN s44) true] [1204] [(1204,((Some 0%Z),(Some 1%Z)))] None [] [] [] s1 true;
 KR 872 1219 [CR 1202 1204 (Some 860) false] [AR 765 765 (TN s44) false] [1204] [(1204,((Some 0%Z),(Some 1%Z)))] None [] [] [] s1 true;
 KR 873 1220 [CR 1202 1204 (Some 860) false] [AR 765 765 (TN s44) false] [1204] [(1204,((Some 0%Z),(Some 1%Z)))] None [] [] [] s1 true;
 KR 874 1221 [CR 1202 1204 (Some 860) false] [AR 765 765 (TN s44) true] [1204] [(1204,((Some 0%Z),(Some 1%Z)))] None [] [] [] s1 true;
 KR 875 1222 [CR 1202 1204 (Some 860) false;CR 1219 1223 (Some 872) false;CR 1220 1224 (Some 873) false;CR 1221 1225 (Some 874) true] [AR 765 765 (TN s44) true] [1204;1223;1224;1225] [(1204,((Some 0%Z),(Some 1%Z)));(1223,((Some 0%Z),(Some 1%Z)));(1224,((Some 0%Z),(Some 1%Z)));(1225,((Some 0%Z),None))] None [] [] [] s1 true;
 KR 876 1226 [CR 1202 1204 (Some 860) false] [AR 765 765 (TN s44) true;AR 695 695 (TN s65) true] [1204] [(1204,((Some 0%Z),(Some 1%Z)))] None [] [] [] s1 true;
 KR 877 1227 [] [AR 1159 1159 (TN s0) false] [] [] None [] [] [] s1 true;
 KR 878 1228 [CR 1202 1204 (Some 860) false] [AR 797 797 (TN s6) true;AR 697 697 (TN s6) true] [1204] [(1204,((Some 0%Z),(Some 1%Z)))] None [] [] [] s1 true;
 KR 879 1229 [CR 1202 1204 (Some 860) false] [] [1204] [(1204,((Some 0%Z),(Some 1%Z)))] None [] [] [] s1 true;
 KR 880 1230 [CR 1202 1204 (Some 860) false] [AR 765 765 (TN s44) true;AR 1210 1210 (TN s65) false;AR 1211 1211 (TN s65) false] [1204] [(1204,((Some 0%Z),(Some 1%Z)))] None [] [] [] s1 true;
 KR 881 1231 [CR 1202 1204 (Some 860) false;CR 1230 1172 (Some 880) true] [AR 765 765 (TN s44) true] [1204;1172] [(1204,((Some 0%Z),(Some 1%Z)));(1172,((Some 0%Z),None))] None [] [] [] s1 true;
 KR 882 1232 [CR 1202 1204 (Some 860) false] [AR 765 765 (TN s44) true;AR 1213 1214 (TN s64) false] [1204] [(1204,((Some 0%Z),(Some 1%Z)))] None [] [] [] s1 true;
 KR 883 1233 [CR 1202 1204 (Some 860) false;CR 1232 1234 (Some 882) true] [AR 765 765 (TN s44) true] [1204;1234] [(1204,((Some 0%Z),(Some 1%Z)));(1234,((Some 0%Z),None))] None [] [] [] s1 true;
 KR 884 1232 [CR 1202 1204 (Some 860) false;CR 1219 1223 (Some 872) false;CR 1220 1224 (Some 873) false;CR 1221 1225 (Some 874) true] [AR 765 765 (TN s44) true] [1204;1223;1224;1225] [(1204,((Some 0%Z),(Some 1%Z)));(1223,((Some 0%Z),(Some 1%Z)));(1224,((Some 0%Z),(Some 1%Z)));(1225,((Some 0%Z),None))] None [] [] [] s1 true;
 KR 885 1235 [CR 1202 1204 (Some 860) false;CR 1232 1234 (Some 884) true] [AR 765 765 (TN s44) true;AR 1211 1211 (TN s65) true] [1204;1234] [(1204,((Some 0%Z),(Some 1%Z)));(1234,((Some 0%Z),None))] None [] [] [] s1 true;
 KR 886 1236 [CR 1202 1204 (Some 860) false] [AR 765 765 (TN s44) true;AR 695 695 (TN s65) true] [1204] [(1204,((Some 0%Z),(Some 1%Z)))] None [] [] [] s1 true;
 KR 887 1237 [CR 1202 1204 (Some 860) false;CR 1236 1238 (Some 886) true] [AR 765 765 (TN s44) true] [1204;1238] [(1204,((Some 0%Z),(Some 1%Z)));(1238,((Some 0%Z),None))] None [] [] [] s1 true;
 KR 888 1239 [CR 1202 1204 (Some 860) false;CR 1230 1172 (Some 880) true] [AR 765 765 (TN s44) true] [1204;1172] [(1204,((Some 0%Z),(Some 1%Z)));(1172,((Some 0%Z),None))] None [] [] [] s1 true;
 KR 889 1240 [CR 1202 1204 (Some 860) false;CR 1232 1234 (Some 882) true] [AR 765 765 (TN s44) true] [1204;1234] [(1204,((Some 0%Z),(Some 1%Z)));(1234,((Some 0%Z),None))] None [] [] [] s1 true;
 KR 890 1241 [CR 1202 1204 (Some 860) false;CR 1232 1234 (Some 884) true] [AR 765 765 (TN s44) true;AR 1211 1211 (TN s65) true] [1204;1234] [(1204,((Some 0%Z),(Some 1%Z)));(1234,((Some 0%Z),None))] None [] [] [] s1 true;
 KR 891 1242 [CR 1202 1204 (Some 860) false;CR 1236 1238 (Some 886) true] [AR 765 765 (TN s44) true] [1204;1238] [(1204,((Some 0%Z),(Some 1%Z)));(1238,((Some 0%Z),None))] None [] [] [] s1 true;
 KR 892 1243 [CR 1202 1204 (Some 860) false;CR 1228 1244 (Some 878) false;CR 1229 1245 (Some 879) false;CR 1239 1171 (Some 888) false;CR 1240 1246 (Some 889) false;CR 1241 695 (Some 890) false;CR 1242 936 (Some 891) false] [AR 1247 1248 (TN s6) false;AR 765 765 (TN s44) false] [1204;1244;1245;1171;1246;695;936] [(1204,((Some 0%Z),(Some 1%Z)));(1244,((Some 0%Z),(Some 1%Z)));(1245,((Some 0%Z),(Some 1%Z)));(1171,((Some 0%Z),(Some 1%Z)));(1246,((Some 0%Z),(Some 1%Z)));(695,((Some 0%Z),(Some 1%Z)));(936,((Some 0%Z),(Some 1%Z)))] None [1244] [] [] s1 true;
 KR 893 1249 [CR 1202 1204 (Some 860) false;CR 1228 1244 (Some 878) false;CR 1229 1245 (Some 879) false;CR 1239 1171 (Some 888) false;CR 1240 1246 (Some 889) false;CR 1241 695 (Some 890) false;CR 1242 936 (Some 891) false] [AR 1247 1248 (TN s6) false;AR 765 765 (TN s44) false] [1204;1244;1245;1171;1246;695;936] [(1204,((Some 0%Z),(Some 1%Z)));(1244,((Some 0%Z),(Some 1%Z)));(1245,((Some 0%Z),(Some 1%Z)));(1171,((Some 0%Z),(Some 1%Z)));(1246,((Some 0%Z),(Some 1%Z)));(695,((Some 0%Z),(Some 1%Z)));(936,((Some 0%Z),(Some 1%Z)))] None [1244] [] [] s1 true;
 KR 894 1250 [] [] [] [] None [] [] [] s1 true;
 KR 895 1251 [] [] [] [] None [] [] [] s1 true;
 KR 896 1252 [] [] [] [] None [] [] [] s1 true;
 KR 897 1253 [] [] [] [] (Some (VT s67 (Some [s68]) None None)) [] [] [] s1 true;
 KR 898 1254 [] [] [] [] (Some (VT s6 None None None)) [] [] [] s1 true;
 KR 899 1255 [] [] [] [] None [] [] [] s1 true;
 KR 900 1256 [] [] [] [] (Some (VT s69 (Some [s70;s71;s72;s73;s74;s75;s76;s77;s78;s79;s80]) None None)) [] [] [] s1 true;
 KR 901 1257 [] [] [] [] (Some (VT s81 None None None)) [] [] [] s1 true;
 KR 902 1258 [] [] [] [] (Some (VT s65 None None None)) [] [] [] s1 true;
 KR 903 1259 [] [] [] [] (Some (VT s6 None None None)) [] [] [] s1 true;
 KR 904 1260 [] [] [] [] (Some (VT s6 None None None)) [] [] [] s1 true;
 KR 905 1261 [] [] [] [] None [] [] [] s1 true;
 KR 906 1262 [] [] [] [] None [] [] [] s1 true;
 KR 907 1263 [] [] [] [] (Some (VT s6 None None None)) [] [] [] s1 true;
 KR 908 1264 [] [AR 1265 1266 (TC 896) false] [] [] (Some (VT s6 None None None)) [] [(1266,s68)] [] s1 true;
 KR 909 1267 [] [] [] [] (Some (VT s6 None None None)) [] [] [] s1 true;
 KR 910 1268 [] [] [] [] (Some (VT s6 None None None)) [] [] [] s1 true;
 KR 911 1269 [] [] [] [] (Some (VT s81 None None None)) [] [] [] s1 true;
 KR 912 1270 [] [] [] [] (Some (VT s65 None None None)) [] [] [] s1 true;
 KR 913 1271 [] [] [] [] (Some (VT s6 None None None)) [] [] [] s1 true;
 KR 914 1272 [CR 1268 1043 (Some 910) false;CR 1271 1161 (Some 913) false] [] [1043;1161] [(1043,((Some 0%Z),(Some 1%Z)));(1161,((Some 0%Z),(Some 1%Z)))] None [] [] [] s1 true;
 KR 915 1273 [CR 1260 9 (Some 904) false;CR 1261 1274 (Some 905) false;CR 1262 1275 (Some 906) false] [] [9;1274;1275] [(1274,((Some 0%Z),(Some 1%Z)));(1275,((Some 0%Z),(Some 1%Z)))] None [] [] [] s1 true;
 KR 916 1276 [] [AR 1265 1266 (TC 896) false] [] [] (Some (VT s6 None None None)) [] [(1266,s68)] [] s1 true;
 KR 917 1277 [CR 1260 9 (Some 904) false;CR 1261 1274 (Some 905) false;CR 1262 1275 (Some 906) false] [] [9;1274;1275] [(1274,((Some 0%Z),(Some 1%Z)));(1275,((Some 0%Z),(Some 1%Z)))] None [] [] [] s1 true;
 KR 918 1278 [CR 1260 9 (Some 904) false;CR 1261 1274 (Some 905) false;CR 1262 1275 (Some 906) false] [] [9;1274;1275] [(1274,((Some 0%Z),(Some 1%Z)));(1275,((Some 0%Z),(Some 1%Z)))] None [] [] [] s1 true;
 KR 919 1279 [CR 1260 9 (Some 904) false;CR 1261 1274 (Some 905) false;CR 1262 1275 (Some 906) false] [] [9;1274;1275] [(1274,((Some 0%Z),(Some 1%Z)));(1275,((Some 0%Z),(Some 1%Z)))] None [] [] [] s1 true;
 KR 920 1280 [CR 1268 1043 (Some 910) false;CR 1271 1161 (Some 913) false] [] [1043;1161] [(1043,((Some 0%Z),(Some 1%Z)));(1161,((Some 0%Z),(Some 1%Z)))] None [] [] [] s1 true;
 KR 921 1281 [CR 1260 9 (Some 904) false;CR 1261 1274 (Some 905) false;CR 1262 1275 (Some 906) false] [] [9;1274;1275] [(1274,((Some 0%Z),(Some 1%Z)));(1275,((Some 0%Z),(Some 1%Z)))] None [] [] [] s1 true;
 KR 922 1282 [] [AR 1283 1284 (TN s6) true;AR 1285 1286 (TN s82) false;AR 1287 1288 (TN s6) false] [] [] None [] [(1288,s83)] [] s1 true;
 KR 923 1289 [] [] [] [] None [] [] [] s1 true;
 KR 924 1290 [CR 1289 1291 (Some 923) false;CR 1282 1292 (Some 922) true;CR 1293 1294 (Some 926) true] [] [1291;1294;1292] [(1294,((Some 0%Z),None));(1292,((Some 0%Z),None))] None [] [] [] s1 true;
 KR 925 1295 [CR 1282 1292 (Some 922) true;CR 1293 1294 (Some 926) true;CR 1296 1297 (Some 927) true;CR 1298 1299 (Some 928) true] [] [1294;1297;1299;1292] [(1294,((Some 0%Z),None));(1297,((Some 0%Z),None));(1299,((Some 0%Z),None));(1292,((Some 0%Z),None))] None [] [] [] s1 true;
 KR 926 1293 [CR 1282 1292 (Some 922) true;CR 1293 1294 (Some 926) true;CR 1296 1297 (Some 927) true;CR 1298 1299 (Some 928) true] [AR 764 765 (TN s6) false;AR 1300 1301 (TN s84) false] [1294;1297;1299;1292] [(1294,((Some 0%Z),None));(1297,((Some 0%Z),None));(1299,((Some 0%Z),None));(1292,((Some 0%Z),None))] None [] [] [] s1 true;
 KR 927 1296 [CR 1282 1292 (Some 922) true;CR 1293 1294 (Some 926) true;CR 1296 1297 (Some 927) true;CR 1298 1299 (Some 928) true] [] [1294;1297;1299;1292] [(1294,((Some 0%Z),None));(1297,((Some 0%Z),None));(1299,((Some 0%Z),None));(1292,((Some 0%Z),None))] None [] [] [] s1 true;
 KR 928 1298 [CR 1282 1292 (Some 922) true;CR 1293 1294 (Some 926) true;CR 1296 1297 (Some 927) true;CR 1298 1299 (Some 928) true] [] [1294;1297;1299;1292] [(1294,((Some 0%Z),None));(1297,((Some 0%Z),None));(1299,((Some 0%Z),None));(1292,((Some 0%Z),None))] None [] [] [] s1 true;
 KR 929 1302 [] [AR 1300 1301 (TN s9) false] [] [] (Some (VT s9 None None None)) [] [] [] s1 true;
 KR 930 1303 [] [AR 1300 1301 (TN s9) false;AR 1304 1211 (TN s6) false] [] [] (Some (VT s9 None None None)) [] [] [] s1 true;
 KR 931 1305 [] [AR 1300 1301 (TN s9) false;AR 1306 1307 (TN s6) false] [] [] (Some (VT s9 None None None)) [] [] [] s1 true;
 KR 932 1308 [] [AR 1300 1301 (TN s9) false] [] [] (Some (VT s9 None None None)) [] [] [] s1 true;
 KR 933 1309 [CR 1308 1310 (Some 932) false] [AR 1300 1301 (TN s0) false] [1310] [] None [] [] [] s1 true;
 KR 934 1311 [] [AR 1300 1301 (TN s9) false;AR 1306 1307 (TN s6) false;AR 1312 1313 (TN s6) false] [] [] (Some (VT s9 None None None)) [] [] [] s1 true;
 KR 935 1314 [] [AR 1300 1301 (TN s9) false;AR 1306 1307 (TN s6) false;AR 1312 1313 (TN s6) false] [] [] (Some (VT s9 None None None)) [] [] [] s1 true;
 KR 936 1315 [] [] [] [] None [] [] [] s1 true;
 KR 937 1316 [] [AR 1283 1284 (TN s6) false;AR 1312 1313 (TN s6) false] [] [] None [] [] [] s1 true;
 KR 938 1317 [] [AR 1312 1313 (TN s6) false] [] [] None [] [] [] s1 true;
 KR 939 1318 [] [AR 1300 1301 (TN s0) false;AR 1319 1319 (TN s0) false] [] [] None [] [] [] s1 true;
 KR 940 1320 [] [] [] [] None [] [] [] s1 true;
 KR 941 1321 [] [] [] [] None [] [] [] s1 true;
 KR 942 1322 [CR 1308 1310 (Some 932) false] [AR 1300 1301 (TN s0) false] [1310] [] None [] [] [] s1 true;
 KR 943 1323 [] [AR 1300 1301 (TN s9) false;AR 1306 1307 (TN s6) false;AR 1312 1313 (TN s6) false] [] [] (Some (VT s9 None None None)) [] [] [] s1 true;
 KR 944 1324 [] [AR 1283 1284 (TN s6) false;AR 1312 1313 (TN s6) false] [] [] None [] [] [] s1 true;
 KR 945 1325 [] [AR 1312 1313 (TN s6) false] [] [] None [] [] [] s1 true;
 KR 946 1326 [] [AR 1300 1301 (TN s9) false;AR 1306 1307 (TN s6) false;AR 1312 1313 (TN s6) false] [] [] (Some (VT s9 None None None)) [] [] [] s1 true;
 KR 947 1327 [] [AR 1300 1301 (TN s0) false;AR 1319 1319 (TN s0) false] [] [] None [] [] [] s1 true;
 KR 948 1328 [] [] [] [] None [] [] [] s1 true;
 KR 949 1329 [] [] [] [] None [] [] [] s1 true;
 KR 950 1330 [] [AR 1300 1301 (TN s9) false;AR 1304 1211 (TN s6) false] [] [] (Some (VT s9 None None None)) [] [] [] s1 true;
 KR 951 1331 [] [AR 1300 1301 (TN s9) false;AR 1306 1307 (TN s6) false] [] [] (Some (VT s9 None None None)) [] [] [] s1 true;
 KR 952 1332 [] [] [] [] (Some (VT s85 (Some [s86;s87;s88;s89;s90;s91;s92]) None None)) [] [] [] s1 true;
 KR 953 1333 [] [AR 1334 1335 (TN s6) false] [] [] None [] [] [] s1 true;
 KR 954 1336 [] [] [] [] (Some (VT s6 None None None)) [] [] [] s1 true;
 KR 955 1337 [] [] [] [] None [] [] [] s1 true;
 KR 956 1338 [] [] [] [] (Some (VT s67 (Some [s93;s94;s95;s96;s97]) None None)) [] [] [] s1 true;
 KR 957 1339 [] [AR 1334 1335 (TN s6) false] [] [] None [] [] [] s1 true;
 KR 958 1340 [] [] [] [] None [] [] [] s1 true;
 KR 959 1341 [] [] [] [] (Some (VT s67 (Some [s98;s99;s100]) None None)) [] [] [] s1 true;
 KR 960 1342 [] [] [] [] None [] [] [] s1 true;
 KR 961 1343 [] [AR 1344 1345 (TN s6) false] [] [] None [] [] [] s1 true;
 KR 962 1346 [] [] [] [] None [] [] [] s1 true;
 KR 963 1347 [CR 1348 1349 (Some 1052) false;CR 1350 1351 (Some 1051) false] [] [1349;1351] [(1349,((Some 0%Z),(Some 1%Z)));(1351,((Some 0%Z),(Some 1%Z)))] None [] [] [] s1 true;
 KR 964 1352 [] [AR 1334 1335 (TN s6) false] [] [] None [] [] [] s1 true;
 KR 965 1353 [CR 1352 1354 (Some 964) true] [] [1354] [(1354,((Some 2%Z),None))] None [] [] [] s1 true;
 KR 966 1355 [] [] [] [] (Some (VT s67 (Some [s101;s102]) None None)) [] [] [] s1 true;
 KR 967 1356 [] [] [] [] None [] [] [] s1 true;
 KR 968 1357 [CR 1327 1358 (Some 947) false] [] [1358] [] None [] [] [] s1 true;
 KR 969 1359 [] [] [] [] None [] [] [] s1 true;
 KR 970 1360 [] [] [] [] None [] [] [] s1 true;
 KR 971 1361 [] [] [] [] None [] [] [] s1 true;
 KR 972 1362 [] [AR 1363 1364 (TN s7) false;AR 1365 1366 (TN s7) false] [] [] None [] [] [] s1 true;
 KR 973 1367 [] [] [] [] None [] [] [] s1 true;
 KR 974 1368 [] [] [] [] None [] [] [] s1 true;
 KR 975 1369 [] [] [] [] None [] [] [] s1 true;
 KR 976 1370 [] [] [] [] (Some (VT s67 (Some [s103;s104]) None None)) [] [] [] s1 true;
 KR 977 1371 [] [] [] [] None [] [] [] s1 true;
 KR 978 1372 [] [] [] [] (Some (VT s9 None None None)) [] [] [] s1 true;
 KR 979 1373 [] [AR 1312 1313 (TN s6) true;AR 1306 1307 (TN s6) true] [] [] (Some (VT s9 None None None)) [] [] [] s1 true;
 KR 980 1374 [] [] [] [] None [] [] [] s1 true;
 KR 981 1375 [] [] [] [] None [] [] [] s1 true;
 KR 982 1376 [] [] [] [] (Some (VT s82 None None None)) [] [] [] s1 true;
 KR 983 1377 [] [] [] [] None [] [] [] s1 true;
 KR 984 1378 [CR 1260 9 (Some 904) false;CR 1261 1274 (Some 905) false;CR 1262 1275 (Some 906) false] [] [9;1274;1275] [(1274,((Some 0%Z),(Some 1%Z)));(1275,((Some 0%Z),(Some 1%Z)))] None [] [] [] s1 true;
 KR 985 1379 [] [] [] [] (Some (VT s6 None None None)) [] [] [] s1 true;
 KR 986 1380 [] [] [] [] (Some (VT s67 (Some [s105;s99;s106]) None None)) [] [] [] s1 true;
 KR 987 1381 [] [] [] [] None [] [] [] s1 true;
 KR 988 1382 [] [] [] [] (Some (VT s107 None None None)) [] [] [] s1 true;
 KR 989 1383 [] [] [] [] (Some (VT s6 None None None)) [] [] [] s1 true;
 KR 990 1384 [] [] [] [] (Some (VT s6 None None None)) [] [] [] s1 true;
 KR 991 1385 [] [] [] [] (Some (VT s6 None None None)) [] [] [] s1 true;
 KR 992 1386 [] [] [] [] (Some (VT s6 None None None)) [] [] [] s1 true;
 KR 993 1387 [] [] [] [] None [] [] [] s1 true;
 KR 994 1388 [] [] [] [] None [] [] [] s1 true;
 KR 995 1389 [] [AR 1390 1391 (TN s6) false] [] [] None [] [] [] s1 true;
 KR 996 1392 [] [] [] [] (Some (VT s6 None None None)) [] [] [] s1 true;
 KR 997 1393 [] [] [] [] (Some (VT s6 None None None)) [] [] [] s1 true;
 KR 998 1394 [] [] [] [] (Some (VT s6 None None None)) [] [] [] s1 true;
 KR 999 1395 [] [] [] [] None [] [] [] s1 true;
 KR 1000 1396 [] [] [] [] (Some (VT s7 None None None)) [] [] [] s1 true;
 KR 1001 1397 [] [] [] [] (Some (VT s7 None None None)) [] [] [] s1 true;
 KR 1002 1398 [] [] [] [] None [] [] [] s1 true;
 KR 1003 1352 [] [AR 1334 1335 (TN s6) false] [] [] None [] [] [] s1 true;
 KR 1004 1399 [] [] [] [] None [] [] [] s1 true;
 KR 1005 1400 [] [AR 1334 1335 (TN s6) false] [] [] None [] [] [] s1 true;
 KR 1006 1401 [] [] [] [] None [] [] [] s1 true;
 KR 1007 1402 [] [AR 1304 1211 (TC 960) false] [] [] (Some (VT s82 None None None)) [] [] [] s1 true;
 KR 1008 1403 [] [AR 1344 1345 (TN s6) false] [] [] None [] [] [] s1 true;
 KR 1009 1404 [] [] [] [] None [] [] [] s1 true;
 KR 1010 1405 [CR 1348 1349 (Some 1052) false;CR 1350 1351 (Some 1051) false] [] [1349;1351] [(1349,((Some 0%Z),(Some 1%Z)));(1351,((Some 0%Z),(Some 1%Z)))] None [] [] [] s1 true;
 KR 1011 1406 [CR 1352 1354 (Some 964) true] [] [1354] [(1354,((Some 2%Z),None))] None [] [] [] s1 true;
 KR 1012 1407 [CR 1400 1408 (Some 1005) true] [] [1408] [(1408,((Some 1%Z),None))] None [] [] [] s1 true;
 KR 1013 1409 [] [] [] [] None [] [] [] s1 true;
 KR 1014 1410 [CR 1327 1358 (Some 947) false] [] [1358] [] None [] [] [] s1 true;
 KR 1015 1411 [CR 1327 1358 (Some 947) false] [] [1358] [] None [] [] [] s1 true;
 KR 1016 1412 [] [] [] [] None [] [] [] s1 true;
 KR 1017 1413 [CR 1400 1408 (Some 1005) true] [] [1408] [(1408,((Some 1%Z),None))] None [] [] [] s1 true;
 KR 1018 1414 [] [] [] [] None [] [] [] s1 true;
 KR 1019 1415 [] [] [] [] None [] [] [] s1 true;
 KR 1020 1416 [] [AR 1363 1364 (TN s7) false;AR 1365 1366 (TN s7) false] [] [] None [] [] [] s1 true;
 KR 1021 1417 [] [] [] [] None [] [] [] s1 true;
 KR 1022 1418 [] [] [] [] None [] [] [] s1 true;
 KR 1023 1419 [] [] [] [] None [] [] [] s1 true;
 KR 1024 1420 [] [] [] [] None [] [] [] s1 true;
 KR 1025 1421 [] [] [] [] (Some (VT s9 None None None)) [] [] [] s1 true;
 KR 1026 1422 [CR 1420 1423 (Some 1024) false;CR 1421 1099 (Some 1025) false] [] [1423;1099] [(1099,((Some 0%Z),(Some 1%Z)))] None [] [] [] s1 true;
 KR 1027 1424 [CR 1372 1425 (Some 978) false] [] [1425] [] None [] [] [] s1 true;
 KR 1028 1426 [] [AR 1312 1313 (TN s6) true;AR 1306 1307 (TN s6) true] [] [] (Some (VT s9 None None None)) [] [] [] s1 true;
 KR 1029 1427 [] [] [] [] None [] [] [] s1 true;
 KR 1030 1428 [] [] [] [] None [] [] [] s1 true;
 KR 1031 1429 [CR 1376 1430 (Some 982) false] [] [1430] [(1430,((Some 0%Z),(Some 1%Z)))] None [] [] [] s1 true;
 KR 1032 1431 [] [] [] [] None [] [] [] s1 true;
 KR 1033 1432 [] [] [] [] None [] [] [] s1 true;
 KR 1034 1433 [] [] [] [] None [] [] [] s1 true;
 KR 1035 1434 [] [] [] [] None [] [] [] s1 true;
 KR 1036 1435 [] [AR 1390 1391 (TN s6) false] [] [] None [] [] [] s1 true;
 KR 1037 1436 [] [] [] [] None [] [] [] s1 true;
 KR 1038 1437 [] [] [] [] None [] [] [] s1 true;
 KR 1039 1438 [] [] [] [] None [] [] [] s1 true;
 KR 1040 1439 [CR 1437 1440 (Some 1038) false;CR 1438 1441 (Some 1039) true] [] [1440;1441] [(1440,((Some 0%Z),(Some 1%Z)));(1441,((Some 0%Z),None))] None [] [] [] s1 true;
 KR 1041 1442 [] [AR 1304 1211 (TC 960) false] [] [] (Some (VT s82 None None None)) [] [] [] s1 true;
 KR 1042 1443 [CR 1400 1408 (Some 1005) true] [] [1408] [(1408,((Some 1%Z),None))] None [] [] [] s1 true;
 KR 1043 1444 [CR 1420 1423 (Some 1024) false;CR 1421 1099 (Some 1025) false] [] [1423;1099] [(1099,((Some 0%Z),(Some 1%Z)))] None [] [] [] s1 true;
 KR 1044 1445 [CR 1372 1425 (Some 978) false] [] [1425] [] None [] [] [] s1 true;
 KR 1045 1446 [CR 1372 1425 (Some 978) false] [] [1425] [] None [] [] [] s1 true;
 KR 1046 1447 [CR 1376 1430 (Some 982) false] [] [1430] [(1430,((Some 0%Z),(Some 1%Z)))] None [] [] [] s1 true;
 KR 1047 1448 [CR 1437 1440 (Some 1038) false;CR 1438 1441 (Some 1039) true] [] [1440;1441] [(1440,((Some 0%Z),(Some 1%Z)));(1441,((Some 0%Z),None))] None [] [] [] s1 true;
 KR 1048 1449 [] [] [] [] None [] [] [] s1 true;
 KR 1049 1450 [] [AR 1301 1301 (TN s6) false] [] [] (Some (VT s9 None None None)) [] [] [] s1 true;
 KR 1050 1451 [] [AR 1301 1301 (TN s6) false] [] [] (Some (VT s6 None None None)) [] [] [] s1 true;
 KR 1051 1350 [] [AR 1301 1301 (TN s6) false] [] [] (Some (VT s9 None None None)) [] [] [] s1 true;
 KR 1052 1348 [] [AR 1301 1301 (TN s6) false] [] [] (Some (VT s9 None None None)) [] [] [] s1 true;
 KR 1053 1452 [CR 1348 1349 (Some 1052) false;CR 1350 1351 (Some 1051) false] [AR 1301 1301 (TN s6) false] [1349;1351] [(1349,((Some 0%Z),(Some 1%Z)));(1351,((Some 0%Z),(Some 1%Z)))] None [] [] [] s1 true;
 KR 1054 1453 [CR 1348 1349 (Some 1052) false;CR 1350 1351 (Some 1051) false] [AR 1301 1301 (TN s6) false] [1349;1351] [(1349,((Some 0%Z),(Some 1%Z)));(1351,((Some 0%Z),(Some 1%Z)))] None [] [] [] s1 true;
 KR 1055 1454 [] [] [] [] (Some (VT s82 None None None)) [] [] [] s1 true;
 KR 1056 1455 [] [AR 1301 177 (TN s20) false] [] [] (Some (VT s82 None None None)) [] [] [] s1 true;
 KR 1057 1456 [] [AR 658 659 (TN s6) true] [] [] None [] [] [] s1 true;
 KR 1058 1457 [] [] [] [] (Some (VT s9 None None None)) [] [] [] s1 true;
 KR 1059 1458 [CR 1457 1459 (Some 1058) true] [AR 658 659 (TN s6) true] [1459] [(1459,((Some 0%Z),None))] None [] [] [] s1 true;
 KR 1060 1460 [] [AR 658 659 (TN s6) true] [] [] None [] [] [] s1 true;
 KR 1061 1461 [] [] [] [] (Some (VT s82 None None None)) [] [] [] s1 true;
 KR 1062 1462 [] [] [] [] (Some (VT s9 None None None)) [] [] [] s1 true;
 KR 1063 1463 [] [] [] [] (Some (VT s9 None None None)) [] [] [] s1 true;
 KR 1064 1464 [] [] [] [] (Some (VT s9 None None None)) [] [] [] s1 true;
 KR 1065 1465 [] [] [] [] (Some (VT s8 None None None)) [] [] [] s1 true;
 KR 1066 1466 [CR 1464 1467 (Some 1064) false;CR 1465 1468 (Some 1065) false] [] [1467;1468] [] None [] [] [] s1 true;
 KR 1067 1469 [] [] [] [] (Some (VT s82 None None None)) [] [] [] s1 true;
 KR 1068 1470 [] [] [] [] (Some (VT s82 None None None)) [] [] [] s1 true;
 KR 1069 1471 [CR 1469 1472 (Some 1067) false;CR 1470 1473 (Some 1068) false] [] [1472;1473] [(1473,((Some 0%Z),(Some 1%Z)))] None [] [] [] s1 true;
 KR 1070 1474 [] [] [] [] (Some (VT s82 None None None)) [] [] [] s1 true;
 KR 1071 1475 [CR 1474 1476 (Some 1070) true] [] [1476] [(1476,((Some 1%Z),None))] None [] [] [] s1 true;
 KR 1072 1477 [] [AR 1301 177 (TN s20) false;AR 1478 1479 (TN s9) false;AR 1480 1481 (TN s6) false] [] [] None [] [] [] s1 true;
 KR 1073 1482 [] [AR 1483 1484 (TN s6) true;AR 1301 177 (TN s20) false] [] [] None [] [] [] s1 true;
 KR 1074 1485 [] [] [] [] (Some (VT s8 None None None)) [] [] [] s1 true;
 KR 1075 1486 [] [] [] [] (Some (VT s82 None None None)) [] [] [] s1 true;
 KR 1076 1487 [] [] [] [] (Some (VT s82 None None None)) [] [] [] s1 true;
 KR 1077 1488 [] [] [] [] (Some (VT s82 None None None)) [] [] [] s1 true;
 KR 1078 1489 [] [] [] [] (Some (VT s82 None None None)) [] [] [] s1 true;
 KR 1079 1490 [] [] [] [] (Some (VT s82 None None None)) [] [] [] s1 true;
 KR 1080 1491 [] [] [] [] (Some (VT s82 None None None)) [] [] [] s1 true;
 KR 1081 1492 [] [] [] [] (Some (VT s82 None None None)) [] [] [] s1 true;
 KR 1082 1493 [CR 1486 1494 (Some 1075) false;CR 1487 1495 (Some 1076) false;CR 1488 1496 (Some 1077) false;CR 1489 1497 (Some 1078) false;CR 1490 1498 (Some 1079) false;CR 1491 1499 (Some 1080) false;CR 1492 1500 (Some 1081) false] [] [1494;1495;1496;1497;1498;1499;1500] [(1494,((Some 0%Z),(Some 1%Z)));(1495,((Some 0%Z),(Some 1%Z)));(1496,((Some 0%Z),(Some 1%Z)));(1498,((Some 0%Z),(Some 1%Z)));(1499,((Some 0%Z),(Some 1%Z)));(1500,((Some 0%Z),(Some 1%Z)))] None [] [] [] s1 true;
 KR 1083 1501 [] [] [] [] (Some (VT s82 None None None)) [] [] [] s1 true;
 KR 1084 1502 [] [] [] [] (Some (VT s82 None None None)) [] [] [] s1 true;
 KR 1085 1503 [CR 1501 1504 (Some 1083) false;CR 1502 1505 (Some 1084) false] [] [1504;1505] [] None [] [] [] s1 true;
 KR 1086 1506 [] [AR 1301 177 (TN s20) false] [] [] (Some (VT s82 None None None)) [] [] [] s1 true;
 KR 1087 1507 [] [AR 658 659 (TN s6) true] [] [] None [] [] [] s1 true;
 KR 1088 1508 [] [] [] [] (Some (VT s8 None None None)) [] [] [] s1 true;
 KR 1089 1509 [CR 1508 1510 (Some 1088) false] [AR 658 659 (TN s6) true] [1510] [(1510,((Some 0%Z),(Some 1%Z)))] None [] [] [] s1 true;
 KR 1090 1511 [CR 1457 1459 (Some 1058) true] [AR 658 659 (TN s6) true] [1459] [(1459,((Some 0%Z),None))] None [] [] [] s1 true;
 KR 1091 1512 [] [AR 658 659 (TN s6) true] [] [] None [] [] [] s1 true;
 KR 1092 1513 [] [] [] [] (Some (VT s82 None None None)) [] [] [] s1 true;
 KR 1093 1514 [CR 1464 1467 (Some 1064) false;CR 1465 1468 (Some 1065) false] [] [1467;1468] [] None [] [] [] s1 true;
 KR 1094 1515 [] [] [] [] (Some (VT s82 None None None)) [] [] [] s1 true;
 KR 1095 1516 [] [] [] [] (Some (VT s9 None None None)) [] [] [] s1 true;
 KR 1096 1517 [] [] [] [] (Some (VT s82 None None None)) [] [] [] s1 true;
 KR 1097 1518 [] [] [] [] (Some (VT s82 None None None)) [] [] [] s1 true;
 KR 1098 1519 [CR 1514 1520 (Some 1093) false;CR 1515 1521 (Some 1094) false;CR 1516 1522 (Some 1095) false;CR 1517 1523 (Some 1096) false;CR 1518 1524 (Some 1097) false] [] [1520;1521;1522;1523;1524] [(1520,((Some 0%Z),(Some 1%Z)));(1521,((Some 0%Z),(Some 1%Z)));(1522,((Some 0%Z),(Some 1%Z)));(1523,((Some 0%Z),(Some 1%Z)));(1524,((Some 0%Z),(Some 1%Z)))] None [] [] [] s1 true;
 KR 1099 1525 [CR 1469 1472 (Some 1067) false;CR 1470 1473 (Some 1068) false] [] [1472;1473] [(1473,((Some 0%Z),(Some 1%Z)))] None [] [] [] s1 true;
 KR 1100 1526 [CR 1474 1476 (Some 1070) true] [] [1476] [(1476,((Some 1%Z),None))] None [] [] [] s1 true;
 KR 1101 1527 [] [AR 1301 177 (TN s20) false;AR 1478 1479 (TN s9) false;AR 1480 1481 (TN s6) false] [] [] None [] [] [] s1 true;
 KR 1102 1528 [] [AR 1483 1484 (TN s6) true;AR 1301 177 (TN s20) false] [] [] None [] [] [] s1 true;
 KR 1103 1529 [CR 1486 1494 (Some 1075) false;CR 1487 1495 (Some 1076) false;CR 1488 1496 (Some 1077) false;CR 1489 1497 (Some 1078) false;CR 1490 1498 (Some 1079) false;CR 1491 1499 (Some 1080) false;CR 1492 1500 (Some 1081) false] [] [1494;1495;1496;1497;1498;1499;1500] [(1494,((Some 0%Z),(Some 1%Z)));(1495,((Some 0%Z),(Some 1%Z)));(1496,((Some 0%Z),(Some 1%Z)));(1498,((Some 0%Z),(Some 1%Z)));(1499,((Some 0%Z),(Some 1%Z)));(1500,((Some 0%Z),(Some 1%Z)))] None [] [] [] s1 true;
 KR 1104 1530 [CR 1501 1504 (Some 1083) false;CR 1502 1505 (Some 1084) false] [] [1504;1505] [] None [] [] [] s1 true;
 KR 1105 1531 [CR 1508 1510 (Some 1088) false] [AR 658 659 (TN s6) true] [1510] [(1510,((Some 0%Z),(Some 1%Z)))] None [] [] [] s1 true;
 KR 1106 1532 [CR 1511 1533 (Some 1090) true] [] [1533] [(1533,((Some 1%Z),None))] None [] [] [] s1 true;
 KR 1107 1534 [CR 1529 1535 (Some 1103) false;CR 1530 1536 (Some 1104) false] [] [1535;1536] [(1535,((Some 0%Z),(Some 1%Z)));(1536,((Some 0%Z),(Some 1%Z)))] None [] [] [] s1 true;
 KR 1108 1537 [CR 1514 1520 (Some 1093) false;CR 1515 1521 (Some 1094) false;CR 1516 1522 (Some 1095) false;CR 1517 1523 (Some 1096) false;CR 1518 1524 (Some 1097) false] [] [1520;1521;1522;1523;1524] [(1520,((Some 0%Z),(Some 1%Z)));(1521,((Some 0%Z),(Some 1%Z)));(1522,((Some 0%Z),(Some 1%Z)));(1523,((Some 0%Z),(Some 1%Z)));(1524,((Some 0%Z),(Some 1%Z)))] None [] [] [] s1 true;
 KR 1109 1538 [CR 1528 1539 (Some 1102) true] [AR 1301 177 (TN s20) false] [1539] [(1539,((Some 1%Z),None))] None [] [] [] s1 true;
 KR 1110 1540 [CR 1511 1533 (Some 1090) true] [] [1533] [(1533,((Some 1%Z),None))] None [] [] [] s1 true;
 KR 1111 1541 [CR 1529 1535 (Some 1103) false;CR 1530 1536 (Some 1104) false] [] [1535;1536] [(1535,((Some 0%Z),(Some 1%Z)));(1536,((Some 0%Z),(Some 1%Z)))] None [] [] [] s1 true;
 KR 1112 1542 [CR 1540 1543 (Some 1110) false] [AR 1283 1284 (TN s6) false;AR 1304 1211 (TN s6) false] [1543] [(1543,((Some 0%Z),(Some 1%Z)))] None [] [] [] s1 true;
 KR 1113 1544 [CR 1528 1539 (Some 1102) true] [AR 1301 177 (TN s20) false] [1539] [(1539,((Some 1%Z),None))] None [] [] [] s1 true;
 KR 1114 1545 [CR 1540 1543 (Some 1110) false;CR 1512 1546 (Some 1091) false;CR 1513 1547 (Some 1092) false] [AR 1301 177 (TN s20) false;AR 1283 1284 (TN s6) false;AR 1304 1211 (TN s6) false] [1543;1546;1547] [(1543,((Some 0%Z),(Some 1%Z)))] None [] [] [] s1 true;
 KR 1115 1548 [CR 1540 1543 (Some 1110) false] [AR 1283 1284 (TN s6) false;AR 1304 1211 (TN s6) false] [1543] [(1543,((Some 0%Z),(Some 1%Z)))] None [] [] [] s1 true;
 KR 1116 1549 [CR 1540 1543 (Some 1110) false;CR 1512 1546 (Some 1091) false;CR 1513 1547 (Some 1092) false] [AR 1301 177 (TN s20) false;AR 1283 1284 (TN s6) false;AR 1304 1211 (TN s6) false] [1543;1546;1547] [(1543,((Some 0%Z),(Some 1%Z)))] None [] [] [] s1 true;
 KR 1117 1550 [CR 1462 1551 (Some 1062) true;CR 1541 1552 (Some 1111) true;CR 1548 1553 (Some 1115) true;CR 1537 1554 (Some 1108) true;CR 1525 1555 (Some 1099) true;CR 1526 1556 (Some 1100) true;CR 1463 1557 (Some 1063) true;CR 1558 960 None false] [AR 1301 177 (TN s20) false] [1551;1552;1553;1554;1555;1556;1557;960] [(1551,((Some 0%Z),None));(1552,((Some 0%Z),None));(1553,((Some 0%Z),None));(1554,((Some 0%Z),None));(1555,((Some 0%Z),None));(1556,((Some 0%Z),None));(1557,((Some 0%Z),None));(756,((Some 0%Z),(Some 1%Z)))] None [] [] [] s1 true;
 KR 1118 1559 [CR 1549 1560 (Some 1116) true] [AR 1301 177 (TN s20) false] [1560] [(1560,((Some 1%Z),None))] None [] [] [] s1 true;
 KR 1119 1561 [CR 1507 1562 (Some 1087) false;CR 1531 1563 (Some 1105) false;CR 1549 1560 (Some 1116) true] [AR 1301 177 (TN s20) false] [1562;1563;1560] [(1560,((Some 1%Z),None))] None [] [] [] s1 true;
 KR 1120 755 [CR 1462 1551 (Some 1062) true;CR 1541 1552 (Some 1111) true;CR 1548 1553 (Some 1115) true;CR 1537 1554 (Some 1108) true;CR 1525 1555 (Some 1099) true;CR 1526 1556 (Some 1100) true;CR 1463 1557 (Some 1063) true;CR 1558 960 (Some 1155) false] [AR 1301 177 (TN s20) false] [1551;1552;1553;1554;1555;1556;1557;960] [(1551,((Some 0%Z),None));(1552,((Some 0%Z),None));(1553,((Some 0%Z),None));(1554,((Some 0%Z),None));(1555,((Some 0%Z),None));(1556,((Some 0%Z),None));(1557,((Some 0%Z),None));(756,((Some 0%Z),(Some 1%Z)))] None [] [] [] s1 true;
 KR 1121 1564 [CR 1549 1560 (Some 1116) true] [AR 1301 177 (TN s20) false] [1560] [(1560,((Some 1%Z),None))] None [] [] [] s1 true;
 KR 1122 1565 [CR 1507 1562 (Some 1087) false;CR 1531 1563 (Some 1105) false;CR 1549 1560 (Some 1116) true] [AR 1301 177 (TN s20) false] [1562;1563;1560] [(1560,((Some 1%Z),None))] None [] [] [] s1 true;
 KR 1123 1566 [CR 1565 1567 (Some 1122) false;CR 1506 1568 (Some 1086) false;CR 755 756 (Some 1120) false;CR 1527 1569 (Some 1101) true] [AR 1301 177 (TN s20) false] [1567;1568;756;1569] [(756,((Some 0%Z),(Some 1%Z)));(1569,((Some 0%Z),None))] None [] [] [] s1 true;
 KR 1124 844 [CR 1565 1567 (Some 1122) false;CR 1506 1568 (Some 1086) false;CR 755 756 (Some 1120) false;CR 1527 1569 (Some 1101) true] [AR 1301 177 (TN s20) false] [1567;1568;756;1569] [(756,((Some 0%Z),(Some 1%Z)));(1569,((Some 0%Z),None))] None [] [] [] s1 true;
 KR 1125 1570 [] [] [] [] (Some (VT s8 None None None)) [] [] [] s1 true;
 KR 1126 1571 [] [] [] [] (Some (VT s82 None None None)) [] [] [] s1 true;
 KR 1127 1572 [CR 1511 1533 (Some 1090) true] [] [1533] [(1533,((Some 1%Z),None))] None [] [] [] s1 true;
 KR 1128 1573 [] [] [] [] (Some (VT s82 None None None)) [] [] [] s1 true;
 KR 1129 1574 [CR 1462 1551 (Some 1062) true;CR 1541 1552 (Some 1111) true;CR 1548 1553 (Some 1115) true;CR 1537 1554 (Some 1108) true;CR 1525 1555 (Some 1099) true;CR 1526 1556 (Some 1100) true;CR 1463 1557 (Some 1063) true;CR 1558 960 None false] [AR 1301 177 (TN s20) false] [1551;1552;1553;1554;1555;1556;1557;960] [(1551,((Some 0%Z),None));(1552,((Some 0%Z),None));(1553,((Some 0%Z),None));(1554,((Some 0%Z),None));(1555,((Some 0%Z),None));(1556,((Some 0%Z),None));(1557,((Some 0%Z),None));(756,((Some 0%Z),(Some 1%Z)))] None [] [] [] s1 true;
 KR 1130 1575 [CR 1462 1551 (Some 1062) true;CR 1541 1552 (Some 1111) true;CR 1548 1553 (Some 1115) true;CR 1537 1554 (Some 1108) true;CR 1525 1555 (Some 1099) true;CR 1526 1556 (Some 1100) true;CR 1463 1557 (Some 1063) true;CR 1558 960 None false] [AR 1301 177 (TN s20) false] [1551;1552;1553;1554;1555;1556;1557;960] [(1551,((Some 0%Z),None));(1552,((Some 0%Z),None));(1553,((Some 0%Z),None));(1554,((Some 0%Z),None));(1555,((Some 0%Z),None));(1556,((Some 0%Z),None));(1557,((Some 0%Z),None));(756,((Some 0%Z),(Some 1%Z)))] None [] [] [] s1 true;
 KR 1131 1576 [CR 1573 1577 (Some 1128) false;CR 1574 1578 (Some 1129) false;CR 1575 1579 (Some 1130) false] [AR 658 659 (TN s6) true] [1577;1578;1579] [(1577,((Some 0%Z),(Some 1%Z)));(1578,((Some 0%Z),(Some 1%Z)));(1579,((Some 0%Z),(Some 1%Z)))] None [] [] [] s1 true;
 KR 1132 1580 [] [AR 1283 1284 (TN s6) true] [] [] None [] [] [] s1 true;
 KR 1133 1581 [] [AR 1483 1484 (TN s6) false;AR 1301 177 (TN s20) false] [] [] None [] [] [] s1 true;
 KR 1134 801 [] [] [] [] (Some (VT s8 None None None)) [] [] [] s1 true;
 KR 1135 803 [] [] [] [] (Some (VT s82 None None None)) [] [] [] s1 true;
 KR 1136 1582 [CR 801 802 (Some 1134) false;CR 803 804 (Some 1135) false] [AR 658 659 (TN s6) true] [802;804] [(802,((Some 0%Z),(Some 1%Z)));(804,((Some 0%Z),(Some 1%Z)))] None [] [] [] s1 true;
 KR 1137 1583 [CR 1511 1533 (Some 1090) true] [] [1533] [(1533,((Some 1%Z),None))] None [] [] [] s1 true;
 KR 1138 1584 [CR 1583 1543 (Some 1137) false] [AR 1283 1284 (TN s6) true] [1543] [(1543,((Some 0%Z),(Some 1%Z)))] None [] [] [] s1 true;
 KR 1139 1585 [CR 801 802 (Some 1134) false;CR 803 804 (Some 1135) false] [AR 658 659 (TN s6) true] [802;804] [(802,((Some 0%Z),(Some 1%Z)));(804,((Some 0%Z),(Some 1%Z)))] None [] [] [] s1 true;
 KR 1140 1586 [CR 1573 1577 (Some 1128) false;CR 1574 1578 (Some 1129) false;CR 1575 1579 (Some 1130) false] [AR 658 659 (TN s6) true] [1577;1578;1579] [(1577,((Some 0%Z),(Some 1%Z)));(1578,((Some 0%Z),(Some 1%Z)));(1579,((Some 0%Z),(Some 1%Z)))] None [] [] [] s1 true;
 KR 1141 1587 [] [AR 1283 1284 (TN s6) true] [] [] None [] [] [] s1 true;
 KR 1142 1588 [] [AR 1283 1284 (TN s6) true] [] [] None [] [] [] s1 true;
 KR 1143 1589 [CR 1587 1590 (Some 1141) true;CR 1588 1591 (Some 1142) true] [] [1590;1591] [(1590,((Some 0%Z),None));(1591,((Some 0%Z),None))] None [] [] [] s1 true;
 KR 1144 1592 [] [AR 1483 1484 (TN s6) false;AR 1301 177 (TN s20) false] [] [] None [] [] [] s1 true;
 KR 1145 1593 [CR 1583 1543 (Some 1137) false] [AR 1283 1284 (TN s6) true] [1543] [(1543,((Some 0%Z),(Some 1%Z)))] None [] [] [] s1 true;
 KR 1146 1594 [CR 1592 1595 (Some 1144) true] [AR 1301 177 (TN s20) false] [1595] [(1595,((Some 1%Z),None))] None [] [] [] s1 true;
 KR 1147 1596 [CR 1571 1597 (Some 1126) false;CR 1593 1598 (Some 1145) false] [] [1597;1598] [(1597,((Some 0%Z),(Some 1%Z)));(1598,((Some 0%Z),(Some 1%Z)))] None [] [] [] s1 true;
 KR 1148 1599 [CR 1592 1595 (Some 1144) true] [AR 1301 177 (TN s20) false] [1595] [(1595,((Some 1%Z),None))] None [] [] [] s1 true;
 KR 1149 1600 [CR 1571 1597 (Some 1126) false;CR 1593 1598 (Some 1145) false] [] [1597;1598] [(1597,((Some 0%Z),(Some 1%Z)));(1598,((Some 0%Z),(Some 1%Z)))] None [] [] [] s1 true;
 KR 1150 1601 [CR 1585 837 (Some 1139) false;CR 755 756 (Some 1120) false;CR 1600 1602 (Some 1149) false;CR 1599 1603 (Some 1148) false] [AR 1301 177 (TN s20) false;AR 1304 1211 (TN s6) false;AR 1478 1479 (TN s9) false;AR 1480 1481 (TN s6) false] [837;756;1602;1603] [(837,((Some 0%Z),(Some 1%Z)));(756,((Some 0%Z),(Some 1%Z)));(1603,((Some 0%Z),(Some 1%Z)))] None [] [] [] s1 true;
 KR 1151 1604 [CR 1585 837 (Some 1139) false;CR 755 756 (Some 1120) false;CR 1600 1602 (Some 1149) false;CR 1599 1603 (Some 1148) false] [AR 1301 177 (TN s20) false;AR 1304 1211 (TN s6) false;AR 1478 1479 (TN s9) false;AR 1480 1481 (TN s6) false] [837;756;1602;1603] [(837,((Some 0%Z),(Some 1%Z)));(756,((Some 0%Z),(Some 1%Z)));(1603,((Some 0%Z),(Some 1%Z)))] None [] [] [] s1 true;
 KR 1152 1605 [] [] [] [] (Some (VT s9 None None None)) [] [] [] s1 true;
 KR 1153 1606 [CR 1585 837 (Some 1139) false;CR 755 756 (Some 1120) false;CR 1600 1602 (Some 1149) false;CR 1599 1603 (Some 1148) false;CR 1589 1607 (Some 1143) false;CR 1605 1608 (Some 1152) false] [AR 1301 177 (TN s20) false;AR 1304 1211 (TN s6) false;AR 1478 1479 (TN s9) false;AR 1480 1481 (TN s6) false;AR 969 970 (TN s9) false] [837;756;1602;1603;1607;1608] [(837,((Some 0%Z),(Some 1%Z)));(756,((Some 0%Z),(Some 1%Z)));(1603,((Some 0%Z),(Some 1%Z)));(1607,((Some 0%Z),(Some 1%Z)));(1608,((Some 0%Z),(Some 1%Z)))] None [] [] [] s1 true;
 KR 1154 957 [CR 1585 837 (Some 1139) false;CR 755 756 (Some 1120) false;CR 1600 1602 (Some 1149) false;CR 1599 1603 (Some 1148) false] [AR 1301 177 (TN s20) false;AR 1304 1211 (TN s6) false;AR 1478 1479 (TN s9) false;AR 1480 1481 (TN s6) false] [837;756;1602;1603] [(837,((Some 0%Z),(Some 1%Z)));(756,((Some 0%Z),(Some 1%Z)));(1603,((Some 0%Z),(Some 1%Z)))] None [] [] [] s1 true;
 KR 1155 959 [CR 1585 837 (Some 1139) false;CR 755 756 (Some 1120) false;CR 1600 1602 (Some 1149) false;CR 1599 1603 (Some 1148) false;CR 1589 1607 (Some 1143) false;CR 1605 1608 (Some 1152) false] [AR 1301 177 (TN s20) false;AR 1304 1211 (TN s6) false;AR 1478 1479 (TN s9) false;AR 1480 1481 (TN s6) false;AR 969 970 (TN s9) false] [837;756;1602;1603;1607;1608] [(837,((Some 0%Z),(Some 1%Z)));(756,((Some 0%Z),(Some 1%Z)));(1603,((Some 0%Z),(Some 1%Z)));(1607,((Some 0%Z),(Some 1%Z)));(1608,((Some 0%Z),(Some 1%Z)))] None [] [] [] s1 true
].

(* (local tag, (ELEMENT_BY_TAG class, class built by ELEMENT_FROM_STRING[tag]), (in BY_TAG, in FROM_STRING)) *)
Definition element_maps : list (N * (option N * option N) * (bool * bool)) := [(1609,((Some 91),(Some 91)),(true,true));(1610,((Some 71),(Some 71)),(true,true));(1611,((Some 0),(Some 0)),(true,true));(1612,((Some 37),(Some 37)),(true,true));(1613,((Some 89),(Some 89)),(true,true));(1614,((Some 85),(Some 85)),(true,true));(1615,((Some 86),(Some 86)),(true,true));(1616,((Some 79),(Some 79)),(true,true));(1617,((Some 17),(Some 17)),(true,true));(1618,((Some 18),(Some 18)),(true,true));(1619,((Some 38),(Some 38)),(true,true));(1620,((Some 39),(Some 39)),(true,true));(1621,((Some 40),(Some 40)),(true,true));(1622,((Some 72),(Some 72)),(true,true));(1623,((Some 41),(Some 41)),(true,true));(1624,((Some 19),(Some 19)),(true,true));(1625,((Some 42),(Some 42)),(true,true));(1626,((Some 20),(Some 20)),(true,true));(1627,((Some 43),(Some 43)),(true,true));(1628,((Some 1),(Some 1)),(true,true));(1629,((Some 87),(Some 87)),(true,true));(1630,((Some 80),(Some 80)),(true,true));(1631,((Some 73),(Some 73)),(true,true));(1632,((Some 93),(Some 93)),(true,true));(1633,((Some 44),(Some 44)),(true,true));(1634,((Some 45),(Some 45)),(true,true));(1635,((Some 46),(Some 46)),(true,true));(1636,((Some 47),(Some 47)),(true,true));(1637,((Some 29),(Some 29)),(true,true));(1638,((Some 48),(Some 48)),(true,true));(1639,((Some 49),(Some 49)),(true,true));(1640,((Some 50),(Some 50)),(true,true));(1641,((Some 30),(Some 30)),(true,true));(1642,((Some 51),(Some 51)),(true,true));(1643,((Some 52),(Some 52)),(true,true));(1644,((Some 74),(Some 74)),(true,true));(1645,((Some 53),(Some 53)),(true,true));(1646,((Some 54),(Some 54)),(true,true));(1647,((Some 55),(Some 55)),(true,true));(1648,((Some 56),(Some 56)),(true,true));(1649,((Some 57),(Some 57)),(true,true));(1650,((Some 58),(Some 58)),(true,true));(1651,((Some 59),(Some 59)),(true,true));(1652,((Some 60),(Some 60)),(true,true));(1653,((Some 61),(Some 61)),(true,true));(1654,((Some 62),(Some 62)),(true,true));(1655,((Some 81),(Some 81)),(true,true));(1656,((Some 75),(Some 75)),(true,true));(1657,((Some 63),(Some 63)),(true,true));(1658,((Some 64),(Some 64)),(true,true));(1659,((Some 31),(Some 31)),(true,true));(1660,((Some 21),(Some 21)),(true,true));(1661,((Some 2),(Some 2)),(true,true));(1662,((Some 65),(Some 65)),(true,true));(1663,((Some 88),(Some 88)),(true,true));(1664,((Some 76),(Some 76)),(true,true));(1665,((Some 22),(Some 22)),(true,true));(1666,((Some 3),(Some 3)),(true,true));(1667,((Some 77),(Some 77)),(true,true));(1668,((Some 92),(Some 92)),(true,true));(1669,((Some 66),(Some 66)),(true,true));(1670,((Some 78),(Some 78)),(true,true));(1671,((Some 4),(Some 4)),(true,true));(1672,((Some 82),(Some 82)),(true,true));(1673,((Some 32),(Some 32)),(true,true));(1674,((Some 67),(Some 67)),(true,true));(1675,((Some 33),(Some 33)),(true,true));(1676,((Some 5),(Some 5)),(true,true));(1677,((Some 68),(Some 68)),(true,true));(1678,((Some 24),(Some 24)),(true,true));(1679,((Some 6),(Some 6)),(true,true));(1680,((Some 34),(Some 34)),(true,true));(1681,((Some 7),(Some 7)),(true,true));(1682,((Some 8),(Some 8)),(true,true));(1683,((Some 9),(Some 9)),(true,true));(1684,((Some 35),(Some 35)),(true,true));(1685,((Some 25),(Some 25)),(true,true));(1686,((Some 26),(Some 26)),(true,true));(1687,((Some 27),(Some 27)),(true,true));(1688,((Some 10),(Some 10)),(true,true));(1689,((Some 11),(Some 11)),(true,true));(1690,((Some 12),(Some 12)),(true,true));(1691,((Some 13),(Some 13)),(true,true));(1692,((Some 14),(Some 14)),(true,true));(1693,((Some 15),(Some 15)),(true,true));(1694,((Some 83),(Some 83)),(true,true));(1695,((Some 69),(Some 69)),(true,true));(1696,((Some 36),(Some 36)),(true,true));(1697,((Some 28),(Some 28)),(true,true));(1698,((Some 16),(Some 16)),(true,true));(1699,((Some 90),(Some 90)),(true,true));(1700,((Some 84),(Some 84)),(true,true));(1701,((Some 70),(Some 70)),(true,true));(1609,((Some 187),(Some 187)),(true,true));(1610,((Some 165),(Some 165)),(true,true));(1611,((Some 94),(Some 94)),(true,true));(1612,((Some 131),(Some 131)),(true,true));(1613,((Some 185),(Some 185)),(true,true));(1614,((Some 181),(Some 181)),(true,true));(1615,((Some 182),(Some 182)),(true,true));(1616,((Some 174),(Some 174)),(true,true));(1617,((Some 111),(Some 111)),(true,true));(1618,((Some 112),(Some 112)),(true,true));(1619,((Some 132),(Some 132)),(true,true));(1620,((Some 133),(Some 133)),(true,true));(1621,((Some 134),(Some 134)),(true,true));(1622,((Some 166),(Some 166)),(true,true));(1623,((Some 135),(Some 135)),(true,true));(1624,((Some 113),(Some 113)),(true,true));(1625,((Some 136),(Some 136)),(true,true));(1626,((Some 114),(Some 114)),(true,true));(1627,((Some 137),(Some 137)),(true,true));(1628,((Some 95),(Some 95)),(true,true));(1629,((Some 183),(Some 183)),(true,true));(1630,((Some 175),(Some 175)),(true,true));(1631,((Some 176),(Some 176)),(true,true));(1632,((Some 167),(Some 167)),(true,true));(1633,((Some 138),(Some 138)),(true,true));(1634,((Some 139),(Some 139)),(true,true));(1635,((Some 140),(Some 140)),(true,true));(1636,((Some 141),(Some 141)),(true,true));(1637,((Some 123),(Some 123)),(true,true));(1638,((Some 142),(Some 142)),(true,true));(1639,((Some 143),(Some 143)),(true,true));(1640,((Some 144),(Some 144)),(true,true));(1641,((Some 124),(Some 124)),(true,true));(1642,((Some 145),(Some 145)),(true,true));(1643,((Some 146),(Some 146)),(true,true));(1644,((Some 168),(Some 168)),(true,true));(1645,((Some 147),(Some 147)),(true,true));(1646,((Some 148),(Some 148)),(true,true));(1647,((Some 149),(Some 149)),(true,true));(1648,((Some 150),(Some 150)),(true,true));(1649,((Some 151),(Some 151)),(true,true));(1650,((Some 152),(Some 152)),(true,true));(1651,((Some 153),(Some 153)),(true,true));(1652,((Some 154),(Some 154)),(true,true));(1653,((Some 155),(Some 155)),(true,true));(1654,((Some 156),(Some 156)),(true,true));(1655,((Some 177),(Some 177)),(true,true));(1656,((Some 169),(Some 169)),(true,true));(1657,((Some 157),(Some 157)),(true,true));(1658,((Some 158),(Some 158)),(true,true));(1659,((Some 125),(Some 125)),(true,true));(1660,((Some 115),(Some 115)),(true,true));(1661,((Some 96),(Some 96)),(true,true));(1665,((Some 116),(Some 116)),(true,true));(1666,((Some 97),(Some 97)),(true,true));(1667,((Some 170),(Some 170)),(true,true));(1670,((Some 171),(Some 171)),(true,true));(1671,((Some 98),(Some 98)),(true,true));(1673,((Some 126),(Some 126)),(true,true));(1674,((Some 159),(Some 159)),(true,true));(1675,((Some 127),(Some 127)),(true,true));(1676,((Some 99),(Some 99)),(true,true));(1677,((Some 160),(Some 160)),(true,true));(1678,((Some 118),(Some 118)),(true,true));(1679,((Some 100),(Some 100)),(true,true));(1680,((Some 128),(Some 128)),(true,true));(1681,((Some 101),(Some 101)),(true,true));(1682,((Some 102),(Some 102)),(true,true));(1683,((Some 103),(Some 103)),(true,true));(1684,((Some 129),(Some 129)),(true,true));(1685,((Some 119),(Some 119)),(true,true));(1686,((Some 120),(Some 120)),(true,true));(1687,((Some 121),(Some 121)),(true,true));(1688,((Some 104),(Some 104)),(true,true));(1689,((Some 105),(Some 105)),(true,true));(1690,((Some 106),(Some 106)),(true,true));(1691,((Some 107),(Some 107)),(true,true));(1692,((Some 108),(Some 108)),(true,true));(1696,((Some 130),(Some 130)),(true,true));(1697,((Some 122),(Some 122)),(true,true));(1698,((Some 109),(Some 109)),(true,true));(1699,((Some 186),(Some 186)),(true,true));(1700,((Some 178),(Some 178)),(true,true));(1701,((Some 172),(Some 172)),(true,true));(1668,((Some 161),(Some 161)),(true,true));(1669,((Some 162),(Some 162)),(true,true));(1664,((Some 173),(Some 173)),(true,true));(1663,((Some 184),(Some 184)),(true,true));(1672,((Some 179),(Some 179)),(true,true));(1694,((Some 180),(Some 180)),(true,true));(1693,((Some 110),(Some 110)),(true,true));(1695,((Some 163),(Some 163)),(true,true));(1662,((Some 164),(Some 164)),(true,true));(1609,((Some 279),(Some 279)),(true,true));(1610,((Some 259),(Some 259)),(true,true));(1611,((Some 188),(Some 188)),(true,true));(1612,((Some 225),(Some 225)),(true,true));(1613,((Some 277),(Some 277)),(true,true));(1614,((Some 273),(Some 273)),(true,true));(1615,((Some 274),(Some 274)),(true,true));(1616,((Some 267),(Some 267)),(true,true));(1617,((Some 205),(Some 205)),(true,true));(1618,((Some 206),(Some 206)),(true,true));(1619,((Some 226),(Some 226)),(true,true));(1620,((Some 227),(Some 227)),(true,true));(1621,((Some 228),(Some 228)),(true,true));(1622,((Some 260),(Some 260)),(true,true));(1623,((Some 229),(Some 229)),(true,true));(1624,((Some 207),(Some 207)),(true,true));(1625,((Some 230),(Some 230)),(true,true));(1626,((Some 208),(Some 208)),(true,true));(1627,((Some 231),(Some 231)),(true,true));(1628,((Some 189),(Some 189)),(true,true));(1629,((Some 275),(Some 275)),(true,true));(1630,((Some 268),(Some 268)),(true,true));(1631,((Some 261),(Some 261)),(true,true));(1632,((Some 281),(Some 281)),(true,true));(1633,((Some 232),(Some 232)),(true,true));(1634,((Some 233),(Some 233)),(true,true));(1635,((Some 234),(Some 234)),(true,true));(1636,((Some 235),(Some 235)),(true,true));(1637,((Some 217),(Some 217)),(true,true));(1638,((Some 236),(Some 236)),(true,true));(1639,((Some 237),(Some 237)),(true,true));(1640,((Some 238),(Some 238)),(true,true));(1641,((Some 218),(Some 218)),(true,true));(1642,((Some 239),(Some 239)),(true,true));(1643,((Some 240),(Some 240)),(true,true));(1644,((Some 262),(Some 262)),(true,true));(1645,((Some 241),(Some 241)),(true,true));(1646,((Some 242),(Some 242)),(true,true));(1647,((Some 243),(Some 243)),(true,true));(1648,((Some 244),(Some 244)),(true,true));(1649,((Some 245),(Some 245)),(true,true));(1650,((Some 246),(Some 246)),(true,true));(1651,((Some 247),(Some 247)),(true,true));(1652,((Some 248),(Some 248)),(true,true));(1653,((Some 249),(Some 249)),(true,true));(1654,((Some 250),(Some 250)),(true,true));(1655,((Some 269),(Some 269)),(true,true));(1656,((Some 263),(Some 263)),(true,true));(1657,((Some 251),(Some 251)),(true,true));(1658,((Some 252),(Some 252)),(true,true));(1659,((Some 219),(Some 219)),(true,true));(1660,((Some 209),(Some 209)),(true,true));(1661,((Some 190),(Some 190)),(true,true));(1662,((Some 253),(Some 253)),(true,true));(1663,((Some 276),(Some 276)),(true,true));(1664,((Some 264),(Some 264)),(true,true));(1665,((Some 210),(Some 210)),(true,true));(1666,((Some 191),(Some 191)),(true,true));(1667,((Some 265),(Some 265)),(true,true));(1668,((Some 280),(Some 280)),(true,true));(1670,((Some 266),(Some 266)),(true,true));(1671,((Some 192),(Some 192)),(true,true));(1672,((Some 270),(Some 270)),(true,true));(1673,((Some 220),(Some 220)),(true,true));(1674,((Some 254),(Some 254)),(true,true));(1675,((Some 221),(Some 221)),(true,true));(1676,((Some 193),(Some 193)),(true,true));(1677,((Some 255),(Some 255)),(true,true));(1678,((Some 212),(Some 212)),(true,true));(1679,((Some 194),(Some 194)),(true,true));(1680,((Some 222),(Some 222)),(true,true));(1681,((Some 195),(Some 195)),(true,true));(1682,((Some 196),(Some 196)),(true,true));(1683,((Some 197),(Some 197)),(true,true));(1684,((Some 223),(Some 223)),(true,true));(1685,((Some 213),(Some 213)),(true,true));(1686,((Some 214),(Some 214)),(true,true));(1687,((Some 215),(Some 215)),(true,true));(1688,((Some 198),(Some 198)),(true,true));(1689,((Some 199),(Some 199)),(true,true));(1690,((Some 200),(Some 200)),(true,true));(1691,((Some 201),(Some 201)),(true,true));(1692,((Some 202),(Some 202)),(true,true));(1693,((Some 203),(Some 203)),(true,true));(1694,((Some 271),(Some 271)),(true,true));(1695,((Some 256),(Some 256)),(true,true));(1696,((Some 224),(Some 224)),(true,true));(1697,((Some 216),(Some 216)),(true,true));(1698,((Some 204),(Some 204)),(true,true));(1699,((Some 278),(Some 278)),(true,true));(1700,((Some 272),(Some 272)),(true,true));(1701,((Some 257),(Some 257)),(true,true));(1669,((Some 258),(Some 258)),(true,true));(1609,((Some 373),(Some 373)),(true,true));(1610,((Some 353),(Some 353)),(true,true));(1611,((Some 282),(Some 282)),(true,true));(1612,((Some 319),(Some 319)),(true,true));(1613,((Some 371),(Some 371)),(true,true));(1614,((Some 367),(Some 367)),(true,true));(1615,((Some 368),(Some 368)),(true,true));(1616,((Some 361),(Some 361)),(true,true));(1617,((Some 299),(Some 299)),(true,true));(1618,((Some 300),(Some 300)),(true,true));(1619,((Some 320),(Some 320)),(true,true));(1620,((Some 321),(Some 321)),(true,true));(1621,((Some 322),(Some 322)),(true,true));(1622,((Some 354),(Some 354)),(true,true));(1623,((Some 323),(Some 323)),(true,true));(1624,((Some 301),(Some 301)),(true,true));(1625,((Some 324),(Some 324)),(true,true));(1626,((Some 302),(Some 302)),(true,true));(1627,((Some 325),(Some 325)),(true,true));(1628,((Some 283),(Some 283)),(true,true));(1629,((Some 369),(Some 369)),(true,true));(1630,((Some 362),(Some 362)),(true,true));(1631,((Some 355),(Some 355)),(true,true));(1632,((Some 375),(Some 375)),(true,true));(1633,((Some 326),(Some 326)),(true,true));(1634,((Some 327),(Some 327)),(true,true));(1635,((Some 328),(Some 328)),(true,true));(1636,((Some 329),(Some 329)),(true,true));(1637,((Some 311),(Some 311)),(true,true));(1638,((Some 330),(Some 330)),(true,true));(1639,((Some 331),(Some 331)),(true,true));(1640,((Some 332),(Some 332)),(true,true));(1641,((Some 312),(Some 312)),(true,true));(1642,((Some 333),(Some 333)),(true,true));(1643,((Some 334),(Some 334)),(true,true));(1644,((Some 356),(Some 356)),(true,true));(1645,((Some 335),(Some 335)),(true,true));(1646,((Some 336),(Some 336)),(true,true));(1647,((Some 337),(Some 337)),(true,true));(1648,((Some 338),(Some 338)),(true,true));(1649,((Some 339),(Some 339)),(true,true));(1650,((Some 340),(Some 340)),(true,true));(1651,((Some 341),(Some 341)),(true,true));(1652,((Some 342),(Some 342)),(true,true));(1653,((Some 343),(Some 343)),(true,true));(1654,((Some 344),(Some 344)),(true,true));(1655,((Some 363),(Some 363)),(true,true));(1656,((Some 357),(Some 357)),(true,true));(1657,((Some 345),(Some 345)),(true,true));(1658,((Some 346),(Some 346)),(true,true));(1659,((Some 313),(Some 313)),(true,true));(1660,((Some 303),(Some 303)),(true,true));(1661,((Some 284),(Some 284)),(true,true));(1662,((Some 347),(Some 347)),(true,true));(1663,((Some 370),(Some 370)),(true,true));(1664,((Some 358),(Some 358)),(true,true));(1665,((Some 304),(Some 304)),(true,true));(1666,((Some 285),(Some 285)),(true,true));(1667,((Some 359),(Some 359)),(true,true));(1668,((Some 374),(Some 374)),(true,true));(1669,((Some 348),(Some 348)),(true,true));(1670,((Some 360),(Some 360)),(true,true));(1671,((Some 286),(Some 286)),(true,true));(1672,((Some 364),(Some 364)),(true,true));(1673,((Some 314),(Some 314)),(true,true));(1674,((Some 349),(Some 349)),(true,true));(1675,((Some 315),(Some 315)),(true,true));(1676,((Some 287),(Some 287)),(true,true));(1677,((Some 350),(Some 350)),(true,true));(1678,((Some 306),(Some 306)),(true,true));(1679,((Some 288),(Some 288)),(true,true));(1680,((Some 316),(Some 316)),(true,true));(1681,((Some 289),(Some 289)),(true,true));(1682,((Some 290),(Some 290)),(true,true));(1683,((Some 291),(Some 291)),(true,true));(1684,((Some 317),(Some 317)),(true,true));(1685,((Some 307),(Some 307)),(true,true));(1686,((Some 308),(Some 308)),(true,true));(1687,((Some 309),(Some 309)),(true,true));(1688,((Some 292),(Some 292)),(true,true));(1689,((Some 293),(Some 293)),(true,true));(1690,((Some 294),(Some 294)),(true,true));(1691,((Some 295),(Some 295)),(true,true));(1692,((Some 296),(Some 296)),(true,true));(1693,((Some 297),(Some 297)),(true,true));(1694,((Some 365),(Some 365)),(true,true));(1695,((Some 351),(Some 351)),(true,true));(1696,((Some 318),(Some 318)),(true,true));(1697,((Some 310),(Some 310)),(true,true));(1698,((Some 298),(Some 298)),(true,true));(1699,((Some 372),(Some 372)),(true,true));(1700,((Some 366),(Some 366)),(true,true));(1701,((Some 352),(Some 352)),(true,true));(1609,((Some 467),(Some 467)),(true,true));(1610,((Some 449),(Some 449)),(true,true));(1611,((Some 376),(Some 376)),(true,true));(1612,((Some 418),(Some 418)),(true,true));(1613,((Some 465),(Some 465)),(true,true));(1614,((Some 462),(Some 462)),(true,true));(1615,((Some 463),(Some 463)),(true,true));(1616,((Some 457),(Some 457)),(true,true));(1617,((Some 394),(Some 394)),(true,true));(1618,((Some 395),(Some 395)),(true,true));(1619,((Some 419),(Some 419)),(true,true));(1620,((Some 420),(Some 420)),(true,true));(1621,((Some 421),(Some 421)),(true,true));(1622,((Some 450),(Some 450)),(true,true));(1623,((Some 422),(Some 422)),(true,true));(1624,((Some 396),(Some 396)),(true,true));(1625,((Some 423),(Some 423)),(true,true));(1626,((Some 397),(Some 397)),(true,true));(1627,((Some 424),(Some 424)),(true,true));(1628,((Some 377),(Some 377)),(true,true));(1629,((Some 458),(Some 458)),(true,true));(1630,((Some 451),(Some 451)),(true,true));(1631,((Some 410),(Some 410)),(true,true));(1632,((Some 469),(Some 469)),(true,true));(1633,((Some 425),(Some 425)),(true,true));(1634,((Some 426),(Some 426)),(true,true));(1635,((Some 427),(Some 427)),(true,true));(1636,((Some 428),(Some 428)),(true,true));(1637,((Some 411),(Some 411)),(true,true));(1638,((Some 398),(Some 398)),(true,true));(1639,((Some 399),(Some 399)),(true,true));(1640,((Some 400),(Some 400)),(true,true));(1642,((Some 429),(Some 429)),(true,true));(1643,((Some 430),(Some 430)),(true,true));(1644,((Some 452),(Some 452)),(true,true));(1645,((Some 431),(Some 431)),(true,true));(1646,((Some 432),(Some 432)),(true,true));(1647,((Some 433),(Some 433)),(true,true));(1648,((Some 434),(Some 434)),(true,true));(1649,((Some 435),(Some 435)),(true,true));(1650,((Some 436),(Some 436)),(true,true));(1651,((Some 437),(Some 437)),(true,true));(1652,((Some 438),(Some 438)),(true,true));(1653,((Some 439),(Some 439)),(true,true));(1654,((Some 440),(Some 440)),(true,true));(1655,((Some 459),(Some 459)),(true,true));(1656,((Some 453),(Some 453)),(true,true));(1657,((Some 441),(Some 441)),(true,true));(1658,((Some 442),(Some 442)),(true,true));(1659,((Some 412),(Some 412)),(true,true));(1660,((Some 401),(Some 401)),(true,true));(1661,((Some 378),(Some 378)),(true,true));(1662,((Some 443),(Some 443)),(true,true));(1663,((Some 464),(Some 464)),(true,true));(1664,((Some 454),(Some 454)),(true,true));(1665,((Some 402),(Some 402)),(true,true));(1666,((Some 379),(Some 379)),(true,true));(1668,((Some 468),(Some 468)),(true,true));(1670,((Some 455),(Some 455)),(true,true));(1671,((Some 380),(Some 380)),(true,true));(1672,((Some 460),(Some 460)),(true,true));(1673,((Some 413),(Some 413)),(true,true));(1674,((Some 444),(Some 444)),(true,true));(1675,((Some 414),(Some 414)),(true,true));(1676,((Some 381),(Some 381)),(true,true));(1677,((Some 445),(Some 445)),(true,true));(1678,((Some 404),(Some 404)),(true,true));(1679,((Some 382),(Some 382)),(true,true));(1680,((Some 415),(Some 415)),(true,true));(1681,((Some 383),(Some 383)),(true,true));(1682,((Some 384),(Some 384)),(true,true));(1683,((Some 385),(Some 385)),(true,true));(1684,((Some 416),(Some 416)),(true,true));(1685,((Some 405),(Some 405)),(true,true));(1686,((Some 406),(Some 406)),(true,true));(1687,((Some 407),(Some 407)),(true,true));(1688,((Some 386),(Some 386)),(true,true));(1689,((Some 387),(Some 387)),(true,true));(1690,((Some 388),(Some 388)),(true,true));(1691,((Some 389),(Some 389)),(true,true));(1692,((Some 390),(Some 390)),(true,true));(1693,((Some 391),(Some 391)),(true,true));(1694,((Some 461),(Some 461)),(true,true));(1695,((Some 446),(Some 446)),(true,true));(1696,((Some 417),(Some 417)),(true,true));(1697,((Some 408),(Some 408)),(true,true));(1698,((Some 392),(Some 392)),(true,true));(1699,((Some 466),(Some 466)),(true,true));(1700,((Some 456),(Some 456)),(true,true));(1667,((Some 447),(Some 447)),(true,true));(1701,((Some 409),(Some 409)),(true,true));(1641,((Some 393),(Some 393)),(true,true));(1669,((Some 448),(Some 448)),(true,true));(1609,((Some 563),(Some 563)),(true,true));(1610,((Some 542),(Some 542)),(true,true));(1611,((Some 470),(Some 470)),(true,true));(1612,((Some 509),(Some 509)),(true,true));(1613,((Some 555),(Some 555)),(true,true));(1614,((Some 552),(Some 552)),(true,true));(1615,((Some 553),(Some 553)),(true,true));(1616,((Some 548),(Some 548)),(true,true));(1617,((Some 487),(Some 487)),(true,true));(1618,((Some 488),(Some 488)),(true,true));(1619,((Some 510),(Some 510)),(true,true));(1620,((Some 511),(Some 511)),(true,true));(1621,((Some 512),(Some 512)),(true,true));(1622,((Some 543),(Some 543)),(true,true));(1623,((Some 500),(Some 500)),(true,true));(1624,((Some 489),(Some 489)),(true,true));(1625,((Some 513),(Some 513)),(true,true));(1626,((Some 490),(Some 490)),(true,true));(1627,((Some 514),(Some 514)),(true,true));(1628,((Some 471),(Some 471)),(true,true));(1629,((Some 561),(Some 561)),(true,true));(1630,((Some 515),(Some 515)),(true,true));(1631,((Some 559),(Some 559)),(true,true));(1632,((Some 557),(Some 557)),(true,true));(1633,((Some 516),(Some 516)),(true,true));(1634,((Some 517),(Some 517)),(true,true));(1635,((Some 518),(Some 518)),(true,true));(1636,((Some 519),(Some 519)),(true,true));(1637,((Some 501),(Some 501)),(true,true));(1638,((Some 520),(Some 520)),(true,true));(1639,((Some 521),(Some 521)),(true,true));(1640,((Some 522),(Some 522)),(true,true));(1641,((Some 502),(Some 502)),(true,true));(1642,((Some 523),(Some 523)),(true,true));(1643,((Some 524),(Some 524)),(true,true));(1644,((Some 544),(Some 544)),(true,true));(1645,((Some 525),(Some 525)),(true,true));(1646,((Some 526),(Some 526)),(true,true));(1647,((Some 527),(Some 527)),(true,true));(1648,((Some 528),(Some 528)),(true,true));(1649,((Some 529),(Some 529)),(true,true));(1650,((Some 530),(Some 530)),(true,true));(1651,((Some 531),(Some 531)),(true,true));(1652,((Some 532),(Some 532)),(true,true));(1653,((Some 533),(Some 533)),(true,true));(1654,((Some 534),(Some 534)),(true,true));(1655,((Some 549),(Some 549)),(true,true));(1656,((Some 545),(Some 545)),(true,true));(1657,((Some 535),(Some 535)),(true,true));(1658,((Some 536),(Some 536)),(true,true));(1659,((Some 503),(Some 503)),(true,true));(1660,((Some 491),(Some 491)),(true,true));(1661,((Some 472),(Some 472)),(true,true));(1662,((Some 537),(Some 537)),(true,true));(1663,((Some 554),(Some 554)),(true,true));(1664,((Some 546),(Some 546)),(true,true));(1665,((Some 492),(Some 492)),(true,true));(1666,((Some 473),(Some 473)),(true,true));(1701,((Some 558),(Some 558)),(true,true));(1668,((Some 556),(Some 556)),(true,true));(1669,((Some 538),(Some 538)),(true,true));(1670,((Some 547),(Some 547)),(true,true));(1671,((Some 474),(Some 474)),(true,true));(1672,((Some 550),(Some 550)),(true,true));(1673,((Some 504),(Some 504)),(true,true));(1674,((Some 539),(Some 539)),(true,true));(1675,((Some 505),(Some 505)),(true,true));(1676,((Some 475),(Some 475)),(true,true));(1677,((Some 540),(Some 540)),(true,true));(1678,((Some 494),(Some 494)),(true,true));(1679,((Some 476),(Some 476)),(true,true));(1681,((Some 477),(Some 477)),(true,true));(1682,((Some 478),(Some 478)),(true,true));(1684,((Some 506),(Some 506)),(true,true));(1685,((Some 495),(Some 495)),(true,true));(1686,((Some 496),(Some 496)),(true,true));(1687,((Some 497),(Some 497)),(true,true));(1688,((Some 479),(Some 479)),(true,true));(1689,((Some 480),(Some 480)),(true,true));(1690,((Some 481),(Some 481)),(true,true));(1691,((Some 482),(Some 482)),(true,true));(1692,((Some 483),(Some 483)),(true,true));(1693,((Some 484),(Some 484)),(true,true));(1694,((Some 551),(Some 551)),(true,true));(1695,((Some 541),(Some 541)),(true,true));(1696,((Some 507),(Some 507)),(true,true));(1697,((Some 498),(Some 498)),(true,true));(1698,((Some 485),(Some 485)),(true,true));(1699,((Some 562),(Some 562)),(true,true));(1700,((Some 560),(Some 560)),(true,true));(1667,((Some 508),(Some 508)),(true,true));(1680,((Some 499),(Some 499)),(true,true));(1683,((Some 486),(Some 486)),(true,true));(1702,((Some 566),(Some 566)),(true,true));(1703,((Some 564),(Some 564)),(true,true));(1704,((Some 567),(Some 567)),(true,true));(1705,((Some 565),(Some 565)),(true,true));(1706,((Some 581),(Some 581)),(true,true));(1707,((Some 580),(Some 580)),(true,true));(673,((Some 568),(Some 568)),(true,true));(675,((Some 569),(Some 569)),(true,true));(1708,((Some 570),(Some 570)),(true,true));(1709,((Some 579),(Some 579)),(true,true));(1710,((Some 577),(Some 577)),(true,true));(1711,((Some 575),(Some 575)),(true,true));(1712,((Some 571),(Some 571)),(true,true));(1713,((Some 578),(Some 578)),(true,true));(1714,((Some 576),(Some 576)),(true,true));(1715,((Some 572),(Some 572)),(true,true));(1716,((Some 573),(Some 573)),(true,true));(1717,((Some 574),(Some 574)),(true,true));(1718,((Some 582),(Some 582)),(true,true));(1719,((Some 584),(Some 584)),(true,true));(1720,((Some 583),(Some 583)),(true,true));(1713,((Some 591),(Some 591)),(true,true));(1714,((Some 588),(Some 588)),(true,true));(1717,((Some 585),(Some 585)),(true,true));(1721,((Some 592),(Some 592)),(true,true));(1722,((Some 589),(Some 589)),(true,true));(1708,((Some 586),(Some 586)),(true,true));(1723,((Some 594),(Some 594)),(true,true));(1724,((Some 593),(Some 593)),(true,true));(1725,((Some 590),(Some 590)),(true,true));(1726,((Some 587),(Some 587)),(true,true));(1727,((Some 610),(Some 610)),(true,true));(1728,((Some 608),(Some 608)),(true,true));(1729,((Some 595),(Some 595)),(true,true));(1730,((Some 596),(Some 596)),(true,true));(1731,((Some 597),(Some 597)),(true,true));(1732,((Some 598),(Some 598)),(true,true));(1733,((Some 605),(Some 605)),(true,true));(1734,((Some 600),(Some 600)),(true,true));(1735,((Some 599),(Some 599)),(true,true));(1736,((Some 606),(Some 606)),(true,true));(1737,((Some 601),(Some 601)),(true,true));(1738,((Some 609),(Some 609)),(true,true));(1739,((Some 607),(Some 607)),(true,true));(1740,((Some 602),(Some 602)),(true,true));(1741,((Some 603),(Some 603)),(true,true));(1742,((Some 604),(Some 604)),(true,true));(1743,((Some 612),(Some 612)),(true,true));(1744,((Some 611),(Some 611)),(true,true));(1745,((Some 613),(Some 613)),(true,true));(1746,((Some 617),(Some 617)),(true,true));(1747,((Some 616),(Some 616)),(true,true));(1748,((Some 615),(Some 615)),(true,true));(1749,((Some 614),(Some 614)),(true,true));(1750,((Some 618),(Some 618)),(true,true));(1751,((Some 619),(Some 619)),(true,true));(1752,((Some 621),(Some 621)),(true,true));(1753,((Some 620),(Some 620)),(true,true));(1727,((Some 634),(Some 634)),(true,true));(1728,((Some 632),(Some 632)),(true,true));(1729,((Some 622),(Some 622)),(true,true));(1730,((Some 623),(Some 623)),(true,true));(1731,((Some 624),(Some 624)),(true,true));(1732,((Some 625),(Some 625)),(true,true));(1736,((Some 630),(Some 630)),(true,true));(1737,((Some 626),(Some 626)),(true,true));(1738,((Some 633),(Some 633)),(true,true));(1739,((Some 631),(Some 631)),(true,true));(1740,((Some 627),(Some 627)),(true,true));(1741,((Some 628),(Some 628)),(true,true));(1742,((Some 629),(Some 629)),(true,true));(1754,((Some 635),(Some 635)),(true,true));(1755,((Some 636),(Some 636)),(true,true));(1756,((Some 637),(Some 637)),(true,true));(1757,((Some 670),(Some 670)),(true,true));(1758,((Some 638),(Some 638)),(true,true));(1759,((Some 639),(Some 639)),(true,true));(1760,((Some 640),(Some 640)),(true,true));(1761,((Some 699),(Some 699)),(true,true));(1762,((Some 698),(Some 698)),(true,true));(1763,((Some 697),(Some 697)),(true,true));(1764,((Some 696),(Some 696)),(true,true));(1765,((Some 676),(Some 676)),(true,true));(1766,((Some 671),(Some 671)),(true,true));(1767,((Some 641),(Some 641)),(true,true));(1768,((Some 642),(Some 642)),(true,true));(1769,((Some 643),(Some 643)),(true,true));(1770,((Some 677),(Some 677)),(true,true));(1771,((Some 672),(Some 672)),(true,true));(1772,((Some 644),(Some 644)),(true,true));(1773,((Some 645),(Some 645)),(true,true));(1774,((Some 646),(Some 646)),(true,true));(1775,((Some 647),(Some 647)),(true,true));(1776,((Some 648),(Some 648)),(true,true));(1777,((Some 649),(Some 649)),(true,true));(1778,((Some 673),(Some 673)),(true,true));(1779,((Some 650),(Some 650)),(true,true));(1780,((Some 687),(Some 687)),(true,true));(1781,((Some 651),(Some 651)),(true,true));(1782,((Some 678),(Some 678)),(true,true));(1783,((Some 674),(Some 674)),(true,true));(1784,((Some 652),(Some 652)),(true,true));(1785,((Some 653),(Some 653)),(true,true));(1786,((Some 654),(Some 654)),(true,true));(1787,((Some 655),(Some 655)),(true,true));(1788,((Some 656),(Some 656)),(true,true));(1789,((Some 657),(Some 657)),(true,true));(1790,((Some 688),(Some 688)),(true,true));(1791,((Some 681),(Some 681)),(true,true));(1792,((Some 658),(Some 658)),(true,true));(1793,((Some 659),(Some 659)),(true,true));(1794,((Some 660),(Some 660)),(true,true));(1795,((Some 661),(Some 661)),(true,true));(1796,((Some 695),(Some 695)),(true,true));(1797,((Some 694),(Some 694)),(true,true));(1798,((Some 662),(Some 662)),(true,true));(1799,((Some 689),(Some 689)),(true,true));(1800,((Some 682),(Some 682)),(true,true));(1801,((Some 663),(Some 663)),(true,true));(1802,((Some 664),(Some 664)),(true,true));(1748,((Some 675),(Some 675)),(true,true));(1749,((Some 665),(Some 665)),(true,true));(1803,((Some 690),(Some 690)),(true,true));(1804,((Some 683),(Some 683)),(true,true));(1805,((Some 666),(Some 666)),(true,true));(1806,((Some 691),(Some 691)),(true,true));(1807,((Some 684),(Some 684)),(true,true));(1808,((Some 667),(Some 667)),(true,true));(1809,((Some 692),(Some 692)),(true,true));(1810,((Some 685),(Some 685)),(true,true));(1811,((Some 668),(Some 668)),(true,true));(1812,((Some 693),(Some 693)),(true,true));(1813,((Some 686),(Some 686)),(true,true));(1814,((Some 669),(Some 669)),(true,true));(1815,((Some 679),None),(true,false));(1816,((Some 680),None),(true,false));(1817,((Some 703),(Some 703)),(true,true));(1818,((Some 700),(Some 700)),(true,true));(1819,((Some 704),(Some 704)),(true,true));(1820,((Some 701),(Some 701)),(true,true));(1821,((Some 705),(Some 705)),(true,true));(1822,((Some 702),(Some 702)),(true,true));(1817,((Some 708),(Some 708)),(true,true));(1818,((Some 706),(Some 706)),(true,true));(1819,((Some 709),(Some 709)),(true,true));(1820,((Some 707),(Some 707)),(true,true));(1823,((Some 710),None),(true,false));(1824,((Some 736),(Some 736)),(true,true));(1825,((Some 737),(Some 737)),(true,true));(1826,((Some 713),(Some 713)),(true,true));(1827,((Some 714),(Some 714)),(true,true));(1828,((Some 715),(Some 715)),(true,true));(1829,((Some 716),(Some 716)),(true,true));(1830,((Some 717),(Some 717)),(true,true));(1831,((Some 718),(Some 718)),(true,true));(1832,((Some 766),(Some 766)),(true,true));(1833,((Some 765),(Some 765)),(true,true));(1834,((Some 760),(Some 760)),(true,true));(1835,((Some 756),(Some 756)),(true,true));(1836,((Some 752),(Some 752)),(true,true));(1837,((Some 748),(Some 748)),(true,true));(1838,((Some 738),(Some 738)),(true,true));(1839,((Some 719),(Some 719)),(true,true));(1840,((Some 720),(Some 720)),(true,true));(1841,((Some 757),(Some 757)),(true,true));(1842,((Some 753),(Some 753)),(true,true));(1843,((Some 739),(Some 739)),(true,true));(1844,((Some 749),(Some 749)),(true,true));(1845,((Some 740),(Some 740)),(true,true));(1846,((Some 722),(Some 722)),(true,true));(1847,((Some 741),(Some 741)),(true,true));(1848,((Some 723),(Some 723)),(true,true));(1849,((Some 742),(Some 742)),(true,true));(1850,((Some 724),(Some 724)),(true,true));(1851,((Some 768),(Some 768)),(true,true));(1852,((Some 767),(Some 767)),(true,true));(1853,((Some 725),(Some 725)),(true,true));(1854,((Some 743),(Some 743)),(true,true));(1855,((Some 758),(Some 758)),(true,true));(1856,((Some 754),(Some 754)),(true,true));(1857,((Some 744),(Some 744)),(true,true));(1858,((Some 727),(Some 727)),(true,true));(1859,((Some 750),(Some 750)),(true,true));(1860,((Some 745),(Some 745)),(true,true));(1861,((Some 728),(Some 728)),(true,true));(1862,((Some 729),(Some 729)),(true,true));(1863,((Some 730),(Some 730)),(true,true));(1864,((Some 731),(Some 731)),(true,true));(1865,((Some 764),(Some 764)),(true,true));(1866,((Some 763),(Some 763)),(true,true));(1867,((Some 732),(Some 732)),(true,true));(1868,((Some 746),(Some 746)),(true,true));(1869,((Some 733),(Some 733)),(true,true));(1870,((Some 762),(Some 762)),(true,true));(1871,((Some 761),(Some 761)),(true,true));(1872,((Some 759),(Some 759)),(true,true));(1873,((Some 755),(Some 755)),(true,true));(1874,((Some 751),(Some 751)),(true,true));(1875,((Some 747),(Some 747)),(true,true));(1876,((Some 734),(Some 734)),(true,true));(1877,((Some 735),(Some 735)),(true,true));(1878,((Some 712),None),(true,false));(1879,((Some 721),None),(true,false));(1880,((Some 726),None),(true,false));(1757,((Some 782),(Some 782)),(true,true));(1758,((Some 769),(Some 769)),(true,true));(1881,((Some 816),(Some 816)),(true,true));(1882,((Some 815),(Some 815)),(true,true));(1883,((Some 814),(Some 814)),(true,true));(1884,((Some 826),(Some 826)),(true,true));(1885,((Some 825),(Some 825)),(true,true));(1886,((Some 770),(Some 770)),(true,true));(1887,((Some 783),(Some 783)),(true,true));(1888,((Some 771),(Some 771)),(true,true));(1889,((Some 796),(Some 796)),(true,true));(1890,((Some 785),(Some 785)),(true,true));(1891,((Some 797),(Some 797)),(true,true));(1892,((Some 809),(Some 809)),(true,true));(1893,((Some 806),(Some 806)),(true,true));(1894,((Some 798),(Some 798)),(true,true));(1895,((Some 787),(Some 787)),(true,true));(1896,((Some 772),(Some 772)),(true,true));(1897,((Some 799),(Some 799)),(true,true));(1898,((Some 788),(Some 788)),(true,true));(1899,((Some 800),(Some 800)),(true,true));(1900,((Some 789),(Some 789)),(true,true));(1901,((Some 813),(Some 813)),(true,true));(1902,((Some 812),(Some 812)),(true,true));(1903,((Some 790),(Some 790)),(true,true));(1904,((Some 773),(Some 773)),(true,true));(1905,((Some 811),(Some 811)),(true,true));(1906,((Some 810),(Some 810)),(true,true));(1907,((Some 774),(Some 774)),(true,true));(1908,((Some 807),(Some 807)),(true,true));(1909,((Some 801),(Some 801)),(true,true));(1910,((Some 791),(Some 791)),(true,true));(1911,((Some 775),(Some 775)),(true,true));(1912,((Some 776),(Some 776)),(true,true));(1819,((Some 822),(Some 822)),(true,true));(1820,((Some 817),(Some 817)),(true,true));(1913,((Some 802),(Some 802)),(true,true));(1914,((Some 792),(Some 792)),(true,true));(1915,((Some 777),(Some 777)),(true,true));(1916,((Some 823),(Some 823)),(true,true));(1917,((Some 818),(Some 818)),(true,true));(1918,((Some 808),(Some 808)),(true,true));(1919,((Some 803),(Some 803)),(true,true));(1920,((Some 778),(Some 778)),(true,true));(1921,((Some 779),(Some 779)),(true,true));(1922,((Some 793),(Some 793)),(true,true));(1923,((Some 780),(Some 780)),(true,true));(1924,((Some 819),(Some 819)),(true,true));(1925,((Some 804),(Some 804)),(true,true));(1926,((Some 794),(Some 794)),(true,true));(1025,((Some 781),(Some 781)),(true,true));(1927,((Some 820),(Some 820)),(true,true));(1928,((Some 805),(Some 805)),(true,true));(1929,((Some 795),(Some 795)),(true,true));(1930,((Some 824),(Some 824)),(true,true));(1931,((Some 821),(Some 821)),(true,true));(1932,((Some 784),None),(true,false));(1933,((Some 786),None),(true,false));(1167,((Some 827),(Some 827)),(true,true));(695,((Some 841),(Some 841)),(true,true));(1934,((Some 835),(Some 835)),(true,true));(1935,((Some 828),(Some 828)),(true,true));(1234,((Some 836),(Some 836)),(true,true));(1936,((Some 829),(Some 829)),(true,true));(1195,((Some 842),(Some 842)),(true,true));(1937,((Some 837),(Some 837)),(true,true));(1938,((Some 830),(Some 830)),(true,true));(1225,((Some 838),(Some 838)),(true,true));(1939,((Some 832),(Some 832)),(true,true));(1194,((Some 844),(Some 844)),(true,true));(1940,((Some 843),(Some 843)),(true,true));(1184,((Some 839),(Some 839)),(true,true));(1941,((Some 833),(Some 833)),(true,true));(9,((Some 840),(Some 840)),(true,true));(1942,((Some 834),(Some 834)),(true,true));(1943,((Some 831),None),(true,false));(1944,((Some 852),(Some 852)),(true,true));(1945,((Some 845),(Some 845)),(true,true));(1946,((Some 846),(Some 846)),(true,true));(1167,((Some 847),(Some 847)),(true,true));(1947,((Some 856),(Some 856)),(true,true));(1200,((Some 851),(Some 851)),(true,true));(1197,((Some 848),(Some 848)),(true,true));(1198,((Some 849),(Some 849)),(true,true));(1199,((Some 850),(Some 850)),(true,true));(1948,((Some 859),(Some 859)),(true,true));(1949,((Some 861),(Some 861)),(true,true));(1950,((Some 893),(Some 893)),(true,true));(1951,((Some 892),(Some 892)),(true,true));(1952,((Some 864),(Some 864)),(true,true));(1953,((Some 865),(Some 865)),(true,true));(1954,((Some 881),(Some 881)),(true,true));(1955,((Some 866),(Some 866)),(true,true));(1956,((Some 883),(Some 883)),(true,true));(1936,((Some 867),(Some 867)),(true,true));(1957,((Some 868),(Some 868)),(true,true));(1939,((Some 869),(Some 869)),(true,true));(1934,((Some 885),(Some 885)),(true,true));(1958,((Some 870),(Some 870)),(true,true));(1959,((Some 871),(Some 871)),(true,true));(1960,((Some 875),(Some 875)),(true,true));(1961,((Some 887),(Some 887)),(true,true));(1962,((Some 876),(Some 876)),(true,true));(1204,((Some 860),(Some 860)),(true,true));(1223,((Some 872),(Some 872)),(true,true));(1224,((Some 873),(Some 873)),(true,true));(1225,((Some 874),(Some 874)),(true,true));(1244,((Some 878),(Some 878)),(true,true));(1245,((Some 879),(Some 879)),(true,true));(1172,((Some 880),(Some 880)),(true,true));(1234,((Some 882),(Some 882)),(true,true));(1238,((Some 886),(Some 886)),(true,true));(1171,((Some 888),(Some 888)),(true,true));(1963,((Some 889),(Some 889)),(true,true));(695,((Some 890),(Some 890)),(true,true));(936,((Some 891),(Some 891)),(true,true));(1964,((Some 862),None),(true,false));(1965,((Some 863),None),(true,false));(1966,((Some 877),None),(true,false));(1967,((Some 921),(Some 921)),(true,true));(1968,((Some 915),(Some 915)),(true,true));(1969,((Some 905),(Some 905)),(true,true));(1970,((Some 894),(Some 894)),(true,true));(1971,((Some 906),(Some 906)),(true,true));(1972,((Some 895),(Some 895)),(true,true));(1973,((Some 907),(Some 907)),(true,true));(1974,((Some 916),(Some 916)),(true,true));(1975,((Some 908),(Some 908)),(true,true));(1976,((Some 896),(Some 896)),(true,true));(1265,((Some 897),(Some 897)),(true,true));(1977,((Some 917),(Some 917)),(true,true));(1978,((Some 918),(Some 918)),(true,true));(1979,((Some 919),(Some 919)),(true,true));(1980,((Some 909),(Some 909)),(true,true));(1868,((Some 910),(Some 910)),(true,true));(1981,((Some 898),(Some 898)),(true,true));(1982,((Some 899),(Some 899)),(true,true));(1983,((Some 900),(Some 900)),(true,true));(1984,((Some 911),(Some 911)),(true,true));(1985,((Some 901),(Some 901)),(true,true));(1986,((Some 912),(Some 912)),(true,true));(1987,((Some 902),(Some 902)),(true,true));(1988,((Some 903),(Some 903)),(true,true));(1989,((Some 920),(Some 920)),(true,true));(1990,((Some 914),(Some 914)),(true,true));(973,((Some 904),(Some 904)),(true,true));(1991,((Some 913),(Some 913)),(true,true));(1992,((Some 926),(Some 926)),(true,true));(1993,((Some 927),(Some 927)),(true,true));(1994,((Some 928),(Some 928)),(true,true));(1995,((Some 925),(Some 925)),(true,true));(1996,((Some 922),(Some 922)),(true,true));(1997,((Some 924),(Some 924)),(true,true));(1998,((Some 923),(Some 923)),(true,true));(1999,((Some 929),(Some 929)),(true,true));(2000,((Some 930),(Some 930)),(true,true));(2001,((Some 931),(Some 931)),(true,true));(2002,((Some 933),(Some 933)),(true,true));(2003,((Some 934),(Some 934)),(true,true));(2004,((Some 935),(Some 935)),(true,true));(2005,((Some 936),(Some 936)),(true,true));(2006,((Some 937),(Some 937)),(true,true));(2007,((Some 938),(Some 938)),(true,true));(2008,((Some 939),(Some 939)),(true,true));(2009,((Some 940),(Some 940)),(true,true));(2010,((Some 941),(Some 941)),(true,true));(2011,((Some 942),(Some 942)),(true,true));(2012,((Some 943),(Some 943)),(true,true));(2013,((Some 944),(Some 944)),(true,true));(2014,((Some 945),(Some 945)),(true,true));(2015,((Some 946),(Some 946)),(true,true));(2016,((Some 947),(Some 947)),(true,true));(2017,((Some 948),(Some 948)),(true,true));(2018,((Some 949),(Some 949)),(true,true));(1621,((Some 950),(Some 950)),(true,true));(2019,((Some 951),(Some 951)),(true,true));(2020,((Some 952),(Some 952)),(true,true));(2021,((Some 932),(Some 932)),(true,true));(2022,((Some 1003),(Some 1003)),(true,true));(2023,((Some 953),(Some 953)),(true,true));(1680,((Some 954),(Some 954)),(true,true));(1818,((Some 1004),(Some 1004)),(true,true));(2024,((Some 955),(Some 955)),(true,true));(2025,((Some 956),(Some 956)),(true,true));(2026,((Some 1005),(Some 1005)),(true,true));(2027,((Some 957),(Some 957)),(true,true));(2028,((Some 1006),(Some 1006)),(true,true));(2029,((Some 958),(Some 958)),(true,true));(2030,((Some 1041),(Some 1041)),(true,true));(2031,((Some 1007),(Some 1007)),(true,true));(2032,((Some 959),(Some 959)),(true,true));(2033,((Some 960),(Some 960)),(true,true));(2034,((Some 1008),(Some 1008)),(true,true));(2035,((Some 961),(Some 961)),(true,true));(2036,((Some 1009),(Some 1009)),(true,true));(2037,((Some 962),(Some 962)),(true,true));(2038,((Some 1010),(Some 1010)),(true,true));(2039,((Some 963),(Some 963)),(true,true));(2040,((Some 1011),(Some 1011)),(true,true));(2041,((Some 965),(Some 965)),(true,true));(2042,((Some 1042),(Some 1042)),(true,true));(2043,((Some 1012),(Some 1012)),(true,true));(2044,((Some 1013),(Some 1013)),(true,true));(2045,((Some 966),(Some 966)),(true,true));(2046,((Some 967),(Some 967)),(true,true));(2047,((Some 1014),(Some 1014)),(true,true));(2048,((Some 1015),(Some 1015)),(true,true));(2049,((Some 968),(Some 968)),(true,true));(2050,((Some 1016),(Some 1016)),(true,true));(2051,((Some 969),(Some 969)),(true,true));(2052,((Some 1017),(Some 1017)),(true,true));(2053,((Some 1018),(Some 1018)),(true,true));(2054,((Some 970),(Some 970)),(true,true));(2055,((Some 1019),(Some 1019)),(true,true));(2056,((Some 971),(Some 971)),(true,true));(2057,((Some 1020),(Some 1020)),(true,true));(2058,((Some 972),(Some 972)),(true,true));(2059,((Some 1021),(Some 1021)),(true,true));(2060,((Some 973),(Some 973)),(true,true));(2061,((Some 1022),(Some 1022)),(true,true));(2062,((Some 974),(Some 974)),(true,true));(2063,((Some 1023),(Some 1023)),(true,true));(2064,((Some 975),(Some 975)),(true,true));(1882,((Some 1043),(Some 1043)),(true,true));(1883,((Some 1026),(Some 1026)),(true,true));(2065,((Some 976),(Some 976)),(true,true));(2066,((Some 977),(Some 977)),(true,true));(2067,((Some 1044),(Some 1044)),(true,true));(2068,((Some 1045),(Some 1045)),(true,true));(2069,((Some 1027),(Some 1027)),(true,true));(2070,((Some 978),(Some 978)),(true,true));(2071,((Some 1028),(Some 1028)),(true,true));(2072,((Some 979),(Some 979)),(true,true));(2073,((Some 1029),(Some 1029)),(true,true));(2074,((Some 980),(Some 980)),(true,true));(2075,((Some 1030),(Some 1030)),(true,true));(2076,((Some 981),(Some 981)),(true,true));(1631,((Some 1046),(Some 1046)),(true,true));(2077,((Some 1031),(Some 1031)),(true,true));(2078,((Some 982),(Some 982)),(true,true));(2079,((Some 1032),(Some 1032)),(true,true));(2080,((Some 983),(Some 983)),(true,true));(1829,((Some 984),(Some 984)),(true,true));(2081,((Some 985),(Some 985)),(true,true));(2082,((Some 1033),(Some 1033)),(true,true));(2083,((Some 986),(Some 986)),(true,true));(2084,((Some 987),(Some 987)),(true,true));(2085,((Some 988),(Some 988)),(true,true));(2086,((Some 989),(Some 989)),(true,true));(2087,((Some 990),(Some 990)),(true,true));(2088,((Some 991),(Some 991)),(true,true));(2089,((Some 992),(Some 992)),(true,true));(2090,((Some 1034),(Some 1034)),(true,true));(2091,((Some 993),(Some 993)),(true,true));(2092,((Some 1035),(Some 1035)),(true,true));(2093,((Some 994),(Some 994)),(true,true));(2094,((Some 1036),(Some 1036)),(true,true));(2095,((Some 995),(Some 995)),(true,true));(2096,((Some 996),(Some 996)),(true,true));(2097,((Some 997),(Some 997)),(true,true));(2098,((Some 998),(Some 998)),(true,true));(2099,((Some 1037),(Some 1037)),(true,true));(2100,((Some 999),(Some 999)),(true,true));(2101,((Some 1000),(Some 1000)),(true,true));(2102,((Some 1001),(Some 1001)),(true,true));(2103,((Some 1047),(Some 1047)),(true,true));(2104,((Some 1040),(Some 1040)),(true,true));(2105,((Some 1002),(Some 1002)),(true,true));(2106,((Some 1024),(Some 1024)),(true,true));(1098,((Some 1025),(Some 1025)),(true,true));(2107,((Some 1038),(Some 1038)),(true,true));(2108,((Some 1039),(Some 1039)),(true,true));(2109,((Some 1048),(Some 1048)),(true,true));(2110,((Some 1049),(Some 1049)),(true,true));(2111,((Some 1050),(Some 1050)),(true,true));(2112,((Some 1053),(Some 1053)),(true,true));(2113,((Some 1054),(Some 1054)),(true,true));(2114,((Some 1051),(Some 1051)),(true,true));(2115,((Some 1052),(Some 1052)),(true,true));(2116,((Some 1055),(Some 1055)),(true,true));(2117,((Some 1124),(Some 1124)),(true,true));(2118,((Some 1123),(Some 1123)),(true,true));(2119,((Some 1086),(Some 1086)),(true,true));(2120,((Some 1056),(Some 1056)),(true,true));(2121,((Some 1122),(Some 1122)),(true,true));(2122,((Some 1119),(Some 1119)),(true,true));(2123,((Some 1087),(Some 1087)),(true,true));(2124,((Some 1057),(Some 1057)),(true,true));(2125,((Some 1105),(Some 1105)),(true,true));(2126,((Some 1089),(Some 1089)),(true,true));(2013,((Some 1116),(Some 1116)),(true,true));(2006,((Some 1114),(Some 1114)),(true,true));(2127,((Some 1110),(Some 1110)),(true,true));(2128,((Some 1106),(Some 1106)),(true,true));(2129,((Some 1090),(Some 1090)),(true,true));(2130,((Some 1059),(Some 1059)),(true,true));(1702,((Some 1091),(Some 1091)),(true,true));(1703,((Some 1060),(Some 1060)),(true,true));(2131,((Some 1092),(Some 1092)),(true,true));(2132,((Some 1061),(Some 1061)),(true,true));(2133,((Some 1120),(Some 1120)),(true,true));(2134,((Some 1117),(Some 1117)),(true,true));(2135,((Some 1062),(Some 1062)),(true,true));(2136,((Some 1063),(Some 1063)),(true,true));(2137,((Some 1111),(Some 1111)),(true,true));(2138,((Some 1107),(Some 1107)),(true,true));(2139,((Some 1115),(Some 1115)),(true,true));(2140,((Some 1112),(Some 1112)),(true,true));(2141,((Some 1108),(Some 1108)),(true,true));(2142,((Some 1098),(Some 1098)),(true,true));(2143,((Some 1066),(Some 1066)),(true,true));(2144,((Some 1099),(Some 1099)),(true,true));(2145,((Some 1069),(Some 1069)),(true,true));(2146,((Some 1100),(Some 1100)),(true,true));(2147,((Some 1071),(Some 1071)),(true,true));(2148,((Some 1101),(Some 1101)),(true,true));(2149,((Some 1072),(Some 1072)),(true,true));(2150,((Some 1121),(Some 1121)),(true,true));(2151,((Some 1118),(Some 1118)),(true,true));(2152,((Some 1113),(Some 1113)),(true,true));(2153,((Some 1109),(Some 1109)),(true,true));(2154,((Some 1102),(Some 1102)),(true,true));(2155,((Some 1073),(Some 1073)),(true,true));(2156,((Some 1074),(Some 1074)),(true,true));(2157,((Some 1103),(Some 1103)),(true,true));(2158,((Some 1082),(Some 1082)),(true,true));(2159,((Some 1104),(Some 1104)),(true,true));(2160,((Some 1085),(Some 1085)),(true,true));(2161,((Some 1058),(Some 1058)),(true,true));(2162,((Some 1064),(Some 1064)),(true,true));(2163,((Some 1065),(Some 1065)),(true,true));(2164,((Some 1067),(Some 1067)),(true,true));(2165,((Some 1068),(Some 1068)),(true,true));(2166,((Some 1070),(Some 1070)),(true,true));(2167,((Some 1075),(Some 1075)),(true,true));(2168,((Some 1076),(Some 1076)),(true,true));(2169,((Some 1077),(Some 1077)),(true,true));(2170,((Some 1078),(Some 1078)),(true,true));(2171,((Some 1079),(Some 1079)),(true,true));(2172,((Some 1080),(Some 1080)),(true,true));(2173,((Some 1081),(Some 1081)),(true,true));(2174,((Some 1083),(Some 1083)),(true,true));(2175,((Some 1084),(Some 1084)),(true,true));(2176,((Some 1088),(Some 1088)),(true,true));(2177,((Some 1093),(Some 1093)),(true,true));(2178,((Some 1094),(Some 1094)),(true,true));(2179,((Some 1095),(Some 1095)),(true,true));(2180,((Some 1096),(Some 1096)),(true,true));(2181,((Some 1097),(Some 1097)),(true,true));(2182,((Some 1136),(Some 1136)),(true,true));(2183,((Some 1125),(Some 1125)),(true,true));(2184,((Some 1149),(Some 1149)),(true,true));(2185,((Some 1147),(Some 1147)),(true,true));(2186,((Some 1145),(Some 1145)),(true,true));(2187,((Some 1138),(Some 1138)),(true,true));(2128,((Some 1127),(Some 1127)),(true,true));(2188,((Some 1154),(Some 1154)),(true,true));(2189,((Some 1151),(Some 1151)),(true,true));(2190,((Some 1155),(Some 1155)),(true,true));(2191,((Some 1153),(Some 1153)),(true,true));(2192,((Some 1140),(Some 1140)),(true,true));(2193,((Some 1131),(Some 1131)),(true,true));(2194,((Some 1143),(Some 1143)),(true,true));(2006,((Some 1132),(Some 1132)),(true,true));(2195,((Some 1148),(Some 1148)),(true,true));(2196,((Some 1146),(Some 1146)),(true,true));(2197,((Some 1144),(Some 1144)),(true,true));(2198,((Some 1133),(Some 1133)),(true,true));(2199,((Some 1126),(Some 1126)),(true,true));(2200,((Some 1128),(Some 1128)),(true,true));(2201,((Some 1129),(Some 1129)),(true,true));(2202,((Some 1130),(Some 1130)),(true,true));(2085,((Some 1134),(Some 1134)),(true,true));(2203,((Some 1135),(Some 1135)),(true,true));(2127,((Some 1137),(Some 1137)),(true,true));(1785,((Some 1139),(Some 1139)),(true,true));(2204,((Some 1141),(Some 1141)),(true,true));(2205,((Some 1142),(Some 1142)),(true,true));(2206,((Some 1152),(Some 1152)),(true,true));(2207,((Some 1150),None),(true,false))].

Definition validator_keys : list str := [(s2l "ID");(s2l "NCName");(s2l "dateTime");(s2l "anyURI");(s2l "nonNegativeInteger");(s2l "PositiveInteger");(s2l "boolean");(s2l "unsignedShort");(s2l "duration");(s2l "base64Binary");(s2l "integer");(s2l "QName");(s2l "anyType");(s2l "string")].

(* class ids of the rows recorded as C12 findings in known_findings.json *)
Definition known_bad_rows : list N := [393;398;399;400;892;893;1117;1120;1129;1130].

(* rows recorded as C13 findings in known_findings.json *)
Definition known_unresolved_attr : list (N * N) := [(0,15);(1,18);(5,26);(23,26);(30,68);(48,68);(49,68);(50,68);(94,15);(95,18);(99,26);(110,51);(112,51);(117,26);(124,68);(142,68);(143,68);(144,68);(164,117);(165,117);(188,15);(189,18);(193,26);(211,26);(218,68);(236,68);(237,68);(238,68);(282,15);(283,18);(287,26);(305,26);(312,68);(330,68);(331,68);(332,68);(376,15);(377,18);(381,26);(403,26);(470,15);(471,18);(475,26);(486,37);(486,39);(486,41);(489,37);(489,39);(489,41);(493,26);(502,68);(520,68);(521,68);(522,68);(565,661);(565,663);(567,661);(567,663);(571,671);(571,673);(575,671);(575,673);(600,710);(601,734);(601,735);(605,710);(606,734);(606,735);(611,757);(612,757);(614,764);(614,766);(614,768);(614,770);(615,764);(615,766);(615,768);(615,770);(619,757);(626,734);(626,735);(630,734);(630,735);(700,918);(700,920);(701,918);(701,920);(703,918);(703,920);(704,918);(704,920);(706,918);(706,920);(706,937);(707,918);(707,920);(707,940);(708,918);(708,920);(708,937);(709,918);(709,920);(709,940);(829,1159);(831,1165);(831,1166);(832,1165);(832,1166);(833,1172);(834,1159);(835,1159);(836,1159);(837,1159);(837,1166);(838,1165);(838,1166);(839,1172);(840,1159);(841,1159);(842,1159);(842,1166);(843,1159);(843,1172);(844,1159);(844,1172);(867,1213);(877,1159);(882,1213);(926,1300);(933,1300);(939,1300);(939,1319);(942,1300);(947,1300);(947,1319)].
Definition known_unenforced_enum : list N := [2;7;8;14;96;101;102;108;190;195;196;202;284;289;290;296;378;383;384;390;472;477;478;483;620;621;828;830;897;900;952;956;959;966;976;986].
Definition known_unresolved_vtype : list N := [568;573;901;911;988].

(* a real object (samlp.Response with a signed-shape assertion, typed attribute values, foreign content) read back as a model instance *)
Definition example_inst : inst := (I 822 [(177,(s2l "r1"));(1055,(s2l "2.0"));(1057,(s2l "2020-01-01T00:00:00Z"))] None [(1144,(I 815 [] None [(1141,(I 826 [(1155,(s2l "urn:oasis:names:tc:SAML:2.0:status:Success"))] None [] [] []))] [] []));(707,(I 766 [(1055,(s2l "2.0"));(177,(s2l "a1"));(1057,(s2l "2020-01-01T00:00:00Z"))] None [(915,(I 716 [] (Some (s2l "https://idp.example.org")) [] [] []));(0,(I 760 [] None [(1010,(I 737 [(953,(s2l "urn:oasis:names:tc:SAML:2.0:nameid-format:persistent"))] (Some (s2l "user<1>")) [] [] []))] [] []));(1051,(I 757 [(966,(s2l "2020-01-01T00:00:00Z"))] None [(1019,(I 749 [] None [(979,(I 722 [] (Some (s2l "sp1")) [] [] []));(979,(I 722 [] (Some (s2l "sp2")) [] [] []))] [] []))] [] []));(1,(I 759 [] None [(705,(I 751 [(765,(s2l "mail"));(767,(s2l "urn:oasis:names:tc:SAML:2.0:attrname-format:uri"))] None [(763,(I 734 [] (Some (s2l "a@b")) [] [(12,(s2l "xs:string"));(13,(s2l "http://www.w3.org/2001/XMLSchema"))] []));(763,(I 734 [] (Some (s2l "c&d")) [] [(12,(s2l "xs:string"));(13,(s2l "http://www.w3.org/2001/XMLSchema"))] []))] [] []));(705,(I 751 [(765,(s2l "empty"));(767,(s2l "urn:oasis:names:tc:SAML:2.0:attrname-format:uri"))] None [(763,(I 734 [] (Some ([]:str)) [] [(11,(s2l "true"))] []))] [] []))] [] []))] [] [(X 2209 [] None [(X 2210 [] (Some (s2l "z")) [])])]))] [(2211,(s2l "1"))] [(X 2212 [(2213,(s2l "v"))] (Some (s2l "t")) [])]).
