(* GENERATED from /repo by harness/translate_c18.py on every run - do not edit *)
From PV Require Import Lib.Base.
Open Scope N_scope.

Definition ATTR : list str := [(s2l "name_qualifier"); (s2l "sp_name_qualifier"); (s2l "format"); (s2l "sp_provided_id"); (s2l "text")].

Definition NAMEID_FORMAT_PERSISTENT : str := (s2l "urn:oasis:names:tc:SAML:2.0:nameid-format:persistent").
Definition NAMEID_FORMAT_TRANSIENT : str := (s2l "urn:oasis:names:tc:SAML:2.0:nameid-format:transient").
Definition NAMEID_FORMAT_EMAILADDRESS : str := (s2l "urn:oasis:names:tc:SAML:1.1:nameid-format:emailAddress").
