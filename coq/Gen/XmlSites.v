(* GENERATED from /repo/src/saml2_tophat by harness/translate_c11.py on every run - do not edit *)
From PV Require Import Lib.Base Model.XmlEntry.
Open Scope N_scope.

Definition scanned_files : N := 106.

Definition optional_backend_modules_absent : bool := true.

Definition xml_sites : list site := [
  mk_site (s2l "saml2_tophat/__init__.py") 96 (s2l "create_class_from_xml_string") (s2l "fromstring") (Some (s2l "defusedxml.ElementTree")) KCall Core [] 1 false;
  mk_site (s2l "saml2_tophat/__init__.py") 278 (s2l "extension_element_from_string") (s2l "fromstring") (Some (s2l "defusedxml.ElementTree")) KCall Core [] 1 false;
  mk_site (s2l "saml2_tophat/pack.py") 264 (s2l "parse_soap_enveloped_saml") (s2l "fromstring") (Some (s2l "defusedxml.ElementTree")) KCall Core [] 1 false;
  mk_site (s2l "saml2_tophat/sigver.py") 975 (s2l "CryptoBackendXMLSecurity.sign_statement") (s2l "parse_xml") (Some (s2l "xmlsec")) KCall OptionalBackend [] 1 false;
  mk_site (s2l "saml2_tophat/sigver.py") 976 (s2l "CryptoBackendXMLSecurity.sign_statement") (s2l "sign") (Some (s2l "xmlsec")) KCall OptionalBackend [] 2 false;
  mk_site (s2l "saml2_tophat/sigver.py") 977 (s2l "CryptoBackendXMLSecurity.sign_statement") (s2l "tostring") (Some (s2l "lxml.etree")) KCall OptionalBackend [((s2l "xml_declaration"), KwTrue)] 1 false;
  mk_site (s2l "saml2_tophat/sigver.py") 996 (s2l "CryptoBackendXMLSecurity.validate_signature") (s2l "parse_xml") (Some (s2l "xmlsec")) KCall OptionalBackend [] 1 false;
  mk_site (s2l "saml2_tophat/sigver.py") 999 (s2l "CryptoBackendXMLSecurity.validate_signature") (s2l "verify") (Some (s2l "xmlsec")) KCall OptionalBackend [] 2 false;
  mk_site (s2l "saml2_tophat/sigver.py") 1793 (s2l "_enveloped_signature_ok") (s2l "fromstring") (Some (s2l "defusedxml.ElementTree")) KCall Core [] 1 false;
  mk_site (s2l "saml2_tophat/soap.py") 137 (s2l "parse_soap_enveloped_saml_thingy") (s2l "fromstring") (Some (s2l "defusedxml.ElementTree")) KCall Core [] 1 false;
  mk_site (s2l "saml2_tophat/soap.py") 187 (s2l "class_instances_from_soap_enveloped_saml_thingies") (s2l "fromstring") (Some (s2l "defusedxml.ElementTree")) KCall Core [] 1 false;
  mk_site (s2l "saml2_tophat/soap.py") 213 (s2l "open_soap_envelope") (s2l "fromstring") (Some (s2l "defusedxml.ElementTree")) KCall Core [] 1 false
].

Definition et_uses : list et_use := [
  mk_use (s2l "saml2_tophat/__init__.py") 30 (s2l "<module>") (s2l "cElementTree") (s2l "VERSION");
  mk_use (s2l "saml2_tophat/__init__.py") 30 (s2l "<module>") (s2l "elementtree.ElementTree") (s2l "VERSION");
  mk_use (s2l "saml2_tophat/__init__.py") 30 (s2l "<module>") (s2l "xml.etree.ElementTree") (s2l "VERSION");
  mk_use (s2l "saml2_tophat/__init__.py") 30 (s2l "<module>") (s2l "xml.etree.cElementTree") (s2l "VERSION");
  mk_use (s2l "saml2_tophat/__init__.py") 174 (s2l "ExtensionElement.to_string") (s2l "cElementTree") (s2l "tostring");
  mk_use (s2l "saml2_tophat/__init__.py") 174 (s2l "ExtensionElement.to_string") (s2l "elementtree.ElementTree") (s2l "tostring");
  mk_use (s2l "saml2_tophat/__init__.py") 174 (s2l "ExtensionElement.to_string") (s2l "xml.etree.ElementTree") (s2l "tostring");
  mk_use (s2l "saml2_tophat/__init__.py") 174 (s2l "ExtensionElement.to_string") (s2l "xml.etree.cElementTree") (s2l "tostring");
  mk_use (s2l "saml2_tophat/__init__.py") 180 (s2l "ExtensionElement.transfer_to_element_tree") (s2l "cElementTree") (s2l "Element");
  mk_use (s2l "saml2_tophat/__init__.py") 180 (s2l "ExtensionElement.transfer_to_element_tree") (s2l "elementtree.ElementTree") (s2l "Element");
  mk_use (s2l "saml2_tophat/__init__.py") 180 (s2l "ExtensionElement.transfer_to_element_tree") (s2l "xml.etree.ElementTree") (s2l "Element");
  mk_use (s2l "saml2_tophat/__init__.py") 180 (s2l "ExtensionElement.transfer_to_element_tree") (s2l "xml.etree.cElementTree") (s2l "Element");
  mk_use (s2l "saml2_tophat/__init__.py") 550 (s2l "SamlBase._to_element_tree") (s2l "cElementTree") (s2l "Element");
  mk_use (s2l "saml2_tophat/__init__.py") 550 (s2l "SamlBase._to_element_tree") (s2l "elementtree.ElementTree") (s2l "Element");
  mk_use (s2l "saml2_tophat/__init__.py") 550 (s2l "SamlBase._to_element_tree") (s2l "xml.etree.ElementTree") (s2l "Element");
  mk_use (s2l "saml2_tophat/__init__.py") 550 (s2l "SamlBase._to_element_tree") (s2l "xml.etree.cElementTree") (s2l "Element");
  mk_use (s2l "saml2_tophat/__init__.py") 565 (s2l "SamlBase.register_prefix") (s2l "cElementTree") (s2l "register_namespace");
  mk_use (s2l "saml2_tophat/__init__.py") 565 (s2l "SamlBase.register_prefix") (s2l "elementtree.ElementTree") (s2l "register_namespace");
  mk_use (s2l "saml2_tophat/__init__.py") 565 (s2l "SamlBase.register_prefix") (s2l "xml.etree.ElementTree") (s2l "register_namespace");
  mk_use (s2l "saml2_tophat/__init__.py") 565 (s2l "SamlBase.register_prefix") (s2l "xml.etree.cElementTree") (s2l "register_namespace");
  mk_use (s2l "saml2_tophat/__init__.py") 568 (s2l "SamlBase.register_prefix") (s2l "cElementTree") (s2l "_namespace_map");
  mk_use (s2l "saml2_tophat/__init__.py") 568 (s2l "SamlBase.register_prefix") (s2l "elementtree.ElementTree") (s2l "_namespace_map");
  mk_use (s2l "saml2_tophat/__init__.py") 568 (s2l "SamlBase.register_prefix") (s2l "xml.etree.ElementTree") (s2l "_namespace_map");
  mk_use (s2l "saml2_tophat/__init__.py") 568 (s2l "SamlBase.register_prefix") (s2l "xml.etree.cElementTree") (s2l "_namespace_map");
  mk_use (s2l "saml2_tophat/__init__.py") 619 (s2l "SamlBase.get_xml_string_with_self_contained_assertion_within_advice_encrypted_assertion") (s2l "cElementTree") (s2l "tostring");
  mk_use (s2l "saml2_tophat/__init__.py") 619 (s2l "SamlBase.get_xml_string_with_self_contained_assertion_within_advice_encrypted_assertion") (s2l "elementtree.ElementTree") (s2l "tostring");
  mk_use (s2l "saml2_tophat/__init__.py") 619 (s2l "SamlBase.get_xml_string_with_self_contained_assertion_within_advice_encrypted_assertion") (s2l "xml.etree.ElementTree") (s2l "tostring");
  mk_use (s2l "saml2_tophat/__init__.py") 619 (s2l "SamlBase.get_xml_string_with_self_contained_assertion_within_advice_encrypted_assertion") (s2l "xml.etree.cElementTree") (s2l "tostring");
  mk_use (s2l "saml2_tophat/__init__.py") 639 (s2l "SamlBase.get_xml_string_with_self_contained_assertion_within_encrypted_assertion") (s2l "cElementTree") (s2l "tostring");
  mk_use (s2l "saml2_tophat/__init__.py") 639 (s2l "SamlBase.get_xml_string_with_self_contained_assertion_within_encrypted_assertion") (s2l "elementtree.ElementTree") (s2l "tostring");
  mk_use (s2l "saml2_tophat/__init__.py") 639 (s2l "SamlBase.get_xml_string_with_self_contained_assertion_within_encrypted_assertion") (s2l "xml.etree.ElementTree") (s2l "tostring");
  mk_use (s2l "saml2_tophat/__init__.py") 639 (s2l "SamlBase.get_xml_string_with_self_contained_assertion_within_encrypted_assertion") (s2l "xml.etree.cElementTree") (s2l "tostring");
  mk_use (s2l "saml2_tophat/__init__.py") 644 (s2l "SamlBase.set_prefixes") (s2l "cElementTree") (s2l "iselement");
  mk_use (s2l "saml2_tophat/__init__.py") 644 (s2l "SamlBase.set_prefixes") (s2l "elementtree.ElementTree") (s2l "iselement");
  mk_use (s2l "saml2_tophat/__init__.py") 644 (s2l "SamlBase.set_prefixes") (s2l "xml.etree.ElementTree") (s2l "iselement");
  mk_use (s2l "saml2_tophat/__init__.py") 644 (s2l "SamlBase.set_prefixes") (s2l "xml.etree.cElementTree") (s2l "iselement");
  mk_use (s2l "saml2_tophat/__init__.py") 688 (s2l "SamlBase.to_string_force_namespace") (s2l "cElementTree") (s2l "tostring");
  mk_use (s2l "saml2_tophat/__init__.py") 688 (s2l "SamlBase.to_string_force_namespace") (s2l "elementtree.ElementTree") (s2l "tostring");
  mk_use (s2l "saml2_tophat/__init__.py") 688 (s2l "SamlBase.to_string_force_namespace") (s2l "xml.etree.ElementTree") (s2l "tostring");
  mk_use (s2l "saml2_tophat/__init__.py") 688 (s2l "SamlBase.to_string_force_namespace") (s2l "xml.etree.cElementTree") (s2l "tostring");
  mk_use (s2l "saml2_tophat/__init__.py") 703 (s2l "SamlBase.to_string") (s2l "cElementTree") (s2l "tostring");
  mk_use (s2l "saml2_tophat/__init__.py") 703 (s2l "SamlBase.to_string") (s2l "elementtree.ElementTree") (s2l "tostring");
  mk_use (s2l "saml2_tophat/__init__.py") 703 (s2l "SamlBase.to_string") (s2l "xml.etree.ElementTree") (s2l "tostring");
  mk_use (s2l "saml2_tophat/__init__.py") 703 (s2l "SamlBase.to_string") (s2l "xml.etree.cElementTree") (s2l "tostring");
  mk_use (s2l "saml2_tophat/pack.py") 24 (s2l "<module>") (s2l "cElementTree") (s2l "VERSION");
  mk_use (s2l "saml2_tophat/pack.py") 24 (s2l "<module>") (s2l "elementtree.ElementTree") (s2l "VERSION");
  mk_use (s2l "saml2_tophat/pack.py") 24 (s2l "<module>") (s2l "xml.etree.ElementTree") (s2l "VERSION");
  mk_use (s2l "saml2_tophat/pack.py") 24 (s2l "<module>") (s2l "xml.etree.cElementTree") (s2l "VERSION");
  mk_use (s2l "saml2_tophat/pack.py") 203 (s2l "make_soap_enveloped_saml_thingy") (s2l "cElementTree") (s2l "Element");
  mk_use (s2l "saml2_tophat/pack.py") 203 (s2l "make_soap_enveloped_saml_thingy") (s2l "elementtree.ElementTree") (s2l "Element");
  mk_use (s2l "saml2_tophat/pack.py") 203 (s2l "make_soap_enveloped_saml_thingy") (s2l "xml.etree.ElementTree") (s2l "Element");
  mk_use (s2l "saml2_tophat/pack.py") 203 (s2l "make_soap_enveloped_saml_thingy") (s2l "xml.etree.cElementTree") (s2l "Element");
  mk_use (s2l "saml2_tophat/pack.py") 207 (s2l "make_soap_enveloped_saml_thingy") (s2l "cElementTree") (s2l "Element");
  mk_use (s2l "saml2_tophat/pack.py") 207 (s2l "make_soap_enveloped_saml_thingy") (s2l "elementtree.ElementTree") (s2l "Element");
  mk_use (s2l "saml2_tophat/pack.py") 207 (s2l "make_soap_enveloped_saml_thingy") (s2l "xml.etree.ElementTree") (s2l "Element");
  mk_use (s2l "saml2_tophat/pack.py") 207 (s2l "make_soap_enveloped_saml_thingy") (s2l "xml.etree.cElementTree") (s2l "Element");
  mk_use (s2l "saml2_tophat/pack.py") 214 (s2l "make_soap_enveloped_saml_thingy") (s2l "cElementTree") (s2l "Element");
  mk_use (s2l "saml2_tophat/pack.py") 214 (s2l "make_soap_enveloped_saml_thingy") (s2l "elementtree.ElementTree") (s2l "Element");
  mk_use (s2l "saml2_tophat/pack.py") 214 (s2l "make_soap_enveloped_saml_thingy") (s2l "xml.etree.ElementTree") (s2l "Element");
  mk_use (s2l "saml2_tophat/pack.py") 214 (s2l "make_soap_enveloped_saml_thingy") (s2l "xml.etree.cElementTree") (s2l "Element");
  mk_use (s2l "saml2_tophat/pack.py") 227 (s2l "make_soap_enveloped_saml_thingy") (s2l "cElementTree") (s2l "Element");
  mk_use (s2l "saml2_tophat/pack.py") 227 (s2l "make_soap_enveloped_saml_thingy") (s2l "elementtree.ElementTree") (s2l "Element");
  mk_use (s2l "saml2_tophat/pack.py") 227 (s2l "make_soap_enveloped_saml_thingy") (s2l "xml.etree.ElementTree") (s2l "Element");
  mk_use (s2l "saml2_tophat/pack.py") 227 (s2l "make_soap_enveloped_saml_thingy") (s2l "xml.etree.cElementTree") (s2l "Element");
  mk_use (s2l "saml2_tophat/pack.py") 230 (s2l "make_soap_enveloped_saml_thingy") (s2l "cElementTree") (s2l "tostring");
  mk_use (s2l "saml2_tophat/pack.py") 230 (s2l "make_soap_enveloped_saml_thingy") (s2l "elementtree.ElementTree") (s2l "tostring");
  mk_use (s2l "saml2_tophat/pack.py") 230 (s2l "make_soap_enveloped_saml_thingy") (s2l "xml.etree.ElementTree") (s2l "tostring");
  mk_use (s2l "saml2_tophat/pack.py") 230 (s2l "make_soap_enveloped_saml_thingy") (s2l "xml.etree.cElementTree") (s2l "tostring");
  mk_use (s2l "saml2_tophat/pack.py") 245 (s2l "make_soap_enveloped_saml_thingy") (s2l "cElementTree") (s2l "tostring");
  mk_use (s2l "saml2_tophat/pack.py") 245 (s2l "make_soap_enveloped_saml_thingy") (s2l "elementtree.ElementTree") (s2l "tostring");
  mk_use (s2l "saml2_tophat/pack.py") 245 (s2l "make_soap_enveloped_saml_thingy") (s2l "xml.etree.ElementTree") (s2l "tostring");
  mk_use (s2l "saml2_tophat/pack.py") 245 (s2l "make_soap_enveloped_saml_thingy") (s2l "xml.etree.cElementTree") (s2l "tostring");
  mk_use (s2l "saml2_tophat/soap.py") 155 (s2l "parse_soap_enveloped_saml_thingy") (s2l "cElementTree") (s2l "tostring");
  mk_use (s2l "saml2_tophat/soap.py") 155 (s2l "parse_soap_enveloped_saml_thingy") (s2l "elementtree.ElementTree") (s2l "tostring");
  mk_use (s2l "saml2_tophat/soap.py") 155 (s2l "parse_soap_enveloped_saml_thingy") (s2l "xml.etree.cElementTree") (s2l "tostring");
  mk_use (s2l "saml2_tophat/soap.py") 224 (s2l "open_soap_envelope") (s2l "cElementTree") (s2l "tostring");
  mk_use (s2l "saml2_tophat/soap.py") 224 (s2l "open_soap_envelope") (s2l "elementtree.ElementTree") (s2l "tostring");
  mk_use (s2l "saml2_tophat/soap.py") 224 (s2l "open_soap_envelope") (s2l "xml.etree.cElementTree") (s2l "tostring");
  mk_use (s2l "saml2_tophat/soap.py") 227 (s2l "open_soap_envelope") (s2l "cElementTree") (s2l "tostring");
  mk_use (s2l "saml2_tophat/soap.py") 227 (s2l "open_soap_envelope") (s2l "elementtree.ElementTree") (s2l "tostring");
  mk_use (s2l "saml2_tophat/soap.py") 227 (s2l "open_soap_envelope") (s2l "xml.etree.cElementTree") (s2l "tostring")
].
