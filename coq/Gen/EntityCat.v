(* GENERATED from /repo/src/saml2_tophat/entity_category/*.py by harness/translate_c07.py on every run - do not edit *)
From PV Require Import Lib.Base.
Open Scope N_scope.

Definition ec_rawkey := (bool * list str)%type.
Definition ec_rawmodule := (list (ec_rawkey * list str) * option (list (ec_rawkey * bool)))%type.

Definition ec_modules : list (str * ec_rawmodule) := [
  ((s2l "at_egov_pvp2"),
    ([
     ((true, [(s2l "http://www.ref.gv.at/ns/names/agiz/pvp/egovtoken")]), [(s2l "PVP-VERSION"); (s2l "PVP-PRINCIPAL-NAME"); (s2l "PVP-GIVENNAME"); (s2l "PVP-BIRTHDATE"); (s2l "PVP-USERID"); (s2l "PVP-GID"); (s2l "PVP-BPK"); (s2l "PVP-MAIL"); (s2l "PVP-TEL"); (s2l "PVP-PARTICIPANT-ID"); (s2l "PVP-PARTICIPANT-OKZ"); (s2l "PVP-OU-OKZ"); (s2l "PVP-OU"); (s2l "PVP-OU-GV-OU-ID"); (s2l "PVP-FUNCTION"); (s2l "PVP-ROLES")]);
     ((true, [(s2l "http://www.ref.gv.at/ns/names/agiz/pvp/egovtoken-charge")]), [(s2l "PVP-INVOICE-RECPT-ID"); (s2l "PVP-COST-CENTER-ID"); (s2l "PVP-CHARGE-CODE")])],
     None));
  ((s2l "edugain"),
    ([
     ((true, [([]:str)]), [(s2l "eduPersonTargetedID")]);
     ((true, [(s2l "http://www.geant.net/uri/dataprotection-code-of-conduct/v1")]), [(s2l "eduPersonPrincipalName"); (s2l "eduPersonScopedAffiliation"); (s2l "eduPersonAffiliation"); (s2l "mail"); (s2l "displayName"); (s2l "cn"); (s2l "schacHomeOrganization")])],
     (Some [((true, [(s2l "http://www.geant.net/uri/dataprotection-code-of-conduct/v1")]), true)])));
  ((s2l "incommon"),
    ([
     ((true, [([]:str)]), [(s2l "eduPersonTargetedID")]);
     ((true, [(s2l "http://id.incommon.org/category/research-and-scholarship")]), [(s2l "eduPersonPrincipalName"); (s2l "eduPersonScopedAffiliation"); (s2l "mail"); (s2l "givenName"); (s2l "sn"); (s2l "displayName")])],
     None));
  ((s2l "refeds"),
    ([
     ((true, [([]:str)]), [(s2l "eduPersonTargetedID")]);
     ((true, [(s2l "http://refeds.org/category/research-and-scholarship")]), [(s2l "eduPersonPrincipalName"); (s2l "eduPersonScopedAffiliation"); (s2l "mail"); (s2l "givenName"); (s2l "sn"); (s2l "displayName")])],
     None));
  ((s2l "swamid"),
    ([
     ((true, [([]:str)]), [(s2l "eduPersonTargetedID")]);
     ((true, [(s2l "http://www.swamid.se/category/sfs-1993-1153")]), [(s2l "norEduPersonNIN"); (s2l "eduPersonAssurance")]);
     ((false, [(s2l "http://www.swamid.se/category/research-and-education"); (s2l "http://www.swamid.se/category/eu-adequate-protection")]), [(s2l "givenName"); (s2l "displayName"); (s2l "sn"); (s2l "cn"); (s2l "c"); (s2l "o"); (s2l "co"); (s2l "norEduOrgAcronym"); (s2l "schacHomeOrganization"); (s2l "schacHomeOrganizationType"); (s2l "eduPersonPrincipalName"); (s2l "eduPersonScopedAffiliation"); (s2l "mail"); (s2l "eduPersonAssurance")]);
     ((false, [(s2l "http://www.swamid.se/category/research-and-education"); (s2l "http://www.swamid.se/category/nren-service")]), [(s2l "givenName"); (s2l "displayName"); (s2l "sn"); (s2l "cn"); (s2l "c"); (s2l "o"); (s2l "co"); (s2l "norEduOrgAcronym"); (s2l "schacHomeOrganization"); (s2l "schacHomeOrganizationType"); (s2l "eduPersonPrincipalName"); (s2l "eduPersonScopedAffiliation"); (s2l "mail"); (s2l "eduPersonAssurance")]);
     ((false, [(s2l "http://www.swamid.se/category/research-and-education"); (s2l "http://www.swamid.se/category/hei-service")]), [(s2l "givenName"); (s2l "displayName"); (s2l "sn"); (s2l "cn"); (s2l "c"); (s2l "o"); (s2l "co"); (s2l "norEduOrgAcronym"); (s2l "schacHomeOrganization"); (s2l "schacHomeOrganizationType"); (s2l "eduPersonPrincipalName"); (s2l "eduPersonScopedAffiliation"); (s2l "mail"); (s2l "eduPersonAssurance")]);
     ((true, [(s2l "http://refeds.org/category/research-and-scholarship")]), [(s2l "eduPersonTargetedID"); (s2l "eduPersonPrincipalName"); (s2l "mail"); (s2l "displayName"); (s2l "givenName"); (s2l "sn"); (s2l "eduPersonScopedAffiliation")])],
     None))
].
