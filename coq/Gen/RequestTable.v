(* GENERATED from /repo by harness/translate_c10.py on every run - do not edit *)
From PV Require Import Lib.Base.
Open Scope N_scope.

Definition request_table : list (str * str * str * str * str * bool * list str * bool * list str * list str) := [
  ((s2l "Server.parse_authn_request"), (s2l "AuthnRequest"), (s2l "authn_request"), (s2l "single_sign_on_service"), (s2l "authn_request"), true, [(s2l "AuthnRequest")], true, [(s2l "AuthnRequest")], []);
  ((s2l "Entity.parse_logout_request"), (s2l "LogoutRequest"), (s2l "logout_request"), (s2l "single_logout_service"), (s2l "logout_request"), true, [(s2l "LogoutRequest")], true, [(s2l "LogoutRequest")], []);
  ((s2l "Server.parse_attribute_query"), (s2l "AttributeQuery"), (s2l "attribute_query"), (s2l "attribute_service"), (s2l "attribute_query"), true, [(s2l "AttributeQuery")], true, [(s2l "AttributeQuery")], []);
  ((s2l "Server.parse_authn_query"), (s2l "AuthnQuery"), (s2l "authn_query"), (s2l "authn_query_service"), (s2l "authn_query"), true, [(s2l "AuthnQuery")], true, [(s2l "AuthnQuery")], []);
  ((s2l "Server.parse_authz_decision_query"), (s2l "AuthzDecisionQuery"), (s2l "authz_decision_query"), (s2l "authz_service"), (s2l "authz_decision_query"), true, [(s2l "AuthzDecisionQuery")], false, [], []);
  ((s2l "Server.parse_assertion_id_request"), (s2l "AssertionIDRequest"), (s2l "assertion_id_request"), (s2l "assertion_id_request_service"), (s2l "assertion_id_request"), true, [(s2l "AssertionIDRequest")], true, [(s2l "AssertionIDRequest")], []);
  ((s2l "Server.parse_name_id_mapping_request"), (s2l "NameIDMappingRequest"), (s2l "name_id_mapping_request"), (s2l "name_id_mapping_service"), (s2l "name_id_mapping_request"), true, [(s2l "NameIDMappingRequest")], true, [(s2l "NameIDMappingRequest")], []);
  ((s2l "Entity.parse_manage_name_id_request"), (s2l "ManageNameIDRequest"), (s2l "manage_name_id_request"), (s2l "manage_name_id_service"), (s2l "manage_name_id_request"), true, [(s2l "ManageNameIDRequest")], true, [(s2l "ManageNameIDRequest")], [])
].
