(* GENERATED from /repo by harness/translate_c15.py on every run - do not edit *)
From PV Require Import Lib.Base.
Open Scope N_scope.

Definition pack_req_order : list str := [(s2l "SAMLRequest"); (s2l "RelayState"); (s2l "SigAlg")].
Definition pack_resp_order : list str := [(s2l "SAMLResponse"); (s2l "RelayState"); (s2l "SigAlg")].
Definition sigver_req_order : list str := [(s2l "SAMLRequest"); (s2l "RelayState"); (s2l "SigAlg")].
Definition sigver_resp_order : list str := [(s2l "SAMLResponse"); (s2l "RelayState"); (s2l "SigAlg")].

(* SIGNER_ALGS: key -> name of the digest carried by the shared signer object *)
Definition signer_algs : list (str * str) := [
  ((s2l "http://www.w3.org/2000/09/xmldsig#rsa-sha1"), (s2l "sha1"));
  ((s2l "http://www.w3.org/2001/04/xmldsig-more#rsa-sha224"), (s2l "sha224"));
  ((s2l "http://www.w3.org/2001/04/xmldsig-more#rsa-sha256"), (s2l "sha256"));
  ((s2l "http://www.w3.org/2001/04/xmldsig-more#rsa-sha384"), (s2l "sha384"));
  ((s2l "http://www.w3.org/2001/04/xmldsig-more#rsa-sha512"), (s2l "sha512"))
].

(* the URIs http_redirect_message's assert accepts *)
Definition sig_allowed_alg : list str := [(s2l "http://www.w3.org/2000/09/xmldsig#rsa-sha1"); (s2l "http://www.w3.org/2001/04/xmldsig-more#rsa-sha224"); (s2l "http://www.w3.org/2001/04/xmldsig-more#rsa-sha256"); (s2l "http://www.w3.org/2001/04/xmldsig-more#rsa-sha384"); (s2l "http://www.w3.org/2001/04/xmldsig-more#rsa-sha512")].

(* does the urlencode each module imported leave '~' unescaped? (measured over all bytes) *)
Definition pack_urlencode_tilde_safe : bool := true.
Definition sigver_urlencode_tilde_safe : bool := true.

(* does RSACrypto.get_signer hand out the module-level signer object and store the caller's key on it?
   (measured with sentinel keys on every algorithm) *)
Definition get_signer_returns_shared_object : bool := false.
