(* Lib/Base.v — strings as code-point lists, python-exception results, and the
   uniform observable type [val] that the correspondence harness compares.
   Stdlib only; axiom-free. *)
From Coq Require Export List NArith ZArith Bool Lia String Ascii.
Export ListNotations.
Open Scope N_scope.

Definition str := list N.

Fixpoint str_eqb (a b : str) : bool :=
  match a, b with
  | [], [] => true
  | x :: a', y :: b' => N.eqb x y && str_eqb a' b'
  | _, _ => false
  end.

Lemma str_eqb_spec a b : reflect (a = b) (str_eqb a b).
Proof.
  revert b; induction a as [|x a IH]; intros [|y b]; cbn [str_eqb];
    try (constructor; congruence).
  destruct (N.eqb_spec x y) as [->|Hxy]; cbn [andb].
  - destruct (IH b) as [->|Hn]; constructor; congruence.
  - constructor; congruence.
Qed.

Lemma str_eqb_refl a : str_eqb a a = true.
Proof. destruct (str_eqb_spec a a); congruence. Qed.

Lemma str_eqb_eq a b : str_eqb a b = true <-> a = b.
Proof. destruct (str_eqb_spec a b); split; congruence. Qed.

Lemma str_eqb_neq a b : str_eqb a b = false <-> a <> b.
Proof. destruct (str_eqb_spec a b); split; congruence. Qed.

(* Coq string literal -> str (code points of the ASCII chars) *)
Fixpoint s2l (s : string) : str :=
  match s with
  | EmptyString => []
  | String c s' => N_of_ascii c :: s2l s'
  end.

Definition mem_str (x : str) (l : list str) : bool := existsb (str_eqb x) l.

Lemma mem_str_In x l : mem_str x l = true <-> In x l.
Proof.
  unfold mem_str. rewrite existsb_exists. split.
  - intros [y [Hy He]]. apply str_eqb_eq in He. subst; exact Hy.
  - intros H. exists x. split; [exact H|apply str_eqb_refl].
Qed.

(* Python exceptions the properties distinguish are named by their class name. *)
Inductive result (A : Type) : Type :=
| Ok (a : A)
| Err (e : str).
Arguments Ok {A} a.
Arguments Err {A} e.

Definition bind {A B} (r : result A) (f : A -> result B) : result B :=
  match r with Ok a => f a | Err e => Err e end.
Notation "'do' x <- r ; k" := (bind r (fun x => k))
  (at level 200, x name, r at level 100, k at level 200).

Definition is_ok {A} (r : result A) : bool := match r with Ok _ => true | Err _ => false end.

(* Uniform observable used by the correspondence check. *)
Inductive val :=
| VN (n : N)
| VZ (z : Z)
| VS (s : str)
| VB (b : bool)
| VNone
| VE (exn : str)                (* an exception of that class was raised *)
| VL (l : list val).

Fixpoint val_eqb (a b : val) {struct a} : bool :=
  match a, b with
  | VN x, VN y => N.eqb x y
  | VZ x, VZ y => Z.eqb x y
  | VS x, VS y => str_eqb x y
  | VB x, VB y => Bool.eqb x y
  | VNone, VNone => true
  | VE x, VE y => str_eqb x y
  | VL x, VL y =>
      (fix go (l1 l2 : list val) {struct l1} : bool :=
         match l1, l2 with
         | [], [] => true
         | v :: l1', w :: l2' => val_eqb v w && go l1' l2'
         | _, _ => false
         end) x y
  | _, _ => false
  end.

(* indexes (from 0) of the cases on which model and implementation differ *)
Fixpoint mismatches_from {A} (model : A -> val) (i : N) (cases : list (A * val)) : list N :=
  match cases with
  | [] => []
  | (a, expected) :: rest =>
      if val_eqb (model a) expected then mismatches_from model (N.succ i) rest
      else i :: mismatches_from model (N.succ i) rest
  end.
Definition mismatches {A} (model : A -> val) (cases : list (A * val)) : list N :=
  mismatches_from model 0 cases.

Definition show_result {A} (f : A -> val) (r : result A) : val :=
  match r with Ok a => f a | Err e => VE e end.
Definition show_option {A} (f : A -> val) (o : option A) : val :=
  match o with Some a => f a | None => VNone end.
Definition show_list {A} (f : A -> val) (l : list A) : val := VL (map f l).
