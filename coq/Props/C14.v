(* Props/C14.v — binding encoders and decoders are exact inverses and inject nothing *)
From PV Require Import Lib.Base Model.Codec Proofs.Base64_lemmas Proofs.Url_lemmas Proofs.Html_lemmas Proofs.Soap_lemmas.
Open Scope N_scope.

(* POST / Redirect payload coding: base64 is exactly invertible, for every byte string *)
Theorem C14_base64_roundtrip : forall bs, Forall byte bs -> b64dec (b64enc bs) = Some bs.
Proof. exact b64_roundtrip. Qed.
Print Assumptions C14_base64_roundtrip.

Theorem C14_base64_alphabet : forall bs, Forall byte bs -> forallb b64_alphabet (b64enc bs) = true.
Proof. exact b64enc_alphabet. Qed.
Print Assumptions C14_base64_alphabet.

(* Redirect: every parameter name and value is percent-encoded so that decoding
   the produced query gives back EXACTLY the parameter list that was encoded —
   same number of parameters, same names, same values, same order — whatever
   bytes the message, RelayState, SigAlg or Signature contain *)
Theorem C14_redirect_roundtrip :
  forall location has_query ps, Forall bytes_pair ps ->
    parse_qsl (skipn (S (List.length location)) (redirect_url location has_query ps)) = ps.
Proof. exact redirect_roundtrip. Qed.
Print Assumptions C14_redirect_roundtrip.

(* …and no encoded value can contain a delimiter: the query consists of
   unreserved characters, '%', '+' and the '&' / '=' the encoder itself placed *)
Theorem C14_redirect_injects_nothing :
  (forall ps, Forall bytes_pair ps -> forallb (fun c => url_safe c || (c =? AMP) || (c =? EQ)) (urlencode ps) = true) /\
  (forall bs, Forall byte bs -> forallb url_safe (quote_plus bs) = true) /\
  (forall c, url_safe c = true ->
     c <> AMP /\ c <> EQ /\ c <> 35 /\ c <> 63 /\ c <> 32 /\ c <> 34 /\ c <> 60 /\ c <> 62 /\ c <> 47 /\ c <> 44).
Proof.
  split; [exact urlencode_alphabet|]. split; [exact (quote_gen_alphabet true)|exact url_safe_not_special].
Qed.
Print Assumptions C14_redirect_injects_nothing.

Theorem C14_quote_roundtrip :
  (forall bs, Forall byte bs -> unquote_plus (quote_plus bs) = bs) /\
  (forall bs, Forall byte bs -> unquote (quote bs) = bs).
Proof. split; [exact quote_plus_roundtrip|exact quote_roundtrip]. Qed.
Print Assumptions C14_quote_roundtrip.

(* POST form: an HTML tokenizer in the double-quoted attribute-value state
   recovers the field value as ONE value and stops exactly at the closing quote
   the form itself wrote, for every string (any Unicode code points) *)
Theorem C14_post_field_roundtrip :
  forall s rest, attr_value_dq (html_escape s ++ 34 :: rest) = Some (s, rest).
Proof. exact attr_value_roundtrip. Qed.
Print Assumptions C14_post_field_roundtrip.

Theorem C14_post_injects_nothing :
  forall s, forallb (fun c => negb ((c =? 34) || (c =? 60) || (c =? 62) || (c =? 39))) (html_escape s) = true.
Proof. exact html_escape_no_delims. Qed.
Print Assumptions C14_post_injects_nothing.

(* SOAP, string branch (pack.make_soap_enveloped_saml_thingy): what is spliced
   into <Body> is the message itself when it has no XML declaration, and the
   message minus exactly its leading declaration (cut at the first "?>")
   otherwise — for EVERY body text, newlines included.  (no_occ: the body does
   not contain the literal text of another XML declaration, which well-formed
   XML cannot outside CDATA/comments.) *)
Theorem C14_soap_string :
  (forall t, starts_xml_decl t = false -> no_occ SOAP_PREFIX t = true -> soap_prepare t = t) /\
  (forall d body, starts_xml_decl (d ++ 63 :: 62 :: body) = true -> after_qgt d = None ->
     no_occ SOAP_PREFIX body = true -> soap_prepare (d ++ 63 :: 62 :: body) = body).
Proof. split; [exact soap_prepare_plain|exact soap_prepare_decl]. Qed.
Print Assumptions C14_soap_string.

(* record of the repaired defect (known_findings.json "fixed"): before the fix
   newlines inside the message vanished and a declaration not followed by a
   newline emptied the body *)
Definition DECL : str := s2l "<?xml version='1.0' encoding='UTF-8'?>".
Theorem C14_soap_string_before_fix_refuted :
  soap_prepare_before_fix (DECL ++ 10 :: s2l "<a>x" ++ 10 :: s2l "y</a>") = s2l "<a>xy</a>" /\
  soap_prepare_before_fix (DECL ++ s2l "<a>x</a>") = [] /\
  soap_prepare (DECL ++ 10 :: s2l "<a>x" ++ 10 :: s2l "y</a>") = 10 :: s2l "<a>x" ++ 10 :: s2l "y</a>" /\
  soap_prepare (DECL ++ s2l "<a>x</a>") = s2l "<a>x</a>".
Proof. vm_compute. repeat split; reflexivity. Qed.
Print Assumptions C14_soap_string_before_fix_refuted.

Example C14_witness :
  b64enc [77; 97; 110] = s2l "TWFu" /\ b64enc [77; 97] = s2l "TWE=" /\ b64dec (s2l "TQ==") = Some [77] /\
  urlencode [(s2l "SAMLRequest", s2l "a+b/c="); (s2l "RelayState", s2l "x&Signature=y z")] =
     s2l "SAMLRequest=a%2Bb%2Fc%3D&RelayState=x%26Signature%3Dy+z" /\
  html_escape (s2l "a""><b>&'") = s2l "a&quot;&gt;&lt;b&gt;&amp;&#x27;".
Proof. vm_compute. repeat split; reflexivity. Qed.
Print Assumptions C14_witness.
