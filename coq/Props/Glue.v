(* Props/Glue.v — theorems RELATING the hand-written models of the 20 property checks to each other
   (docs/Glue.md).  Each property's model is tied to the code by its own correspondence tests; the
   statements here are machine-checked bridges between models that describe the same piece of the library,
   so that a property proved over one model is carried to the model another property ties to the code.
   Proofs: Proofs/Glue_*.v.  No property file depends on this file; the property files carry one bridge
   theorem each (C03, C10, C15, C16, C17, C18, C19). *)
From PV Require Import Lib.Base.
From PV Require Proofs.Glue_certs Proofs.Glue_enc_certs Proofs.Glue_xsw Proofs.Glue_quote Proofs.Glue_time Proofs.Glue_sigver.
From PV Require Model.TimeUtil Proofs.TimeUtil_lemmas.
Open Scope N_scope.

(* ====================================================================================================
   1. metadata certificates: Model/CertSelect.v md_certs (C03, C08, C10, C17)  vs  Model/MdStore.v
      store_certs (C16), both following the library + proposed_fix/C03-1.  [abs_store num st]: the C16 store st as a CertSelect store - per entity one
      key-descriptor group per descriptor TYPE in the order certs(.., any, ..) visits them, certificate
      texts numbered by num after repack_cert. *)
Module G1.
Import Glue_certs.

(* MetadataStore.__getitem__ : the first source that has the entity, in both models *)
Theorem Glue_getitem_agrees :
  forall num st i, CS.find_entity (abs_store num st) i = option_map (abs_entity num) (MS.store_get st i).
Proof. exact find_entity_abs_store. Qed.
Print Assumptions Glue_getitem_agrees.

(* MetaData.certs(.., any, ..) in C03's and in C16's model is ONE function: same certificates, same order, same
   duplicates dropped, KeyError (unknown entity) there = None here - for every store, entity and use (num injective on
   the texts of the served entity; Glue_md_certs_eq_canonical: no hypothesis).  Both models follow the library with
   proposed_fix/C03-1. *)
Theorem Glue_md_certs_eq :
  forall num st i use,
    inj_on (served_text st i) num ->
    CS.md_certs (abs_store num st) (Some i) use =
    match MS.store_certs st i ANY use with Ok l => Some (map num l) | Err _ => None end.
Proof. exact md_certs_eq. Qed.
Print Assumptions Glue_md_certs_eq.

(* the numbering "position in the list of all certificate texts of the store" always qualifies *)
Theorem Glue_md_certs_eq_canonical :
  forall st i use,
    CS.md_certs (abs_store (num_of (store_texts st)) st) (Some i) use =
    match MS.store_certs st i ANY use with Ok l => Some (map (num_of (store_texts st)) l) | Err _ => None end.
Proof. exact md_certs_eq_canonical. Qed.
Print Assumptions Glue_md_certs_eq_canonical.

Theorem Glue_md_certs_agree :
  forall num st i use l,
    inj_on (served_text st i) num ->
    MS.store_certs st i ANY use = Ok l ->
    CS.md_certs (abs_store num st) (Some i) use = Some (map num l).
Proof. exact md_certs_agree. Qed.
Print Assumptions Glue_md_certs_agree.

Theorem Glue_md_certs_agree_canonical :
  forall st i use l,
    MS.store_certs st i ANY use = Ok l ->
    CS.md_certs (abs_store (num_of (store_texts st)) st) (Some i) use = Some (map (num_of (store_texts st)) l).
Proof. exact md_certs_agree_canonical. Qed.
Print Assumptions Glue_md_certs_agree_canonical.

(* unknown entity: KeyError there, None here - and md_certs is None only then *)
Theorem Glue_md_certs_unknown :
  forall num st i use,
    (MS.store_get st i = None ->
       MS.store_certs st i ANY use = Err MS.KeyError /\ CS.md_certs (abs_store num st) (Some i) use = None) /\
    (CS.md_certs (abs_store num st) (Some i) use = None -> MS.store_get st i = None).
Proof. exact md_certs_unknown. Qed.
Print Assumptions Glue_md_certs_unknown.

(* certs(.., any, ..) fails for an unknown entity only *)
Theorem Glue_md_certs_keyerror :
  forall num st i use x,
    MS.store_certs st i ANY use = Err x ->
    x = MS.KeyError /\ MS.store_get st i = None /\ CS.md_certs (abs_store num st) (Some i) use = None.
Proof. exact md_certs_keyerror. Qed.
Print Assumptions Glue_md_certs_keyerror.

(* ... and so are the certificate selection and the verdict of _check_signature (store_check_signature: the selection
   over the C16 store with the KeyError swallowed as sigver.py does) *)
Theorem Glue_check_signature_agrees :
  forall num mp st issuer only_md embedded signer,
    (forall i, issuer = Some i -> inj_on (served_text st i) num) ->
    store_candidate_certs num mp st issuer only_md embedded = CS.candidate_certs mp (abs_store num st) issuer only_md embedded /\
    store_check_signature num mp st issuer only_md embedded signer =
      CS.check_signature mp (abs_store num st) issuer only_md embedded signer.
Proof. exact store_check_agrees. Qed.
Print Assumptions Glue_check_signature_agrees.

Theorem Glue_check_signature_agrees_canonical :
  forall mp st issuer only_md embedded signer,
    let num := num_of (store_texts st) in
    store_candidate_certs num mp st issuer only_md embedded = CS.candidate_certs mp (abs_store num st) issuer only_md embedded /\
    store_check_signature num mp st issuer only_md embedded signer =
      CS.check_signature mp (abs_store num st) issuer only_md embedded signer.
Proof. exact store_check_agrees_canonical. Qed.
Print Assumptions Glue_check_signature_agrees_canonical.

(* HISTORY (the former disagreement, now the effect of proposed_fix/C03-1).  Before the repair certs() raised KeyError
   in exactly one more case: a use-matching KeyDescriptor of the served entity without X509Data - although the entity
   declares certificates (md_certs answers) ... *)
Theorem Glue_md_certs_before_fix_keyerror :
  forall num st i use x,
    MS.store_certs_before_fix st i ANY use = Err x ->
    x = MS.KeyError /\
    (MS.store_get st i = None \/
     exists e r k, MS.store_get st i = Some e /\ In r (MS.e_roles e) /\ any_role r /\ In k (MS.r_keys r) /\
                   MS.use_ok use k = true /\ MS.kd_certs k = [] /\
                   exists l', CS.md_certs (abs_store num st) (Some i) use = Some l').
Proof. exact md_certs_before_fix_keyerror. Qed.
Print Assumptions Glue_md_certs_before_fix_keyerror.

(* ... under the side condition (every key descriptor certs() would read has X509Data) the repair changes nothing ... *)
Theorem Glue_store_certs_before_fix_complete :
  forall st i use, x509_complete use st i -> MS.store_certs_before_fix st i ANY use = MS.store_certs st i ANY use.
Proof. exact store_certs_before_fix_complete. Qed.
Print Assumptions Glue_store_certs_before_fix_complete.

(* ... and the witness with its consequences for _check_signature (the unpatched library behaves as the _before_fix
   lines say, the patched one as the others: harness/glue_probe.py): the declared key 1 refused with MissingKey under
   the default setting; any embedded key (9) accepted with the setting off although metadata holds a signing key *)
Theorem Glue_md_certs_before_fix_witness :
  MS.store_certs_before_fix ex_bad (s2l "A") ANY MS.U_SIGNING = Err MS.KeyError /\
  MS.store_certs ex_bad (s2l "A") ANY MS.U_SIGNING = Ok [cert_a] /\
  CS.md_certs (abs_store ex_num ex_bad) (Some (s2l "A")) CS.SIGNING = Some [1] /\
  CS.md_certs_before_fix (abs_store ex_num ex_bad) (Some (s2l "A")) CS.SIGNING = None /\
  store_check_signature_before_fix ex_num true ex_bad (Some (s2l "A")) true [1] 1 = Err (s2l "MissingKey") /\
  CS.check_signature_before_fix true (abs_store ex_num ex_bad) (Some (s2l "A")) true [1] 1 = Err (s2l "MissingKey") /\
  store_check_signature ex_num true ex_bad (Some (s2l "A")) true [1] 1 = Ok tt /\
  CS.check_signature true (abs_store ex_num ex_bad) (Some (s2l "A")) true [1] 1 = Ok tt /\
  store_check_signature_before_fix ex_num true ex_bad (Some (s2l "A")) false [9] 9 = Ok tt /\
  CS.check_signature_before_fix true (abs_store ex_num ex_bad) (Some (s2l "A")) false [9] 9 = Ok tt /\
  store_check_signature ex_num true ex_bad (Some (s2l "A")) false [9] 9 = Err (s2l "SignatureError") /\
  CS.check_signature true (abs_store ex_num ex_bad) (Some (s2l "A")) false [9] 9 = Err (s2l "SignatureError").
Proof. exact md_certs_before_fix_witness. Qed.
Print Assumptions Glue_md_certs_before_fix_witness.

(* membership in md_certs of an abstracted store, in C16's words *)
Theorem Glue_md_certs_members :
  forall num st i use l x,
    CS.md_certs (abs_store num st) (Some i) use = Some l ->
    (In x l <-> exists e r k c0, MS.store_get st i = Some e /\ In r (MS.e_roles e) /\ any_role r /\ In k (MS.r_keys r) /\
                                 MS.use_ok use k = true /\ In c0 (MS.kd_certs k) /\ x = num (MS.repack_cert c0)).
Proof. exact md_certs_abs_members. Qed.
Print Assumptions Glue_md_certs_members.

(* C03 carried down: an accepted signature's key stands in a signing / use-less key descriptor of an unexpired
   EntityDescriptor of the issuer in the document of a registered (admissible) source - for the CertSelect check
   (the one C03, C08, C10 are proved about) and for the faithful selection over the C16 store *)
Theorem Glue_accepted_key_in_loaded_documents :
  forall num now srcs mp issuer embedded signer,
    (CS.check_signature mp (abs_store num (MS.load_all now [] srcs)) issuer true embedded signer = Ok tt \/
     store_check_signature num mp (MS.load_all now [] srcs) issuer true embedded signer = Ok tt) ->
    mp = true /\ exists i, issuer = Some i /\ declared_in_documents num now srcs MS.U_SIGNING i signer.
Proof.
  intros num now srcs mp issuer embedded signer [H|H];
    [exact (accepted_key_in_loaded_documents _ _ _ _ _ _ _ H)|exact (store_accepted_key_in_loaded_documents _ _ _ _ _ _ _ H)].
Qed.
Print Assumptions Glue_accepted_key_in_loaded_documents.

(* [trusted_for] - the conclusion of C03_document, C03_accepted_under_own_issuer and the history theorems - is
   C16's "declared by the served entity", and implies "declared in a loaded document" *)
Theorem Glue_trusted_for_declared :
  forall num st i x, IssuerSel_lemmas.trusted_for (abs_store num st) i x <-> declared_signing_key num st i x.
Proof. exact trusted_for_declared. Qed.
Print Assumptions Glue_trusted_for_declared.

(* the example federation meets every hypothesis used above; grouping per role DESCRIPTOR instead of per type
   would not reproduce certs() *)
Example Glue_certs_example :
  (MS.store_certs ex_store (s2l "A") ANY MS.U_SIGNING = Ok [cert_a; cert_b; cert_c; cert_a] /\
   CS.md_certs (abs_store ex_num ex_store) (Some (s2l "A")) CS.SIGNING = Some [1; 2; 3; 1]) /\
  (inj_on (served_text ex_store (s2l "A")) ex_num /\ x509_complete CS.SIGNING ex_store (s2l "A") /\
   ~ x509_complete CS.SIGNING ex_bad (s2l "A")) /\
  flat_map (fun r => CS.extract_certs CS.SIGNING r []) (abs_entity_per_descriptor ex_num ex_A) = [1; 2; 1; 3; 1].
Proof.
  split; [|split].
  - split; apply certs_example.
  - exact certs_example_hypotheses.
  - apply per_descriptor_grouping_differs.
Qed.
Print Assumptions Glue_certs_example.

(* use = encryption (C17, Model/EncryptMd.v) *)
Import Glue_enc_certs.
Theorem Glue_sp_enc_cert_declared :
  forall num st sp x, EM.sp_enc_cert (abs_store num st) sp x <-> declared_enc_key num st sp x.
Proof. exact sp_enc_cert_declared. Qed.
Print Assumptions Glue_sp_enc_cert_declared.

Theorem Glue_md_enc_certs_agree :
  forall num st sp l,
    inj_on (served_text st sp) num ->
    MS.store_certs st sp ANY MS.U_ENCRYPTION = Ok l ->
    EM.md_enc_certs (abs_store num st) sp = map EM.cert_pair (map num l).
Proof. exact md_enc_certs_agree. Qed.
Print Assumptions Glue_md_enc_certs_agree.

Theorem Glue_ciphertext_keys_from_loaded_documents :
  forall num now srcs g sp i t k,
    EM.idp_build_md g (abs_store num (MS.load_all now [] srcs)) sp i = Ok t -> In k (Encrypt.enc_keys t) ->
    Encrypt.g_cert_assertion g = Encrypt.CGiven k true \/ Encrypt.g_cert_advice g = Encrypt.CGiven k true \/
    (declared_in_documents num now srcs MS.U_ENCRYPTION sp k /\ k <> 0).
Proof. exact ciphertext_keys_from_loaded_documents. Qed.
Print Assumptions Glue_ciphertext_keys_from_loaded_documents.
End G1.

(* ====================================================================================================
   2. symbolic documents and the enveloped-signature pre-check: Model/Xmlsec.v (C10, C16) vs Model/Xsw.v
      (C01) vs Model/Request.v enveloped_ok vs Model/MdSig.v md_precheck.  [emb]: an Xmlsec document as an Xsw
      document (element names + 1: Xsw keeps name 0 for ds:Signature; an embedded signature has no ID, payload
      or element children); pol_of: dupfail = DupFail, first-wins = DupFirst. *)
Module G2.
Import Glue_xsw.

(* the tool: same verdict (any document whose root is an element, any name, any / no node id, any certificate) *)
Theorem Glue_tool_verify_agrees :
  forall dupfail doc nm i cert,
    M.is_sig doc = false ->
    X.tool_verify (pol_of dupfail) (emb doc) (nm' nm) i cert = M.tool_verify dupfail doc nm i cert.
Proof. exact tool_verify_emb. Qed.
Print Assumptions Glue_tool_verify_agrees.

(* the building blocks commute with the embedding: sub-trees, first signature, ID table, digests, enveloped transform *)
Theorem Glue_document_functions_commute :
  (forall p t, X.subtree_at p (emb t) = option_map emb (M.subtree_at p t)) /\
  (forall t, X.first_sig (emb t) = M.first_sig t) /\
  (forall nm t, X.registered (nm' nm) (emb t) = M.registered nm t []) /\
  (forall a b, X.tree_eqb (emb a) (emb b) = M.tree_eqb a b) /\
  (forall p t, X.remove_at p (emb t) = emb (M.remove_at p t)) /\
  (forall v t, List.length (M.with_id v (M.all_ids t [])) = List.length (X.carriers v (emb t))).
Proof.
  split; [exact subtree_emb|]. split; [exact first_sig_emb|]. split; [exact registered_emb_root|].
  split; [exact tree_eqb_emb|]. split; [exact remove_at_emb|exact all_ids_count].
Qed.
Print Assumptions Glue_document_functions_commute.

(* the enveloping pre-check: ONE predicate in the three models - Xmlsec.precheck (C10, C16; it counts the carriers of the
   ID among the elements of ANY name, as sigver._enveloped_signature_ok does), Request.enveloped_ok (now simply
   Xmlsec.precheck) and the pre-check C01 is proved about *)
Theorem Glue_xmlsec_precheck_is_C01_precheck :
  forall doc nm i, X.precheck (emb doc) (nm' nm) i = M.precheck doc nm i.
Proof. exact xmlsec_precheck_is_xsw_precheck. Qed.
Print Assumptions Glue_xmlsec_precheck_is_C01_precheck.

Theorem Glue_request_precheck_is_C01_precheck :
  forall doc nm i, X.precheck (emb doc) (nm' nm) i = RQ.enveloped_ok doc nm i /\ RQ.enveloped_ok doc nm i = M.precheck doc nm i.
Proof. intros doc nm i. split; [exact (enveloped_ok_is_xsw_precheck doc nm i)|reflexivity]. Qed.
Print Assumptions Glue_request_precheck_is_C01_precheck.

(* HISTORY: Xmlsec.precheck used to count the carriers among the elements of the asked NAME only
   (precheck_registered_only) and accepted the ID of the AuthnRequest repeated on an element of another name, which the
   library refuses (harness/glue_probe.py); today all models refuse it *)
Theorem Glue_xmlsec_precheck_foreign_carrier_witness :
  precheck_registered_only foreign_carrier_doc 1 (Some (s2l "a-1")) = true /\
  M.tool_verify true foreign_carrier_doc 1 (Some (s2l "a-1")) 5 = true /\
  M.precheck foreign_carrier_doc 1 (Some (s2l "a-1")) = false /\
  M.check_signature_x true foreign_carrier_doc 1 (Some (s2l "a-1")) [5] = false /\
  X.precheck (emb foreign_carrier_doc) (nm' 1) (Some (s2l "a-1")) = false /\
  RQ.enveloped_ok foreign_carrier_doc 1 (Some (s2l "a-1")) = false.
Proof. exact xmlsec_precheck_foreign_carrier_witness. Qed.
Print Assumptions Glue_xmlsec_precheck_foreign_carrier_witness.

(* _check_signature after certificate selection: one verdict *)
Theorem Glue_check_signature_x_agrees :
  forall dupfail doc nm i certs,
    X.check_signature_x (pol_of dupfail) (emb doc) (nm' nm) i certs = M.check_signature_x dupfail doc nm i certs /\
    X.check_signature_x (pol_of dupfail) (emb doc) (nm' nm) i certs =
    RQ.enveloped_ok doc nm i && existsb (M.tool_verify dupfail doc nm (RQ.node_id_arg i)) certs.
Proof. intros. split; [apply check_signature_x_is_xmlsec|apply check_signature_x_emb]. Qed.
Print Assumptions Glue_check_signature_x_agrees.

(* C01_relied_is_covered for requests: a signed request that passes the signature check is covered in C01's sense -
   non-empty ID carried by NO other node of the document, exactly one Signature child, first in document order,
   single reference to that ID, intact value under one of the certificates selected for the issuer, digest = the
   request element minus that child *)
Theorem Glue_request_relied_is_covered :
  forall c d nm ovc,
    RQ.check_sig true true c d nm ovc = Ok tt ->
    exists certs v Xn k D,
      RQ.request_certs c d = Ok certs /\ RQ.root_id (RQ.d_tree d) = Some v /\
      XL.covered (emb (RQ.d_tree d)) (nm' nm) v certs [] Xn k D /\ Xn = emb (RQ.d_tree d).
Proof. exact request_relied_is_covered. Qed.
Print Assumptions Glue_request_relied_is_covered.

Theorem Glue_parse_request_relied_is_covered :
  forall c k b w d,
    RQ.parse_request true true c k b w = Ok (Some d) -> RQ.root_signed (RQ.d_tree d) = true ->
    exists certs v Xn j D,
      RQ.request_certs c d = Ok certs /\ RQ.root_id (RQ.d_tree d) = Some v /\
      XL.covered (emb (RQ.d_tree d)) (nm' (RQ.kind_name k)) v certs [] Xn j D /\ Xn = emb (RQ.d_tree d).
Proof. exact parse_request_relied_is_covered. Qed.
Print Assumptions Glue_parse_request_relied_is_covered.

(* C01_accepted_content_was_signed for requests: the attacker cannot forge values of protected keys (C01's
   derivability invariant) => what the receiver relies on was signed by a protected key's owner under that ID *)
Theorem Glue_request_accepted_content_was_signed :
  forall protected (signed : list (str * X.tree) -> Prop) c d nm ovc,
    RQ.check_sig true true c d nm ovc = Ok tt ->
    XL.derivable protected signed (emb (RQ.d_tree d)) ->
    (forall certs x, RQ.request_certs c d = Ok certs -> In x certs -> In x protected) ->
    exists v k D, RQ.root_id (RQ.d_tree d) = Some v /\
      D = X.with_kids (emb (RQ.d_tree d)) (X.remove_nth k (X.t_kids (emb (RQ.d_tree d)))) /\ signed [(X.HASH :: v, D)].
Proof. exact request_accepted_content_was_signed. Qed.
Print Assumptions Glue_request_accepted_content_was_signed.

(* metadata (C16): md_precheck = a reference to the whole document, or C01's pre-check for the root under its own name *)
Theorem Glue_md_precheck_char :
  forall n i pl kids,
    MD.md_precheck (M.El n i pl kids) = whole_ref (M.El n i pl kids) || X.precheck (emb (M.El n i pl kids)) (nm' n) i.
Proof. exact md_precheck_char. Qed.
Print Assumptions Glue_md_precheck_char.
End G2.

(* ====================================================================================================
   3. percent-encoding: Model/Codec.v (C14) vs Model/Redirect.v (C15) vs Model/Ident.v (C18) vs Model/Cache.v (C19).
      [quote_x plus exc]: Codec.quote_byte except where exc names another spelling; one round-trip theorem. *)
Module G3.
Import Codec Base64_lemmas Glue_quote.

Theorem Glue_quote_round_trip_single_source :
  forall plus exc bs, exc_ok plus exc -> Forall byte bs -> unquote_gen plus (quote_x plus exc bs) = bs.
Proof. exact unquote_quote_x. Qed.
Print Assumptions Glue_quote_round_trip_single_source.

Theorem Glue_quote_injective_single_source :
  forall plus exc a b, exc_ok plus exc -> Forall byte a -> Forall byte b -> quote_x plus exc a = quote_x plus exc b -> a = b.
Proof. exact quote_x_injective. Qed.
Print Assumptions Glue_quote_injective_single_source.

(* the four copies are instances of it (exceptions: none / tilde -> %7E when the flag is off / slash kept) *)
Theorem Glue_quote_copies_are_instances :
  forall bs,
    (quote bs = quote_x false exc_none bs /\ quote_plus bs = quote_x true exc_none bs) /\
    (forall ts, RD.quote_plus_g ts bs = quote_x true (exc_tilde ts) bs) /\
    ID.quote_s bs = quote_x false exc_slash bs /\
    CA.quote_id bs = quote_x false exc_slash bs /\
    (forall plus, exc_ok plus exc_none) /\ (forall plus ts, exc_ok plus (exc_tilde ts)) /\ (forall plus, exc_ok plus exc_slash).
Proof.
  intros bs. split; [exact (codec_quote_is_x bs)|]. split; [intros ts; exact (redirect_quote_is_x ts bs)|].
  split; [exact (ident_quote_is_x bs)|]. split; [exact (cache_quote_is_x bs)|].
  split; [exact exc_none_ok|]. split; [exact exc_tilde_ok|exact exc_slash_ok].
Qed.
Print Assumptions Glue_quote_copies_are_instances.

(* equal, or equal up to the documented exception character *)
Theorem Glue_quote_copies_equal :
  forall bs,
    ID.quote_s bs = CA.quote_id bs /\
    (forallb (fun c => negb (c =? 47)) bs = true -> ID.quote_s bs = quote bs) /\
    (forall ts, ts = true \/ forallb (fun c => negb (c =? 126)) bs = true -> RD.quote_plus_g ts bs = quote_plus bs).
Proof.
  intros bs. split; [exact (ident_cache_quote_same bs)|]. split; [exact (quote_s_is_codec_quote bs)|].
  intros ts. exact (quote_plus_g_is_codec_quote_plus ts bs).
Qed.
Print Assumptions Glue_quote_copies_equal.

Theorem Glue_urlencode_g_is_urlencode :
  forall ts ps, ts = true \/ Forall Redirect_lemmas.no_tilde_pair ps -> RD.urlencode_g ts ps = urlencode ps.
Proof. exact urlencode_g_is_codec_urlencode. Qed.
Print Assumptions Glue_urlencode_g_is_urlencode.

Theorem Glue_all_quote_round_trips :
  forall bs, Forall byte bs ->
    unquote (quote bs) = bs /\ unquote_plus (quote_plus bs) = bs /\
    (forall ts, unquote_plus (RD.quote_plus_g ts bs) = bs) /\
    unquote (ID.quote_s bs) = bs /\ unquote (CA.quote_id bs) = bs.
Proof. exact all_quote_round_trips. Qed.
Print Assumptions Glue_all_quote_round_trips.

(* ident.code in C18's and in C19's model: one function (toC: absent / empty attribute = empty string) *)
Theorem Glue_ident_code_same : forall n, CA.code (toC n) = ID.code n.
Proof. exact code_same. Qed.
Print Assumptions Glue_ident_code_same.

(* ident.decode in C18's and in C19's model: ONE function on every string (Model/Cache.v's decode is Model/Ident.v's,
   read into Cache.v's record) *)
Theorem Glue_ident_decode_same :
  forall s, CA.decode s = match ID.decode s with Ok m => Ok (toC m) | Err e => Err e end.
Proof. exact decode_same. Qed.
Print Assumptions Glue_ident_decode_same.

Theorem Glue_ident_decode_same_on_codes :
  forall n, IDL.wfb n -> exists m, ID.decode (ID.code n) = Ok m /\ CA.decode (ID.code n) = Ok (toC m).
Proof. exact decode_same_on_codes. Qed.
Print Assumptions Glue_ident_decode_same_on_codes.

(* HISTORY: the one-digit decoder Model/Cache.v had before differed off the image of code(): the library follows
   Model/Ident.v (int("-1"), int("04") are indexes) *)
Theorem Glue_ident_decode_one_digit_witness :
  ID.decode (s2l "-1=a") = Ok (ID.nid_t (s2l "a")) /\ CA.decode_one_digit (s2l "-1=a") = Ok CA.no_nid /\
  CA.decode (s2l "-1=a") = Ok (toC (ID.nid_t (s2l "a"))) /\
  ID.decode (s2l "04=a") = Ok (ID.nid_t (s2l "a")) /\ CA.decode_one_digit (s2l "04=a") = Ok CA.no_nid /\
  CA.decode (s2l "04=a") = Ok (toC (ID.nid_t (s2l "a"))).
Proof. exact decode_one_digit_witness. Qed.
Print Assumptions Glue_ident_decode_one_digit_witness.
End G3.

(* ====================================================================================================
   4. time tests: time_util.before / valid (Model/MdStore.v, Model/Cache.v), validate_on_or_after / validate_before
      (Model/Response.v), issue_instant_ok (Model/Response.v for C04, Model/Request.v for C10). *)
Module G4.
Import Glue_time.
Open Scope Z_scope.

Theorem Glue_time_specs :
  (forall now p, not_past now p = true <-> now <= p) /\
  (forall now slack t, day_window now slack t = true <-> now - 86400 - slack <= t < now + 86400 + slack).
Proof. split; [exact not_past_spec|exact day_window_spec]. Qed.
Print Assumptions Glue_time_specs.

(* every "has this point passed" test is not_past *)
Theorem Glue_expiry_tests_are_one :
  (forall now t, MS.valid now (Some t) = not_past now t) /\
  (forall now z, CA.t_before now (CA.At z) = not_past now z /\ CA.t_after now (CA.At z) = negb (not_past now z)) /\
  (forall c t, is_ok (RS.validate_on_or_after c (Some t)) = not_past (RS.now c) (t + RS.slack c) /\
               is_ok (RS.validate_before c (Some t)) = not_past t (RS.now c + RS.slack c)).
Proof.
  split; [intros now t; apply mdstore_valid_is_not_past|]. split; [intros now z; split; apply cache_tests_are_not_past|].
  exact response_lifetime_tests_are_not_past.
Qed.
Print Assumptions Glue_expiry_tests_are_one.

(* the IssueInstant window of responses (C04) and requests (C10) is one predicate *)
Theorem Glue_issue_instant_windows_are_one :
  (forall c t, RS.issue_instant_ok c t = day_window (RS.now c) (RS.slack c) t) /\
  (forall c t, RQ.issue_instant_ok c t = day_window (RQ.c_now c) (RQ.c_slack c) t) /\
  (forall c t, RQ.in_window c t <-> day_window (RQ.c_now c) (RQ.c_slack c) t = true) /\
  (forall now s1 s2 t, s1 <= s2 -> day_window now s1 t = true -> day_window now s2 t = true).
Proof.
  split; [apply issue_instant_windows_are_day_window|]. split; [apply issue_instant_windows_are_day_window|].
  split; [exact request_in_window_is_day_window|exact day_window_mono].
Qed.
Print Assumptions Glue_issue_instant_windows_are_one.

(* C04 next to C19: accepted inside the allowance = stored already expired (the cache applies no allowance) *)
Theorem Glue_accepted_inside_allowance_is_expired_in_cache :
  forall c nooa, is_ok (RS.validate_on_or_after c (Some nooa)) = true -> nooa < RS.now c ->
    CA.t_after (RS.now c) (CA.At nooa) = true /\ CA.t_before (RS.now c) (CA.At nooa) = false.
Proof. exact accepted_inside_allowance_is_expired_in_cache. Qed.
Print Assumptions Glue_accepted_inside_allowance_is_expired_in_cache.

(* the same tests on the TEXTS the library receives (Model/TimeUtil.v: strptime, timegm, gmtime, tuple comparison): on a text
   that str_to_time reads, time_util.before / after against the clock ARE not_past on timegm of the parsed value - the
   already-parsed instant that MdStore.valid (C16), Cache.t_before / t_after (C19) and validate_on_or_after (C04) start from *)
Theorem Glue_text_expiry_tests_are_one :
  forall now s c, PV.Model.TimeUtil.str_to_time s = Ok (Some c) ->
    let t := PV.Model.TimeUtil.timegm c in
    PV.Model.TimeUtil.before now (PV.Model.TimeUtil.AText s) = Ok (not_past now t) /\
    PV.Model.TimeUtil.after now (PV.Model.TimeUtil.AText s) = Ok (negb (not_past now t)) /\
    MS.valid now (Some t) = not_past now t /\
    CA.t_before now (CA.At t) = not_past now t /\ CA.t_after now (CA.At t) = negb (not_past now t) /\
    (forall cfg, is_ok (RS.validate_on_or_after cfg (Some t)) = not_past (RS.now cfg) (t + RS.slack cfg)).
Proof.
  intros now s c H t. split; [exact (PV.Proofs.TimeUtil_lemmas.before_text now s c H)|].
  split; [exact (PV.Proofs.TimeUtil_lemmas.after_text now s c H)|].
  split; [apply mdstore_valid_is_not_past|]. split; [apply cache_tests_are_not_past|]. split; [apply cache_tests_are_not_past|].
  intros cfg. apply response_lifetime_tests_are_not_past.
Qed.
Print Assumptions Glue_text_expiry_tests_are_one.
End G4.

(* ====================================================================================================
   5. the last step of _check_signature (Model/Sigver.v for C20 / C03 vs Model/Request.v for C10) and Request.verify
      (Model/Status.v vs Model/Request.v). *)
Module G5.
Import Sigver Glue_sigver.

Theorem Glue_request_check_sig_is_check_signature_runs :
  forall pre fixd c d nm ovc,
    RQ.check_sig pre fixd c d nm ovc =
    match RQ.request_certs c d with
    | Err e => Err e
    | Ok certs =>
        let i := RQ.root_id (RQ.d_tree d) in
        if pre && negb (RQ.enveloped_ok (RQ.d_tree d) nm i) then Err (s2l "SignatureError") else
        let f := Xmlsec.tool_verify (RQ.c_dupfail c) (RQ.d_tree d) nm (RQ.node_id_arg i) in
        (if fixd then check_signature_runs else check_signature_runs_before_fix)
          false (map (fun k => run_of (f k)) certs) ovc (last_tried_valid c (find f certs) certs)
    end.
Proof. exact request_check_sig_is_check_signature_runs. Qed.
Print Assumptions Glue_request_check_sig_is_check_signature_runs.

(* today's code state (fixd = true): Sigver.check_signature_runs itself, whatever only_valid_cert *)
Theorem Glue_request_check_sig_now :
  forall pre c d nm ovc,
    RQ.check_sig pre true c d nm ovc =
    match RQ.request_certs c d with
    | Err e => Err e
    | Ok certs =>
        let i := RQ.root_id (RQ.d_tree d) in
        if pre && negb (RQ.enveloped_ok (RQ.d_tree d) nm i) then Err (s2l "SignatureError") else
        let f := Xmlsec.tool_verify (RQ.c_dupfail c) (RQ.d_tree d) nm (RQ.node_id_arg i) in
        check_signature_runs false (map (fun k => run_of (f k)) certs) ovc (last_tried_valid c (find f certs) certs)
    end.
Proof. exact request_check_sig_now. Qed.
Print Assumptions Glue_request_check_sig_now.

(* HISTORY: the branch Model/Sigver.v's check_signature_runs had for only_valid_cert = true was the code BEFORE the F16
   repair (now check_signature_runs_before_fix); today's model, the library and Request.v with fixd raise SignatureError *)
Theorem Glue_check_signature_runs_before_fix_witness :
  check_signature_runs_before_fix false [run_of false] true true = Ok tt /\
  check_signature_runs false [run_of false] true true = Err (s2l "SignatureError") /\
  check_signature_runs false [run_of false] false true = Err (s2l "SignatureError") /\
  (forall c d nm, RQ.request_certs c d = Ok [7%N] -> RQ.cert_ok c 7 = true ->
      Xmlsec.tool_verify (RQ.c_dupfail c) (RQ.d_tree d) nm (RQ.node_id_arg (RQ.root_id (RQ.d_tree d))) 7 = false ->
      RQ.check_sig false true c d nm true = Err (s2l "SignatureError") /\
      RQ.check_sig false false c d nm true = Ok tt).
Proof. exact check_signature_runs_before_fix_witness. Qed.
Print Assumptions Glue_check_signature_runs_before_fix_witness.

Theorem Glue_request_verify_same :
  forall c addrs d,
    ST.request_verify (verify_view c addrs d) =
    match RQ.verify c addrs d with Err e => Err e | Ok None => Ok None | Ok (Some _) => Ok (Some tt) end.
Proof. exact request_verify_same. Qed.
Print Assumptions Glue_request_verify_same.
End G5.
