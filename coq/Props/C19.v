(* Props/C19.v — the SP session cache returns only unexpired data of the right
   subject.  Statements, `exact` proofs and Print Assumptions only.

   Vocabulary (Model/Cache.v): a history is a list of (clock reading, operation);
   [final init h] is the cache after running it from empty; [spec_of h k e] is
   the functional specification: the last write to (subject key k, source e)
   not followed by a delete of k.  [contributes now check (ts, info)] is the
   code's own admission test:  info non-empty and (checking off, or ts is a
   real instant with now <= ts)  (C19_contributes_meaning). *)
From PV Require Import Lib.Base Model.Codec Model.Cache Proofs.Cache_lemmas Proofs.CacheKey_lemmas Proofs.Base64_lemmas.
Open Scope N_scope.

(* (1a) refinement: after ANY history (any operations, any clock readings) the
   cache holds for every (subject key, source) exactly what the specification says *)
Theorem C19_state_refines_spec :
  forall (h : list (Z * op)) (k e : str), entry_of (final init h) k e = spec_of h k e.
Proof. exact history_refines_spec. Qed.
Print Assumptions C19_state_refines_spec.

(* (1b) after ANY history, at ANY clock reading: the identity returned for
   subject key k lists under each attribute exactly the values stored for THAT
   key by sources that pass the admission test, and reports exactly the other
   sources of that key as stale.  Expired or reset sources never contribute. *)
Theorem C19_refines_spec :
  forall (h : list (Z * op)) (now : Z) (k : str) (check : bool) (res : ava) (old : list str),
    get_identity now (final init h) k [] check = Ok (res, old) ->
    (forall e, In e old <-> exists ent, spec_of h k e = Some ent /\ contributes now check ent = false) /\
    (forall a v, has_val a v res <->
       exists e ts i av vals, spec_of h k e = Some (ts, i) /\ contributes now check (ts, i) = true /\
                              i_ava i = Some av /\ In (a, vals) av /\ In v vals).
Proof. exact get_identity_history. Qed.
Print Assumptions C19_refines_spec.

Theorem C19_contributes_meaning :
  forall now check ts i,
    contributes now check (ts, i) = true <->
    info_empty i = false /\ (check = false \/ exists z, ts = At z /\ (now <= z)%Z).
Proof. exact contributes_iff. Qed.
Print Assumptions C19_contributes_meaning.

(* an expired (falsy expiry included) or reset/empty source is reported and every
   returned value comes from ANOTHER, admitted, source of the same key *)
Theorem C19_stale_never_contributes :
  forall h now k e ts i res old,
    spec_of h k e = Some (ts, i) -> t_after now ts = true \/ info_empty i = true ->
    get_identity now (final init h) k [] true = Ok (res, old) ->
    In e old /\
    (forall a v, has_val a v res -> exists e' ts' i' av vals, e' <> e /\ spec_of h k e' = Some (ts', i') /\
         contributes now true (ts', i') = true /\ i_ava i' = Some av /\ In (a, vals) av /\ In v vals).
Proof. exact stale_source_reported. Qed.
Print Assumptions C19_stale_never_contributes.

(* the same for an explicit list of sources, and for the single-source get *)
Theorem C19_given_sources :
  forall now s k check e0 ents res old,
    get_identity now s k (e0 :: ents) check = Ok (res, old) ->
    (forall e, In e old <-> source_stale now check (entry_of s k) (e0 :: ents) e) /\
    (forall a v, has_val a v res <-> source_gives now check (entry_of s k) (e0 :: ents) a v).
Proof. exact get_identity_given_char. Qed.
Print Assumptions C19_given_sources.

Theorem C19_get_returns_only_valid :
  forall h now k e check io,
    get now (final init h) k e check = GInfo io ->
    exists ts i, spec_of h k e = Some (ts, i) /\ contributes now check (ts, i) = true /\
                 o_ava io = i_ava i /\ o_other io = i_other i.
Proof.
  intros h now k e check io H. apply get_returns_only_valid in H as (ts & i & He & Hx).
  exists ts, i. now rewrite <- history_refines_spec.
Qed.
Print Assumptions C19_get_returns_only_valid.

(* (2) isolation: an operation (or a whole history of operations) about other keys
   changes no answer to any query about key k ... *)
Theorem C19_isolation :
  (forall now now' s o r k, op_key o <> Some k -> is_read r = true -> op_key r = Some k ->
      snd (step now' (fst (step now s o)) r) = snd (step now' s r)) /\
  (forall now s h r k, Forall (fun no => op_key (snd no) <> Some k) h -> is_read r = true -> op_key r = Some k ->
      snd (step now (final s h) r) = snd (step now s r)).
Proof. split; [exact isolation_step|exact isolation_history]. Qed.
Print Assumptions C19_isolation.

(* ... and keys differ whenever the identifiers differ in any field (None and "" are
   the same absent value): decode is a left inverse of code *)
Theorem C19_key_injective :
  (forall n, byte_nid n -> decode (code n) = Ok n) /\
  (forall a b, byte_nid a -> byte_nid b -> code a = code b -> a = b).
Proof. split; [exact decode_code|exact code_injective]. Qed.
Print Assumptions C19_key_injective.

(* (3) delete removes everything about the subject: whatever the cache held and
   whether or not the subject was known, afterwards every query about it gets the
   answer of the EMPTY cache, and subjects() does not list it *)
Theorem C19_delete_total :
  forall now now' s n,
    (forall r, is_read r = true -> op_key r = Some (code n) ->
       snd (step now' (fst (step now s (ODelete n))) r) = snd (step now' init r)) /\
    ~ In (code n) (map fst (fst (step now s (ODelete n)))) /\
    (forall k e, entry_of (fst (step now s (ODelete n))) k e = if str_eqb k (code n) then None else entry_of s k e).
Proof.
  intros now now' s n. split; [|split].
  - intros r. apply delete_total.
  - apply delete_not_listed.
  - intros k e. exact (step_refines now s (ODelete n) k e).
Qed.
Print Assumptions C19_delete_total.

Theorem C19_empty_answers :
  forall now n e c ents,
    snd (step now init (OGet n e c)) = RExn KeyError /\
    snd (step now init (OIdent n [] c)) = RIdent [] [] /\
    snd (step now init (OIdent n (e :: ents) c)) = RExn KeyError /\
    snd (step now init (OEntities n)) = RExn KeyError /\
    snd (step now init (OActive n e)) = RBool false /\
    snd (step now init (OStale n [])) = RExn KeyError /\
    snd (step now init (OEntityId n e c)) = REmptyStr.
Proof. exact empty_answers. Qed.
Print Assumptions C19_empty_answers.

(* (4) queries hand back the very state they were given *)
Theorem C19_reads_keep_state :
  forall now s o, is_read o = true -> fst (step now s o) = s.
Proof. exact read_keeps_state. Qed.
Print Assumptions C19_reads_keep_state.

(* Observation (DESIGN 5.1, not an alarm): Cache.active and Cache.get agree on real
   instants and disagree exactly on a falsy expiry (0 / None / ""), where active()
   says valid and get()/get_identity() say too old — what is RETURNED is the
   conservative side. *)
Theorem C19_active_vs_get :
  forall now s k e ts i,
    entry_of s k e = Some (ts, i) -> info_empty i = false ->
    match ts with
    | At z => active now s k e = negb (t_after now ts)
    | Falsy => active now s k e = true /\ get now s k e true = GOld
    end.
Proof. exact active_vs_get. Qed.
Print Assumptions C19_active_vs_get.

(* non-vacuity: a six-step history with two subjects differing in one field, two
   sources with an overlapping attribute, an expired source, a reset and a delete *)
Definition w_a : nameid := {| nq := []; spnq := s2l "sp"; fmt := s2l "urn:f"; spid := []; txt := s2l "a" |}.
Definition w_b : nameid := {| nq := []; spnq := s2l "sp"; fmt := s2l "urn:f"; spid := []; txt := s2l "b" |}.
Definition w_info (vals : list str) : info_in :=
  {| in_ava := Some [(s2l "x", vals)]; in_nid := NidObject; in_other := [] |}.
Definition w_hist : list (Z * op) :=
  [ (10, OSet w_a (s2l "e1") (w_info [s2l "1"; s2l "2"]) (At 100));
    (11, OSet w_a (s2l "e2") (w_info [s2l "2"; s2l "3"]) (At 50));
    (12, OSet w_b (s2l "e1") (w_info [s2l "9"]) (At 100));
    (13, OSet w_a (s2l "e3") (w_info [s2l "7"]) Falsy);
    (14, OReset w_b (s2l "e1"));
    (15, ODelete w_b) ]%Z.
Example C19_witness :
  byte_nid w_a /\ byte_nid w_b /\ code w_a <> code w_b /\
  (* at 50 both real sources count, the falsy-stamped one is stale *)
  show_out (snd (step 50 (final init w_hist) (OIdent w_a [] true))) =
    VL [VL [VL [VS (s2l "x"); VL [VS (s2l "1"); VS (s2l "2"); VS (s2l "3")]]]; VL [VS (s2l "e3")]] /\
  (* at 51 source e2 has expired: its value 3 is gone, it is reported *)
  show_out (snd (step 51 (final init w_hist) (OIdent w_a [] true))) =
    VL [VL [VL [VS (s2l "x"); VL [VS (s2l "1"); VS (s2l "2")]]]; VL [VS (s2l "e2"); VS (s2l "e3")]] /\
  (* the deleted subject answers like the empty cache *)
  snd (step 51 (final init w_hist) (OIdent w_b [] true)) = RIdent [] [] /\
  (* active() vs get() on the falsy stamp *)
  snd (step 51 (final init w_hist) (OActive w_a (s2l "e3"))) = RBool true /\
  snd (step 51 (final init w_hist) (OGet w_a (s2l "e3") true)) = RExn ToOld.
Proof.
  assert (forall l : list N, forallb (fun b => b <? 256) l = true -> Forall byte l) as FB.
  { intros l H. apply Forall_forall. intros x Hx. rewrite forallb_forall in H. apply N.ltb_lt. now apply H. }
  split; [|split; [|split]].
  - repeat split; apply FB; reflexivity.
  - repeat split; apply FB; reflexivity.
  - vm_compute. discriminate.
  - vm_compute. repeat split; reflexivity.
Qed.
Print Assumptions C19_witness.

(* GLUE to C18 and C14 (Proofs/Glue_quote.v, docs/Glue.md): the key function of this file is Model/Ident.v's code
   (the one C18 ties to ident.py), and its decoder IS Model/Ident.v's decode on every string (of_ident: an absent /
   empty attribute read as the empty string). *)
From PV Require Model.Ident Proofs.Ident_lemmas Proofs.Glue_quote.
Theorem C19_cache_key_is_ident_code_of_C18 :
  (forall n, code (of_ident n) = Ident.code n) /\
  (forall s, decode s = match Ident.decode s with Ok m => Ok (of_ident m) | Err e => Err e end).
Proof. split; [exact Glue_quote.code_same|exact Glue_quote.decode_same]. Qed.
Print Assumptions C19_cache_key_is_ident_code_of_C18.
