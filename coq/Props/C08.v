(* Props/C08.v — what the IdP asserts is what the SP reads, for any content.
   Model: Model/IdpBuild.v (+ Model/Response.v, Model/CertSelect.v, Gen/AttrMaps.v).
   Proofs: Proofs/IdpBuild_lemmas.v (text), IdpBuildTree_lemmas.v (trees),
   IdpBuildAttr_lemmas.v (attributes), IdpBuildFlow_lemmas.v (the pipeline). *)
From PV Require Import Lib.Base Model.Codec Model.Status Model.Response Model.CertSelect Model.IdpBuild Gen.AttrMaps
     Proofs.C02_lemmas Proofs.IdpBuild_lemmas Proofs.IdpBuildTree_lemmas Proofs.IdpBuildAttr_lemmas Proofs.IdpBuildFlow_lemmas.
Open Scope N_scope.

(* ====================================================================== *)
(* C08_values_are_data : text level, for EVERY string (any code points)     *)
(* ====================================================================== *)

(* character data: what ElementTree writes is read back as the same string, except that
   CR LF and CR arrive as LF (XML 1.0 2.11) - exactly that and nothing else; the written
   form contains no '<', no '>', and every '&' in it starts &amp; &lt; or &gt; *)
Theorem C08_text_is_data :
  (forall s, unescape_text (escape_cdata s) = Some (norm_eol s)) /\
  (forall s, forallb (fun c => negb (c =? 13)) s = true -> unescape_text (escape_cdata s) = Some s) /\
  (forall s, forallb (fun c => negb ((c =? 60) || (c =? 62))) (escape_cdata s) = true /\ amp_ok TEXT_REFS (escape_cdata s) = true) /\
  (forall s, forallb xml_char s = true -> forallb xml_char (escape_cdata s) = true).
Proof.
  split; [exact unescape_text_escape|]. split; [|split; [exact escape_cdata_safe|exact escape_cdata_legal]].
  intros s H. rewrite unescape_text_escape. now rewrite (norm_eol_id s H).
Qed.
Print Assumptions C08_text_is_data.

(* attribute values: read back EXACTLY (CR, LF and TAB included: they are written as
   character references); no '<', no '>', no double quote, no raw CR / LF / TAB, and every
   '&' starts one of the seven references the writer emits *)
Theorem C08_attribute_value_is_data :
  (forall s, unescape_attr (escape_attrib s) = Some s) /\
  (forall s, forallb (fun c => negb ((c =? 60) || (c =? 62) || (c =? 34) || (c =? 13) || (c =? 10) || (c =? 9))) (escape_attrib s) = true /\
             amp_ok ATTR_REFS (escape_attrib s) = true) /\
  (forall s, forallb xml_char s = true -> forallb xml_char (escape_attrib s) = true).
Proof. split; [exact unescape_attr_escape|]. split; [exact escape_attrib_safe|exact escape_attrib_legal]. Qed.
Print Assumptions C08_attribute_value_is_data.

(* ====================================================================== *)
(* C08_values_are_data : tree level, for EVERY tree (any depth, any values)  *)
(* ====================================================================== *)

(* the reader recovers exactly the tree that was serialised (character data modulo the
   end-of-line rule; nothing at all changes when it holds no CR) *)
Theorem C08_parse_serialise :
  (forall t, wf_xml t = true -> xml_parse (serialise t) = Some (norm_xml t)) /\
  (forall t, wf_xml t = true -> no_cr_xml t = true -> xml_parse (serialise t) = Some t).
Proof. split; [exact parse_serialise|exact parse_serialise_exact]. Qed.
Print Assumptions C08_parse_serialise.

(* the structure read back - tags, nesting, attribute names - is the structure written,
   hence it does not depend on any text or attribute VALUE: two trees with the same
   skeleton and arbitrary different values are read back with the same skeleton *)
Theorem C08_structure_independent_of_values :
  (forall t, wf_xml t = true -> option_map skeleton (xml_parse (serialise t)) = Some (skeleton t)) /\
  (forall t1 t2, wf_xml t1 = true -> wf_xml t2 = true -> skeleton t1 = skeleton t2 ->
     option_map skeleton (xml_parse (serialise t1)) = option_map skeleton (xml_parse (serialise t2))).
Proof. split; [exact skeleton_parse|exact values_are_data]. Qed.
Print Assumptions C08_structure_independent_of_values.

(* the message parts that carry asserted values (Issuer, Subject NameID, AuthnContext,
   AttributeStatement): well-formed whenever the asserted strings are XML-legal, read back
   as written, and their structure is a function of the SHAPE of what is asserted only
   (how many attributes / values, which optional fields are present) *)
Theorem C08_payload_is_data :
  (forall p, legal_payload p = true ->
     Forall (fun t => xml_parse (serialise t) = Some (norm_xml t) /\
                      option_map skeleton (xml_parse (serialise t)) = Some (skeleton t)) (payload_xml p)) /\
  (forall p1 p2, payload_shape p1 = payload_shape p2 -> map skeleton (payload_xml p1) = map skeleton (payload_xml p2)).
Proof. split; [exact payload_through_text|exact payload_skeleton]. Qed.
Print Assumptions C08_payload_is_data.

(* IdP attributes -> AttributeStatement -> XML text -> reader -> harvested attributes:
   the same attributes (values modulo the end-of-line rule; identical without CR) *)
Theorem C08_attributes_through_text :
  (forall l, legal_attributes l = true ->
     option_map attrs_of_statement_xml (xml_parse (serialise (attr_statement_xml l))) = Some (map norm_attribute l)) /\
  (forall l, legal_attributes l = true -> forallb no_cr_attribute l = true ->
     option_map attrs_of_statement_xml (xml_parse (serialise (attr_statement_xml l))) = Some l).
Proof. split; [exact attributes_through_text|exact attributes_through_text_exact]. Qed.
Print Assumptions C08_attributes_through_text.

(* ====================================================================== *)
(* the documented name mapping and white-space trimming                      *)
(* ====================================================================== *)

(* str.strip removes white space (str.isspace, regenerated) at the two ends and nothing else *)
Theorem C08_trimming :
  forall s, exists a b, s = a ++ IdpBuild.strip s ++ b /\ forallb is_space a = true /\ forallb is_space b = true /\
    (match IdpBuild.strip s with c :: _ => is_space c = false | [] => True end) /\
    (match rev (IdpBuild.strip s) with c :: _ => is_space c = false | [] => True end).
Proof. exact strip_spec. Qed.
Print Assumptions C08_trimming.

(* for ANY converters, identity and name format: when every key is known to the IdP's
   converter and the SP reports the keys under pairwise different local names, the SP reads
   exactly the asserted attributes - every value (the empty one too), in order, trimmed -
   under those names.  eptid_named: a key sent under the eduPersonTargetedID OID is reported
   under the name eduPersonTargetedID (a condition on the tables, not on the values; decided
   for the shipped maps by C08_name_tables) *)
Theorem C08_attributes_exact :
  forall cv sp_acs allow ident locals,
    map (fun kv => sp_name cv sp_acs (fst kv)) ident = map Some locals ->
    Forall (fun kv => eptid_named cv sp_acs (fst kv) = true) ident ->
    NoDup locals ->
    list_to_local sp_acs allow (map (to_attr cv) ident) = combine locals (map (fun kv => plain_values (snd kv)) ident).
Proof. exact attributes_exact. Qed.
Print Assumptions C08_attributes_exact.

(* ... the same THROUGH THE TEXT of the message: identity -> attributes -> serialised
   AttributeStatement -> reader -> harvested attributes -> to_local (XML-legal values without CR) *)
Theorem C08_attributes_via_text :
  forall cv sp_acs allow ident locals,
    legal_attributes (map (to_attr cv) ident) = true -> forallb no_cr_attribute (map (to_attr cv) ident) = true ->
    map (fun kv => sp_name cv sp_acs (fst kv)) ident = map Some locals ->
    Forall (fun kv => eptid_named cv sp_acs (fst kv) = true) ident ->
    NoDup locals ->
    option_map (fun t => list_to_local sp_acs allow (attrs_of_statement_xml t))
               (xml_parse (serialise (attr_statement_xml (map (to_attr cv) ident)))) =
    Some (combine locals (map (fun kv => plain_values (snd kv)) ident)).
Proof. exact attributes_via_text. Qed.
Print Assumptions C08_attributes_via_text.

(* a key the IdP's converter does not know travels under its own name (format uri): the SP
   reports it only if one of its uri converters knows that name (the first that does), or -
   with allow_unknown_attributes - under its own trimmed name; otherwise it is left out *)
Theorem C08_unmapped_attribute :
  forall cv sp_acs allow key vals, wire_name cv key = None ->
    read_attr sp_acs allow (to_attr cv (key, vals)) =
    match convs_for NAME_FORMAT_URI sp_acs with
    | [] => if str_eqb NAME_FORMAT_URI NAME_FORMAT_UNSPECIFIED || allow then Some (IdpBuild.strip key, plain_values vals) else None
    | cs => match first_local cs (lower (IdpBuild.strip key)) with
            | Some local => Some (local, plain_values vals)
            | None => if allow then Some (IdpBuild.strip key, plain_values vals) else None
            end
    end.
Proof. exact deliver_unmapped. Qed.
Print Assumptions C08_unmapped_attribute.

(* --- the shipped attribute maps (regenerated from /repo on every run) --- *)
Definition NF_BASIC : str := s2l "urn:oasis:names:tc:SAML:2.0:attrname-format:basic".
Definition NF_SHIB : str := s2l "urn:mace:shibboleth:1.0:attributeNamespace:uri".
Definition L (s : string) : str := s2l s.

(* the documented aliases: several local names share one wire name; the SP reports the canonical one *)
Definition DOC_ALIASES_URI : list (str * str) :=
  [(L "pvp-userid", L "uid"); (L "pvp-mail", L "mail"); (L "pvp-ou", L "ou"); (L "pvp-tel", L "telephoneNumber"); (L "pvp-givenname", L "givenName")].
Definition DOC_ALIASES_SHIB : list (str * str) :=
  [(L "countryname", L "c"); (L "domaincomponent", L "dc"); (L "emailaddress", L "email"); (L "fax", L "facsimileTelephoneNumber");
   (L "gn", L "givenName"); (L "localityname", L "l"); (L "organizationname", L "o"); (L "organizationalunitname", L "ou");
   (L "pkcs9email", L "email"); (L "rfc822mailbox", L "mail"); (L "stateorprovincename", L "st"); (L "streetaddress", L "street");
   (L "surname", L "sn")].
Definition same_pairs (a b : list (str * str)) : bool :=
  forallb (fun x => existsb (fun y => str_eqb (fst x) (fst y) && str_eqb (snd x) (snd y)) b) a &&
  forallb (fun x => existsb (fun y => str_eqb (fst x) (fst y) && str_eqb (snd x) (snd y)) a) b.
Definition same_strs (a b : list str) : bool := forallb (fun x => mem_str x b) a && forallb (fun x => mem_str x a) b.

(* per name format: aliases = the documented ones, NO name is lost, every alias is another
   local name of the same wire name, eduPersonTargetedID is read as eduPersonTargetedID *)
Definition table_report (nf : str) (aliases : list (str * str)) : bool :=
  match first_conv default_acs nf with
  | None => false
  | Some cv => same_pairs (alias_rows cv default_acs) aliases && is_nil (lost_rows cv default_acs) &&
               aliases_consistent cv default_acs && eptid_rows_ok cv default_acs
  end.
Definition SHIPPED_FORMATS : list str := [NAME_FORMAT_URI; NF_BASIC; NF_SHIB; NAME_FORMAT_UNSPECIFIED].

(* every shipped map is a map of one of the four formats; per format (the table the IdP converts
   with = the first map of the format, read by ALL the SP's maps of the format in order): every
   local name is reported under itself or one of the 18 listed aliases - no exception *)
Theorem C08_name_tables :
  forallb (fun c => mem_str (c_nf c) SHIPPED_FORMATS) default_acs = true /\
  table_report NAME_FORMAT_URI DOC_ALIASES_URI = true /\
  table_report NF_BASIC [] = true /\
  table_report NF_SHIB DOC_ALIASES_SHIB = true /\
  table_report NAME_FORMAT_UNSPECIFIED [] = true.
Proof. vm_compute. repeat split; reflexivity. Qed.
Print Assumptions C08_name_tables.

(* what the tables' check means for one identity key (any spelling of it): a key of the
   IdP-side table that is not among the lost ones is reported by the SP, under its own name
   (up to letter case) or under the alias listed for it *)
Theorem C08_table_key_reported :
  forall cv sp_acs key, In (lower key) (table_keys cv) -> ~ In (lower key) (lost_rows cv sp_acs) ->
    exists l, sp_name cv sp_acs key = Some l /\ (lower l = lower key \/ In (lower key, l) (alias_rows cv sp_acs)).
Proof. exact table_key_reported. Qed.
Print Assumptions C08_table_key_reported.

(* ... and for the shipped maps, whatever name format the policy chooses: no row is lost and the
   eduPersonTargetedID row is named so - hence EVERY key of the table the IdP converts with, in any
   spelling, is reported under its own name or its listed alias, and satisfies eptid_named *)
Lemma shipped_tables_complete :
  forallb (fun c => match first_conv default_acs (c_nf c) with
                    | Some cv => is_nil (lost_rows cv default_acs) && eptid_rows_ok cv default_acs
                    | None => false end) default_acs = true.
Proof. vm_compute. reflexivity. Qed.
Print Assumptions shipped_tables_complete.

Theorem C08_shipped_tables :
  forall nf cv, first_conv default_acs nf = Some cv ->
    lost_rows cv default_acs = [] /\ eptid_rows_ok cv default_acs = true.
Proof.
  intros nf cv H. destruct (first_conv_in _ _ _ H) as [Hin Hf].
  pose proof shipped_tables_complete as T. rewrite forallb_forall in T. specialize (T cv Hin). rewrite Hf in T.
  apply andb_true_iff in T as [T1 T2]. split; [|exact T2]. destruct (lost_rows cv default_acs); [reflexivity|discriminate].
Qed.
Print Assumptions C08_shipped_tables.

Theorem C08_shipped_key_reported :
  forall nf cv key, first_conv default_acs nf = Some cv -> In (lower key) (table_keys cv) ->
    (exists l, sp_name cv default_acs key = Some l /\ (lower l = lower key \/ In (lower key, l) (alias_rows cv default_acs))) /\
    eptid_named cv default_acs key = true.
Proof.
  intros nf cv key H Hin. destruct (C08_shipped_tables nf cv H) as [Hl He]. split.
  - apply table_key_reported; [exact Hin|]. rewrite Hl. intros [].
  - now apply eptid_rows_named.
Qed.
Print Assumptions C08_shipped_key_reported.

(* ====================================================================== *)
(* C08_roundtrip : the pipeline                                              *)
(* ====================================================================== *)
Open Scope Z_scope.

(* For IdP and SP configured from each other's generated metadata (setting: the SP's
   metadata store is the IdP's generated metadata, the certificate encrypted for is one the
   SP holds the key of, the response answers a request of the SP / goes to its endpoint, it
   is delivered inside its validity window), EVERY identity (any number of attributes and
   values, arbitrary strings), name-id, authentication context, lifetime, in-response-to and
   EVERY sign_response x sign_assertion x encrypt_assertion setting (caller's arguments or
   configured defaults) that meets the SP's signature requirements - C02's rule `documented`
   on the built message - is accepted, and the application reads what was asserted. *)
Theorem C08_roundtrip :
  forall i m s a, setting i m s a ->
    documented (s_cfg s) (built_view (sign_encrypt i m a) i a (s_keys s)) = true ->
    roundtrip i m s a = Ok (expected_view i s a).
Proof.
  intros i m s a H D. apply roundtrip_ok; [exact H|]. now rewrite <- (documented_built i m s a H).
Qed.
Print Assumptions C08_roundtrip.

(* C02's rule on the built message is the rule on the flags the IdP was called with *)
Theorem C08_requirements :
  forall i m s a, setting i m s a ->
    documented (s_cfg s) (built_view (sign_encrypt i m a) i a (s_keys s)) =
    (let sr := eff (g_sign_response a) (i_sign_response i) in
     let sa := eff (g_sign_assertion a) (i_sign_assertion i) in
     implb (wrs (s_cfg s)) sr && implb (was (s_cfg s)) sa && implb (waors (s_cfg s)) (sr || sa)).
Proof. intros i m s a H. rewrite (documented_built i m s a H). apply requirements_flags. Qed.
Print Assumptions C08_requirements.

(* ... literally: name-id, every attribute under its documented name with trimmed values,
   in-response-to, issuer, authentication context, session expiry *)
Theorem C08_roundtrip_exact :
  forall i m s a cv locals, setting i m s a ->
    documented (s_cfg s) (built_view (sign_encrypt i m a) i a (s_keys s)) = true ->
    first_conv (i_acs i) (name_form i) = Some cv ->
    map (fun kv => sp_name cv (s_acs s) (fst kv)) (g_identity a) = map Some locals ->
    Forall (fun kv => eptid_named cv (s_acs s) (fst kv) = true) (g_identity a) ->
    NoDup locals ->
    roundtrip i m s a =
      Ok {| v_name_id := Some (g_name_id a);
            v_ava := combine locals (map (fun kv => plain_values (snd kv)) (g_identity a));
            v_irt := Some (g_irt a);
            v_issuer := i_entity_id i;
            v_authn := read_authn (build_payload i a);
            v_nooa := match g_session_nooa a with Some sn => sn | None => i_now i + lifetime i end;
            v_came_from := expected_cf (s_cfg s) a |}.
Proof.
  intros i m s a cv locals H D. apply roundtrip_exact; [exact H|]. now rewrite <- (documented_built i m s a H).
Qed.
Print Assumptions C08_roundtrip_exact.

(* ... and with the SHIPPED attribute maps on both sides, for whatever name format the policy
   selects: every identity over the names of the map the IdP converts with (any spelling, any
   values - empty ones included, eduPersonTargetedID included) is read name by name under its
   own name or its listed alias; with pairwise different reported names, exactly as asserted.
   (Two keys with one reported name - givenName and its alias gn - are merged: C08_witness.) *)
Theorem C08_roundtrip_shipped :
  forall i m s a cv, setting i m s a ->
    documented (s_cfg s) (built_view (sign_encrypt i m a) i a (s_keys s)) = true ->
    i_acs i = default_acs -> s_acs s = default_acs ->
    first_conv default_acs (name_form i) = Some cv ->
    Forall (fun kv => In (lower (fst kv)) (table_keys cv)) (g_identity a) ->
    exists locals, Forall2 (reported_as cv default_acs) (g_identity a) locals /\
      (NoDup locals ->
       roundtrip i m s a =
         Ok {| v_name_id := Some (g_name_id a);
               v_ava := combine locals (map (fun kv => plain_values (snd kv)) (g_identity a));
               v_irt := Some (g_irt a);
               v_issuer := i_entity_id i;
               v_authn := read_authn (build_payload i a);
               v_nooa := match g_session_nooa a with Some sn => sn | None => i_now i + lifetime i end;
               v_came_from := expected_cf (s_cfg s) a |}).
Proof.
  intros i m s a cv H D Hi Hs Hc Hk. destruct (C08_shipped_tables _ _ Hc) as [Hl He].
  rewrite <- Hs. apply roundtrip_table; try assumption.
  - now rewrite <- (documented_built i m s a H).
  - now rewrite Hi.
  - now rewrite Hs.
  - now rewrite Hs.
Qed.
Print Assumptions C08_roundtrip_shipped.

(* ---- a concrete setting (non-vacuity), and the record of the repaired defects ---- *)
Definition w_idp : idp :=
  {| i_entity_id := L "https://idp.example.org/idp"; i_acs := default_acs;
     i_name_form := {| l_any := true; l_sp := None; l_default := Some (Some NAME_FORMAT_URI) |};
     i_lifetime := {| l_any := true; l_sp := None; l_default := Some (Some 900) |};
     i_sign_response := None; i_sign_assertion := None; i_encrypt_assertion := None; i_key := 7%N; i_now := 1790000000 |}.
Definition w_cfg (b1 b2 b3 : bool) : cfg :=
  {| entity_id := L "https://sp.example.org/sp"; return_addrs := Some [L "https://sp.example.org/acs/post"];
     wrs := b1; was := b2; waors := b3; allow_unsolicited := false; dest_regex_set := false; dest_regex_match := false;
     slack := 0; now := 1790000030; asynch := true; outstanding := [(L "req-1", L "/came-from")]; conv_info := None; test_mode := false |}.
Definition w_sp (b1 b2 b3 : bool) (certs : list N) : sp :=
  {| s_cfg := w_cfg b1 b2 b3;
     s_keys := {| k_md := generated_idp_md (L "https://idp.example.org/idp") 7%N; k_only_md := true; k_dec := certs |};
     s_acs := default_acs; s_allow_unknown := false |}.
Definition w_args (sr sa ea : bool) : args :=
  {| g_identity := [(L "givenName", [L " Anna <b>&amp; "; L "</saml:AttributeValue><saml:AttributeValue>admin"]);
                    (L "SN", [L "x"""" y"]); (L "gn", []) ; (L "unknown-name", [L "dropped"])];
     g_name_id := {| n_text := L "sub<j>&ect"; n_format := Some NAMEID_FORMAT_PERSISTENT; n_spq := Some (L "https://sp.example.org/sp"); n_nq := None |};
     g_class_ref := Some (L "urn:oasis:names:tc:SAML:2.0:ac:classes:Password"); g_authn_auth := Some (L "https://aa.example.org/?a=1&b=2");
     g_authn_instant := None; g_irt := L "req-1"; g_destination := L "https://sp.example.org/acs/post"; g_sp := L "https://sp.example.org/sp";
     g_sign_response := Some sr; g_sign_assertion := Some sa; g_encrypt_assertion := Some ea; g_encrypt_cert := None;
     g_self_contained := true; g_session_nooa := None |}.

Lemma w_setting b1 b2 b3 certs sr sa ea : setting w_idp {| m_enc_certs := certs |} (w_sp b1 b2 b3 certs) (w_args sr sa ea).
Proof.
  constructor.
  - reflexivity.
  - vm_compute. reflexivity.
  - vm_compute. reflexivity.
  - reflexivity.
  - intros c. unfold sign_encrypt, enc_cert. cbn [w_enc eff w_args g_encrypt_assertion g_encrypt_cert i_encrypt_assertion m_enc_certs].
    destruct ea; [|discriminate]. destruct certs as [|c0 r]; [discriminate|].
    intros E. injection E as <-. cbn [w_sp s_keys k_dec memN existsb]. now rewrite N.eqb_refl.
  - discriminate.
  - reflexivity.
  - intros _. exists [L "https://sp.example.org/acs/post"]. split; vm_compute; reflexivity.
  - reflexivity.
  - reflexivity.
  - intros _ _. exists (L "/came-from"). vm_compute. reflexivity.
  - vm_compute. reflexivity.
  - unfold build_fails, sign_encrypt, enc_cert. cbn [w_enc eff w_args g_encrypt_assertion g_encrypt_cert i_encrypt_assertion m_enc_certs g_self_contained].
    destruct ea, certs; reflexivity.
  - cbn. lia.
  - vm_compute. discriminate.
  - vm_compute. reflexivity.
  - vm_compute. discriminate.
  - vm_compute. discriminate.
  - vm_compute. discriminate.
  - intros sn E. discriminate.
Qed.
Print Assumptions w_setting.

(* every sign x sign x encrypt setting that meets the requirements, with and without an SP
   encryption certificate, arrives; the attributes are read under the documented names
   (gn is an alias of givenName: merged), trimmed, markup inside values untouched *)
Example C08_witness :
  forallb (fun b1 => forallb (fun b2 => forallb (fun b3 => forallb (fun sr => forallb (fun sa => forallb (fun ea => forallb (fun certs =>
    implb (implb b1 sr && implb b2 sa && implb b3 (sr || sa))
      (val_eqb (show_roundtrip (roundtrip w_idp {| m_enc_certs := certs |} (w_sp b1 b2 b3 certs) (w_args sr sa ea)))
               (show_view {| v_name_id := Some (g_name_id (w_args sr sa ea));
                             v_ava := [(L "givenName", [RStr (L "Anna <b>&amp;"); RStr (L "</saml:AttributeValue><saml:AttributeValue>admin")]);
                                       (L "sn", [RStr (L "x"""" y")])];
                             v_irt := Some (L "req-1"); v_issuer := L "https://idp.example.org/idp";
                             v_authn := [(L "urn:oasis:names:tc:SAML:2.0:ac:classes:Password", [L "https://aa.example.org/?a=1&b=2"], 1790000000)];
                             v_nooa := 1790000900; v_came_from := Some (L "/came-from") |})))
    [[]; [21%N]; [22%N; 21%N]]) [false; true]) [false; true]) [false; true]) [false; true]) [false; true]) [false; true] = true.
Proof. vm_compute. reflexivity. Qed.
Print Assumptions C08_witness.

(* before the repair proposed_fix/C08-1 (server.py _authn_response): asked to sign AND encrypt
   the assertion for an SP whose metadata has no encryption certificate, the IdP sent the
   assertion in the clear and UNSIGNED - an SP that wants signed assertions refused it although
   the caller had asked for exactly what the SP requires *)
Theorem C08_roundtrip_before_fix_refuted :
  exists i m s a, setting i m s a /\
    requirements_met (s_cfg s) (sign_encrypt i m a) = true /\
    is_ok (roundtrip_before_fix i m s a) = false /\ is_ok (roundtrip i m s a) = true.
Proof.
  exists w_idp, {| m_enc_certs := [] |}, (w_sp false true false []), (w_args false true true).
  split; [apply w_setting|]. vm_compute. repeat split; reflexivity.
Qed.
Print Assumptions C08_roundtrip_before_fix_refuted.

(* ---- the two attribute-conversion defects repaired by proposed_fix/C08-2 and C08-3 ---- *)
Definition NF_UNSPEC_POLICY : layered str := {| l_any := true; l_sp := None; l_default := Some (Some NAME_FORMAT_UNSPECIFIED) |}.
Definition w_idp_unspecified : idp :=
  {| i_entity_id := i_entity_id w_idp; i_acs := default_acs; i_name_form := NF_UNSPEC_POLICY; i_lifetime := i_lifetime w_idp;
     i_sign_response := None; i_sign_assertion := None; i_encrypt_assertion := None; i_key := 7%N; i_now := i_now w_idp |}.
Definition w_args_ident (ident : identity) : args :=
  let a := w_args true false false in
  {| g_identity := ident; g_name_id := g_name_id a; g_class_ref := g_class_ref a; g_authn_auth := g_authn_auth a;
     g_authn_instant := None; g_irt := g_irt a; g_destination := g_destination a; g_sp := g_sp a;
     g_sign_response := Some true; g_sign_assertion := Some false; g_encrypt_assertion := Some false; g_encrypt_cert := None;
     g_self_contained := true; g_session_nooa := None |}.
Definition ID_ADFS : identity := [(L "emailAddress", [L "a@b"]); (L "UPN", [L " u "]); (L "commonName", [L "cn"]); (L "group", [L "g1"; L "g2"])].
Definition ID_EPTID : identity := [(L "eduPersonTargetedID", [L "abc"; []; L " x "; L "  "]); (L "mail", [[]])].

(* after the repairs, end to end: with name_form unspecified the four names of the map the IdP converts
   with all arrive (two maps share that identifier; the SP now asks both), and eduPersonTargetedID
   values arrive as the trimmed strings asserted, the empty one as the empty string *)
Example C08_witness_repaired :
  val_eqb (show_ava (match roundtrip w_idp_unspecified {| m_enc_certs := [] |} (w_sp true false false []) (w_args_ident ID_ADFS) with
                     | Ok v => v_ava v | Err _ => [] end))
          (show_ava [(L "emailAddress", [RStr (L "a@b")]); (L "upn", [RStr (L "u")]); (L "commonName", [RStr (L "cn")]);
                     (L "group", [RStr (L "g1"); RStr (L "g2")])]) = true /\
  val_eqb (show_ava (match roundtrip w_idp {| m_enc_certs := [] |} (w_sp true false false []) (w_args_ident ID_EPTID) with
                     | Ok v => v_ava v | Err _ => [] end))
          (show_ava [(L "eduPersonTargetedID", [RStr (L "abc"); RStr []; RStr (L "x"); RStr []]); (L "mail", [RStr []])]) = true.
Proof. vm_compute. split; reflexivity. Qed.
Print Assumptions C08_witness_repaired.

(* before proposed_fix/C08-2 (attribute_converter.list_to_local kept only the LAST converter of a name
   format while from_local converts with the FIRST): an identity over the names of the map the IdP
   converts with under name_form unspecified - no unknown key, pairwise different names - was sent
   and silently not delivered: the statement of C08_attributes_exact / C08_name_tables failed *)
Theorem C08_name_lost_before_fix_refuted :
  exists cv ident locals,
    first_conv default_acs NAME_FORMAT_UNSPECIFIED = Some cv /\
    Forall (fun kv => In (lower (fst kv)) (table_keys cv)) ident /\
    map (fun kv => sp_name cv default_acs (fst kv)) ident = map Some locals /\ NoDup locals /\
    list_to_local default_acs false (map (to_attr cv) ident) = combine locals (map (fun kv => plain_values (snd kv)) ident) /\
    list_to_local_before_fix default_acs false (map (to_attr cv) ident) = [].
Proof.
  exists (from_dict (L "urn:oasis:names:tc:SAML:2.0:attrname-format:unspecified", map_adfs_v1x_to, map_adfs_v1x_fro)),
         [(L "emailAddress", [L "a@b"]); (L "UPN", [L " u "])], [L "emailAddress"; L "upn"].
  split; [vm_compute; reflexivity|]. split; [repeat constructor; vm_compute; tauto|].
  split; [vm_compute; reflexivity|]. split.
  - repeat constructor; cbn [In]; [intros [E|[]]; vm_compute in E; discriminate|intros []].
  - split; vm_compute; reflexivity.
Qed.
Print Assumptions C08_name_lost_before_fix_refuted.

(* before proposed_fix/C08-3 (ava_from returned the NameID text only when it was non-empty): an empty
   eduPersonTargetedID value was read back as the dictionary {NameID: {format: persistent}} *)
Theorem C08_eptid_empty_before_fix_refuted :
  exists cv ident locals,
    first_conv default_acs NAME_FORMAT_URI = Some cv /\
    map (fun kv => sp_name cv default_acs (fst kv)) ident = map Some locals /\ NoDup locals /\
    Forall (fun kv => eptid_named cv default_acs (fst kv) = true) ident /\
    list_to_local default_acs false (map (to_attr cv) ident) = combine locals (map (fun kv => plain_values (snd kv)) ident) /\
    list_to_local_before_fix default_acs false (map (to_attr cv) ident) =
      [(L "eduPersonTargetedID", [RStr (L "abc"); RNameID (Some NAMEID_FORMAT_PERSISTENT) None])].
Proof.
  destruct (first_conv default_acs NAME_FORMAT_URI) as [cv|] eqn:E; [|vm_compute in E; discriminate].
  exists cv, [(L "eduPersonTargetedID", [L "abc"; []])], [L "eduPersonTargetedID"].
  split; [reflexivity|].
  assert (cv = match first_conv default_acs NAME_FORMAT_URI with Some c => c | None => cv end) as -> by now rewrite E.
  split; [vm_compute; reflexivity|]. split; [repeat constructor; intros []|].
  split; [repeat constructor|]. split; vm_compute; reflexivity.
Qed.
Print Assumptions C08_eptid_empty_before_fix_refuted.

(* the message really is text: the attribute statement of the witness, serialised and read back *)
Example C08_witness_text :
  let attrs := p_attributes (build_payload w_idp (w_args true true false)) in
  option_map attrs_of_statement_xml (xml_parse (serialise (attr_statement_xml attrs))) = Some attrs /\
  legal_attributes attrs = true /\
  has_sub (L "<saml:AttributeValue>admin") (serialise (attr_statement_xml attrs)) = false /\
  has_sub (L "&lt;saml:AttributeValue&gt;admin") (serialise (attr_statement_xml attrs)) = true.
Proof. vm_compute. repeat split; reflexivity. Qed.
Print Assumptions C08_witness_text.
