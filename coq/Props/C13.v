(* Props/C13.v — schema validation rejects every structurally invalid message and
   accepts every message that satisfies the declared constraints.
   Only statements, `exact` proofs and Print Assumptions.

   Model (Model/Validate.v, following validate.py with the repairs C13-1..3):
     valid_instance prim keys S NIL M.. i   = validate.valid_instance(obj)
     verify         prim keys S NIL M.. i   = obj.verify()   (the five overrides included)
   over an instance tree i : inst (class, attribute members, text, (member, child) list,
   extension attributes, extension elements), a schema S (table rows), the VALIDATOR key
   list keys and the primitive lexical validators prim : key -> value -> bool.

   Vocabulary (Proofs/Validate_lemmas.v):
     reach S i j         j is i or a descendant of i through declared child members (any depth)
     violated .. j       node j breaks one declared constraint of its own class row:
                           - attr_bad : a required attribute is missing or empty, or a non-empty
                             attribute has a declared type (type name resolved by valid() / value
                             type class: enumeration, string, list, other base) whose test refuses it
                           - text_bad : the class has a c_value_type and its stripped non-empty
                             text is refused by it
                           - card_bad : the number of children under a declared member is outside
                             the c_cardinality entry (0 with min > 0; n > 0 with n < min or n > max)
     good .. i           every node of i: every attribute good (required present; typed value
                           accepted by a RESOLVING type), text good, every child count inside its
                           bounds, the verify() override's own condition does not fail
     plain_av S          classes whose verify() is AttributeValueBase's declare no attributes /
                           children (they return early when there is no text)
     has_violation / goodb   the executable forms of `exists j, reach /\ violated` and `good` *)
From PV Require Import Lib.Base Model.Schema Model.Validate Gen.SchemaTables
  Proofs.Schema_lemmas Proofs.Validate_lemmas Proofs.Validate_table Proofs.Validate_anchor
  Model.Duration Proofs.Duration_lemmas Model.ValidateDeep Proofs.ValidateDeep_lemmas.
Open Scope N_scope.

(* ---------------------------------------------------------------- rejection *)
(* For EVERY schema, validator-key list, primitive validators and instance tree: if some
   sub-instance reachable at any depth violates one declared constraint, both
   valid_instance(root) and root.verify() raise. *)
Theorem C13_rejects :
  forall prim keys S NIL M1 M2 M3 M4 M5 M6 M7 M8 M9 M10 M11 i j,
    plain_av S -> reach S i j -> violated prim keys S j ->
    (exists e, valid_instance prim keys S NIL M1 M2 M3 M4 M5 M6 M7 M8 M9 M10 M11 i = Err e) /\
    (exists e, verify prim keys S NIL M1 M2 M3 M4 M5 M6 M7 M8 M9 M10 M11 i = Err e).
Proof. exact rejects_both. Qed.
Print Assumptions C13_rejects.

(* ... in particular over the tables regenerated from the working tree (plain_av is
   kernel-evaluated on them), for every primitive-validator function *)
Theorem C13_rejects_actual :
  forall prim NIL M1 M2 M3 M4 M5 M6 M7 M8 M9 M10 M11 i j,
    reach actual_schema i j -> violated prim validator_keys actual_schema j ->
    (exists e, valid_instance prim validator_keys actual_schema NIL M1 M2 M3 M4 M5 M6 M7 M8 M9 M10 M11 i = Err e) /\
    (exists e, verify prim validator_keys actual_schema NIL M1 M2 M3 M4 M5 M6 M7 M8 M9 M10 M11 i = Err e).
Proof.
  intros prim NIL M1 M2 M3 M4 M5 M6 M7 M8 M9 M10 M11 i j.
  exact (rejects_both prim validator_keys actual_schema NIL M1 M2 M3 M4 M5 M6 M7 M8 M9 M10 M11 i j actual_plain_av).
Qed.
Print Assumptions C13_rejects_actual.

(* the same through the executable predicate (what the harness evaluates per case) *)
Theorem C13_rejects_decided :
  forall prim keys S NIL M1 M2 M3 M4 M5 M6 M7 M8 M9 M10 M11 i,
    plain_av S -> has_violation prim keys S i = true ->
    (exists e, valid_instance prim keys S NIL M1 M2 M3 M4 M5 M6 M7 M8 M9 M10 M11 i = Err e) /\
    (exists e, verify prim keys S NIL M1 M2 M3 M4 M5 M6 M7 M8 M9 M10 M11 i = Err e).
Proof. exact rejects_decided. Qed.
Print Assumptions C13_rejects_decided.

Theorem C13_has_violation_sound :
  forall prim keys S i, has_violation prim keys S i = true -> exists j, reach S i j /\ violated prim keys S j.
Proof. exact has_violation_sound. Qed.
Print Assumptions C13_has_violation_sound.

(* ---------------------------------------------------------------- acceptance *)
(* A message all of whose nodes satisfy their declared constraints (types resolving, override
   side-conditions holding) is not rejected: valid_instance and verify both succeed. *)
Theorem C13_accepts :
  forall prim keys S NIL M1 M2 M3 M4 M5 M6 M7 M8 M9 M10 M11 i,
    good prim keys S NIL M1 M2 M3 M4 M5 M6 M7 M8 M9 M10 M11 i ->
    verify prim keys S NIL M1 M2 M3 M4 M5 M6 M7 M8 M9 M10 M11 i = ok /\
    valid_instance prim keys S NIL M1 M2 M3 M4 M5 M6 M7 M8 M9 M10 M11 i = ok.
Proof. exact accepts. Qed.
Print Assumptions C13_accepts.

Theorem C13_accepts_decided :
  forall prim keys S NIL M1 M2 M3 M4 M5 M6 M7 M8 M9 M10 M11 i,
    goodb prim keys S NIL M1 M2 M3 M4 M5 M6 M7 M8 M9 M10 M11 i = true ->
    verify prim keys S NIL M1 M2 M3 M4 M5 M6 M7 M8 M9 M10 M11 i = ok /\
    valid_instance prim keys S NIL M1 M2 M3 M4 M5 M6 M7 M8 M9 M10 M11 i = ok.
Proof. exact accepts_decided. Qed.
Print Assumptions C13_accepts_decided.

(* the two sides of the statement never overlap *)
Theorem C13_sides_exclusive :
  forall prim keys S NIL M1 M2 M3 M4 M5 M6 M7 M8 M9 M10 M11 i,
    plain_av S -> has_violation prim keys S i = true ->
    goodb prim keys S NIL M1 M2 M3 M4 M5 M6 M7 M8 M9 M10 M11 i = false.
Proof. exact spec_exclusive. Qed.
Print Assumptions C13_sides_exclusive.

(* ------------------------------------------- the regenerated tables, ALL rows *)
(* every declared attribute type of every class resolves: a type name (or no type) to a
   VALIDATOR key - the key of that very type, up to case, when its local name is an XSD
   built-in type (dateTime, boolean, the integer kinds, duration, ...), the key string for a
   name no XSD built-in carries; a value-type class to an existing row *)
Theorem C13_types_resolve :
  forall r a, In r actual_schema -> In a (k_attrs r) ->
    match a_type a with
    | TN t => type_resolves validator_keys t = true
    | TNone => type_resolves validator_keys [] = true
    | TC c => exists rt, find_row actual_schema c = Some rt
    end.
Proof. exact types_resolve. Qed.
Print Assumptions C13_types_resolve.

Theorem C13_type_resolves_meaning :
  forall keys t, type_resolves keys t = true ->
    exists k, resolve keys t = Some k /\
      (mem_str (lower_ascii (local_name t)) XSD_BUILTIN = true -> lower_ascii k = lower_ascii (local_name t)) /\
      (mem_str (lower_ascii (local_name t)) XSD_BUILTIN = false -> k = T_STRING).
Proof. exact type_resolves_spec. Qed.
Print Assumptions C13_type_resolves_meaning.

(* and for EVERY type name whatsoever (not only the declared ones) valid() selects some
   validator: it answers or raises NotValid, never KeyError / AttributeError *)
Theorem C13_valid_never_keyerror :
  forall prim t v, valid prim validator_keys t v = ok \/ valid prim validator_keys t v = Err NOT_VALID.
Proof. intros prim t v. exact (valid_no_keyerror prim validator_keys t v string_key). Qed.
Print Assumptions C13_valid_never_keyerror.

(* the same for the base / list member of every c_value_type without enumeration *)
Theorem C13_value_types_resolve :
  forall r vt, In r actual_schema -> k_vtype r = Some vt -> v_maxlen vt = None -> v_enum vt = None ->
    str_eqb (v_base vt) T_STRING = true \/
    (str_eqb (v_base vt) T_LIST = true /\ exists m, v_member vt = Some m /\ type_resolves validator_keys m = true) \/
    type_resolves validator_keys (v_base vt) = true.
Proof. exact value_types_resolve. Qed.
Print Assumptions C13_value_types_resolve.

(* every enumeration any class declares is enforced, whatever its base: membership alone
   decides what validate_value_type answers *)
Theorem C13_enumerations_enforced :
  forall r vt en, In r actual_schema -> k_vtype r = Some vt -> v_enum vt = Some en ->
    forall prim keys v, validate_value_type prim keys v vt = if mem_str v en then ok else Err NOT_VALID.
Proof. exact enumerations_enforced. Qed.
Print Assumptions C13_enumerations_enforced.

(* hence on these tables the resolution premise inside `violated` is always met: a non-empty
   attribute value that the validator its declared type name selects refuses, or that is
   outside the enumeration of its value-type class, IS a violation *)
Theorem C13_no_typed_value_escapes :
  forall prim r a t c0 v',
    In r actual_schema -> In a (k_attrs r) -> a_type a = TN t ->
    (forall k, resolve validator_keys t = Some k -> prim k (c0 :: v') = false) ->
    typed_bad prim validator_keys actual_schema a (c0 :: v').
Proof. exact typed_attr_bad_actual. Qed.
Print Assumptions C13_no_typed_value_escapes.

Theorem C13_no_enumerated_value_escapes :
  forall prim r a c rt vt en v,
    In r actual_schema -> In a (k_attrs r) -> a_type a = TC c -> find_row actual_schema c = Some rt ->
    k_vtype rt = Some vt -> v_enum vt = Some en -> mem_str v en = false ->
    typed_bad prim validator_keys actual_schema a v.
Proof. exact enum_attr_bad_actual. Qed.
Print Assumptions C13_no_enumerated_value_escapes.

(* the classes overriding verify() are the five modelled ones, and the early return of
   AttributeValueBase.verify skips nothing (plain_av) *)
Theorem C13_overrides_known : unknown_overrides actual_schema = [].
Proof. exact overrides_known. Qed.
Print Assumptions C13_overrides_known.

Theorem C13_attribute_value_rows_plain : plain_av actual_schema.
Proof. exact actual_plain_av. Qed.
Print Assumptions C13_attribute_value_rows_plain.

(* ------------------------------------------------------------ no general escape hatch *)
(* xsi:nil is AttributeValueBase.verify()'s business only.  For EVERY schema, primitive validators and
   instance tree, and EVERY rewriting g of the extension-attribute dictionaries (add xsi:nil = true / 1,
   drop it, replace everything) applied at every node whose class does not run AttributeValueBase.verify():
   valid_instance and verify give the very same verdict - so an element that is refused stays refused
   whatever extension attributes it, its ancestors or its descendants carry. *)
Theorem C13_no_escape_hatch :
  forall prim keys S NIL M1 M2 M3 M4 M5 M6 M7 M8 M9 M10 M11 g i,
    valid_instance prim keys S NIL M1 M2 M3 M4 M5 M6 M7 M8 M9 M10 M11 (rewrite_xattrs S g i) =
      valid_instance prim keys S NIL M1 M2 M3 M4 M5 M6 M7 M8 M9 M10 M11 i /\
    verify prim keys S NIL M1 M2 M3 M4 M5 M6 M7 M8 M9 M10 M11 (rewrite_xattrs S g i) =
      verify prim keys S NIL M1 M2 M3 M4 M5 M6 M7 M8 M9 M10 M11 i.
Proof.
  intros. split; [apply valid_instance_rewrite_xattrs|apply verify_rewrite_xattrs].
Qed.
Print Assumptions C13_no_escape_hatch.

(* the root of valid_instance: its extension attributes are not looked at, whatever its class *)
Theorem C13_root_extension_attributes_ignored :
  forall prim keys S NIL M1 M2 M3 M4 M5 M6 M7 M8 M9 M10 M11 c a t K xa xa' xe,
    valid_instance prim keys S NIL M1 M2 M3 M4 M5 M6 M7 M8 M9 M10 M11 (I c a t K xa xe) =
    valid_instance prim keys S NIL M1 M2 M3 M4 M5 M6 M7 M8 M9 M10 M11 (I c a t K xa' xe).
Proof. intros. reflexivity. Qed.
Print Assumptions C13_root_extension_attributes_ignored.

(* non-vacuity: on today's tables a class outside the AttributeValue family exists and g is applied to it *)
Example C13_no_escape_hatch_applies :
  exists c, av_class actual_schema c = false /\ find_row actual_schema c <> None /\
    rewrite_xattrs actual_schema (fun _ _ => [(7, s2l "true")]) (I c [] None [] [] []) = I c [] None [] [(7, s2l "true")] [].
Proof. exists 0. vm_compute. repeat split; discriminate. Qed.
Print Assumptions C13_no_escape_hatch_applies.

(* ------------------------------------------------------------ lexical tests look at the whole value *)
(* the Gallina validators are anchored at both ends: junk after or before an accepted boolean is refused; an
   accepted integer is, between the blanks int() strips, one optional sign and digits / single underscores
   only; a name token holds no white space (line breaks included) at any place.  duration: see the end of the file;
   dateTime is a parameter of the model (sample table compared with the real functions). *)
Theorem C13_boolean_anchored :
  forall v j, prim_boolean v = true -> j <> [] -> prim_boolean (v ++ j) = false /\ prim_boolean (j ++ v) = false.
Proof. exact boolean_anchored. Qed.
Print Assumptions C13_boolean_anchored.

Theorem C13_integer_whole_value :
  forall r v, prim_int r v = true ->
    exists sg body, strip v = sg ++ body /\ (sg = [] \/ sg = [45] \/ sg = [43]) /\ forallb int_body_char body = true /\ body <> [].
Proof. exact prim_int_whole. Qed.
Print Assumptions C13_integer_whole_value.

Theorem C13_integer_junk_refused :
  forall a c b acc pd, int_body_char c = false -> digits_us (a ++ c :: b) acc pd = None.
Proof. exact digits_us_junk. Qed.
Print Assumptions C13_integer_junk_refused.

Theorem C13_nmtoken_whole_value :
  forall v, prim_nmtoken v = true -> v <> [] /\ forallb (fun c => negb (xml_ws c)) v = true.
Proof. exact nmtoken_whole. Qed.
Print Assumptions C13_nmtoken_whole_value.

(* ------------------------------------------------------------ non-vacuity *)
(* c13_ex_valid: a samlp.Response (assertion with subject confirmation, conditions, authn
   statement with SubjectLocality, attribute statement) and an md.EntityDescriptor, read back
   from real objects: they satisfy `good` (so C13_accepts applies) ... *)
Example C13_example_valid : c13_ex_valid <> [] /\ forallb ex_goodb c13_ex_valid = true.
Proof. exact examples_valid_good. Qed.
Print Assumptions C13_example_valid.

(* ... c13_ex_violated: the same two messages with one constraint broken 1 to 3 levels below
   the root (required attribute missing / empty, too few / too many children, boolean,
   integer-kind and enumerated values): each has a reachable violated node that is not
   the root (so C13_rejects applies through the recursion) *)
Example C13_example_violated :
  c13_ex_violated <> [] /\ forallb (fun i => ex_has_violation i && depth_ge2 i) c13_ex_violated = true.
Proof. exact examples_violated. Qed.
Print Assumptions C13_example_violated.

Example C13_example_outcomes :
  forallb (fun i => is_ok (ex_valid_instance i)) c13_ex_valid = true /\
  forallb (fun i => negb (is_ok (ex_valid_instance i))) c13_ex_violated = true.
Proof. exact examples_outcomes. Qed.
Print Assumptions C13_example_outcomes.

(* ---------------------------------------------- history: before the repairs *)
(* FULL STATEMENTS that failed for the code as it was (kept visible):
     C13_types_resolve          - 135 (class, attribute) pairs and 5 value types declared a type
                                  name valid() could not resolve: a VALID value raised KeyError;
     C13_enumerations_enforced  - 36 enumerations over a base other than the literal string were
                                  never tested (12 accepted any value, 24 raised KeyError);
     SubjectLocality DNSName    - valid_domain_name matched no host name at all.
   The witnesses below are about the *_before_fix definitions and a literal key list. *)
Theorem C13_types_before_fix_refuted :
  exists typs v, typs <> [] /\
    forallb (fun typ => match valid_before_fix hist_prim KEYS_BEFORE_FIX typ v with Err e => str_eqb e KEY_ERROR | Ok _ => false end) typs = true /\
    forallb (fun typ => is_ok (valid hist_prim validator_keys typ v)) typs = true.
Proof. exact valid_before_fix_refuted. Qed.
Print Assumptions C13_types_before_fix_refuted.

Theorem C13_repaired_types_still_check :
  valid_before_fix hist_prim KEYS_BEFORE_FIX (s2l "positiveInteger") (s2l "0") = Err KEY_ERROR /\
  valid hist_prim validator_keys (s2l "positiveInteger") (s2l "0") = Err NOT_VALID /\
  valid hist_prim validator_keys (s2l "unsignedByte") (s2l "256") = Err NOT_VALID /\
  valid hist_prim validator_keys (s2l "NMTOKEN") (s2l "a b") = Err NOT_VALID.
Proof. exact invalid_before_fix_keyerror. Qed.
Print Assumptions C13_repaired_types_still_check.

Theorem C13_enumerations_before_fix_refuted :
  (exists vt en v, v_enum vt = Some en /\ mem_str v en = false /\
     validate_value_type_before_fix hist_prim KEYS_BEFORE_FIX v vt = ok /\
     validate_value_type hist_prim validator_keys v vt = Err NOT_VALID) /\
  (exists vt en v, v_enum vt = Some en /\ mem_str v en = true /\
     validate_value_type_before_fix hist_prim KEYS_BEFORE_FIX v vt = Err KEY_ERROR /\
     validate_value_type hist_prim validator_keys v vt = ok).
Proof. exact enum_before_fix_refuted. Qed.
Print Assumptions C13_enumerations_before_fix_refuted.

Theorem C13_domain_name_before_fix_refuted :
  forallb (fun h => negb (prim_domain_before_fix h)) HOSTS = true /\ prim_domain_before_fix (s2l "a.{ 1 }b.com") = true.
Proof. exact domain_before_fix_refuted. Qed.
Print Assumptions C13_domain_name_before_fix_refuted.

Theorem C13_domain_name_repaired :
  forallb prim_domain HOSTS = true /\ forallb (fun h => negb (prim_domain h)) NOT_HOSTS = true.
Proof. exact domain_after_fix. Qed.
Print Assumptions C13_domain_name_repaired.

(* ------------------------------------------------------------ duration: time_util.parse_duration, line by line *)
(* Model/Duration.v follows parse_duration with the repair proposed_fix/C13-4 (valid_duration = it does not raise).
     shape isint islast fmt r   r is made of items of the format list fmt, in its order (Y M D T H M S for D_FORMAT):
                                an absent item is skipped; an item is a number accepted by isint followed by its
                                designator, with more items behind it; the LAST item is a number accepted by islast
                                and its designator, and nothing after it; T is followed by items of the time part
     num_int v                  v is [0-9]+
     num_last v                 v is [0-9]+ or [0-9]+ mark [0-9]+, the mark . or ,
     duration_shape s           s = -? P r  with  shape num_int num_last D_FORMAT r
   An accepted value is of that shape AS A WHOLE, and every value of the shape is accepted. *)
Theorem C13_duration_whole_value :
  forall s, is_ok (parse_duration s) = true <-> duration_shape s.
Proof. exact duration_iff. Qed.
Print Assumptions C13_duration_whole_value.

(* with the sign and P at their places; the same statement holds for ANY pair of number readers (python int() /
   float() included): the loop itself cannot accept anything but items in the order of the format list *)
Theorem C13_duration_whole_value_any_numbers :
  forall int_of float_of cut s neg f, parse_with int_of float_of cut true s = Ok (neg, f) ->
    exists r, s = sign_text neg ++ 80 :: r /\ shape (int_ok int_of) (last_ok int_of float_of) D_FORMAT r.
Proof. exact parse_with_sound. Qed.
Print Assumptions C13_duration_whole_value_any_numbers.

(* after the P an accepted value holds digits, . , and Y M D T H S only, and ends with the designator of an item *)
Theorem C13_duration_alphabet :
  forall s neg f, parse_duration s = Ok (neg, f) ->
    exists r, s = sign_text neg ++ 80 :: r /\ forallb dur_char r = true /\ exists r0 c, r = r0 ++ [c] /\ item_code c = true.
Proof. exact duration_alphabet. Qed.
Print Assumptions C13_duration_alphabet.

(* nothing may follow the last designator: an accepted value followed by non-empty junk that holds a character other
   than a digit, a decimal mark or Y M D T H S (a blank, a line break, a letter, a second P ...), or that does not
   end with one of Y M D H S (more digits, a T, a mark), is refused *)
Theorem C13_duration_junk_refused :
  forall s j, is_ok (parse_duration s) = true -> j <> [] ->
    existsb (fun c => negb (dur_char c)) j = true \/ item_code (last j 0) = false ->
    exists e, parse_duration (s ++ j) = Err e.
Proof. exact duration_junk_refused. Qed.
Print Assumptions C13_duration_junk_refused.

(* history.  Before /repo 24b91977 the index was never compared with the length after the loop: *)
Theorem C13_duration_before_fix_refuted :
  is_ok (parse_duration_before_fix (s2l "PT1Hjunk")) = true /\ parse_duration (s2l "PT1Hjunk") = Err D_EXCEPTION /\
  parse_duration_py_numbers (s2l "PT1Hjunk") = Err D_EXCEPTION.
Proof. exact before_fix_refuted. Qed.
Print Assumptions C13_duration_before_fix_refuted.

(* Before C13-4 (parse_duration_py_numbers: /repo at 24b91977) the numbers were whatever int() / float() read - blanks, a
   sign, underscores, exponents, inf, nan, INFINITY with its T and Y: FULL STATEMENT C13_duration_whole_value failed *)
Theorem C13_duration_numbers_before_fix_refuted :
  LIBERAL_NUMBERS <> [] /\ forallb (fun s => is_ok (parse_duration_py_numbers s)) LIBERAL_NUMBERS = true /\
  forallb (fun s => negb (is_ok (parse_duration s))) LIBERAL_NUMBERS = true.
Proof. split; [discriminate|exact numbers_before_fix_refuted]. Qed.
Print Assumptions C13_duration_numbers_before_fix_refuted.

(* ... and the M of the minutes was taken for the month designator: VALID durations (a date part without months, the
   minutes last) were refused - the right-to-left half of C13_duration_whole_value failed *)
Theorem C13_duration_minutes_before_fix_refuted :
  MINUTES_LAST <> [] /\ forallb (fun s => negb (is_ok (parse_duration_py_numbers s))) MINUTES_LAST = true /\
  forallb (fun s => is_ok (parse_duration s)) MINUTES_LAST = true.
Proof. split; [discriminate|exact minutes_before_fix_refuted]. Qed.
Print Assumptions C13_duration_minutes_before_fix_refuted.

(* non-vacuity: a value with all six items and a fraction, its fields, its shape; a blank after it is refused *)
Example C13_duration_example :
  parse_duration (s2l "-P1Y2M3DT4H5M6.50S") =
    Ok (true, F (NInt 1) (NInt 2) (NInt 3) (NInt 4) (NInt 5) (NDec 6 (s2l "50"))) /\
  parse_duration (s2l "P1DT30M") = Ok (false, F (NInt 0) (NInt 0) (NInt 1) (NInt 0) (NInt 30) (NInt 0)) /\
  duration_shape (s2l "-P1Y2M3DT4H5M6.50S") /\
  (exists e, parse_duration (s2l "-P1Y2M3DT4H5M6.50S" ++ s2l " ") = Err e).
Proof. exact duration_example. Qed.
Print Assumptions C13_duration_example.

(* ---------------------------------------------------------------- DEPTH: chains built from a depth number
   Model/ValidateDeep.v: `deep steps n leaf` wraps leaf n times, level j by step (j mod length steps); a step is the
   parent instance with a hole.  child_step S f: f x is an instance of a class of S that holds x under a declared
   child member (step_of c a t before m after xa xe is one as soon as m is a child member of class c:
   step_of_child_step).  The harness hands these very terms to coqc for the 23 cycles of the 16 recursive classes of
   the regenerated tables (StatusCode in StatusCode, Assertion > Advice > Assertion, EntitiesDescriptor in
   EntitiesDescriptor, ...) at 8, 31, 32, 33 and 64 levels. *)
(* for EVERY number n of levels (induction over n): the innermost instance stays reachable ... *)
Theorem C13_deep_reach :
  forall S steps n leaf, Forall (child_step S) steps -> reach S (deep steps n leaf) leaf.
Proof. exact deep_reach. Qed.
Print Assumptions C13_deep_reach.

(* ... so ONE violation at the innermost level - or anywhere below it - of a chain of any depth is refused by
   valid_instance(root) and by root.verify() *)
Theorem C13_rejects_at_any_depth :
  forall prim keys S NIL M1 M2 M3 M4 M5 M6 M7 M8 M9 M10 M11 steps n leaf j,
    plain_av S -> Forall (child_step S) steps -> reach S leaf j -> violated prim keys S j ->
    (exists e, valid_instance prim keys S NIL M1 M2 M3 M4 M5 M6 M7 M8 M9 M10 M11 (deep steps n leaf) = Err e) /\
    (exists e, verify prim keys S NIL M1 M2 M3 M4 M5 M6 M7 M8 M9 M10 M11 (deep steps n leaf) = Err e).
Proof. exact rejects_deep_below. Qed.
Print Assumptions C13_rejects_at_any_depth.

Theorem C13_step_of_is_child_step :
  forall S c a t before m after xa xe r,
    find_row S c = Some r -> In m (child_members r) -> child_step S (step_of c a t before m after xa xe).
Proof. exact step_of_child_step. Qed.
Print Assumptions C13_step_of_is_child_step.

(* the valid twin: steps that keep a good tree good, around a good innermost instance, at any depth: accepted *)
Theorem C13_accepts_at_any_depth :
  forall prim keys S NIL M1 M2 M3 M4 M5 M6 M7 M8 M9 M10 M11 steps n leaf,
    Forall (good_step prim keys S NIL M1 M2 M3 M4 M5 M6 M7 M8 M9 M10 M11) steps ->
    good prim keys S NIL M1 M2 M3 M4 M5 M6 M7 M8 M9 M10 M11 leaf ->
    verify prim keys S NIL M1 M2 M3 M4 M5 M6 M7 M8 M9 M10 M11 (deep steps n leaf) = ok /\
    valid_instance prim keys S NIL M1 M2 M3 M4 M5 M6 M7 M8 M9 M10 M11 (deep steps n leaf) = ok.
Proof. exact accepts_deep. Qed.
Print Assumptions C13_accepts_at_any_depth.

(* repeated SIBLINGS: a list member x under a declared member m, after w - 1 copies of ANY sibling (equal-looking to x
   or not), whatever stands before and after: a violation in or below x is refused - every member is checked *)
Theorem C13_rejects_repeated_sibling :
  forall prim keys S NIL M1 M2 M3 M4 M5 M6 M7 M8 M9 M10 M11 c a t before m sib w x after xa xe r j,
    plain_av S -> find_row S c = Some r -> In m (child_members r) -> reach S x j -> violated prim keys S j ->
    (exists e, valid_instance prim keys S NIL M1 M2 M3 M4 M5 M6 M7 M8 M9 M10 M11 (I c a t (before ++ wide m sib w x ++ after) xa xe) = Err e) /\
    (exists e, verify prim keys S NIL M1 M2 M3 M4 M5 M6 M7 M8 M9 M10 M11 (I c a t (before ++ wide m sib w x ++ after) xa xe) = Err e).
Proof. exact rejects_sibling. Qed.
Print Assumptions C13_rejects_repeated_sibling.

(* non-vacuity: a one-class schema whose class holds itself and requires an attribute: for every n the chain around an
   innermost instance without the attribute is refused; evaluated at 0, 1, 33, 200 levels; the valid twin accepted *)
Example C13_deep_example : forall n,
  (exists e, valid_instance toy_prim [s2l "string"] TOY 0 0 0 0 0 0 0 0 0 0 0 0 (deep [toy_step] n toy_bad) = Err e) /\
  (exists e, verify toy_prim [s2l "string"] TOY 0 0 0 0 0 0 0 0 0 0 0 0 (deep [toy_step] n toy_bad) = Err e).
Proof. exact deep_example_rejected. Qed.
Print Assumptions C13_deep_example.
