(* Props/C13.v — stub while the correspondence is brought up *)
From PV Require Import Lib.Base Model.Schema Model.Validate Gen.SchemaTables.
Open Scope N_scope.
Theorem C13_overrides_known : unknown_overrides actual_schema = [].
Proof. vm_compute. reflexivity. Qed.
Print Assumptions C13_overrides_known.
