(* Props/C09.v — the IdP answers only to endpoints registered for the
   requesting SP.  Only statements, `exact` proofs and Print Assumptions.

   response_args c md r bindings dt  models  Entity.response_args(message,
   bindings, descr_type) of an entity with configuration c and metadata store
   md; its result is Err <exception class>, Ok None (no binding/destination
   keys) or Ok (Some (binding, destination)). *)
From PV Require Import Lib.Base Model.PickBinding Proofs.PickBinding_lemmas Proofs.PickBinding_bindstr.
Open Scope N_scope.

(* (1) For every metadata store, configuration, request, bindings argument and
   descr_type: whatever (binding, destination) is produced is an endpoint that
   the metadata registers for the (stripped) issuer of the request, under the
   role and service response_args consults for that message class — with
   exactly that binding and exactly that location string.  The only other
   answer is the empty destination of the bindings == [SOAP] short-cut (reply
   on the same connection). *)
Theorem C09_destination_registered :
  forall c md r bindings dt b d,
    response_args c md r bindings dt = Ok (Some (b, d)) ->
    (soap_only bindings /\ b = B_SOAP /\ d = []) \/
    (exists s eid, kind_service (rq_kind r) = Some s /\ request_entity r = Ok eid /\
                   registered md eid (kind_role c (rq_kind r) dt) s b d).
Proof. exact (response_args_registered true). Qed.
Print Assumptions C09_destination_registered.

(* (2a) a consumer URL supplied in the request is answered only to itself and
   only when it is string-equal to a location registered for the issuer *)
Theorem C09_url_exact :
  forall c md r bindings dt u b d,
    rq_url r = Has (Some u) -> py_truthy u = true -> ~ soap_only bindings ->
    response_args c md r bindings dt = Ok (Some (b, d)) ->
    d = u /\ exists s eid, kind_service (rq_kind r) = Some s /\ request_entity r = Ok eid /\
                           registered md eid (kind_role c (rq_kind r) dt) s b u.
Proof. exact (response_args_url true). Qed.
Print Assumptions C09_url_exact.

(* (2b) … hence a URL that differs from every registered location (in case, by
   a trailing slash, an extra query, being a prefix or extension of one, being
   another SP's URL — any string inequality) yields an error, never that URL
   nor any other destination *)
Theorem C09_unregistered_url_refused :
  forall c md r bindings dt u s eid,
    rq_url r = Has (Some u) -> py_truthy u = true -> ~ soap_only bindings ->
    kind_service (rq_kind r) = Some s -> request_entity r = Ok eid ->
    (forall b, ~ registered md eid (kind_role c (rq_kind r) dt) s b u) ->
    exists e, response_args c md r bindings dt = Err e.
Proof. exact (response_args_url_unregistered true). Qed.
Print Assumptions C09_unregistered_url_refused.

(* (2c) the other direction: over metadata whose endpoint dicts all carry
   Binding and Location, a URL that is the location of an endpoint which
   MetadataStore.service returns for one of the admitted bindings is honoured *)
Theorem C09_registered_url_honoured :
  forall c md r bindings dt s eid bl u,
    kind_service (rq_kind r) = Some s -> ~ soap_only bindings ->
    request_entity r = Ok eid -> rq_url r = Has (Some u) -> py_truthy u = true ->
    binding_list c s bindings (Some r) = Ok bl -> Forall (fun b => py_truthy b = true) bl ->
    store_complete md eid (kind_role c (rq_kind r) dt) (svc_name s) ->
    (exists b l sv, In b bl /\
        store_service md eid (kind_role c (rq_kind r) dt) (svc_name s) b = Ok (SList l) /\
        In sv l /\ sv_location sv = Some u) ->
    exists b', response_args c md r bindings dt = Ok (Some (b', u)).
Proof. exact (response_args_url_honoured true). Qed.
Print Assumptions C09_registered_url_honoured.

(* (3) no source describes the issuer under the consulted role (in particular:
   the issuer is absent from metadata): an error, no destination; likewise
   when the request has no issuer (text) at all *)
Theorem C09_unknown_requester :
  forall c md r bindings dt s,
    ~ soap_only bindings -> kind_service (rq_kind r) = Some s ->
    (forall eid, request_entity r = Ok eid ->
       forall src e descs, In src md -> In e src -> en_id e = eid ->
                           ~ In (kind_role c (rq_kind r) dt, descs) (en_roles e)) ->
    exists e, response_args c md r bindings dt = Err e.
Proof. exact (response_args_unknown true). Qed.
Print Assumptions C09_unknown_requester.

Theorem C09_absent_requester :
  forall c md r bindings dt s eid,
    ~ soap_only bindings -> kind_service (rq_kind r) = Some s -> request_entity r = Ok eid ->
    ~ entity_known md eid ->
    exists e, response_args c md r bindings dt = Err e.
Proof.
  intros c md r bindings dt s eid Hns Hk He Hno.
  apply (response_args_unknown true c md r bindings dt s Hns Hk).
  intros eid' He' src e descs H1 H2 H3 _. apply Hno. exists src, e.
  repeat split; try assumption. congruence.
Qed.
Print Assumptions C09_absent_requester.

Theorem C09_no_issuer :
  forall c md r bindings dt s e0,
    ~ soap_only bindings -> kind_service (rq_kind r) = Some s -> request_entity r = Err e0 ->
    exists e, response_args c md r bindings dt = Err e.
Proof. exact (response_args_no_issuer true). Qed.
Print Assumptions C09_no_issuer.

(* ------------------------------------------------------------------ *)
(* (4) the index half.  FULL STATEMENT (kept visible):                 *)
(*   an AuthnRequest that names no URL but an AssertionConsumerService  *)
(*   index is answered only to an endpoint carrying that index —        *)
(*   so an unknown index is refused.                                    *)
(* ------------------------------------------------------------------ *)
Definition index_statement (both : bool) : Prop :=
  forall c md r bindings dt i b d,
    rq_kind r = KAuthn -> class_shape r ->
    (rq_url r = Has None \/ rq_url r = Has (Some [])) ->
    rq_index r = Has (Some i) -> py_truthy i = true -> ~ soap_only bindings ->
    response_args_with both c md r bindings dt = Ok (Some (b, d)) ->
    exists eid sv, request_entity r = Ok eid /\
                   registered_sv md eid (s2l "spsso_descriptor") ACS sv /\
                   sv_binding sv = Some b /\ sv_location sv = Some d /\ sv_index sv = Some i.

(* (4) holds for the code as it stands (both attributes read independently,
   fix: 05de9b7d in /repo) *)
Theorem C09_index : index_statement true.
Proof.
  intros c md r bindings dt i b d Hk _ Hu Hi Ht Hns H.
  destruct (response_args_index true c md r bindings dt i b d) as (s & eid & sv & Hs & He & Hreg & Hb & Hl & Hx);
    try assumption.
  - unfold read_url_index. destruct Hu as [-> | ->]; [left|right]; reflexivity.
  - unfold read_url_index. destruct Hu as [-> | ->]; rewrite Hi; reflexivity.
  - rewrite Hk in Hs, Hreg. cbn in Hs. injection Hs as <-. exists eid, sv. repeat split; assumption.
Qed.
Print Assumptions C09_index.

(* the same in terms of response_args itself: an AuthnRequest naming an index
   and no URL is answered only to an endpoint that carries exactly that index;
   if no registered endpoint carries it the request is refused *)
Theorem C09_unknown_index_refused :
  forall c md r bindings dt i,
    rq_kind r = KAuthn -> class_shape r ->
    (rq_url r = Has None \/ rq_url r = Has (Some [])) ->
    rq_index r = Has (Some i) -> py_truthy i = true -> ~ soap_only bindings ->
    (forall eid sv, registered_sv md eid (s2l "spsso_descriptor") ACS sv -> sv_index sv <> Some i) ->
    forall b d, response_args c md r bindings dt <> Ok (Some (b, d)).
Proof.
  intros c md r bindings dt i Hk Hc Hu Hi Ht Hns Hno b d H.
  destruct (C09_index c md r bindings dt i b d Hk Hc Hu Hi Ht Hns H) as (eid & sv & _ & Hreg & _ & _ & Hx).
  exact (Hno eid sv Hreg Hx).
Qed.
Print Assumptions C09_unknown_index_refused.

(* witness: one SP, one POST endpoint with index 0; the request names index 7 *)
Definition w_sp   : str := s2l "https://sp.example.org/sp".
Definition w_acs  : str := s2l "https://sp.example.org/acs/a".
Definition w_sp2  : str := s2l "https://sp2.example.org/sp".
Definition w_acs2 : str := s2l "https://sp2.example.org/acs".
Definition w_md : mdstore := [[mk_sp w_sp [[mk_sv ACS B_POST w_acs (Some (s2l "0")) None]]]].
Definition w_cfg : config := idp_config default_preferred.
Definition w_req (url idx : option str) : request :=
  mk_req KAuthn (Some (Some w_sp)) (Has None) (Has url) (Has idx).

(* BEFORE the repair the code REFUTED the statement: the index was read only
   inside the except-branch of the URL read, an AuthnRequest always has the URL
   attribute, so index 7 — which no endpoint carries — was answered to the
   first endpoint of the preferred binding. *)
Theorem C09_index_before_fix_refuted :
  exists c md r i b d,
    rq_kind r = KAuthn /\ class_shape r /\ rq_url r = Has None /\ rq_index r = Has (Some i) /\
    py_truthy i = true /\
    response_args_before_fix c md r None [] = Ok (Some (b, d)) /\
    (forall eid role s sv, registered_sv md eid role s sv -> sv_index sv <> Some i).
Proof.
  exists w_cfg, w_md, (w_req None (Some (s2l "7"))), (s2l "7"), B_POST, w_acs.
  split; [reflexivity|]. split; [cbn; repeat split; discriminate|].
  split; [reflexivity|]. split; [reflexivity|]. split; [reflexivity|].
  split; [vm_compute; reflexivity|].
  intros eid role s sv (src & e & descs & dd & H1 & H2 & _ & H4 & H5 & H6 & _).
  destruct H1 as [<-|[]]. destruct H2 as [<-|[]]. destruct H4 as [H4|[]].
  injection H4 as _ <-. destruct H5 as [<-|[]]. destruct H6 as [<-|[]].
  vm_compute. discriminate.
Qed.
Print Assumptions C09_index_before_fix_refuted.

(* … for any request object that has the <service>_url attribute (every
   AuthnRequest) the index had no influence whatsoever before the repair *)
Theorem C09_index_ignored_before_fix :
  forall c md r bindings dt i,
    rq_url r <> Missing ->
    response_args_before_fix c md (set_index r i) bindings dt = response_args_before_fix c md r bindings dt.
Proof. exact index_ignored. Qed.
Print Assumptions C09_index_ignored_before_fix.

(* the repair changed nothing else: clause (1) held before it as well *)
Theorem C09_before_fix_destination_registered :
  forall c md r bindings dt b d,
    response_args_before_fix c md r bindings dt = Ok (Some (b, d)) ->
    (soap_only bindings /\ b = B_SOAP /\ d = []) \/
    (exists s eid, kind_service (rq_kind r) = Some s /\ request_entity r = Ok eid /\
                   registered md eid (kind_role c (rq_kind r) dt) s b d).
Proof. exact (response_args_registered false). Qed.
Print Assumptions C09_before_fix_destination_registered.

(* ------------------------------------------------------------------ *)
(* non-vacuity: the hypotheses are met by concrete requests            *)
(* ------------------------------------------------------------------ *)
Definition w_md2 : mdstore :=
  [[mk_sp w_sp [[mk_sv ACS B_POST w_acs (Some (s2l "0")) (Some (s2l "true"));
                 mk_sv ACS B_REDIRECT (s2l "https://sp.example.org/acs/ab") (Some (s2l "1")) None;
                 mk_sv SLO B_POST (s2l "https://sp.example.org/slo") None None]]];
   [mk_sp w_sp2 [[mk_sv ACS B_POST w_acs2 (Some (s2l "0")) None]]]].

Example C09_witness :
  (* a registered URL is honoured, under the binding it is registered for *)
  response_args w_cfg w_md2 (w_req (Some w_acs) None) None [] = Ok (Some (B_POST, w_acs)) /\
  response_args w_cfg w_md2 (w_req (Some (s2l "https://sp.example.org/acs/ab")) None) None []
    = Ok (Some (B_REDIRECT, s2l "https://sp.example.org/acs/ab")) /\
  (* near misses and foreign URLs are refused *)
  forallb (fun u => negb (is_ok (response_args w_cfg w_md2 (w_req (Some u) None) None [])))
    [ s2l "https://sp.example.org/acs/A"; s2l "https://SP.example.org/acs/a";
      s2l "https://sp.example.org/acs/a/"; s2l "https://sp.example.org/acs/a?x=1";
      s2l "https://sp.example.org/acs/"; s2l "https://sp.example.org/acs/abc";
      s2l " https://sp.example.org/acs/a"; w_acs2; s2l "https://evil.example.com/acs" ] = true /\
  (* unknown issuer; logout request with a bindings argument *)
  response_args w_cfg w_md2 (mk_req KAuthn (Some (Some (s2l "https://nobody.example.org/sp"))) (Has None) (Has None) (Has None)) None []
    = Err E_UnknownEnt /\
  response_args w_cfg w_md2 (mk_req KLogout (Some (Some w_sp)) Missing Missing Missing) (Some [B_SOAP; B_POST]) []
    = Ok (Some (B_POST, s2l "https://sp.example.org/slo")) /\
  (* unknown index refused, known index honoured; the defect before the repair on the same input *)
  response_args w_cfg w_md2 (w_req None (Some (s2l "7"))) None [] = Err E_SAML /\
  response_args w_cfg w_md2 (w_req None (Some (s2l "1"))) None []
    = Ok (Some (B_REDIRECT, s2l "https://sp.example.org/acs/ab")) /\
  response_args_before_fix w_cfg w_md2 (w_req None (Some (s2l "7"))) None [] = Ok (Some (B_POST, w_acs)).
Proof. vm_compute. repeat split; reflexivity. Qed.
Print Assumptions C09_witness.

(* ------------------------------------------------------------------ *)
(* (5) binding strings and entity ids that contain each other.  Bindings are
   compared with str_eqb: a binding that properly contains a registered one
   (HTTP-POST-SimpleSign / HTTP-POST, a trailing slash or space) or is properly
   contained in it (the prefix ...:bindings:HTTP) is a DIFFERENT binding. *)
Theorem C09_contained_binding_differs :
  forall x y, contain_each_other x y -> str_eqb x y = false /\ str_eqb y x = false.
Proof. exact contain_each_other_eqb. Qed.
Print Assumptions C09_contained_binding_differs.

(* the answered binding is, as a string, one of the admitted bindings (the
   bindings argument, else [ProtocolBinding], else the configured preference)
   AND (C09_destination_registered) the binding of the registered endpoint *)
Theorem C09_answered_binding_admitted :
  forall c md r bindings dt b d,
    response_args c md r bindings dt = Ok (Some (b, d)) -> ~ soap_only bindings ->
    exists s bl, kind_service (rq_kind r) = Some s /\
                 binding_list c s bindings (Some r) = Ok bl /\ In b bl.
Proof. exact (response_args_admitted true). Qed.
Print Assumptions C09_answered_binding_admitted.

(* the issuer's endpoints are registered only under binding strings different
   from every admitted one: refused, whatever URL or index the request names *)
Theorem C09_no_equal_binding_refused :
  forall c md r bindings dt s eid bl,
    kind_service (rq_kind r) = Some s -> request_entity r = Ok eid -> ~ soap_only bindings ->
    binding_list c s bindings (Some r) = Ok bl ->
    (forall b loc, registered md eid (kind_role c (rq_kind r) dt) s b loc -> ~ In b bl) ->
    exists e, response_args c md r bindings dt = Err e.
Proof. exact (response_args_no_equal_binding true). Qed.
Print Assumptions C09_no_equal_binding_refused.

(* ... in particular when every registered binding contains / is contained in
   every admitted one (endpoint under HTTP-POST-SimpleSign, request names
   HTTP-POST; endpoint under HTTP-POST, request names the prefix ...:HTTP) *)
Theorem C09_contained_binding_refused :
  forall c md r bindings dt s eid bl,
    kind_service (rq_kind r) = Some s -> request_entity r = Ok eid -> ~ soap_only bindings ->
    binding_list c s bindings (Some r) = Ok bl ->
    (forall b loc, registered md eid (kind_role c (rq_kind r) dt) s b loc ->
                   forall x, In x bl -> contain_each_other b x) ->
    exists e, response_args c md r bindings dt = Err e.
Proof. exact (response_args_contained_binding_refused true). Qed.
Print Assumptions C09_contained_binding_refused.

(* the same for entity ids: when the store only knows ids that contain / are
   contained in the stripped issuer (trailing slash, one character less) the
   request is refused *)
Theorem C09_contained_entity_id_refused :
  forall c md r bindings dt s eid,
    ~ soap_only bindings -> kind_service (rq_kind r) = Some s -> request_entity r = Ok eid ->
    (forall src e, In src md -> In e src -> contain_each_other (en_id e) eid) ->
    exists e, response_args c md r bindings dt = Err e.
Proof. exact (response_args_contained_entity_refused true). Qed.
Print Assumptions C09_contained_entity_id_refused.

(* non-vacuity: SP with one endpoint under HTTP-POST-SimpleSign and one under
   HTTP-POST; the longer id (trailing slash) registered in a LATER source *)
Definition B_SS : str := B_POST ++ s2l "-SimpleSign".
Definition w_md3 : mdstore :=
  [[mk_sp w_sp [[mk_sv ACS B_SS w_acs (Some (s2l "0")) None;
                 mk_sv ACS B_POST (s2l "https://sp.example.org/acs/b") (Some (s2l "1")) None]]];
   [mk_sp (w_sp ++ s2l "/") [[mk_sv ACS B_POST (s2l "https://sp.example.org/acs/slash") (Some (s2l "0")) None]]]].
Definition w_reqb (iss : str) (pb url : option str) : request :=
  mk_req KAuthn (Some (Some iss)) (Has pb) (Has url) (Has None).

Example C09_binding_string_witness :
  contain_each_other B_POST B_SS /\ contain_each_other (w_sp ++ s2l "/") w_sp /\
  (* each binding answers with its own endpoint only *)
  response_args w_cfg w_md3 (w_reqb w_sp (Some B_POST) None) None [] = Ok (Some (B_POST, s2l "https://sp.example.org/acs/b")) /\
  response_args w_cfg w_md3 (w_reqb w_sp (Some B_SS) None) None [] = Ok (Some (B_SS, w_acs)) /\
  (* the URL registered under SimpleSign is not answered under HTTP-POST, nor the other way round *)
  response_args w_cfg w_md3 (w_reqb w_sp (Some B_POST) (Some w_acs)) None [] = Err E_SAML /\
  response_args w_cfg w_md3 (w_reqb w_sp (Some B_SS) (Some (s2l "https://sp.example.org/acs/b"))) None [] = Err E_SAML /\
  (* prefix, trailing slash / space, case variants of a registered binding: refused *)
  forallb (fun b => negb (is_ok (response_args w_cfg w_md3 (w_reqb w_sp (Some b) None) None [])))
    [ s2l "urn:oasis:names:tc:SAML:2.0:bindings:HTTP"; B_POST ++ s2l "/"; B_POST ++ s2l " ";
      s2l "urn:oasis:names:tc:saml:2.0:bindings:http-post"; s2l "HTTP-POST"; B_SOAP ++ s2l "-x" ] = true /\
  response_args w_cfg w_md3 (w_reqb w_sp None None) (Some [B_SOAP ++ s2l " "]) [] = Err E_SAML /\
  (* the issuer with the trailing slash gets its own endpoint, the short issuer never that one *)
  response_args w_cfg w_md3 (w_reqb (w_sp ++ s2l "/") None None) None [] = Ok (Some (B_POST, s2l "https://sp.example.org/acs/slash")) /\
  response_args w_cfg w_md3 (w_reqb w_sp None (Some (s2l "https://sp.example.org/acs/slash"))) None [] = Err E_SAML /\
  response_args w_cfg w_md3 (w_reqb (w_sp ++ s2l "/") None (Some w_acs)) None [] = Err E_SAML.
Proof.
  split. { left. apply proper_sub_suffix. discriminate. }
  split. { right. apply proper_sub_suffix. discriminate. }
  vm_compute. repeat split; reflexivity.
Qed.
Print Assumptions C09_binding_string_witness.
