From PV Require Import Lib.Base Model.PickBinding Proofs.PickBinding_lemmas.
Open Scope N_scope.
Example C09_stub : True. Proof. exact I. Qed.
Print Assumptions C09_stub.
