(* Props/C12.v — schema element objects survive serialise / parse without loss *)
From PV Require Import Lib.Base Model.Schema Model.SchemaBeforeFix Gen.SchemaTables Proofs.Schema_lemmas Proofs.Schema_table.
From PV Require Import Model.SchemaDoc Gen.SchemaNames Proofs.SchemaDoc_lemmas Proofs.SchemaNames_table.
Open Scope N_scope.

(* Round trip, for EVERY schema and every instance tree (unbounded depth and list
   cardinalities) whose classes have well-formed rows (wf_inst checks wf_row at every
   node): serialising and parsing back gives the canonical representative norm i of
   the same object, and that object serialises to the very same tree again.
   NIL / TYPE / XMLNS_XS are the interned names xsi:nil, xsi:type, xmlns:xs. *)
Theorem C12_roundtrip :
  forall NIL TYPE XMLNS_XS S i, NIL <> TYPE -> wf_inst NIL TYPE XMLNS_XS S i = true ->
  exists c x, cls_of i = Some c /\ serialise S i = Ok x /\
    parse NIL TYPE XMLNS_XS S c x = Ok (norm S i) /\ serialise S (norm S i) = Ok x.
Proof.
  intros NIL TYPE XM S i Hnt Hwf.
  destruct (roundtrip_parse NIL TYPE XM Hnt S i Hwf) as (c & r & Hc & Hr & Hs & Ht & Hp & Hn).
  exists c, (ser_tot S i). repeat split; try assumption.
  rewrite (norm_serialise NIL TYPE XM Hnt S i Hwf). exact Hs.
Qed.
Print Assumptions C12_roundtrip.

(* norm loses nothing: same class, same value of every declared attribute, the same
   (normalised) children under every declared member, same text, same extension
   attributes and elements - it only puts the association lists into table order *)
Theorem C12_norm_same_object :
  forall NIL TYPE XMLNS_XS S c a t K xa xe r,
  wf_inst NIL TYPE XMLNS_XS S (I c a t K xa xe) = true -> find_row S c = Some r ->
  exists a' K', norm S (I c a t K xa xe) = I c a' t K' xa xe /\
    (forall x, In x (k_attrs r) -> alookup (a_member x) a' = alookup (a_member x) a) /\
    (forall ch, In ch (k_children r) -> kids_of (c_member ch) K' = map (norm S) (kids_of (c_member ch) K)).
Proof. exact norm_same_members. Qed.
Print Assumptions C12_norm_same_object.

(* Children are emitted in the schema's sequence order: the child list of the
   serialised tree is, member by member in c_child_order order, the serialised
   children of that member in list order, followed by the extension elements; the
   attribute list is the known attributes in c_attributes order, then the
   extension attributes. *)
Theorem C12_sequence_order :
  forall NIL TYPE XMLNS_XS S c a t K xa xe r, NIL <> TYPE ->
  wf_inst NIL TYPE XMLNS_XS S (I c a t K xa xe) = true -> find_row S c = Some r ->
  serialise S (I c a t K xa xe)
  = Ok (X (k_qtag r) (known_attrs r a ++ xa) t
          (flat_map (fun m => map (ser_tot S) (kids_of m K)) (order_of r) ++ xe))
  /\ (forall m k, In (m, k) K -> serialise S k = Ok (ser_tot S k)).
Proof. intros NIL TYPE XM S c a t K xa xe r Hnt. exact (serialise_shape NIL TYPE XM Hnt S c a t K xa xe r). Qed.
Print Assumptions C12_sequence_order.

(* Foreign content: whatever class (hence at whatever depth the generic parser is
   applied) - every child whose tag is not a key of the class's c_children and every
   attribute that is not in c_attributes ends up, in document order, in the object's
   extension elements / attributes; C12_roundtrip and C12_sequence_order then say it is
   kept by norm and re-emitted by serialise. *)
Theorem C12_foreign_preserved :
  forall NIL TYPE XMLNS_XS S c tag attrs text kids c2 a t K xa xe r,
  parse NIL TYPE XMLNS_XS S c (X tag attrs text kids) = Ok (I c2 a t K xa xe) ->
  find_row S c = Some r -> over_kind r = OGeneric ->
  xe = filter (fun k => negb (memN (xtag k) (map c_tagkey (k_children r)))) kids /\
  xa = filter (fun p => negb (memN (fst p) (map a_xml (k_attrs r)))) attrs /\ t = text.
Proof. exact foreign_kept. Qed.
Print Assumptions C12_foreign_preserved.

(* ---- look-alike names.  Attributes and child tags are keyed by their FULL name.  nm gives an
   interned name its text back; the statements hold for any such function (the tie to the
   library's strings is C12_names_faithful below). *)

(* a namespace-qualified name is never an unqualified one; {ns}l has the local name of l and is
   another name *)
Theorem C12_qualified_never_unqualified :
  forall s d, unqualified s = false -> unqualified d = true -> s <> d.
Proof. exact qualified_ne_unqualified. Qed.
Print Assumptions C12_qualified_never_unqualified.

Theorem C12_qualified_is_lookalike :
  forall ns l, ~ In 125 ns -> unqualified l = true ->
  unqualified (qualify ns l) = false /\ local_of (qualify ns l) = local_of l /\ qualify ns l <> l.
Proof. intros ns l Hn Hu. split; [reflexivity|exact (qualify_lookalike_of_plain ns l Hn Hu)]. Qed.
Print Assumptions C12_qualified_is_lookalike.

(* ... hence, in a class whose declared xml attribute names are all unqualified, a qualified
   attribute (own namespace, xml namespace, any namespace) is never taken for a declared one: it
   is kept with its value as extension attribute, and every declared attribute - also the one
   with the same local name, present in the same document or not - is read from the attribute
   of exactly its own name (else it keeps the value __init__ preset, else it is unset) *)
Theorem C12_qualified_attr_is_extension :
  forall (nm : N -> str) NIL TYPE XMLNS_XS S c tag attrs text kids c2 a t K xa xe r q v,
  parse NIL TYPE XMLNS_XS S c (X tag attrs text kids) = Ok (I c2 a t K xa xe) ->
  find_row S c = Some r -> over_kind r = OGeneric ->
  forallb (fun d => unqualified (nm d)) (map a_xml (k_attrs r)) = true ->
  unqualified (nm q) = false -> In (q, v) attrs ->
  In (q, v) xa /\
  (forall d, In d (k_attrs r) ->
     alookup (a_member d) a
     = match alookup (a_xml d) attrs with Some w => Some w | None => alookup (a_member d) (k_defaults r) end).
Proof.
  intros nm NIL TYPE XM S c tag attrs text kids c2 a t K xa xe r q v Hp Hr Hg Hall Hq Hin. split.
  - destruct (foreign_one_kept NIL TYPE XM S c tag attrs text kids c2 a t K xa xe r Hp Hr Hg) as [Ha _].
    apply Ha; [exact Hin|]. exact (qualified_not_key nm _ q Hall Hq).
  - intros d Hd. exact (declared_attr_read NIL TYPE XM S c tag attrs text kids c2 a t K xa xe r d Hp Hr Hg Hd).
Qed.
Print Assumptions C12_qualified_attr_is_extension.

(* the same for ANY look-alike (same local name, another full name: unqualified against a
   declared xml:lang, a foreign namespace ...) in any class whose table has no two keys with
   one local name; and for children: an unknown child whose tag has the local name of a known
   child but another namespace is kept WHOLE (attributes, text, children at every depth) *)
Theorem C12_lookalike_is_extension :
  forall (nm : N -> str) NIL TYPE XMLNS_XS S c tag attrs text kids c2 a t K xa xe r,
  parse NIL TYPE XMLNS_XS S c (X tag attrs text kids) = Ok (I c2 a t K xa xe) ->
  find_row S c = Some r -> over_kind r = OGeneric -> row_lookalike_free nm r = true ->
  (forall d q v, In d (k_attrs r) -> lookalike nm q (a_xml d) = true -> In (q, v) attrs ->
     In (q, v) xa /\
     alookup (a_member d) a
     = match alookup (a_xml d) attrs with Some w => Some w | None => alookup (a_member d) (k_defaults r) end) /\
  (forall ch k, In ch (k_children r) -> lookalike nm (xtag k) (c_tagkey ch) = true -> In k kids -> In k xe).
Proof.
  intros nm NIL TYPE XM S c tag attrs text kids c2 a t K xa xe r Hp Hr Hg Hf.
  apply andb_true_iff in Hf as [Hfa Hfk].
  destruct (foreign_one_kept NIL TYPE XM S c tag attrs text kids c2 a t K xa xe r Hp Hr Hg) as [Ha Hk]. split.
  - intros d q v Hd Hl Hin. split.
    + apply Ha; [exact Hin|]. apply (lookalike_not_key nm _ q (a_xml d) Hfa); [apply in_map; exact Hd|exact Hl].
    + exact (declared_attr_read NIL TYPE XM S c tag attrs text kids c2 a t K xa xe r d Hp Hr Hg Hd).
  - intros ch k Hch Hl Hin. apply Hk; [exact Hin|].
    apply (lookalike_not_key nm _ (xtag k) (c_tagkey ch) Hfk); [apply in_map; exact Hch|exact Hl].
Qed.
Print Assumptions C12_lookalike_is_extension.

(* today's tables and today's names (Gen/SchemaNames.v, regenerated on every run): the intern
   table is injective - two ids are equal exactly when the library's strings are - and no class
   has two attribute names or two child keys with one local name *)
Theorem C12_names_faithful :
  names_distinct name_strings = true /\
  (forall a b, (N.to_nat a < List.length name_strings)%nat -> (N.to_nat b < List.length name_strings)%nat ->
     nm a = nm b -> a = b).
Proof. split; [exact names_distinct_ok|]. intros a b. exact (name_of_inj name_strings a b names_distinct_ok). Qed.
Print Assumptions C12_names_faithful.

Theorem C12_actual_lookalike_free : forall r, In r actual_schema -> row_lookalike_free nm r = true.
Proof. exact actual_row_lookalike_free. Qed.
Print Assumptions C12_actual_lookalike_free.

(* so a look-alike satisfies the side condition obj_ok asks of extension content (its name is
   not a declared one): C12_roundtrip_actual covers objects that carry it, alone or together
   with the declared attribute / child *)
Theorem C12_lookalike_is_foreign_actual :
  forall c r, find_row actual_schema c = Some r ->
  (forall d q, In d (k_attrs r) -> lookalike nm q (a_xml d) = true -> memN q (map a_xml (k_attrs r)) = false) /\
  (forall ch q, In ch (k_children r) -> lookalike nm q (c_tagkey ch) = true -> memN q (map c_tagkey (k_children r)) = false).
Proof.
  intros c r Hr. split.
  - intros d q Hd Hl. apply memN_false. exact (lookalike_attr_not_declared c r d q Hr Hd Hl).
  - intros ch q Hch Hl. apply memN_false. exact (lookalike_kid_not_key c r ch q Hr Hch Hl).
Qed.
Print Assumptions C12_lookalike_is_foreign_actual.

(* the look-alike names the harness feeds to the library on every run (own namespace, foreign
   namespace, xml namespace, unqualified) are look-alikes in this sense, and there is at least
   one for every declared attribute and every child key of every class *)
Theorem C12_lookalikes_generated :
  forallb (lookalike_row_ok nm actual_schema true) lookalike_attrs = true /\
  forallb (lookalike_row_ok nm actual_schema false) lookalike_kids = true /\
  forallb (fun r => forallb (fun a => covered lookalike_attrs (k_id r) (a_xml a)) (k_attrs r)
                    && forallb (fun ch => covered lookalike_kids (k_id r) (c_tagkey ch)) (k_children r))
          actual_schema = true.
Proof. split; [exact lookalike_attrs_ok|split; [exact lookalike_kids_ok|exact lookalikes_cover]]. Qed.
Print Assumptions C12_lookalikes_generated.

(* a two-attribute document on the toy class below: the declared attribute 50 and its look-alike
   51 both survive with their own values *)
Example C12_lookalike_witness :
  parse 7 8 9 [KR 0 100 [] [AR 50 2 TNone false] [] [] None [] [] [] [] true] 0
        (X 100 [(51, s2l "qualified"); (50, s2l "plain")] None [])
  = Ok (I 0 [(2, s2l "plain")] None [] [(51, s2l "qualified")] []).
Proof. vm_compute. reflexivity. Qed.
Print Assumptions C12_lookalike_witness.

(* ---- documents.  An ElementTree element also has a tail; the engine never reads or writes it.
   parse_doc / serialise_doc are create_class_from_element_tree / _to_element_tree on documents
   with tails (Model/SchemaDoc.v). *)
Theorem C12_tails_ignored :
  forall NIL TYPE XMLNS_XS S c d1 d2, forget d1 = forget d2 ->
  parse_doc NIL TYPE XMLNS_XS S c d1 = parse_doc NIL TYPE XMLNS_XS S c d2.
Proof. exact tails_ignored. Qed.
Print Assumptions C12_tails_ignored.

Theorem C12_doc_roundtrip :
  forall NIL TYPE XMLNS_XS S i, NIL <> TYPE -> wf_inst NIL TYPE XMLNS_XS S i = true ->
  exists c d, cls_of i = Some c /\ serialise_doc S i = Ok d /\ no_tail d = true /\
    parse_doc NIL TYPE XMLNS_XS S c d = Ok (norm S i) /\ serialise_doc S (norm S i) = Ok d.
Proof. intros NIL TYPE XM S i Hnt. exact (doc_roundtrip NIL TYPE XM Hnt S i). Qed.
Print Assumptions C12_doc_roundtrip.

(* unknown children of a document are kept whole and in order - text (also white space only)
   and children at every depth, verbatim; only their tails are not part of any object *)
Theorem C12_doc_foreign_preserved :
  forall NIL TYPE XMLNS_XS S c tag attrs text tail kids c2 a t K xa xe r,
  parse_doc NIL TYPE XMLNS_XS S c (D tag attrs text tail kids) = Ok (I c2 a t K xa xe) ->
  find_row S c = Some r -> over_kind r = OGeneric ->
  xe = map forget (filter (fun k => negb (memN (dtag k) (map c_tagkey (k_children r)))) kids) /\
  xa = filter (fun p => negb (memN (fst p) (map a_xml (k_attrs r)))) attrs /\ t = text.
Proof. exact doc_foreign_kept. Qed.
Print Assumptions C12_doc_foreign_preserved.

(* Whole-schema form: when EVERY row of the schema is well-formed, the round trip holds for
   every object of every class that satisfies the object-level conditions obj_ok (declared
   members only, children of the member's class, single-valued members hold at most one
   child, extension content does not collide with the class's own names, attributes that
   __init__ presets are set, AttributeValue objects as constructor / parser leave them). *)
Theorem C12_roundtrip_schema :
  forall NIL TYPE XMLNS_XS S i, NIL <> TYPE -> wf_schema S = true -> obj_ok NIL TYPE XMLNS_XS S i = true ->
  exists c x, cls_of i = Some c /\ serialise S i = Ok x /\
    parse NIL TYPE XMLNS_XS S c x = Ok (norm S i) /\ serialise S (norm S i) = Ok x.
Proof.
  intros NIL TYPE XM S i Hnt HS Hok. apply C12_roundtrip; [exact Hnt|].
  apply obj_ok_wf_inst; assumption.
Qed.
Print Assumptions C12_roundtrip_schema.

(* The tables of ALL classes, REGENERATED from the working tree on this run, are
   well-formed: the kernel evaluates wf_row on every row; there is no exception list. *)
Theorem C12_actual_schema_wf : wf_schema actual_schema = true.
Proof. exact actual_schema_wf. Qed.
Print Assumptions C12_actual_schema_wf.

Theorem C12_actual_rows_wf : forall r, In r actual_schema -> wf_row actual_schema r = true.
Proof. exact actual_row_wf. Qed.
Print Assumptions C12_actual_rows_wf.

Definition C12_bad_rows : list N := bad_rows actual_schema.
Theorem C12_no_bad_rows : C12_bad_rows = [] /\ bad_members actual_schema = [].
Proof. split; [exact no_bad_rows|exact no_bad_members]. Qed.
Print Assumptions C12_no_bad_rows.

Theorem C12_element_maps_agree : maps_ok class_local_tag element_maps = true.
Proof. exact element_maps_agree. Qed.
Print Assumptions C12_element_maps_agree.

(* hence, for today's pysaml2 tables: the round trip for every object of every class *)
Theorem C12_roundtrip_actual :
  forall i, obj_ok x_xsi_nil x_xsi_type x_xmlns_xs actual_schema i = true ->
  exists c x, cls_of i = Some c /\ serialise actual_schema i = Ok x /\
    parse x_xsi_nil x_xsi_type x_xmlns_xs actual_schema c x = Ok (norm actual_schema i) /\
    serialise actual_schema (norm actual_schema i) = Ok x.
Proof.
  intros i. apply C12_roundtrip_schema; [exact xsi_names_distinct|exact actual_schema_wf].
Qed.
Print Assumptions C12_roundtrip_actual.

(* ... and no class is left out vacuously: for each of them the object cls() satisfies
   obj_ok and round-trips (evaluated by the kernel on every regenerated row) *)
Theorem C12_every_class_has_instances :
  forall r, In r actual_schema -> fresh_roundtrips r = true.
Proof. apply forallb_forall. exact every_class_fresh_roundtrips. Qed.
Print Assumptions C12_every_class_has_instances.

(* ---- before the repairs (proposed_fix/C12-1..3).  The rows are in Model/SchemaBeforeFix.v,
   next to the repaired ones.  NIL / TYPE / XMLNS_XS are 7 / 8 / 9 there. *)
Notation bf_parse := (parse bf_xsi_nil bf_xsi_type bf_xmlns_xs).
Notation bf_obj_ok := (obj_ok bf_xsi_nil bf_xsi_type bf_xmlns_xs).

(* C12-1a, xmldsig.KeyInfo keyed EncryptedKey under the 2000/09 namespace: the object-level
   conditions hold, the object serialises and parses, but the member comes back empty and
   the EncryptedKey element has moved to the extension elements *)
Theorem C12_tagkey_before_fix_refuted :
  exists i x j e,
    bf_obj_ok keyinfo_schema_before_fix i = true /\
    serialise keyinfo_schema_before_fix i = Ok x /\
    bf_parse keyinfo_schema_before_fix c_KeyInfo x = Ok j /\
    j <> norm keyinfo_schema_before_fix i /\
    j = I c_KeyInfo [] None [] [] [e] /\ xtag e = t_EncKey_2001.
Proof.
  exists keyinfo_with_key. eexists. eexists. eexists.
  split; [vm_compute; reflexivity|]. split; [vm_compute; reflexivity|].
  split; [vm_compute; reflexivity|]. split; [vm_compute; discriminate|].
  split; vm_compute; reflexivity.
Qed.
Print Assumptions C12_tagkey_before_fix_refuted.

(* C12-1b, the placeholder child class None under the 2000/09 key (xmldsig.KeyInfoType_,
   xmlenc.OriginatorKeyInfo, xmlenc.RecipientKeyInfo): the member of a serialised object is
   lost to the extension elements in the same way, and a document that carries a child
   under the key the table lists cannot be parsed at all (None.c_namespace) *)
Theorem C12_none_child_before_fix_refuted :
  (exists i x j e,
     serialise keyinfo_schema_before_fix i = Ok x /\
     bf_parse keyinfo_schema_before_fix c_KeyInfoType x = Ok j /\
     j <> norm keyinfo_schema_before_fix i /\
     j = I c_KeyInfoType [] None [] [] [e] /\ xtag e = t_EncKey_2001) /\
  bf_parse keyinfo_schema_before_fix c_KeyInfoType
    (X t_KeyInfoType [] None [X t_EncKey_2000 [] None []]) = Err ATTRIBUTE_ERROR.
Proof.
  split.
  - exists keyinfotype_with_key. eexists. eexists. eexists.
    split; [vm_compute; reflexivity|]. split; [vm_compute; reflexivity|].
    split; [vm_compute; discriminate|]. split; vm_compute; reflexivity.
  - vm_compute. reflexivity.
Qed.
Print Assumptions C12_none_child_before_fix_refuted.

(* C12-2 / C12-3, a declared member that __init__ never creates (sslcert key_validation, wsdl
   import): the object cls() satisfies the object-level conditions and cannot be serialised *)
Theorem C12_member_missing_before_fix_refuted :
  (bf_obj_ok sslcert_schema_before_fix (fresh_first sslcert_schema_before_fix) = true /\
   serialise sslcert_schema_before_fix (fresh_first sslcert_schema_before_fix) = Err ATTRIBUTE_ERROR) /\
  (bf_obj_ok wsdl_schema_before_fix (fresh_first wsdl_schema_before_fix) = true /\
   serialise wsdl_schema_before_fix (fresh_first wsdl_schema_before_fix) = Err ATTRIBUTE_ERROR).
Proof. repeat split; vm_compute; reflexivity. Qed.
Print Assumptions C12_member_missing_before_fix_refuted.

(* the repaired rows are well-formed, so C12_roundtrip_schema covers every object over them;
   in particular the three witnesses above now round-trip *)
Theorem C12_repaired_rows_wf :
  wf_schema keyinfo_schema = true /\ wf_schema sslcert_schema = true /\ wf_schema wsdl_schema = true /\
  wf_schema keyinfo_schema_before_fix = false /\ wf_schema sslcert_schema_before_fix = false /\
  wf_schema wsdl_schema_before_fix = false.
Proof. repeat split; vm_compute; reflexivity. Qed.
Print Assumptions C12_repaired_rows_wf.

Theorem C12_repaired_witnesses_roundtrip :
  forall S i, In (S, i) [(keyinfo_schema, keyinfo_with_key); (keyinfo_schema, keyinfotype_with_key);
                         (sslcert_schema, fresh_first sslcert_schema); (wsdl_schema, fresh_first wsdl_schema)] ->
  exists c x, cls_of i = Some c /\ serialise S i = Ok x /\
    bf_parse S c x = Ok (norm S i) /\ serialise S (norm S i) = Ok x.
Proof.
  intros S i Hin. apply C12_roundtrip_schema; [vm_compute; discriminate| |];
    repeat (destruct Hin as [Hin|Hin]; [inversion Hin; subst; vm_compute; reflexivity|]); destruct Hin.
Qed.
Print Assumptions C12_repaired_witnesses_roundtrip.

(* ---- deviations of the engine that remain (not table rows), on a two-class toy schema (they are about the
   engine, not about a particular table) *)
Definition toy : schema :=
  [ KR 0 100 [] [AR 50 2 TNone false] [] [] None [] [(2, s2l "dflt")] [] [] true;
    KR 1 101 [] [] [] [] None [] [] AV_OVER [] true ].
(* an attribute that __init__ presets (Attribute.name_format, Scope.regexp ...) and that was
   reset to None afterwards comes back with the default *)
Theorem C12_default_deviation :
  exists i x j, serialise toy i = Ok x /\ parse 7 8 9 toy 0 x = Ok j /\ norm toy i <> j.
Proof.
  exists (I 0 [] None [] [] []). eexists. eexists. split; [vm_compute; reflexivity|].
  split; [vm_compute; reflexivity|]. vm_compute. discriminate.
Qed.
Print Assumptions C12_default_deviation.
(* an empty AttributeValue without xsi:nil (say, one holding a NameID extension child) comes
   back with xsi:nil="true" added *)
Theorem C12_av_nil_deviation :
  exists i x j, serialise toy i = Ok x /\ parse 7 8 9 toy 1 x = Ok j /\ norm toy i <> j /\
    alookup 7 (match j with I _ _ _ _ xa _ => xa | INone => [] end) = Some (s2l "true").
Proof.
  exists (I 1 [] (Some []) [] [] [X 300 [] (Some (s2l "n")) []]). eexists. eexists.
  split; [vm_compute; reflexivity|]. split; [vm_compute; reflexivity|].
  split; [vm_compute; discriminate|vm_compute; reflexivity].
Qed.
Print Assumptions C12_av_nil_deviation.

(* hypotheses are satisfiable: a real samlp.Response object (assertion, subject, conditions,
   two attributes with typed and empty values, foreign elements and attributes at two
   levels) read back by the translator satisfies obj_ok over today's tables and round-trips *)
Example C12_witness :
  obj_ok x_xsi_nil x_xsi_type x_xmlns_xs actual_schema example_inst = true /\
  match serialise actual_schema example_inst with
  | Ok x => match parse x_xsi_nil x_xsi_type x_xmlns_xs actual_schema (match cls_of example_inst with Some c => c | None => 0 end) x with
            | Ok j => match serialise actual_schema j with Ok y => true | Err _ => false end
            | Err _ => false end
  | Err _ => false
  end = true.
Proof. split; [exact example_ok|exact example_roundtrip]. Qed.
Print Assumptions C12_witness.
