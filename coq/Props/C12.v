(* Props/C12.v — schema element objects survive serialise / parse without loss *)
From PV Require Import Lib.Base Model.Schema Gen.SchemaTables Proofs.Schema_lemmas Proofs.Schema_table.
Open Scope N_scope.

(* Round trip, for EVERY schema and every instance tree (unbounded depth and list
   cardinalities) whose classes have well-formed rows (wf_inst checks wf_row at every
   node): serialising and parsing back gives the canonical representative norm i of
   the same object, and that object serialises to the very same tree again.
   NIL / TYPE / XMLNS_XS are the interned names xsi:nil, xsi:type, xmlns:xs. *)
Theorem C12_roundtrip :
  forall NIL TYPE XMLNS_XS S i, NIL <> TYPE -> wf_inst NIL TYPE XMLNS_XS S i = true ->
  exists c x, cls_of i = Some c /\ serialise S i = Ok x /\
    parse NIL TYPE XMLNS_XS S c x = Ok (norm S i) /\ serialise S (norm S i) = Ok x.
Proof.
  intros NIL TYPE XM S i Hnt Hwf.
  destruct (roundtrip_parse NIL TYPE XM Hnt S i Hwf) as (c & r & Hc & Hr & Hs & Ht & Hp & Hn).
  exists c, (ser_tot S i). repeat split; try assumption.
  rewrite (norm_serialise NIL TYPE XM Hnt S i Hwf). exact Hs.
Qed.
Print Assumptions C12_roundtrip.

(* norm loses nothing: same class, same value of every declared attribute, the same
   (normalised) children under every declared member, same text, same extension
   attributes and elements - it only puts the association lists into table order *)
Theorem C12_norm_same_object :
  forall NIL TYPE XMLNS_XS S c a t K xa xe r,
  wf_inst NIL TYPE XMLNS_XS S (I c a t K xa xe) = true -> find_row S c = Some r ->
  exists a' K', norm S (I c a t K xa xe) = I c a' t K' xa xe /\
    (forall x, In x (k_attrs r) -> alookup (a_member x) a' = alookup (a_member x) a) /\
    (forall ch, In ch (k_children r) -> kids_of (c_member ch) K' = map (norm S) (kids_of (c_member ch) K)).
Proof. exact norm_same_members. Qed.
Print Assumptions C12_norm_same_object.

(* Children are emitted in the schema's sequence order: the child list of the
   serialised tree is, member by member in c_child_order order, the serialised
   children of that member in list order, followed by the extension elements; the
   attribute list is the known attributes in c_attributes order, then the
   extension attributes. *)
Theorem C12_sequence_order :
  forall NIL TYPE XMLNS_XS S c a t K xa xe r, NIL <> TYPE ->
  wf_inst NIL TYPE XMLNS_XS S (I c a t K xa xe) = true -> find_row S c = Some r ->
  serialise S (I c a t K xa xe)
  = Ok (X (k_qtag r) (known_attrs r a ++ xa) t
          (flat_map (fun m => map (ser_tot S) (kids_of m K)) (order_of r) ++ xe))
  /\ (forall m k, In (m, k) K -> serialise S k = Ok (ser_tot S k)).
Proof. intros NIL TYPE XM S c a t K xa xe r Hnt. exact (serialise_shape NIL TYPE XM Hnt S c a t K xa xe r). Qed.
Print Assumptions C12_sequence_order.

(* Foreign content: whatever class (hence at whatever depth the generic parser is
   applied) - every child whose tag is not a key of the class's c_children and every
   attribute that is not in c_attributes ends up, in document order, in the object's
   extension elements / attributes; C12_roundtrip and C12_sequence_order then say it is
   kept by norm and re-emitted by serialise. *)
Theorem C12_foreign_preserved :
  forall NIL TYPE XMLNS_XS S c tag attrs text kids c2 a t K xa xe r,
  parse NIL TYPE XMLNS_XS S c (X tag attrs text kids) = Ok (I c2 a t K xa xe) ->
  find_row S c = Some r -> over_kind r = OGeneric ->
  xe = filter (fun k => negb (memN (xtag k) (map c_tagkey (k_children r)))) kids /\
  xa = filter (fun p => negb (memN (fst p) (map a_xml (k_attrs r)))) attrs /\ t = text.
Proof. exact foreign_kept. Qed.
Print Assumptions C12_foreign_preserved.

(* The tables of all classes, REGENERATED from the working tree on this run: every row
   is well-formed except the rows recorded as findings (known_bad_rows is derived from
   known_findings.json by the translator); the kernel evaluates wf_row on every row. *)
Theorem C12_actual_schema_wf :
  forall r, In r actual_schema -> ~ In (k_id r) known_bad_rows -> wf_row actual_schema r = true.
Proof. exact actual_schema_wf. Qed.
Print Assumptions C12_actual_schema_wf.

Definition C12_bad_rows : list N := bad_rows actual_schema.
Theorem C12_bad_rows_are_the_recorded_ones : forall c, In c C12_bad_rows -> In c known_bad_rows.
Proof. exact bad_rows_known. Qed.
Print Assumptions C12_bad_rows_are_the_recorded_ones.

Theorem C12_element_maps_agree : maps_ok class_local_tag element_maps = true.
Proof. exact element_maps_agree. Qed.
Print Assumptions C12_element_maps_agree.

(* hence, for today's pysaml2 tables *)
Theorem C12_roundtrip_actual :
  forall i, wf_inst x_xsi_nil x_xsi_type x_xmlns_xs actual_schema i = true ->
  exists c x, cls_of i = Some c /\ serialise actual_schema i = Ok x /\
    parse x_xsi_nil x_xsi_type x_xmlns_xs actual_schema c x = Ok (norm actual_schema i) /\
    serialise actual_schema (norm actual_schema i) = Ok x.
Proof. intros i. apply C12_roundtrip. exact xsi_names_distinct. Qed.
Print Assumptions C12_roundtrip_actual.

(* ---- deviations of the unchanged code, on a two-class toy schema (they are about the
   engine, not about a particular table) *)
Definition toy : schema :=
  [ KR 0 100 [] [AR 50 2 TNone false] [] [] None [] [(2, s2l "dflt")] [] [] true;
    KR 1 101 [] [] [] [] None [] [] AV_OVER [] true ].
(* an attribute that __init__ presets (Attribute.name_format, Scope.regexp ...) and that was
   reset to None afterwards comes back with the default *)
Theorem C12_default_deviation :
  exists i x j, serialise toy i = Ok x /\ parse 7 8 9 toy 0 x = Ok j /\ norm toy i <> j.
Proof.
  exists (I 0 [] None [] [] []). eexists. eexists. split; [vm_compute; reflexivity|].
  split; [vm_compute; reflexivity|]. vm_compute. discriminate.
Qed.
Print Assumptions C12_default_deviation.
(* an empty AttributeValue without xsi:nil (say, one holding a NameID extension child) comes
   back with xsi:nil="true" added *)
Theorem C12_av_nil_deviation :
  exists i x j, serialise toy i = Ok x /\ parse 7 8 9 toy 1 x = Ok j /\ norm toy i <> j /\
    alookup 7 (match j with I _ _ _ _ xa _ => xa | INone => [] end) = Some (s2l "true").
Proof.
  exists (I 1 [] (Some []) [] [] [X 300 [] (Some (s2l "n")) []]). eexists. eexists.
  split; [vm_compute; reflexivity|]. split; [vm_compute; reflexivity|].
  split; [vm_compute; discriminate|vm_compute; reflexivity].
Qed.
Print Assumptions C12_av_nil_deviation.

(* hypotheses are satisfiable: a real samlp.Response object (assertion, subject, conditions,
   two attributes with typed and empty values, foreign elements and attributes at two
   levels) read back by the translator satisfies wf_inst over today's tables and round-trips *)
Example C12_witness :
  wf_inst x_xsi_nil x_xsi_type x_xmlns_xs actual_schema example_inst = true /\
  match serialise actual_schema example_inst with
  | Ok x => match parse x_xsi_nil x_xsi_type x_xmlns_xs actual_schema (match cls_of example_inst with Some c => c | None => 0 end) x with
            | Ok j => match serialise actual_schema j with Ok y => true | Err _ => false end
            | Err _ => false end
  | Err _ => false
  end = true.
Proof. split; [exact example_wf|exact example_roundtrip]. Qed.
Print Assumptions C12_witness.
