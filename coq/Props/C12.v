(* Props/C12.v — schema element objects survive serialise / parse without loss *)
From PV Require Import Lib.Base Model.Schema Model.SchemaBeforeFix Gen.SchemaTables Proofs.Schema_lemmas Proofs.Schema_table.
Open Scope N_scope.

(* Round trip, for EVERY schema and every instance tree (unbounded depth and list
   cardinalities) whose classes have well-formed rows (wf_inst checks wf_row at every
   node): serialising and parsing back gives the canonical representative norm i of
   the same object, and that object serialises to the very same tree again.
   NIL / TYPE / XMLNS_XS are the interned names xsi:nil, xsi:type, xmlns:xs. *)
Theorem C12_roundtrip :
  forall NIL TYPE XMLNS_XS S i, NIL <> TYPE -> wf_inst NIL TYPE XMLNS_XS S i = true ->
  exists c x, cls_of i = Some c /\ serialise S i = Ok x /\
    parse NIL TYPE XMLNS_XS S c x = Ok (norm S i) /\ serialise S (norm S i) = Ok x.
Proof.
  intros NIL TYPE XM S i Hnt Hwf.
  destruct (roundtrip_parse NIL TYPE XM Hnt S i Hwf) as (c & r & Hc & Hr & Hs & Ht & Hp & Hn).
  exists c, (ser_tot S i). repeat split; try assumption.
  rewrite (norm_serialise NIL TYPE XM Hnt S i Hwf). exact Hs.
Qed.
Print Assumptions C12_roundtrip.

(* norm loses nothing: same class, same value of every declared attribute, the same
   (normalised) children under every declared member, same text, same extension
   attributes and elements - it only puts the association lists into table order *)
Theorem C12_norm_same_object :
  forall NIL TYPE XMLNS_XS S c a t K xa xe r,
  wf_inst NIL TYPE XMLNS_XS S (I c a t K xa xe) = true -> find_row S c = Some r ->
  exists a' K', norm S (I c a t K xa xe) = I c a' t K' xa xe /\
    (forall x, In x (k_attrs r) -> alookup (a_member x) a' = alookup (a_member x) a) /\
    (forall ch, In ch (k_children r) -> kids_of (c_member ch) K' = map (norm S) (kids_of (c_member ch) K)).
Proof. exact norm_same_members. Qed.
Print Assumptions C12_norm_same_object.

(* Children are emitted in the schema's sequence order: the child list of the
   serialised tree is, member by member in c_child_order order, the serialised
   children of that member in list order, followed by the extension elements; the
   attribute list is the known attributes in c_attributes order, then the
   extension attributes. *)
Theorem C12_sequence_order :
  forall NIL TYPE XMLNS_XS S c a t K xa xe r, NIL <> TYPE ->
  wf_inst NIL TYPE XMLNS_XS S (I c a t K xa xe) = true -> find_row S c = Some r ->
  serialise S (I c a t K xa xe)
  = Ok (X (k_qtag r) (known_attrs r a ++ xa) t
          (flat_map (fun m => map (ser_tot S) (kids_of m K)) (order_of r) ++ xe))
  /\ (forall m k, In (m, k) K -> serialise S k = Ok (ser_tot S k)).
Proof. intros NIL TYPE XM S c a t K xa xe r Hnt. exact (serialise_shape NIL TYPE XM Hnt S c a t K xa xe r). Qed.
Print Assumptions C12_sequence_order.

(* Foreign content: whatever class (hence at whatever depth the generic parser is
   applied) - every child whose tag is not a key of the class's c_children and every
   attribute that is not in c_attributes ends up, in document order, in the object's
   extension elements / attributes; C12_roundtrip and C12_sequence_order then say it is
   kept by norm and re-emitted by serialise. *)
Theorem C12_foreign_preserved :
  forall NIL TYPE XMLNS_XS S c tag attrs text kids c2 a t K xa xe r,
  parse NIL TYPE XMLNS_XS S c (X tag attrs text kids) = Ok (I c2 a t K xa xe) ->
  find_row S c = Some r -> over_kind r = OGeneric ->
  xe = filter (fun k => negb (memN (xtag k) (map c_tagkey (k_children r)))) kids /\
  xa = filter (fun p => negb (memN (fst p) (map a_xml (k_attrs r)))) attrs /\ t = text.
Proof. exact foreign_kept. Qed.
Print Assumptions C12_foreign_preserved.

(* Whole-schema form: when EVERY row of the schema is well-formed, the round trip holds for
   every object of every class that satisfies the object-level conditions obj_ok (declared
   members only, children of the member's class, single-valued members hold at most one
   child, extension content does not collide with the class's own names, attributes that
   __init__ presets are set, AttributeValue objects as constructor / parser leave them). *)
Theorem C12_roundtrip_schema :
  forall NIL TYPE XMLNS_XS S i, NIL <> TYPE -> wf_schema S = true -> obj_ok NIL TYPE XMLNS_XS S i = true ->
  exists c x, cls_of i = Some c /\ serialise S i = Ok x /\
    parse NIL TYPE XMLNS_XS S c x = Ok (norm S i) /\ serialise S (norm S i) = Ok x.
Proof.
  intros NIL TYPE XM S i Hnt HS Hok. apply C12_roundtrip; [exact Hnt|].
  apply obj_ok_wf_inst; assumption.
Qed.
Print Assumptions C12_roundtrip_schema.

(* The tables of ALL classes, REGENERATED from the working tree on this run, are
   well-formed: the kernel evaluates wf_row on every row; there is no exception list. *)
Theorem C12_actual_schema_wf : wf_schema actual_schema = true.
Proof. exact actual_schema_wf. Qed.
Print Assumptions C12_actual_schema_wf.

Theorem C12_actual_rows_wf : forall r, In r actual_schema -> wf_row actual_schema r = true.
Proof. exact actual_row_wf. Qed.
Print Assumptions C12_actual_rows_wf.

Definition C12_bad_rows : list N := bad_rows actual_schema.
Theorem C12_no_bad_rows : C12_bad_rows = [] /\ bad_members actual_schema = [].
Proof. split; [exact no_bad_rows|exact no_bad_members]. Qed.
Print Assumptions C12_no_bad_rows.

Theorem C12_element_maps_agree : maps_ok class_local_tag element_maps = true.
Proof. exact element_maps_agree. Qed.
Print Assumptions C12_element_maps_agree.

(* hence, for today's pysaml2 tables: the round trip for every object of every class *)
Theorem C12_roundtrip_actual :
  forall i, obj_ok x_xsi_nil x_xsi_type x_xmlns_xs actual_schema i = true ->
  exists c x, cls_of i = Some c /\ serialise actual_schema i = Ok x /\
    parse x_xsi_nil x_xsi_type x_xmlns_xs actual_schema c x = Ok (norm actual_schema i) /\
    serialise actual_schema (norm actual_schema i) = Ok x.
Proof.
  intros i. apply C12_roundtrip_schema; [exact xsi_names_distinct|exact actual_schema_wf].
Qed.
Print Assumptions C12_roundtrip_actual.

(* ... and no class is left out vacuously: for each of them the object cls() satisfies
   obj_ok and round-trips (evaluated by the kernel on every regenerated row) *)
Theorem C12_every_class_has_instances :
  forall r, In r actual_schema -> fresh_roundtrips r = true.
Proof. apply forallb_forall. exact every_class_fresh_roundtrips. Qed.
Print Assumptions C12_every_class_has_instances.

(* ---- before the repairs (proposed_fix/C12-1..3).  The rows are in Model/SchemaBeforeFix.v,
   next to the repaired ones.  NIL / TYPE / XMLNS_XS are 7 / 8 / 9 there. *)
Notation bf_parse := (parse bf_xsi_nil bf_xsi_type bf_xmlns_xs).
Notation bf_obj_ok := (obj_ok bf_xsi_nil bf_xsi_type bf_xmlns_xs).

(* C12-1a, xmldsig.KeyInfo keyed EncryptedKey under the 2000/09 namespace: the object-level
   conditions hold, the object serialises and parses, but the member comes back empty and
   the EncryptedKey element has moved to the extension elements *)
Theorem C12_tagkey_before_fix_refuted :
  exists i x j e,
    bf_obj_ok keyinfo_schema_before_fix i = true /\
    serialise keyinfo_schema_before_fix i = Ok x /\
    bf_parse keyinfo_schema_before_fix c_KeyInfo x = Ok j /\
    j <> norm keyinfo_schema_before_fix i /\
    j = I c_KeyInfo [] None [] [] [e] /\ xtag e = t_EncKey_2001.
Proof.
  exists keyinfo_with_key. eexists. eexists. eexists.
  split; [vm_compute; reflexivity|]. split; [vm_compute; reflexivity|].
  split; [vm_compute; reflexivity|]. split; [vm_compute; discriminate|].
  split; vm_compute; reflexivity.
Qed.
Print Assumptions C12_tagkey_before_fix_refuted.

(* C12-1b, the placeholder child class None under the 2000/09 key (xmldsig.KeyInfoType_,
   xmlenc.OriginatorKeyInfo, xmlenc.RecipientKeyInfo): the member of a serialised object is
   lost to the extension elements in the same way, and a document that carries a child
   under the key the table lists cannot be parsed at all (None.c_namespace) *)
Theorem C12_none_child_before_fix_refuted :
  (exists i x j e,
     serialise keyinfo_schema_before_fix i = Ok x /\
     bf_parse keyinfo_schema_before_fix c_KeyInfoType x = Ok j /\
     j <> norm keyinfo_schema_before_fix i /\
     j = I c_KeyInfoType [] None [] [] [e] /\ xtag e = t_EncKey_2001) /\
  bf_parse keyinfo_schema_before_fix c_KeyInfoType
    (X t_KeyInfoType [] None [X t_EncKey_2000 [] None []]) = Err ATTRIBUTE_ERROR.
Proof.
  split.
  - exists keyinfotype_with_key. eexists. eexists. eexists.
    split; [vm_compute; reflexivity|]. split; [vm_compute; reflexivity|].
    split; [vm_compute; discriminate|]. split; vm_compute; reflexivity.
  - vm_compute. reflexivity.
Qed.
Print Assumptions C12_none_child_before_fix_refuted.

(* C12-2 / C12-3, a declared member that __init__ never creates (sslcert key_validation, wsdl
   import): the object cls() satisfies the object-level conditions and cannot be serialised *)
Theorem C12_member_missing_before_fix_refuted :
  (bf_obj_ok sslcert_schema_before_fix (fresh_first sslcert_schema_before_fix) = true /\
   serialise sslcert_schema_before_fix (fresh_first sslcert_schema_before_fix) = Err ATTRIBUTE_ERROR) /\
  (bf_obj_ok wsdl_schema_before_fix (fresh_first wsdl_schema_before_fix) = true /\
   serialise wsdl_schema_before_fix (fresh_first wsdl_schema_before_fix) = Err ATTRIBUTE_ERROR).
Proof. repeat split; vm_compute; reflexivity. Qed.
Print Assumptions C12_member_missing_before_fix_refuted.

(* the repaired rows are well-formed, so C12_roundtrip_schema covers every object over them;
   in particular the three witnesses above now round-trip *)
Theorem C12_repaired_rows_wf :
  wf_schema keyinfo_schema = true /\ wf_schema sslcert_schema = true /\ wf_schema wsdl_schema = true /\
  wf_schema keyinfo_schema_before_fix = false /\ wf_schema sslcert_schema_before_fix = false /\
  wf_schema wsdl_schema_before_fix = false.
Proof. repeat split; vm_compute; reflexivity. Qed.
Print Assumptions C12_repaired_rows_wf.

Theorem C12_repaired_witnesses_roundtrip :
  forall S i, In (S, i) [(keyinfo_schema, keyinfo_with_key); (keyinfo_schema, keyinfotype_with_key);
                         (sslcert_schema, fresh_first sslcert_schema); (wsdl_schema, fresh_first wsdl_schema)] ->
  exists c x, cls_of i = Some c /\ serialise S i = Ok x /\
    bf_parse S c x = Ok (norm S i) /\ serialise S (norm S i) = Ok x.
Proof.
  intros S i Hin. apply C12_roundtrip_schema; [vm_compute; discriminate| |];
    repeat (destruct Hin as [Hin|Hin]; [inversion Hin; subst; vm_compute; reflexivity|]); destruct Hin.
Qed.
Print Assumptions C12_repaired_witnesses_roundtrip.

(* ---- deviations of the engine that remain (not table rows), on a two-class toy schema (they are about the
   engine, not about a particular table) *)
Definition toy : schema :=
  [ KR 0 100 [] [AR 50 2 TNone false] [] [] None [] [(2, s2l "dflt")] [] [] true;
    KR 1 101 [] [] [] [] None [] [] AV_OVER [] true ].
(* an attribute that __init__ presets (Attribute.name_format, Scope.regexp ...) and that was
   reset to None afterwards comes back with the default *)
Theorem C12_default_deviation :
  exists i x j, serialise toy i = Ok x /\ parse 7 8 9 toy 0 x = Ok j /\ norm toy i <> j.
Proof.
  exists (I 0 [] None [] [] []). eexists. eexists. split; [vm_compute; reflexivity|].
  split; [vm_compute; reflexivity|]. vm_compute. discriminate.
Qed.
Print Assumptions C12_default_deviation.
(* an empty AttributeValue without xsi:nil (say, one holding a NameID extension child) comes
   back with xsi:nil="true" added *)
Theorem C12_av_nil_deviation :
  exists i x j, serialise toy i = Ok x /\ parse 7 8 9 toy 1 x = Ok j /\ norm toy i <> j /\
    alookup 7 (match j with I _ _ _ _ xa _ => xa | INone => [] end) = Some (s2l "true").
Proof.
  exists (I 1 [] (Some []) [] [] [X 300 [] (Some (s2l "n")) []]). eexists. eexists.
  split; [vm_compute; reflexivity|]. split; [vm_compute; reflexivity|].
  split; [vm_compute; discriminate|vm_compute; reflexivity].
Qed.
Print Assumptions C12_av_nil_deviation.

(* hypotheses are satisfiable: a real samlp.Response object (assertion, subject, conditions,
   two attributes with typed and empty values, foreign elements and attributes at two
   levels) read back by the translator satisfies obj_ok over today's tables and round-trips *)
Example C12_witness :
  obj_ok x_xsi_nil x_xsi_type x_xmlns_xs actual_schema example_inst = true /\
  match serialise actual_schema example_inst with
  | Ok x => match parse x_xsi_nil x_xsi_type x_xmlns_xs actual_schema (match cls_of example_inst with Some c => c | None => 0 end) x with
            | Ok j => match serialise actual_schema j with Ok y => true | Err _ => false end
            | Err _ => false end
  | Err _ => false
  end = true.
Proof. split; [exact example_ok|exact example_roundtrip]. Qed.
Print Assumptions C12_witness.
