(* Props/C01.v — accepted signed content is exactly what its signature covers.

   Model: Model/Xsw.v.  [tool_verify] is the node selection of `xmlsec1 --verify --id-attr:ID <name>
   [--node-id <id>]` as the stand-in tool implements it (DESIGN.md 4.3), for the three duplicate-ID
   policies; [precheck] is sigver._enveloped_signature_ok, [check_signature_x] what
   SecurityContext._check_signature does with the selected certificates (pre-check, then some candidate
   certificate must verify), [check_signature_before_fix] the same without the pre-check.
   Cryptography is symbolic: a digest is the digested tree, a signature value is intact or not and names
   the key that made it.  All statements are for documents of any size and shape. *)
From PV Require Import Lib.Base Model.Status Model.Response Model.Xsw Proofs.Response_lemmas Proofs.C02_lemmas
  Proofs.Xsw_lemmas Proofs.C01_pipeline.
From PV Require Import Model.XswIds Proofs.XswIds_lemmas.
From PV Require Import Model.XswOpts Proofs.XswOpts_lemmas Model.MultiAssertion Proofs.MultiAssertion_lemmas.
Open Scope N_scope.

(* (0) Digest equality is structural equality (used everywhere below). *)
Theorem C01_digest_equal_iff_same_content : forall a b, tree_eqb a b = true <-> a = b.
Proof. intros a b. split; [apply tree_eqb_sound|intros ->; apply tree_eqb_refl]. Qed.
Print Assumptions C01_digest_equal_iff_same_content.

(* (1) What a positive answer of the tool means, WITHOUT any pre-check: the signature processed is the first
   one in document order at or below the start node (the element registered under the requested ID, or the
   root), its value is intact under the certificate's key, and each of its references resolves to SOME
   registered element whose present content (minus the processed signature when inside) is the digested one.
   Nothing ties those elements to the start node — that is the wrapping gap. *)
Theorem C01_verify_ok_covered :
  forall pol doc nm i cert,
    tool_verify pol doc nm i cert = true ->
    exists px X p refs sid spl skids,
      (match i with
       | Some v => lookup pol v (registered nm doc) = Some px /\ t_id X = Some v /\ t_name X = nm
       | None => px = []
       end) /\
      subtree_at px doc = Some X /\
      first_sig_incl X = Some p /\
      subtree_at (px ++ p) doc = Some (Sg refs cert true sid spl skids) /\
      refs <> [] /\
      Forall (ref_covered pol doc nm (px ++ p)) refs.
Proof. exact verify_ok_covered. Qed.
Print Assumptions C01_verify_ok_covered.

(* (2) The property, element level, for the code with the pre-check: whenever _check_signature accepts
   (any document, any node name, any ID, any candidate list, any duplicate-ID policy of the tool) then
   [covered doc nm v certs px X k D] holds:
     - the ID v is non-empty and X = El nm (Some v) .. is the node at path px;
     - NO OTHER NODE of the document carries ID v (so whatever pysaml2 parsed from an element with that ID,
       it parsed from X);
     - child k of X is a signature with the single reference "#v", an intact value and a key among the
       candidate certificates; it is X's only Signature child and the first signature in document order
       inside X (the one the tool processed);
     - the digested content D is exactly X with that child removed. *)
Theorem C01_relied_is_covered :
  forall pol doc nm i certs,
    check_signature_x pol doc nm i certs = true ->
    exists v px X k D, i = Some v /\ covered doc nm v certs px X k D.
Proof. exact relied_is_covered. Qed.
Print Assumptions C01_relied_is_covered.

(* the fields of [covered], spelled out (so the statement can be read here) *)
Theorem C01_covered_means :
  forall doc nm v certs px X k D, covered doc nm v certs px X k D ->
    v <> [] /\
    subtree_at px doc = Some X /\
    (exists pl kids, X = El nm (Some v) pl kids) /\
    (forall q Y, subtree_at q doc = Some Y -> t_id Y = Some v -> q = px) /\
    (exists key sid spl skids, nth_error (t_kids X) k = Some (Sg [(HASH :: v, D)] key true sid spl skids) /\ In key certs) /\
    (forall j c, nth_error (t_kids X) j = Some c -> is_sig c = true -> j = k) /\
    first_sig X = Some [k] /\
    D = with_kids X (remove_nth k (t_kids X)).
Proof. intros doc nm v certs px X k D [H1 H2 H3 H4 H5 H6 H7 H8]. repeat split; assumption. Qed.
Print Assumptions C01_covered_means.

(* (3) In the quantifier's terms.  [assembled protected d0 d]: d is ANY document put together from parts of
   d0 (copy / move / relocate), arbitrary new elements around them (edit / wrap / nest / duplicate, any IDs),
   arbitrary signatures that are not valid under a protected key, and original signatures kept verbatim but
   re-dressed (other attributes, KeyInfo, ds:Object content).  If such a document is accepted under
   certificates whose keys are protected, the element relied upon, minus its signature child, is a content
   that a protected key signed IN d0 under that same ID: every other arrangement is rejected. *)
Theorem C01_mutation_rejected :
  forall protected d0 d pol nm i certs,
    (forall c, In c certs -> In c protected) ->
    assembled protected d0 d ->
    check_signature_x pol d nm i certs = true ->
    exists v px X k D, i = Some v /\ covered d nm v certs px X k D /\ signed_in protected d0 [(HASH :: v, D)].
Proof. exact mutation_rejected. Qed.
Print Assumptions C01_mutation_rejected.

(* the closure is closed under sequences of mutations: a document assembled from an assembled document is assembled
   from the original (and the original is assembled from itself) *)
Theorem C01_mutations_compose :
  forall protected d0 d t,
    assembled protected d0 d0 /\
    (assembled protected d0 d -> assembled protected d t -> assembled protected d0 t).
Proof. intros protected d0 d t. split; [apply assembled_refl|intros H1 H2; eapply assembled_trans; eauto]. Qed.
Print Assumptions C01_mutations_compose.

(* the same for an attacker holding any number of documents, stated with the unforgeability invariant:
   in a document where every signature value valid under a protected key stands over a SignedInfo its owner
   produced, acceptance implies the relied content was signed by that owner under that ID *)
Theorem C01_accepted_content_was_signed :
  forall protected (signed : list (str * tree) -> Prop) pol doc nm i certs,
    derivable protected signed doc -> (forall c, In c certs -> In c protected) ->
    check_signature_x pol doc nm i certs = true ->
    exists v px X k D, i = Some v /\ covered doc nm v certs px X k D /\ signed [(HASH :: v, D)].
Proof. exact accepted_content_was_signed. Qed.
Print Assumptions C01_accepted_content_was_signed.

(* (3') Tie to the SP pipeline (Model/Response.v, the model C02 is proved about; its signature verdicts are
   inputs).  HYPOTHESES (the composition step that is tested, not proved): a positive verdict recorded for
   the response was produced by _check_signature on the received text [sent] with the response's name and
   ID, and a positive verdict recorded for an assertion the application may read ([processed r]: plain ones
   and the decrypted ones) by _check_signature on the text handed to the tool for it ([atext a]) with the
   assertion's name and ID.  Then, for every configuration and content: if the response is accepted, every
   signature pysaml2 saw covers its element; want_response_signed => the response element is covered;
   want_assertions_signed => every assertion read is covered; want_assertions_or_response_signed => one of
   the two. *)
Theorem C01_pipeline_relied_covered :
  forall pol certs RESPn ASSNn sent c r rid atext aid,
    (r_sig r = Some (Ok tt) -> check_signature_x pol sent RESPn rid certs = true) ->
    (forall a, In a (processed r) -> a_sig a = Some (Ok tt) -> check_signature_x pol (atext a) ASSNn (aid a) certs = true) ->
    forall o, parse_response c r = Ok o ->
      (present (r_sig r) = true -> elem_covered certs sent RESPn rid) /\
      (forall a, In a (processed r) -> present (a_sig a) = true -> elem_covered certs (atext a) ASSNn (aid a)) /\
      (wrs c = true -> elem_covered certs sent RESPn rid) /\
      (was c = true -> forall a, In a (processed r) -> elem_covered certs (atext a) ASSNn (aid a)) /\
      (waors c = true -> elem_covered certs sent RESPn rid \/
                         forall a, In a (processed r) -> elem_covered certs (atext a) ASSNn (aid a)).
Proof. exact pipeline_relied_covered. Qed.
Print Assumptions C01_pipeline_relied_covered.

(* (3'') ... and the identity handed to the application comes only from those assertions: every assertion in
   AuthnResponse.assertions after acceptance (o_assertions; name id, attributes, conditions and session info are
   read from them) is one of [processed r] — through the retry structure of Entity._parse_response and the
   state a failed first attempt leaves behind.  With (3'): under want_assertions_signed each of them is a covered
   element; under want_response_signed they are what pysaml2 read from the covered response. *)
Theorem C01_identity_from_processed_assertions :
  forall c r o, parse_response c r = Ok o ->
    forall n, In n (o_assertions o) -> exists a, In a (processed r) /\ a_id a = n.
Proof. exact accepted_reads_processed. Qed.
Print Assumptions C01_identity_from_processed_assertions.

(* ------------------------------------------------------------------ witnesses *)
Definition RESP : N := 1.  Definition ASSN : N := 2.  Definition EXT : N := 3.  Definition SUBJ : N := 4.
Definition ISSUER : N := 5.  Definition ADVICE : N := 6.
Definition IDP : N := 1.     (* the issuer's key *)
Definition MALLORY : N := 9. (* the attacker's own key *)
Definition a1 := s2l "a-1".  Definition a2 := s2l "a-2".  Definition r1 := s2l "r-1".  Definition evil := s2l "a-evil".
Definition alice := El SUBJ None 10 [].
Definition bob := El SUBJ None 12 [].
Definition admin := El SUBJ None 11 [].
Definition Da := El ASSN (Some a1) 20 [alice].                           (* what the issuer digested for a-1 *)
Definition sigA := Sg [(HASH :: a1, Da)] IDP true None 30 [].
Definition assertion1 := El ASSN (Some a1) 20 [sigA; alice].
Definition Db := El ASSN (Some a2) 21 [bob].
Definition sigB := Sg [(HASH :: a2, Db)] IDP true None 30 [].
Definition assertion2 := El ASSN (Some a2) 21 [sigB; bob].
Definition Dr := El RESP (Some r1) 40 [assertion1; assertion2].
Definition sigR := Sg [(HASH :: r1, Dr)] IDP true None 31 [].
(* a genuine response with two assertions, everything signed by the issuer *)
Definition genuine := El RESP (Some r1) 40 [sigR; assertion1; assertion2].

(* non-vacuity: the genuine document passes the pre-check and verifies, for the response and both assertions,
   under every duplicate-ID policy; and it does not under another key *)
Example C01_genuine_accepted :
  forallb (fun pol =>
    check_signature_x pol genuine RESP (Some r1) [MALLORY; IDP] &&
    check_signature_x pol genuine ASSN (Some a1) [IDP] &&
    check_signature_x pol genuine ASSN (Some a2) [IDP] &&
    negb (check_signature_x pol genuine ASSN (Some a1) [MALLORY])) [DupFail; DupFirst; DupLast] = true.
Proof. vm_compute. reflexivity. Qed.
Print Assumptions C01_genuine_accepted.

(* the classic wrapping: the original assertion, without its signature, parked in an Extensions element;
   a forged assertion carries the copied signature *)
Definition xsw := El RESP (Some r1) 40 [El EXT None 50 [Da]; El ASSN (Some evil) 20 [sigA; admin]].

(* (4) Before the repair the full statement is REFUTED: the wrapped document is assembled from the genuine one,
   the check without pre-check accepts the forged assertion under every duplicate-ID policy, and the element
   relied upon is not covered (its signature refers to another element); the check with the pre-check refuses. *)
Theorem C01_before_fix_refuted :
  assembled [IDP] genuine xsw /\
  (forall pol, check_signature_before_fix pol xsw ASSN (Some evil) [IDP] = true) /\
  (forall px X k D, ~ covered xsw ASSN evil [IDP] px X k D) /\
  (forall pol, check_signature_x pol xsw ASSN (Some evil) [IDP] = false).
Proof.
  split; [|split; [|split]].
  - unfold xsw. apply A_el. constructor; [|constructor; [|constructor]].
    + apply A_el. constructor; [|constructor]. unfold Da. apply A_el. constructor; [|constructor].
      apply (A_part _ _ [1; 1]%nat). reflexivity.
    + apply A_el. constructor; [apply (A_part _ _ [1; 0]%nat); reflexivity|].
      constructor; [apply A_el; constructor|constructor].
  - intros []; vm_compute; reflexivity.
  - intros px X k D [_ Hat _ Huniq Hsig _ _ _].
    assert (px = [1]%nat) as -> by (symmetry; apply (Huniq [1]%nat (El ASSN (Some evil) 20 [sigA; admin])); reflexivity).
    cbn in Hat. injection Hat as <-. destruct Hsig as (key & sid & spl & skids & Hk & _). cbn [t_kids] in Hk.
    destruct k as [|[|[|k]]]; cbn in Hk; discriminate.
  - intros []; vm_compute; reflexivity.
Qed.
Print Assumptions C01_before_fix_refuted.

(* further wrapping shapes: accepted before the repair, refused with the pre-check (node name, ID relied upon, policy) *)
Definition decoy (v : str) := Sg [(HASH :: v, El ASSN (Some v) 20 [admin])] MALLORY false None 30 [].
Definition witnesses : list (tree * N * option str * dup_policy) := [
  (* response-level: the signed original parked in Extensions, the copied signature (first in document order) on the forged response *)
  (El RESP (Some evil) 41 [sigR; El EXT None 50 [Dr]; El ASSN (Some a2) 20 [admin]], RESP, Some evil, DupFail);
  (* an earlier nested copy of the signature (inside Issuer) precedes the forged element's own decoy signature *)
  (El RESP (Some r1) 40 [El EXT None 50 [Da]; El ASSN (Some evil) 20 [El ISSUER None 60 [sigA]; decoy evil; admin]], ASSN, Some evil, DupFail);
  (* duplicate Signature children: the copy first, the decoy second (pysaml2 keeps the last, the tool takes the first) *)
  (El RESP (Some r1) 40 [El EXT None 50 [Da]; El ASSN (Some evil) 20 [sigA; decoy evil; admin]], ASSN, Some evil, DupFail);
  (* the original kept whole inside a ds:Object of the copied signature *)
  (El RESP (Some r1) 40 [El ASSN (Some evil) 20 [Sg [(HASH :: a1, Da)] IDP true None 30 [El ADVICE None 70 [Da]]; admin]], ASSN, Some evil, DupFail);
  (* an element without ID (decrypted assertions are not schema-validated): the tool starts at the root *)
  (El RESP (Some r1) 40 [El EXT None 50 [assertion1]; El ASSN None 20 [decoy evil; admin]], ASSN, None, DupFail);
  (* duplicate ID, first-wins tool: the original (with its own signature) comes first in the document *)
  (El RESP (Some r1) 40 [El EXT None 50 [assertion1]; El ASSN (Some a1) 20 [decoy a1; admin]], ASSN, Some a1, DupFirst);
  (* duplicate ID, last-wins tool *)
  (El RESP (Some r1) 40 [El ASSN (Some a1) 20 [decoy a1; admin]; El EXT None 50 [assertion1]], ASSN, Some a1, DupLast)
].
Example C01_wrapping_shapes_before_and_after :
  forallb (fun w => let '(doc, nm, i, pol) := w in
    check_signature_before_fix pol doc nm i [IDP] && negb (check_signature_x pol doc nm i [IDP])) witnesses = true.
Proof. vm_compute. reflexivity. Qed.
Print Assumptions C01_wrapping_shapes_before_and_after.

(* ------------------------------------------------------------------ (5) the identifier itself *)
(* (5a) WHICH string is the ID.  The tool (--id-attr:ID) and the pre-check read the literal ID attribute of the
   text; the object gets .id from the parsed attribute table (Model/XswIds.v).  For every well-formed attribute
   table they are the same, whatever look-alikes (saml:ID, samlp:ID, xml:id, Id, id) stand around it - so the
   element relied upon (the object) and the element [covered] speaks about (the text) are one. *)
Theorem C01_item_id_is_literal_ID : forall al, wf_attrs al = true -> item_id al = literal_id al.
Proof. exact item_id_is_literal. Qed.
Print Assumptions C01_item_id_is_literal_ID.

Theorem C01_item_id_ignores_look_alikes : forall pre post a,
  (forall b, In b pre -> is_literal_id b = false) -> (forall b, In b post -> is_literal_id b = false) ->
  is_literal_id a = true -> item_id (pre ++ a :: post) = Some (snd a).
Proof. exact item_id_ignores_look_alikes. Qed.
Print Assumptions C01_item_id_ignores_look_alikes.

(* a reader that goes by the local name (NOT the code) is refuted: object says a-1, text says a-evil *)
Definition SAMLNS := s2l "urn:oasis:names:tc:SAML:2.0:assertion".
Theorem C01_reader_by_local_name_refuted :
  exists al, wf_attrs al = true /\ literal_id al = Some evil /\ item_id al = Some evil /\ item_id_lax al = Some a1.
Proof. exists [(None, s2l "ID", evil); (Some SAMLNS, s2l "ID", a1)]. vm_compute. repeat split. Qed.
Print Assumptions C01_reader_by_local_name_refuted.

(* (5b) WHICH string is handed over.  _check_signature hands ONE variable (item.id) to the pre-check and to the
   tool: check_signature_g with both hand-overs the identity is check_signature_x, the function all theorems above
   are about.  TESTED on every run (not proved): the argv the library really passes has --node-id byte-for-byte
   item.id, and the pre-check was given that same string, node name, attribute name and document. *)
Theorem C01_one_identifier : forall pol doc nm i certs,
  check_signature_g (fun v => v) (fun v => v) pol doc nm i certs = check_signature_x pol doc nm i certs.
Proof. exact check_signature_one_identifier. Qed.
Print Assumptions C01_one_identifier.

(* any treatment fp / ft of the identifier on the way keeps the statement as long as both hand-overs still get the
   same string and it is still the object's id *)
Theorem C01_relied_is_covered_same_identifier : forall fp ft pol doc nm v certs,
  ft v = fp v -> fp v = v ->
  check_signature_g fp ft pol doc nm (Some v) certs = true ->
  exists px X k D, covered doc nm v certs px X k D.
Proof. exact relied_is_covered_g. Qed.
Print Assumptions C01_relied_is_covered_same_identifier.

(* ... and it is lost as soon as ONE side normalises.  Tool side (--node-id trimmed): the forged assertion's literal ID
   is the genuine one plus a blank, its own first Signature child is worthless but well shaped, the genuine signed
   assertion sits behind it - accepted, not covered; with one identifier refused. *)
Definition a1sp : str := a1 ++ [32].
Definition forgedA_tool := El ASSN (Some a1sp) 20 [decoy a1sp; El ADVICE None 70 [assertion1]; admin].
Definition doc_tool := El RESP (Some r1) 40 [forgedA_tool].
Theorem C01_tool_side_normalisation_refuted :
  rstrip a1sp = a1 /\
  (forall pol, check_signature_g (fun v => v) rstrip pol doc_tool ASSN (Some a1sp) [IDP] = true) /\
  (forall px X k D, ~ covered doc_tool ASSN a1sp [IDP] px X k D) /\
  (forall pol, check_signature_x pol doc_tool ASSN (Some a1sp) [IDP] = false).
Proof.
  split; [vm_compute; reflexivity|split; [|split]].
  - intros []; vm_compute; reflexivity.
  - intros px X k D [_ Hat _ Huniq Hsig _ _ _].
    assert (px = [0]%nat) as -> by (symmetry; apply (Huniq [0]%nat forgedA_tool); reflexivity).
    cbn in Hat. injection Hat as <-. destruct Hsig as (key & sid & spl & skids & Hk & _).
    destruct k as [|[|[|[|k]]]]; vm_compute in Hk; discriminate.
  - intros []; vm_compute; reflexivity.
Qed.
Print Assumptions C01_tool_side_normalisation_refuted.

(* Pre-check side (the pre-check looks up the trimmed id, the tool gets the raw one): the genuine signed assertion
   nested FIRST inside the forged one, which carries a copy of the signature as its own child. *)
Definition forgedA_pre := El ASSN (Some a1sp) 20 [El ADVICE None 70 [assertion1]; sigA; admin].
Definition doc_pre := El RESP (Some r1) 40 [forgedA_pre].
Theorem C01_precheck_side_normalisation_refuted :
  (forall pol, check_signature_g rstrip (fun v => v) pol doc_pre ASSN (Some a1sp) [IDP] = true) /\
  (forall px X k D, ~ covered doc_pre ASSN a1sp [IDP] px X k D) /\
  (forall pol, check_signature_x pol doc_pre ASSN (Some a1sp) [IDP] = false).
Proof.
  split; [|split].
  - intros []; vm_compute; reflexivity.
  - intros px X k D [_ Hat _ Huniq Hsig _ _ _].
    assert (px = [0]%nat) as -> by (symmetry; apply (Huniq [0]%nat forgedA_pre); reflexivity).
    cbn in Hat. injection Hat as <-. destruct Hsig as (key & sid & spl & skids & Hk & _).
    destruct k as [|[|[|[|k]]]]; vm_compute in Hk; discriminate.
  - intros []; vm_compute; reflexivity.
Qed.
Print Assumptions C01_precheck_side_normalisation_refuted.

(* (5c) WHETHER the identifier is handed over at all (Model/XswOpts.v).  validate_signature appends --node-id and the
   id as ONE argv element `if node_id:`; a run without it verifies the first signature of the document
   (tool_first_signature).  With the code's hand-over check_signature_h IS check_signature_x; and for ANY hand-over
   that passes every non-empty id unchanged the statement holds for EVERY id string - no condition on its
   characters ('-x', '--node-id', blanks, quotes, '$', '%' ... are ids like any other).  TESTED on every run: the
   recorded argv has exactly one --node-id, followed by one element that is item.id and the literal ID of an element
   of the document handed over (oracle keys handed-over:tool-run-without-node-id / node-id-names-no-element /
   node-id-not-item-id), on documents of the family id-option-like:*. *)
Theorem C01_handover_of_the_code : forall pol doc nm i certs,
  check_signature_h handover_code pol doc nm i certs = check_signature_x pol doc nm i certs.
Proof. exact check_signature_h_code. Qed.
Print Assumptions C01_handover_of_the_code.

Theorem C01_relied_is_covered_for_every_id : forall h pol doc nm v certs,
  (forall w, w <> [] -> h w = Some w) ->
  check_signature_h h pol doc nm (Some v) certs = true ->
  exists px X k D, covered doc nm v certs px X k D.
Proof. exact handed_over_is_covered. Qed.
Print Assumptions C01_relied_is_covered_for_every_id.

Example C01_code_hands_every_id_over : forall w, w <> [] -> handover_code w = Some w.
Proof. exact handover_code_hands_over. Qed.
Print Assumptions C01_code_hands_every_id_over.

(* ... and it is lost when option-looking ids are left out: the forged assertion's ID is -x, its own Signature child
   is worthless but well shaped, the genuine signed assertion is parked EARLIER (Extensions): the run without
   --node-id verifies the first signature of the document, the genuine one. *)
Definition dashx : str := s2l "-x".
Definition forgedA_opt := El ASSN (Some dashx) 20 [decoy dashx; admin].
Definition doc_opt := El RESP (Some r1) 40 [El EXT None 50 [assertion1]; forgedA_opt].
Theorem C01_dropping_option_like_ids_refuted :
  handover_drops_options dashx = None /\
  (forall pol, tool_first_signature pol doc_opt ASSN IDP = true) /\
  (forall pol, check_signature_h handover_drops_options pol doc_opt ASSN (Some dashx) [IDP] = true) /\
  (forall px X k D, ~ covered doc_opt ASSN dashx [IDP] px X k D) /\
  (forall pol, check_signature_x pol doc_opt ASSN (Some dashx) [IDP] = false).
Proof.
  split; [vm_compute; reflexivity|split; [|split; [|split]]].
  - intros []; vm_compute; reflexivity.
  - intros []; vm_compute; reflexivity.
  - intros px X k D [_ Hat _ Huniq Hsig _ _ _].
    assert (px = [1]%nat) as -> by (symmetry; apply (Huniq [1]%nat forgedA_opt); reflexivity).
    cbn in Hat. injection Hat as <-. destruct Hsig as (key & sid & spl & skids & Hk & _).
    destruct k as [|[|[|k]]]; vm_compute in Hk; discriminate.
  - intros []; vm_compute; reflexivity.
Qed.
Print Assumptions C01_dropping_option_like_ids_refuted.

(* (6) Several plain assertions in one response (Model/MultiAssertion.v: parse_assertion's loop over
   response.assertion, _assertion on each; .assertions / get_identity / name_id afterwards).  By induction over the
   list: whatever the application reads - every assertion handed over, every attribute of the merged identity, the
   name id - comes from an assertion that was INDIVIDUALLY checked; with want_assertions_signed that means: has a
   signature, check_signature said yes (then C01_relied_is_covered applies to it), conditions and subject passed; and
   a signature that is present is verified under every setting.  TESTED: unit parse_plain (model vs
   parse_authn_request_response on 1..3 plain assertions + an empty EncryptedAssertion) and the oracle
   identity-from-unchecked-assertion:* on the whole walk. *)
Theorem C01_identity_from_individually_checked_assertions : forall req l asl ava nm,
  parse_assertions req l = Some (asl, ava, nm) ->
  asl = l /\ Forall (fun a => assertion_checked req a = true) l /\
  (forall kv, In kv ava -> exists a, In a l /\ assertion_checked req a = true /\ In kv (a_ident a)) /\
  (forall n, nm = Some n -> exists a, In a l /\ assertion_checked req a = true /\ a_name a = n).
Proof. exact identity_from_checked. Qed.
Print Assumptions C01_identity_from_individually_checked_assertions.

Theorem C01_checked_means_verified : forall a,
  (assertion_checked true a = true -> a_signed a = true /\ a_sig_ok a = true /\ a_cond_ok a = true) /\
  (forall req, assertion_checked req a = true -> a_signed a = true -> a_sig_ok a = true).
Proof. intros a. split; [apply checked_required_means_verified|intros req; apply signed_is_verified_whatever_setting]. Qed.
Print Assumptions C01_checked_means_verified.

(* a loop that looks at the first plain assertion only (NOT the code): genuine first, an unsigned one behind it *)
Definition genuineA := {| a_signed := true; a_sig_ok := true; a_cond_ok := true; a_name := s2l "alice"; a_ident := [(s2l "givenName", [s2l "Alice"])] |}.
Definition forgedU := {| a_signed := false; a_sig_ok := false; a_cond_ok := true; a_name := s2l "admin"; a_ident := [(s2l "givenName", [s2l "Mallory"])] |}.
Theorem C01_first_assertion_only_refuted :
  parse_assertions true [genuineA; forgedU] = None /\
  exists asl ava nm, parse_first_only true [genuineA; forgedU] = Some (asl, ava, nm) /\
    In (s2l "givenName", [s2l "Mallory"]) ava /\
    ~ (exists a, In a asl /\ assertion_checked true a = true /\ In (s2l "givenName", [s2l "Mallory"]) (a_ident a)).
Proof.
  split; [vm_compute; reflexivity|].
  eexists _, _, _. split; [vm_compute; reflexivity|split; [vm_compute; left; reflexivity|]].
  intros (a & [<-|[<-|[]]] & Hc & Hin); vm_compute in Hc, Hin; [|discriminate].
  destruct Hin as [H|[]]. discriminate.
Qed.
Print Assumptions C01_first_assertion_only_refuted.

Example C01_multi_genuine_accepted :
  exists r, parse_assertions true [genuineA; genuineA] = Some r.
Proof. eexists. vm_compute. reflexivity. Qed.
Print Assumptions C01_multi_genuine_accepted.
