(* Props/C01.v — placeholder while the harness is brought up *)
From PV Require Import Lib.Base Model.Xsw.
Example C01_placeholder : precheck (El 1 None 1 []) 1 None = false.
Proof. reflexivity. Qed.
Print Assumptions C01_placeholder.
