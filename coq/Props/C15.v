(* Props/C15.v — redirect-binding signatures bind the exact query and the signer's own key.
   All statements are about [actual]: the tables regenerated from /repo on this run
   (pack/sigver REQ_ORDER and RESP_ORDER, the SIGNER_ALGS key set and digests, SIG_ALLOWED_ALG,
   and which urlencode each module imported).  RSA is symbolic (unforgeability is the assumption:
   a Signature value that verifies is one somebody made with that key over that octet string). *)
From PV Require Import Lib.Base Model.Codec Model.Redirect Proofs.Base64_lemmas Proofs.Url_lemmas Proofs.Redirect_lemmas.
Open Scope N_scope.

(* ---- table obligations on the regenerated tables ---- *)
(* signing and verifying iterate over the same order; both orders contain the message parameter,
   RelayState and SigAlg and not the other kind's message parameter; every SIGNER_ALGS key passes
   http_redirect_message's assert *)
Theorem C15_tables : tables_ok actual = true.
Proof. vm_compute. reflexivity. Qed.
Print Assumptions C15_tables.

(* the supported algorithms are the documented five, each URI with its own digest *)
Theorem C15_alg_table_documented : algs_documented actual = true.
Proof. vm_compute. reflexivity. Qed.
Print Assumptions C15_alg_table_documented.

Definition supported (alg : str) : Prop := In alg (map fst (t_algs actual)).

(* ---- (1a) signed by key k => verifies under certificate k ----
   FULL STATEMENT (every message value and RelayState):
     forall stv e sk k typ m rs alg ov, msg_typ typ -> supported alg -> sh_get stv alg = Some ov ->
       verifies (verify_redirect_signature actual stv e
                   (signed_query actual k (so_digest ov) typ m rs alg) (Some k) sk) = true.
   It is REFUTED on the unchanged code: pack.py signs with urllib.parse.urlencode (tilde left
   alone) while sigver.py rebuilds the string with future.backports.urllib.parse.urlencode
   (tilde percent-encoded), so a RelayState containing a tilde never verifies. *)
Definition own_cert_full (T : tables) : Prop :=
  forall stv e sk k typ m rs alg ov, msg_typ typ -> In alg (map fst (t_algs T)) -> sh_get stv alg = Some ov ->
    verifies (verify_redirect_signature T stv e (signed_query T k (so_digest ov) typ m rs alg) (Some k) sk) = true.

(* stated under the regenerated fact that the two modules use different encoders (true today: see
   C15_encoder_status), so that the file keeps compiling once the import is repaired *)
Theorem C15_own_cert_verifies_refuted :
  t_sign_tilde actual <> t_verify_tilde actual ->
  exists stv e sk k typ m rs alg ov, msg_typ typ /\ supported alg /\ sh_get stv alg = Some ov /\
    verifies (verify_redirect_signature actual stv e
                (signed_query actual k (so_digest ov) typ m rs alg) (Some k) sk) = false.
Proof.
  intros Hdiff.
  first [ exfalso; apply Hdiff; reflexivity
        | exists (init_shared actual), (Some 2), None, 1, K_REQ, (s2l "eJwrSS0uAQAEXQHB"), (s2l "a~b"),
                 (s2l "http://www.w3.org/2001/04/xmldsig-more#rsa-sha256"),
                 {| so_digest := s2l "sha256"; so_key := None |};
          vm_compute; repeat split; try reflexivity; [left; reflexivity | right; right; left; reflexivity] ].
Qed.
Print Assumptions C15_own_cert_verifies_refuted.

(* PARTIAL: it holds for every supported algorithm, requests and responses, every verifier state,
   whenever message value and RelayState contain no tilde *)
Theorem C15_own_cert_verifies_partial :
  forall stv e sk k typ m rs alg ov, msg_typ typ -> supported alg -> sh_get stv alg = Some ov ->
    no_tilde m -> no_tilde rs ->
    verifies (verify_redirect_signature actual stv e
                (signed_query actual k (so_digest ov) typ m rs alg) (Some k) sk) = true.
Proof.
  intros stv e sk k typ m rs alg ov Ht Ha Hg Hm Hr.
  apply (own_cert_verifies actual C15_tables); try assumption. right. now split.
Qed.
Print Assumptions C15_own_cert_verifies_partial.

(* and the full statement follows for any tables in which both modules use the same encoder
   (what remains to instantiate once the import is repaired) *)
Theorem C15_own_cert_verifies_if_same_encoder :
  forall T, tables_ok T = true -> t_sign_tilde T = t_verify_tilde T -> own_cert_full T.
Proof. intros T HT He stv e sk k typ m rs alg ov Ht Ha Hg. apply own_cert_verifies; try assumption. now left. Qed.
Print Assumptions C15_own_cert_verifies_if_same_encoder.

(* which of the two situations the source is in NOW (decided on the regenerated flags): the encoders differ
   (the refutation above is not vacuous), or they agree and the FULL statement is proved *)
Theorem C15_encoder_status :
  t_sign_tilde actual <> t_verify_tilde actual \/
  (t_sign_tilde actual = t_verify_tilde actual /\ own_cert_full actual).
Proof.
  first [ left; vm_compute; discriminate
        | right; split; [reflexivity | exact (C15_own_cert_verifies_if_same_encoder actual C15_tables eq_refl)] ].
Qed.
Print Assumptions C15_encoder_status.

(* what http_redirect_message returns when the handle's shared object holds key k IS that signed query *)
Theorem C15_sign_produces :
  forall st typ m rs alg o k h, msg_typ typ -> supported alg -> sh_get st (fst h) = Some o -> handle_key actual o h = Some k ->
    http_redirect_message actual st typ m rs alg (Some h) = Ok (signed_query actual k (so_digest o) typ m rs alg).
Proof.
  intros st typ m rs alg o k h Ht Ha Hg Hk. apply sign_produces; try assumption.
  now destruct (supported_facts actual C15_tables alg Ha).
Qed.
Print Assumptions C15_sign_produces.

(* ---- (1b,c) binding: ANY query that carries this Signature value and verifies under ANY certificate c,
   in any verifier state, by any verifying entity, has c = the signing key and exactly the signed
   message value, RelayState (present with that value / absent), SigAlg, and is read as the same
   kind (request / response).  All strings: by injectivity of the octet-string construction. ---- *)
Theorem C15_binds_query :
  forall stv e sk k d typ m rs alg q' c,
    msg_typ typ -> Forall byte m -> Forall byte rs -> Forall byte alg -> Forall bytes_pair (q_params q') ->
    q_sig q' = q_sig (signed_query actual k d typ m rs alg) ->
    verifies (verify_redirect_signature actual stv e q' (Some c) sk) = true ->
    c = k /\
    lookup typ (q_params q') = Some m /\
    lookup K_RS (q_params q') = (if is_nil rs then None else Some rs) /\
    lookup K_ALG (q_params q') = Some alg /\
    has K_REQ (q_params q') = str_eqb typ K_REQ.
Proof. exact (binds_query actual C15_tables). Qed.
Print Assumptions C15_binds_query.

(* under no other certificate *)
Theorem C15_no_other_cert :
  forall stv e sk k d typ m rs alg c,
    msg_typ typ -> Forall byte m -> Forall byte rs -> Forall byte alg -> c <> k ->
    verifies (verify_redirect_signature actual stv e (signed_query actual k d typ m rs alg) (Some c) sk) = false.
Proof.
  intros stv e sk k d typ m rs alg c Ht Hm Hr Ha Hc.
  destruct (verifies _) eqn:V; [|reflexivity]. exfalso. apply Hc.
  assert (Forall bytes_pair (q_params (signed_query actual k d typ m rs alg))) as Hb
    by (cbn [signed_query q_params]; now apply (args0_bytes actual C15_tables)).
  now destruct (binds_query actual C15_tables stv e sk k d typ m rs alg _ c Ht Hm Hr Ha Hb eq_refl V).
Qed.
Print Assumptions C15_no_other_cert.

(* every single-parameter mutation: message changed, RelayState changed / added / removed, SigAlg changed
   or removed, request relabelled as response (or the reverse) => does not verify, under any certificate *)
Theorem C15_any_mutation_fails :
  forall stv e sk k d typ m rs alg q' c,
    msg_typ typ -> Forall byte m -> Forall byte rs -> Forall byte alg -> Forall bytes_pair (q_params q') ->
    q_sig q' = q_sig (signed_query actual k d typ m rs alg) ->
    (lookup typ (q_params q') <> Some m \/
     lookup K_RS (q_params q') <> (if is_nil rs then None else Some rs) \/
     lookup K_ALG (q_params q') <> Some alg \/
     has K_REQ (q_params q') <> str_eqb typ K_REQ) ->
    verifies (verify_redirect_signature actual stv e q' (Some c) sk) = false.
Proof.
  intros stv e sk k d typ m rs alg q' c Ht Hm Hr Ha Hq Hs Hmut.
  destruct (verifies _) eqn:V; [|reflexivity]. exfalso.
  destruct (binds_query actual C15_tables stv e sk k d typ m rs alg q' c Ht Hm Hr Ha Hq Hs V) as (_ & B1 & B2 & B3 & B4).
  destruct Hmut as [H|[H|[H|H]]]; contradiction.
Qed.
Print Assumptions C15_any_mutation_fails.

(* unsupported or missing algorithm never verifies; neither does a missing / foreign Signature value *)
Theorem C15_unsupported_never_verifies :
  forall st e q cert sk,
    (lookup K_ALG (q_params q) = None \/ exists a, lookup K_ALG (q_params q) = Some a /\ sh_get st a = None) ->
    verifies (verify_redirect_signature actual st e q cert sk) = false.
Proof. exact (verify_unsupported actual). Qed.
Print Assumptions C15_unsupported_never_verifies.

Theorem C15_needs_signature :
  forall st e q cert sk, (forall s, q_sig q <> Some (SigOf s)) ->
    verifies (verify_redirect_signature actual st e q cert sk) = false.
Proof. exact (verify_needs_signature actual). Qed.
Print Assumptions C15_needs_signature.

(* in every reachable state the supported algorithms are exactly the regenerated SIGNER_ALGS keys *)
Theorem C15_supported_set_is_static :
  forall tr a, sh_get (exec actual (init_shared actual) tr) a = None <-> ~ supported a.
Proof.
  intros tr a. rewrite (exec_domain actual tr). unfold supported, init_shared.
  induction (t_algs actual) as [|[u d] l IH]; cbn [map sh_get fst snd In].
  - split; [tauto|reflexivity].
  - destruct (str_eqb_spec a u) as [->|Hne].
    + split; [discriminate|]. intros H. exfalso. apply H. now left.
    + rewrite IH. split; [intros H [E|E]; [congruence|contradiction]|tauto].
Qed.
Print Assumptions C15_supported_set_is_static.

(* a certificate text that cannot be read as a certificate is "another certificate" too: it never verifies,
   whoever verifies (in particular an entity holding the very key that signed), whatever sigkey is given *)
Theorem C15_unreadable_cert_never_verifies :
  forall T st e q sk, verifies (verify_presented T st e q PUnreadable sk) = false.
Proof.
  intros T st e q sk. unfold verifies, verify_presented.
  destruct (verify_redirect_signature T st e q None sk) as [st' [[[|]|]|err]]; cbn [snd fst]; try reflexivity.
  destruct (str_eqb err KeyError || str_eqb err Unsupported); reflexivity.
Qed.
Print Assumptions C15_unreadable_cert_never_verifies.

(* ---- (2) schedules ----
   t_shared actual (regenerated: measured on the real objects on every run) says whether get_signer hands out
   the module-level signer object and stores the caller's key on it (true today) or a fresh object per call.
   The statements about the shared-object behaviour carry that fact as a hypothesis so that this file keeps
   compiling after a repair; C15_schedule_status says which situation holds NOW. *)
(* pre and mid range over ALL operations of the alphabet, by any entity (e itself included): ordinary get_signer,
   get_signer WITH a sigkey (a foreign key), sign, verify with or without a sigkey.  The handle under test is the one
   an ORDINARY get_signer call returned to e. *)
Definition own_key_full (T : tables) : Prop :=
  forall st pre e a h mid typ m rs sigalg q,
    snd (step T (exec T st pre) (OGet e a None)) = OutHandle (Some h) ->
    snd (step T (exec T st (pre ++ OGet e a None :: mid)) (OSign e typ m rs sigalg (Some h))) = OutSigned (Ok q) ->
    used_key (Ok q) = e.

(* Exact behaviour of the unchanged code, for EVERY trace (any entities, any length, any interleaving;
   induction over the trace): a Sign step uses the key LAST STORED for its algorithm by anybody. *)
Theorem C15_sign_uses_last_writer :
  t_shared actual = true ->
  forall st tr e typ m rs sigalg h q,
    snd (step actual (exec actual st tr) (OSign e typ m rs sigalg (Some h))) = OutSigned (Ok q) ->
    exists o, sh_get st (fst h) = Some o /\
              used_key (Ok q) = match last_write (fst h) tr None with Some v => v | None => so_key o end.
Proof. intros SH st tr e typ m rs sigalg h q. exact (sign_uses_last_writer actual st tr e typ m rs sigalg h q SH). Qed.
Print Assumptions C15_sign_uses_last_writer.

(* FULL STATEMENT = own_key_full actual (the signer's own key whatever others do between obtaining the
   handle and signing).  REFUTED on the unchanged code by the three-step schedule
       A.get_signer ; B.get_signer ; A.sign
   (RSACrypto.get_signer stores the caller's key on the module-level shared RSASigner): A's URL is signed
   with B's key.  The same with B verifying in between. *)
Definition ALG256 : str := s2l "http://www.w3.org/2001/04/xmldsig-more#rsa-sha256".
Definition keyA : keyid := 1.
Definition keyB : keyid := 2.
Theorem C15_own_key_any_schedule_refuted :
  t_shared actual = true ->
  exists st pre e a h mid typ m rs sigalg q,
    snd (step actual (exec actual st pre) (OGet e a None)) = OutHandle (Some h) /\
    snd (step actual (exec actual st (pre ++ OGet e a None :: mid)) (OSign e typ m rs sigalg (Some h))) = OutSigned (Ok q) /\
    used_key (Ok q) <> e /\
    (* and that URL verifies under the OTHER entity's certificate, not under the signer's *)
    verifies (verify_redirect_signature actual (init_shared actual) None q (Some keyB) None) = true /\
    verifies (verify_redirect_signature actual (init_shared actual) None q (Some keyA) None) = false.
Proof.
  intros SH.
  first [ discriminate SH
        | exists (init_shared actual), [], (Some keyA), ALG256, (ALG256, Some keyA), [OGet (Some keyB) ALG256 None],
                 K_REQ, (s2l "eJwrSS0uAQAEXQHB"), (s2l "rs"), ALG256;
          eexists; split; [vm_compute; reflexivity|]; split; [vm_compute; reflexivity|];
          split; [vm_compute; discriminate|]; split; vm_compute; reflexivity ].
Qed.
Print Assumptions C15_own_key_any_schedule_refuted.

Theorem C15_own_key_verify_between_refuted :
  t_shared actual = true ->
  exists q0 q,
    snd (step actual (exec actual (init_shared actual)
           [OGet (Some keyA) ALG256 None; OVerify (Some keyB) q0 (Some keyA) None])
           (OSign (Some keyA) K_REQ (s2l "eJwrSS0uAQAEXQHB") [] ALG256 (Some (ALG256, Some keyA)))) = OutSigned (Ok q) /\
    used_key (Ok q) = Some keyB.
Proof.
  intros SH.
  first [ discriminate SH
        | exists {| q_params := [(K_REQ, s2l "x"); (K_ALG, ALG256)]; q_sig := Some (SigJunk true) |};
          eexists; split; vm_compute; reflexivity ].
Qed.
Print Assumptions C15_own_key_verify_between_refuted.

(* PARTIAL: own key, for every trace in which no step between obtaining the handle and signing stores
   a different key for that algorithm (e.g. one key per process, or get_signer+sign not interleaved) *)
Theorem C15_own_key_partial :
  t_shared actual = true ->
  forall st pre e a h mid typ m rs sigalg q,
    Forall (keeps a e) mid ->
    snd (step actual (exec actual st pre) (OGet e a None)) = OutHandle (Some h) ->
    snd (step actual (exec actual st (pre ++ OGet e a None :: mid)) (OSign e typ m rs sigalg (Some h))) = OutSigned (Ok q) ->
    used_key (Ok q) = e.
Proof.
  intros SH st pre e a h mid typ m rs sigalg q Hmid Hh H. apply get_handle_shape in Hh. subst h.
  exact (own_key_partial actual st pre e a (or_key None e) mid typ m rs sigalg q SH Hmid H).
Qed.
Print Assumptions C15_own_key_partial.

(* the FULL statement for any tables in which get_signer returns a fresh signer object per call *)
Theorem C15_own_key_any_schedule_if_fresh_signer : forall T, t_shared T = false -> own_key_full T.
Proof. intros T F st pre e a h mid typ m rs sigalg q Hh H. exact (own_key_fresh T _ e a h F Hh _ typ m rs sigalg q H). Qed.
Print Assumptions C15_own_key_any_schedule_if_fresh_signer.

(* which situation the source is in NOW: shared signer objects (the refutations above are not vacuous),
   or fresh ones and the FULL statement is proved for the actual tables *)
Theorem C15_schedule_status :
  t_shared actual = true \/ (t_shared actual = false /\ own_key_full actual).
Proof.
  first [ left; reflexivity
        | right; split; [reflexivity | exact (C15_own_key_any_schedule_if_fresh_signer actual eq_refl)] ].
Qed.
Print Assumptions C15_schedule_status.

(* ---- the FULL statements for the source as it is NOW (after the two fix: commits in /repo, see
   known_findings.json "fixed").  They are re-checked against the regenerated flags on every run: if
   get_signer goes back to the shared object, or the two modules' encoders drift apart again, these two
   obligations break (and the _refuted witnesses above stop being vacuous). ---- *)
Theorem C15_own_key_any_schedule : own_key_full actual.
Proof. apply C15_own_key_any_schedule_if_fresh_signer. vm_compute. reflexivity. Qed.
Print Assumptions C15_own_key_any_schedule.

Theorem C15_own_cert_verifies : own_cert_full actual.
Proof. apply C15_own_cert_verifies_if_same_encoder; [exact C15_tables | vm_compute; reflexivity]. Qed.
Print Assumptions C15_own_cert_verifies.

(* ---- (2') histories that contain sigkey operations, also as the FIRST use of an algorithm by an entity ---- *)
(* a handle asked for with a sigkey signs with that sigkey, one asked for without signs with the caller's key: in any
   later state, whoever (e' - the handle may be passed on) signs with it *)
Theorem C15_handle_key_is_the_requested_one :
  forall st0 e a sk h, snd (step actual st0 (OGet e a sk)) = OutHandle (Some h) ->
  forall st e' typ m rs sigalg q,
    snd (step actual st (OSign e' typ m rs sigalg (Some h))) = OutSigned (Ok q) -> used_key (Ok q) = or_key sk e.
Proof. intros st0 e a sk h. apply handle_key_fresh. vm_compute. reflexivity. Qed.
Print Assumptions C15_handle_key_is_the_requested_one.

(* positions in ONE trace over the whole alphabet: whatever else the trace contains (before, between, after; sigkey
   calls of the same entity on the same algorithm included), a Sign step made with the handle that an earlier ordinary
   get_signer step of the trace returned to e carries e's key *)
Theorem C15_every_sign_in_trace_uses_own_key :
  forall tr st i j e a h typ m rs sigalg q,
    nth_error tr i = Some (OGet e a None) -> nth_error (run actual st tr) i = Some (OutHandle (Some h)) ->
    nth_error tr j = Some (OSign e typ m rs sigalg (Some h)) -> nth_error (run actual st tr) j = Some (OutSigned (Ok q)) ->
    used_key (Ok q) = e.
Proof. intros tr st i j e a h typ m rs sigalg q. apply trace_signs_own. vm_compute. reflexivity. Qed.
Print Assumptions C15_every_sign_in_trace_uses_own_key.

(* apply_binding(sign=True, sigalg=alg) after ANY history (any trace over the whole alphabet from any state): what it
   signs, it signs with the caller's own key.  Holds for both kinds of tables (get_signer and sign are back to back). *)
Theorem C15_apply_binding_own_key_after_any_history :
  forall T tr st e resp m rs alg q,
    snd (apply_binding_redirect T (exec T st tr) e resp m rs true (Some alg)) = Ok q -> q_sig q <> None ->
    used_key (Ok q) = e.
Proof. intros T tr st. apply apply_binding_own_key. Qed.
Print Assumptions C15_apply_binding_own_key_after_any_history.

(* the observable the schedule unit compares on every run: in EVERY script (sequence of get_signer / get_signer with a
   sigkey / sign / sign with the sigkey handle / apply_binding / verify with or without a sigkey, by any entities) every
   ordinary Sign and apply_binding step shows the acting entity's own key, nothing signed, or an exception *)
Theorem C15_script_signs_with_own_key :
  forall s, Forall2 own_step s (run_script actual (init_shared actual) [] [] s).
Proof. intros s. apply script_own; [vm_compute; reflexivity | intros e a h H; discriminate H]. Qed.
Print Assumptions C15_script_signs_with_own_key.

(* no operation of any entity ever writes the process-wide table: there is no shared mutable signing state, so the
   outcome of a step cannot depend on how finely the steps of concurrent entities are interleaved *)
Theorem C15_no_shared_write : forall tr st, exec actual st tr = st.
Proof. intros tr st. apply exec_fresh. vm_compute. reflexivity. Qed.
Print Assumptions C15_no_shared_write.

(* had get_signer stored the key on the shared object, a sigkey call by ANOTHER entity between get and sign would
   have made A sign with the foreign key K (here K = key 3, which is neither A's nor B's) *)
Theorem C15_own_key_sigkey_between_refuted :
  t_shared actual = true ->
  exists q,
    snd (step actual (exec actual (init_shared actual) [OGet (Some keyA) ALG256 None; OGet (Some keyB) ALG256 (Some 3)])
           (OSign (Some keyA) K_REQ (s2l "eJwrSS0uAQAEXQHB") [] ALG256 (Some (ALG256, Some keyA)))) = OutSigned (Ok q) /\
    used_key (Ok q) = Some 3.
Proof.
  intros SH. first [ discriminate SH | eexists; split; vm_compute; reflexivity ].
Qed.
Print Assumptions C15_own_key_sigkey_between_refuted.

(* ---- non-vacuity: a signed request with RelayState, made through apply_binding by A after B used the
   table, verifies under A, not under B; mutations fail; the hypotheses above are satisfiable ---- *)
Example C15_example :
  let st0 := exec actual (init_shared actual) [OGet (Some keyB) ALG256 None; OGet (Some keyA) ALG256 (Some keyB)] in
  let '(st1, r) := apply_binding_redirect actual st0 (Some keyA) false (s2l "eJwrSS0uAQAEXQHB") (s2l "a b&c") true (Some ALG256) in
  match r with
  | Ok q =>
      used_key r = Some keyA /\
      verifies (verify_redirect_signature actual st1 (Some keyB) q (Some keyA) None) = true /\
      verifies (verify_redirect_signature actual st1 (Some keyB) q (Some keyB) None) = false /\
      verifies (verify_redirect_signature actual st1 (Some keyB)
                  {| q_params := [(K_REQ, s2l "eJwrSS0uAQAEXQHB"); (K_ALG, ALG256)]; q_sig := q_sig q |} (Some keyA) None) = false /\
      supported ALG256 /\ msg_typ K_REQ /\
      Forall (keeps ALG256 (Some keyA)) [OGet (Some keyB) (s2l "http://www.w3.org/2000/09/xmldsig#rsa-sha1") None; OGet (Some keyA) ALG256 None; OGet (Some keyB) ALG256 (Some keyA)]
  | Err _ => False
  end.
Proof.
  vm_compute. repeat split; try reflexivity.
  - right; right; left; reflexivity.
  - left; reflexivity.
  - repeat constructor; intros v H; vm_compute in H; congruence.
Qed.
Print Assumptions C15_example.

(* GLUE to C14 (Proofs/Glue_quote.v, docs/Glue.md): the percent-encoder of this file is C14's - identical with the
   tilde flag on (today's tables), identical on every query without a tilde otherwise; its round trip is an instance
   of the single round-trip theorem over Codec.quote_byte (Glue_quote_round_trip_single_source in Props/Glue.v). *)
From PV Require Proofs.Glue_quote.
Theorem C15_urlencode_is_C14_urlencode :
  forall ts ps, ts = true \/ Forall no_tilde_pair ps -> urlencode_g ts ps = urlencode ps.
Proof. exact Glue_quote.urlencode_g_is_codec_urlencode. Qed.
Print Assumptions C15_urlencode_is_C14_urlencode.
