(* Props/C11.v — no XML entry point resolves entities, DTD content or external
   resources; malformed input never yields a partially populated object.

   xml_sites / et_uses are TODAY's inventory, regenerated from
   /repo/src/saml2_tophat by harness/translate_c11.py on every run: the first
   theorem is re-checked by the kernel against the current source each time.
   Rows tagged OptionalBackend are the calls lexically inside
   class CryptoBackendXMLSecurity (sigver.py), the optional pyXMLSecurity
   backend whose modules (xmlsec, lxml) are not installed: they are required
   to resolve to exactly those modules and are otherwise EXCLUDED from the
   defused requirement (cannot be run or shown to fail here). *)
From PV Require Import Lib.Base Model.XmlEntry Gen.XmlSites Proofs.XmlEntry_lemmas.
Open Scope N_scope.

(* (1) every reader site outside the optional backend is a call that resolves
   into defusedxml and passes nothing that weakens it; optional-backend rows
   resolve to xmlsec / lxml; every use of a stdlib ElementTree alias is a
   building / serialising name.  No row is Unknown, a re-binding, or a dynamic
   import of an XML module. *)
Theorem C11_every_site_defused :
  (forall s, In s xml_sites ->
     s_kind s = KCall /\
     match s_tag s with
     | Core => exists m, s_module s = Some m /\ is_defused_module m = true /\ weakened s = false
     | OptionalBackend => exists m, s_module s = Some m /\ is_optional_module m = true
     end) /\
  (forall u, In u et_uses -> In (u_attr u) et_building_names).
Proof.
  split; [|exact every_use_building].
  intros s Hin. pose proof (every_site_ok s Hin) as Hok.
  destruct (s_tag s) eqn:Ht.
  - destruct (site_ok_core s Hok Ht) as [Hk Hm]. split; assumption.
  - split; [|exact (site_ok_optional s Hok Ht)].
    unfold site_ok in Hok. destruct (s_kind s); try discriminate. reflexivity.
Qed.
Print Assumptions C11_every_site_defused.

(* what "nothing that weakens it" means, spelled out *)
Theorem C11_not_weakened_meaning :
  forall s, weakened s = false ->
    s_star s = false /\ (s_npos s <= 1) /\
    forall k v, In (k, v) (s_kws s) ->
      (k = s2l "forbid_dtd" /\ v <> KwOther) \/
      ((k = s2l "forbid_entities" \/ k = s2l "forbid_external") /\ v = KwTrue).
Proof. exact weakened_false. Qed.
Print Assumptions C11_not_weakened_meaning.

(* (2) for EVERY event list: the defused reader performs no IO action; an
   entity declaration anywhere makes it fail, with EntitiesForbidden when the
   declaration is met in the prolog (where XML allows it); success implies the
   input had no entity declaration, external reference, entity reference or
   well-formedness error at all. *)
Theorem C11_defused_no_io :
  (forall evs, io_of defused evs = []) /\
  (forall evs, existsb is_entity_decl evs = true -> forall t, parse defused evs <> Ok t) /\
  (forall pre n k post, forallb prolog_ev pre = true ->
     parse defused (pre ++ EntityDecl n k :: post) = Err EntitiesForbidden) /\
  (forall evs t, parse defused evs = Ok t -> forallb (fun e => negb (hostile e)) evs = true).
Proof.
  split; [exact defused_no_io|]. split; [exact defused_entity_decl_rejected|].
  split; [exact defused_entity_decl_class|exact defused_ok_benign].
Qed.
Print Assumptions C11_defused_no_io.

(* no reader that does not fetch performs IO; one that fetches does; the stdlib
   reader expands declared entities - the inventory theorem is what keeps the
   package on the first kind *)
Theorem C11_reader_kinds_differ :
  (forall r, on_external r <> ExtFetch -> forall evs, io_of r evs = []) /\
  (exists evs, io_of fetching evs <> []) /\
  (exists evs, expands stdlib_et evs = true /\ exists t, parse stdlib_et evs = Ok t) /\
  (forall evs, expands defused evs = true -> False).
Proof.
  split; [exact no_fetch_no_io|]. split.
  - eexists. rewrite fetching_does_io. discriminate.
  - split.
    + eexists. split; [exact (proj1 stdlib_et_expands)|]. eexists. exact (proj2 stdlib_et_expands).
    + intros evs H. unfold expands in H.
      destruct (fst (run_from defused st0 evs)) as [st|x] eqn:Hr; [|discriminate].
      pose proof (defused_run_ok_benign evs st0 st eq_refl Hr) as Hb.
      (* expanded is only ever set by an EntityRef step, which is hostile *)
      clear -H Hr Hb. revert Hr H Hb.
      assert (expanded st0 = false) as H0 by reflexivity. revert H0. generalize st0.
      induction evs as [|e evs IH]; intros s0 H0 Hr H Hb; cbn [run_from] in Hr.
      * inversion Hr; subst. congruence.
      * destruct (step defused s0 e) as [s1|x] eqn:Hs; [|discriminate].
        cbn [forallb] in Hb. apply andb_true_iff in Hb as [He Hb].
        apply (IH s1); try assumption.
        destruct e; cbn [step defused on_entity on_external] in Hs; try discriminate; cbn in He; try discriminate.
        -- inversion Hs; subst; exact H0.
        -- inversion Hs; subst; exact H0.
        -- destruct (root_done s0); inversion Hs; subst; exact H0.
        -- destruct (stack s0) as [|f [|p rest]]; inversion Hs; subst; exact H0.
        -- unfold text_event in Hs. destruct (stack s0); [destruct (forallb is_ws s)|]; inversion Hs; subst; exact H0.
Qed.
Print Assumptions C11_reader_kinds_differ.

(* (3) every public parse function of the model returns Err, None / no-body,
   or an object harvested from the tree of a successful parse of the WHOLE
   input; and such a parse means: balanced, no well-formedness error anywhere,
   (defused) no hostile event anywhere.  There is no path that returns an
   object after a parse error. *)
Definition complete_benign (evs : list ev) : Prop :=
  depth_after 0 evs = Some 0%nat /\ existsb is_malformed evs = false /\
  forallb (fun e => negb (hostile e)) evs = true.

Lemma defused_ok_complete evs t : parse defused evs = Ok t -> complete_benign evs.
Proof.
  intros H. split; [exact (parse_ok_balanced _ _ _ H)|].
  split; [exact (parse_ok_not_malformed _ _ _ H)|exact (defused_ok_benign _ _ H)].
Qed.
Print Assumptions defused_ok_complete.

Theorem C11_no_partial_object :
  (forall sch cid evs,
     match create_class_from_xml_string defused sch cid evs with
     | Err _ => True
     | Ok None => True
     | Ok (Some o) => exists t, parse defused evs = Ok t /\ o = harvest sch cid t /\ complete_benign evs
     end) /\
  (forall evs,
     match extension_element_from_string defused evs with
     | Err _ => True
     | Ok x => parse defused evs = Ok x /\ complete_benign evs
     end) /\
  (forall exp evs,
     match parse_soap_enveloped_saml_thingy defused exp evs with
     | Err _ => True
     | Ok NoBody => True
     | Ok (Part s) => exists envl body, parse defused evs = Ok envl /\ In body (xkids envl) /\
                                        xkids body = [s] /\ In (xtag s) exp /\ complete_benign evs
     end) /\
  (forall evs,
     match open_soap_envelope defused evs with
     | Err _ => True
     | Ok _ => exists envl, parse defused evs = Ok envl /\ complete_benign evs
     end) /\
  (* a parse error is never swallowed by any of them *)
  (forall sch cid exp evs e, parse defused evs = Err e ->
     create_class_from_xml_string defused sch cid evs = Err e /\
     extension_element_from_string defused evs = Err e /\
     parse_soap_enveloped_saml_thingy defused exp evs = Err e /\
     open_soap_envelope defused evs = Err (s2l "XmlParseError")).
Proof.
  split.
  { intros sch cid evs. destruct (create_class_from_xml_string defused sch cid evs) as [[o|]|e] eqn:H; try exact I.
    apply create_class_ok in H as (t & row & Hp & _ & _ & Ho).
    exists t. split; [exact Hp|]. split; [exact Ho|exact (defused_ok_complete _ _ Hp)]. }
  split.
  { intros evs. unfold extension_element_from_string.
    destruct (parse defused evs) as [x|e] eqn:H; [|exact I].
    split; [reflexivity|exact (defused_ok_complete _ _ H)]. }
  split.
  { intros exp evs. destruct (parse_soap_enveloped_saml_thingy defused exp evs) as [[|s]|e] eqn:H; try exact I.
    apply soap_thingy_ok in H as (envl & body & Hp & _ & Hin & _ & Hk & Hx).
    exists envl, body. repeat split; try assumption; apply (defused_ok_complete _ _ Hp). }
  split.
  { intros evs. destruct (open_soap_envelope defused evs) as [res|e] eqn:H; [|exact I].
    apply open_soap_ok in H as (envl & Hp & _). exists envl. split; [exact Hp|exact (defused_ok_complete _ _ Hp)]. }
  intros sch cid exp evs e H. split; [exact (create_class_err _ _ _ _ _ H)|].
  split; [exact H|]. split; [exact (soap_thingy_err _ _ _ _ H)|].
  unfold open_soap_envelope. rewrite H. reflexivity.
Qed.
Print Assumptions C11_no_partial_object.

(* TRUNCATION at every structural boundary, for every document and every
   reader kind: if the whole input is accepted, then every prefix that stops
   while a start or end tag is still to come is rejected - so no entry point
   can return an object for it (previous theorem, last clause). *)
Theorem C11_truncation_rejected :
  forall r evs t k,
    parse r evs = Ok t ->
    existsb is_elem_ev (skipn k evs) = true ->
    parse r (firstn k evs) = Err ParseError /\
    forall sch cid, create_class_from_xml_string r sch cid (firstn k evs) = Err ParseError.
Proof.
  intros r evs t k Hp Hk. pose proof (truncation_rejected r evs t k Hp Hk) as H.
  split; [exact H|]. intros sch cid. exact (create_class_err _ _ _ _ _ H).
Qed.
Print Assumptions C11_truncation_rejected.

(* hypotheses are satisfiable: a two-level response is accepted and fully
   harvested; its entity-carrying variants and each of its cuts are refused;
   today's inventory really contains a defused core site *)
Definition ex_sch : schema :=
  [ (s2l "Response", {| c_qname := s2l "{p}Response"; c_attributes := [s2l "ID"];
                        c_children := [(s2l "{p}Status", (s2l "Status", false))] |});
    (s2l "Status", {| c_qname := s2l "{p}Status"; c_attributes := []; c_children := [] |}) ].
Definition ex_doc : list ev :=
  [ PI; StartElem (s2l "{p}Response") [(s2l "ID", s2l "x"); (s2l "other", s2l "y")]; Text (s2l "t");
    StartElem (s2l "{p}Status") []; EndElem; StartElem (s2l "{q}Ext") []; EndElem; EndElem ].
Example C11_example :
  show_create (create_class_from_xml_string defused ex_sch (s2l "Response") ex_doc)
    = VL [VN 3; VN 2; VS (s2l "t")] /\
  create_class_from_xml_string defused ex_sch (s2l "Status") ex_doc = Ok None /\
  create_class_from_xml_string defused ex_sch (s2l "Response")
    (Doctype None :: EntityDecl (s2l "e") (GenInternal (s2l "v")) :: ex_doc) = Err EntitiesForbidden /\
  forallb (fun k => negb (is_ok (parse defused (firstn k ex_doc)))) (seq 0 8) = true /\
  is_ok (parse defused (firstn 8 ex_doc)) = true /\
  existsb is_core_defused xml_sites = true.
Proof. vm_compute. repeat split; reflexivity. Qed.
Print Assumptions C11_example.
