(* Props/C04.v — assertions are honoured only inside their validity windows.
   Times are whole seconds (the code truncates fractions before comparing). *)
From PV Require Import Lib.Base Model.Status Model.Response Model.C04Kinds Proofs.Response_lemmas Proofs.C04_lemmas Proofs.C04_kinds.
Open Scope Z_scope.

(* Acceptance implies, for every clock value, every allowance and every subset of
   present bounds: no NotOnOrAfter (Conditions, EVERY bearer confirmation data —
   retained or not —, SessionNotOnOrAfter) lies more than the allowance in the
   past, no NotBefore more than the allowance in the future, Conditions
   NotBefore <= NotOnOrAfter, and IssueInstant strictly within one day plus the
   allowance of now (the code's window is closed at the old end, open at the
   future end).  (Contrapositive: any violated bound => rejected.) *)
Theorem C04_reject_outside :
  forall c r o, parse_response c r = Ok o -> test_mode c = false ->
    (now c - 86400 - slack c <= r_issue_instant r < now c + 86400 + slack c) /\
    Forall (fun a =>
      (forall k, a_conditions a = Some k -> k_empty k = false ->
          (forall n, k_nooa k = Some n -> now c <= n + slack c) /\ (forall n, k_nb k = Some n -> n <= now c + slack c) /\
          (forall n m, k_nb k = Some n -> k_nooa k = Some m -> n <= m)) /\
      (forall n, a_authn a = [Some n] -> now c <= n + slack c) /\
      (forall sc d, In sc (a_confirmations a) -> c_method sc = Bearer -> c_data sc = Some d ->
          (forall n, d_nooa d = Some n -> now c <= n + slack c) /\ (forall n, d_nb d = Some n -> n <= now c + slack c)))
      (processed r).
Proof.
  intros c r o H Ht. destruct (accepted_windows c r o H) as (Hw & Hf & Hi). split.
  - unfold issue_instant_ok in Hi. apply andb_true_iff in Hi as [A B]. lia.
  - rewrite Forall_forall in *. intros a Ha. specialize (Hw a Ha). specialize (Hf a Ha). split; [|split].
    + intros k Hk He. exact (af_conditions_time _ _ _ Hf k Hk He Ht).
    + exact (af_session _ _ _ Hf).
    + intros sc d Hin Hm Hd. rewrite Forall_forall in Hw. exact (Hw sc Hin d Hm Hd).
Qed.
Print Assumptions C04_reject_outside.

(* a bearer confirmation whose NotBefore is later than its NotOnOrAfter never
   counts as a confirmation (it is not among the retained ones) *)
Theorem C04_inconsistent_confirmation_not_retained :
  forall c r o, parse_response c r = Ok o ->
    Forall (fun a => exists kept, kept <> [] /\ incl kept (a_confirmations a) /\
       Forall (fun sc => forall d n m, c_method sc = Bearer -> c_data sc = Some d -> d_nb d = Some n -> d_nooa d = Some m -> n <= m) kept)
      (processed r).
Proof.
  intros c r o H. destruct (accepted_windows c r o H) as (_ & Hf & _).
  eapply Forall_impl; [|exact Hf]. intros a Fa. destruct (af_subject _ _ _ Fa) as (kept & Hne & Hk & Hin).
  exists kept. split; [exact Hne|]. split; [exact Hin|].
  eapply Forall_impl; [|exact Hk]. intros sc (d & rcp & Hd & _ & _ & Hb) d' n m Hm Hd' Hn Ho.
  rewrite Hd in Hd'. injection Hd' as <-. destruct (Hb Hm) as (_ & _ & _ & _ & L).
  unfold later_than in L. rewrite Hn, Ho in L. lia.
Qed.
Print Assumptions C04_inconsistent_confirmation_not_retained.

(* the session expiry handed to the application (web-SSO shape: one plain
   assertion): SessionNotOnOrAfter when present, else the Conditions NotOnOrAfter, else 0 *)
Theorem C04_session_expiry :
  forall c r o a, parse_response c r = Ok o -> test_mode c = false ->
    r_assertions r = [a] -> r_encrypted r = [] ->
    o_nooa o = match a_authn a with
               | [Some n] => if n >? 0 then n else match cond_nooa a with Some m => m | None => 0 end
               | _ => match cond_nooa a with Some m => m | None => 0 end
               end.
Proof.
  intros c r o a H Ht Ha He.
  destruct (parse_response_accepted c r o H) as [_ _ (req & s & s' & Hver & _ & S0 & N0 & _ & _ & Hn) _].
  destruct (verify_some _ _ _ _ _ Hver) as (_ & Hpa & _).
  unfold parse_assertion in Hpa. rewrite Ha, He in Hpa. cbn [List.length Nat.eqb orb negb check_assertions] in Hpa.
  destruct (check_assertion c (r_irt r) req false s a) as [s1|] eqn:Ec; [|discriminate].
  injection Hpa as <-. destruct (check_assertion_expiry _ _ _ _ _ _ _ Ec Ht) as [A B].
  rewrite Hn. cbn [push_all session_nooa not_on_or_after]. rewrite A, B, S0, N0.
  destruct (a_authn a) as [|[n|] [|? ?]]; reflexivity.
Qed.
Print Assumptions C04_session_expiry.

(* ---- every binding, every response kind, histories (Model/C04Kinds.v) ---- *)

(* [windows_ok now slack r] is exactly the conclusion of C04_reject_outside *)
Theorem C04_windows_ok_meaning : forall nowv slackv r,
  windows_ok nowv slackv r <->
    (nowv - 86400 - slackv <= r_issue_instant r < nowv + 86400 + slackv) /\
    Forall (fun a =>
      (forall k, a_conditions a = Some k -> k_empty k = false ->
          (forall n, k_nooa k = Some n -> nowv <= n + slackv) /\ (forall n, k_nb k = Some n -> n <= nowv + slackv) /\
          (forall n m, k_nb k = Some n -> k_nooa k = Some m -> n <= m)) /\
      (forall n, a_authn a = [Some n] -> nowv <= n + slackv) /\
      (forall sc d, In sc (a_confirmations a) -> c_method sc = Bearer -> c_data sc = Some d ->
          (forall n, d_nooa d = Some n -> nowv <= n + slackv) /\ (forall n, d_nb d = Some n -> n <= nowv + slackv)))
      (processed r).
Proof. intros. split; intros H; exact H. Qed.
Print Assumptions C04_windows_ok_meaning.

(* C04_reject_outside for every binding value of parse_authn_request_response: POST and
   Redirect (asynchop), SOAP and PAOS (asynchop = False) — the synchronous bindings relax
   no time check; and for either value of the asynchop switch as such *)
Theorem C04_reject_outside_every_binding :
  forall b c r o, parse_authn_via b c r = Ok o -> test_mode c = false -> windows_ok (now c) (slack c) r.
Proof. exact authn_via_windows. Qed.
Print Assumptions C04_reject_outside_every_binding.

Theorem C04_reject_outside_either_asynchop :
  forall v c r o, parse_response (with_asynch c v) r = Ok o -> test_mode c = false -> windows_ok (now c) (slack c) r.
Proof. exact asynch_irrelevant. Qed.
Print Assumptions C04_reject_outside_either_asynchop.

(* the code as it is: unravel does not know PAOS, nothing is ever accepted over it *)
Theorem C04_paos_never_accepted : forall c r, is_ok (parse_authn_via BPaos c r) = false.
Proof. exact paos_never_accepted. Qed.
Print Assumptions C04_paos_never_accepted.

(* several confirmations: ONE bearer confirmation out of its window, at any position among
   any others (bearer or not, however generous their bounds), rejects — over every binding *)
Theorem C04_one_bad_confirmation_rejects :
  forall c r a pre sc post d, test_mode c = false -> In a (processed r) -> a_confirmations a = pre ++ sc :: post ->
    c_method sc = Bearer -> c_data sc = Some d ->
    (exists n, d_nooa d = Some n /\ n + slack c < now c) \/ (exists n, d_nb d = Some n /\ now c + slack c < n) ->
    forall b, is_ok (parse_authn_via b c r) = false.
Proof. exact one_bad_confirmation_rejects. Qed.
Print Assumptions C04_one_bad_confirmation_rejects.

(* attribute-query and authn-query responses: IssueInstant window, every bearer confirmation's
   bounds, and (attribute query) the Conditions bounds *)
Theorem C04_query_kinds :
  forall k b c r o, parse_query k b c r = Ok o ->
    (now c - 86400 - slack c <= r_issue_instant r < now c + 86400 + slack c) /\
    Forall (fun a => bearer_windows_ok (now c) (slack c) a /\ (k = QAttr -> conditions_window_ok (now c) (slack c) a)) (processed r).
Proof. exact query_windows. Qed.
Print Assumptions C04_query_kinds.

(* the IssueInstant window for EVERY response kind sharing StatusResponse._verify (authn,
   attribute query, authn query, logout, name-id mapping, manage-name-id) over every binding *)
Theorem C04_issue_instant_every_kind :
  forall k b c r, accepted k b c r = true -> now c - 86400 - slack c <= r_issue_instant r < now c + 86400 + slack c.
Proof. exact every_kind_issue_instant. Qed.
Print Assumptions C04_issue_instant_every_kind.

(* a long-lived SP: after any sequence of parse calls (any kinds, bindings, clock values) the
   configuration is what it was, every accepted call satisfied the windows at ITS clock value,
   and a call's verdict does not depend on the calls before it (induction over the sequence) *)
Theorem C04_history :
  forall sp ks,
    fst (run_history sp ks) = sp /\
    Forall2 (fun k ok => ok = true -> kind_windows_ok (k_kind k) (test_mode sp) (k_now k) (slack sp) (k_msg k))
            ks (snd (run_history sp ks)) /\
    forall before, snd (run_history sp (before ++ ks)) = snd (run_history sp before) ++ snd (run_history sp ks).
Proof.
  intros sp ks. split; [exact (run_history_state sp ks)|]. split; [exact (run_history_windows sp ks)|].
  intros before. exact (run_history_app sp before ks).
Qed.
Print Assumptions C04_history.

(* non-vacuity + the edges the code implements (instant equal to a bound is accepted) *)
Definition me := s2l "https://sp.example.org/sp".
Definition acs := s2l "https://sp.example.org/acs/post".
Definition cfgT (nowv slackv : Z) := {| entity_id := me; return_addrs := Some [acs]; wrs := false; was := false; waors := false;
  allow_unsolicited := false; dest_regex_set := false; dest_regex_match := false; slack := slackv; now := nowv;
  asynch := true; outstanding := [(s2l "req-1", s2l "/home")]; conv_info := None; test_mode := false |}.
Definition respT (sess : option Z) := {| r_sig := None; r_valid_instance := true; r_irt := Some (s2l "req-1");
  r_version := Some V20; r_ver_lt2 := Some false; r_destination := Some acs; r_issue_instant := 1000000;
  r_status := Some {| st_code := Some (Code (Some Gen.StatusTable.STATUS_SUCCESS) None); st_msg := false |};
  r_assertions := [{| a_id := 1%N; a_sig := None; a_authn := [sess];
     a_conditions := Some {| k_empty := false; k_nb := Some 999700; k_nooa := Some 1000300; k_audiences := [[me]]; k_unknown_condition := false |};
     a_has_subject := true;
     a_confirmations := [{| c_method := Bearer; c_data := Some {| d_address := None; d_address_valid := true; d_nooa := Some 1000300;
                             d_nb := None; d_irt := Some (s2l "req-1"); d_recipient := Some acs |} |}];
     a_name_id := Some (s2l "alice") |}]; r_encrypted := [] |}.
Example C04_witness :
  is_ok (parse_response (cfgT 1000000 0) (respT None)) = true /\
  is_ok (parse_response (cfgT 1000300 0) (respT None)) = true /\        (* now = NotOnOrAfter: accepted by the code *)
  is_ok (parse_response (cfgT 1000301 0) (respT None)) = false /\
  is_ok (parse_response (cfgT 1000301 1) (respT None)) = true /\
  is_ok (parse_response (cfgT 999699 0) (respT None)) = false /\
  match parse_response (cfgT 1000000 0) (respT (Some 1000100)) with Ok o => o_nooa o | Err _ => -1 end = 1000100 /\
  match parse_response (cfgT 1000000 0) (respT None) with Ok o => o_nooa o | Err _ => -1 end = 1000300.
Proof. vm_compute. repeat split; reflexivity. Qed.
Print Assumptions C04_witness.

(* the same edges over SOAP (asynchop = False, nothing outstanding needed), PAOS, and for a logout response *)
Definition logoutT (ii : Z) := {| r_sig := None; r_valid_instance := true; r_irt := Some (s2l "req-1");
  r_version := Some V20; r_ver_lt2 := Some false; r_destination := None; r_issue_instant := ii;
  r_status := Some {| st_code := Some (Code (Some Gen.StatusTable.STATUS_SUCCESS) None); st_msg := false |};
  r_assertions := []; r_encrypted := [] |}.
Example C04_witness_kinds :
  is_ok (parse_authn_via BSoap (cfgT 1000300 0) (respT None)) = true /\
  is_ok (parse_authn_via BSoap (cfgT 1000301 0) (respT None)) = false /\
  is_ok (parse_authn_via BSoap (cfgT 1000301 1) (respT None)) = true /\
  is_ok (parse_authn_via BPaos (cfgT 1000000 0) (respT None)) = false /\
  accepted (KQuery QAttr) BSoap (cfgT 1000300 0) (respT None) = true /\
  accepted (KQuery QAttr) BSoap (cfgT 1000301 0) (respT None) = false /\
  accepted (KStatus SLogout) BSoap (cfgT 1000000 0) (logoutT 913600) = true /\
  accepted (KStatus SLogout) BSoap (cfgT 1000000 0) (logoutT 913599) = false /\
  accepted (KStatus SLogout) BSoap (cfgT 1000000 5) (logoutT 913595) = true /\
  accepted (KStatus SManageNameId) BPost (cfgT 1000000 0) (logoutT 1086400) = false /\
  accepted (KStatus SManageNameId) BPost (cfgT 1000000 0) (logoutT 1086399) = true.
Proof. vm_compute. repeat split; reflexivity. Qed.
Print Assumptions C04_witness_kinds.
