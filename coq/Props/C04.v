(* Props/C04.v — assertions are honoured only inside their validity windows.
   Times are whole seconds (the code truncates fractions before comparing). *)
From PV Require Import Lib.Base Model.Status Model.Response Model.C04Kinds Proofs.Response_lemmas Proofs.C04_lemmas Proofs.C04_kinds.
From PV Require Import Model.C04Entry Proofs.C04_entry.
From PV Require Model.TimeUtil Proofs.TimeUtil_lemmas.
Open Scope Z_scope.

(* Acceptance implies, for every clock value, every allowance and every subset of
   present bounds: no NotOnOrAfter (Conditions, EVERY bearer confirmation data —
   retained or not —, SessionNotOnOrAfter) lies more than the allowance in the
   past, no NotBefore more than the allowance in the future, Conditions
   NotBefore <= NotOnOrAfter, and IssueInstant strictly within one day plus the
   allowance of now (the code's window is closed at the old end, open at the
   future end).  (Contrapositive: any violated bound => rejected.) *)
Theorem C04_reject_outside :
  forall c r o, parse_response c r = Ok o -> test_mode c = false ->
    (now c - 86400 - slack c <= r_issue_instant r < now c + 86400 + slack c) /\
    Forall (fun a =>
      (forall k, a_conditions a = Some k -> k_empty k = false ->
          (forall n, k_nooa k = Some n -> now c <= n + slack c) /\ (forall n, k_nb k = Some n -> n <= now c + slack c) /\
          (forall n m, k_nb k = Some n -> k_nooa k = Some m -> n <= m)) /\
      (forall n, a_authn a = [Some n] -> now c <= n + slack c) /\
      (forall sc d, In sc (a_confirmations a) -> c_method sc = Bearer -> c_data sc = Some d ->
          (forall n, d_nooa d = Some n -> now c <= n + slack c) /\ (forall n, d_nb d = Some n -> n <= now c + slack c)))
      (processed r).
Proof.
  intros c r o H Ht. destruct (accepted_windows c r o H) as (Hw & Hf & Hi). split.
  - unfold issue_instant_ok in Hi. apply andb_true_iff in Hi as [A B]. lia.
  - rewrite Forall_forall in *. intros a Ha. specialize (Hw a Ha). specialize (Hf a Ha). split; [|split].
    + intros k Hk He. exact (af_conditions_time _ _ _ Hf k Hk He Ht).
    + exact (af_session _ _ _ Hf).
    + intros sc d Hin Hm Hd. rewrite Forall_forall in Hw. exact (Hw sc Hin d Hm Hd).
Qed.
Print Assumptions C04_reject_outside.

(* a bearer confirmation whose NotBefore is later than its NotOnOrAfter never
   counts as a confirmation (it is not among the retained ones) *)
Theorem C04_inconsistent_confirmation_not_retained :
  forall c r o, parse_response c r = Ok o ->
    Forall (fun a => exists kept, kept <> [] /\ incl kept (a_confirmations a) /\
       Forall (fun sc => forall d n m, c_method sc = Bearer -> c_data sc = Some d -> d_nb d = Some n -> d_nooa d = Some m -> n <= m) kept)
      (processed r).
Proof.
  intros c r o H. destruct (accepted_windows c r o H) as (_ & Hf & _).
  eapply Forall_impl; [|exact Hf]. intros a Fa. destruct (af_subject _ _ _ Fa) as (kept & Hne & Hk & Hin).
  exists kept. split; [exact Hne|]. split; [exact Hin|].
  eapply Forall_impl; [|exact Hk]. intros sc (d & rcp & Hd & _ & _ & Hb) d' n m Hm Hd' Hn Ho.
  rewrite Hd in Hd'. injection Hd' as <-. destruct (Hb Hm) as (_ & _ & _ & _ & L).
  unfold later_than in L. rewrite Hn, Ho in L. lia.
Qed.
Print Assumptions C04_inconsistent_confirmation_not_retained.

(* the session expiry handed to the application (web-SSO shape: one plain
   assertion): SessionNotOnOrAfter when present, else the Conditions NotOnOrAfter, else 0 *)
Theorem C04_session_expiry :
  forall c r o a, parse_response c r = Ok o -> test_mode c = false ->
    r_assertions r = [a] -> r_encrypted r = [] ->
    o_nooa o = match a_authn a with
               | [Some n] => if n >? 0 then n else match cond_nooa a with Some m => m | None => 0 end
               | _ => match cond_nooa a with Some m => m | None => 0 end
               end.
Proof.
  intros c r o a H Ht Ha He.
  destruct (parse_response_accepted c r o H) as [_ _ (req & s & s' & Hver & _ & S0 & N0 & _ & _ & Hn) _].
  destruct (verify_some _ _ _ _ _ Hver) as (_ & Hpa & _).
  unfold parse_assertion in Hpa. rewrite Ha, He in Hpa. cbn [List.length Nat.eqb orb negb check_assertions] in Hpa.
  destruct (check_assertion c (r_irt r) req false s a) as [s1|] eqn:Ec; [|discriminate].
  injection Hpa as <-. destruct (check_assertion_expiry _ _ _ _ _ _ _ Ec Ht) as [A B].
  rewrite Hn. cbn [push_all session_nooa not_on_or_after]. rewrite A, B, S0, N0.
  destruct (a_authn a) as [|[n|] [|? ?]]; reflexivity.
Qed.
Print Assumptions C04_session_expiry.

(* ---- every binding, every response kind, histories (Model/C04Kinds.v) ---- *)

(* [windows_ok now slack r] is exactly the conclusion of C04_reject_outside *)
Theorem C04_windows_ok_meaning : forall nowv slackv r,
  windows_ok nowv slackv r <->
    (nowv - 86400 - slackv <= r_issue_instant r < nowv + 86400 + slackv) /\
    Forall (fun a =>
      (forall k, a_conditions a = Some k -> k_empty k = false ->
          (forall n, k_nooa k = Some n -> nowv <= n + slackv) /\ (forall n, k_nb k = Some n -> n <= nowv + slackv) /\
          (forall n m, k_nb k = Some n -> k_nooa k = Some m -> n <= m)) /\
      (forall n, a_authn a = [Some n] -> nowv <= n + slackv) /\
      (forall sc d, In sc (a_confirmations a) -> c_method sc = Bearer -> c_data sc = Some d ->
          (forall n, d_nooa d = Some n -> nowv <= n + slackv) /\ (forall n, d_nb d = Some n -> n <= nowv + slackv)))
      (processed r).
Proof. intros. split; intros H; exact H. Qed.
Print Assumptions C04_windows_ok_meaning.

(* C04_reject_outside for every binding value of parse_authn_request_response: POST and
   Redirect (asynchop), SOAP and PAOS (asynchop = False) — the synchronous bindings relax
   no time check; and for either value of the asynchop switch as such *)
Theorem C04_reject_outside_every_binding :
  forall b c r o, parse_authn_via b c r = Ok o -> test_mode c = false -> windows_ok (now c) (slack c) r.
Proof. exact authn_via_windows. Qed.
Print Assumptions C04_reject_outside_every_binding.

Theorem C04_reject_outside_either_asynchop :
  forall v c r o, parse_response (with_asynch c v) r = Ok o -> test_mode c = false -> windows_ok (now c) (slack c) r.
Proof. exact asynch_irrelevant. Qed.
Print Assumptions C04_reject_outside_either_asynchop.

(* the code as it is: unravel does not know PAOS, nothing is ever accepted over it *)
Theorem C04_paos_never_accepted : forall c r, is_ok (parse_authn_via BPaos c r) = false.
Proof. exact paos_never_accepted. Qed.
Print Assumptions C04_paos_never_accepted.

(* several confirmations: ONE bearer confirmation out of its window, at any position among
   any others (bearer or not, however generous their bounds), rejects — over every binding *)
Theorem C04_one_bad_confirmation_rejects :
  forall c r a pre sc post d, test_mode c = false -> In a (processed r) -> a_confirmations a = pre ++ sc :: post ->
    c_method sc = Bearer -> c_data sc = Some d ->
    (exists n, d_nooa d = Some n /\ n + slack c < now c) \/ (exists n, d_nb d = Some n /\ now c + slack c < n) ->
    forall b, is_ok (parse_authn_via b c r) = false.
Proof. exact one_bad_confirmation_rejects. Qed.
Print Assumptions C04_one_bad_confirmation_rejects.

(* attribute-query and authn-query responses: IssueInstant window, every bearer confirmation's
   bounds, and (attribute query) the Conditions bounds *)
Theorem C04_query_kinds :
  forall k b c r o, parse_query k b c r = Ok o ->
    (now c - 86400 - slack c <= r_issue_instant r < now c + 86400 + slack c) /\
    Forall (fun a => bearer_windows_ok (now c) (slack c) a /\ (k = QAttr -> conditions_window_ok (now c) (slack c) a)) (processed r).
Proof. exact query_windows. Qed.
Print Assumptions C04_query_kinds.

(* the IssueInstant window for EVERY response kind sharing StatusResponse._verify (authn,
   attribute query, authn query, logout, name-id mapping, manage-name-id) over every binding *)
Theorem C04_issue_instant_every_kind :
  forall k b c r, accepted k b c r = true -> now c - 86400 - slack c <= r_issue_instant r < now c + 86400 + slack c.
Proof. exact every_kind_issue_instant. Qed.
Print Assumptions C04_issue_instant_every_kind.

(* a long-lived SP: after any sequence of parse calls (any kinds, bindings, clock values) the
   configuration is what it was, every accepted call satisfied the windows at ITS clock value,
   and a call's verdict does not depend on the calls before it (induction over the sequence) *)
Theorem C04_history :
  forall sp ks,
    fst (run_history sp ks) = sp /\
    Forall2 (fun k ok => ok = true -> kind_windows_ok (k_kind k) (test_mode sp) (k_now k) (slack sp) (k_msg k))
            ks (snd (run_history sp ks)) /\
    forall before, snd (run_history sp (before ++ ks)) = snd (run_history sp before) ++ snd (run_history sp ks).
Proof.
  intros sp ks. split; [exact (run_history_state sp ks)|]. split; [exact (run_history_windows sp ks)|].
  intros before. exact (run_history_app sp before ks).
Qed.
Print Assumptions C04_history.

(* non-vacuity + the edges the code implements (instant equal to a bound is accepted) *)
Definition me := s2l "https://sp.example.org/sp".
Definition acs := s2l "https://sp.example.org/acs/post".
Definition cfgT (nowv slackv : Z) := {| entity_id := me; return_addrs := Some [acs]; wrs := false; was := false; waors := false;
  allow_unsolicited := false; dest_regex_set := false; dest_regex_match := false; slack := slackv; now := nowv;
  asynch := true; outstanding := [(s2l "req-1", s2l "/home")]; conv_info := None; test_mode := false |}.
Definition respT (sess : option Z) := {| r_sig := None; r_valid_instance := true; r_irt := Some (s2l "req-1");
  r_version := Some V20; r_ver_lt2 := Some false; r_destination := Some acs; r_issue_instant := 1000000;
  r_status := Some {| st_code := Some (Code (Some Gen.StatusTable.STATUS_SUCCESS) None); st_msg := false |};
  r_assertions := [{| a_id := 1%N; a_sig := None; a_authn := [sess];
     a_conditions := Some {| k_empty := false; k_nb := Some 999700; k_nooa := Some 1000300; k_audiences := [[me]]; k_unknown_condition := false |};
     a_has_subject := true;
     a_confirmations := [{| c_method := Bearer; c_data := Some {| d_address := None; d_address_valid := true; d_nooa := Some 1000300;
                             d_nb := None; d_irt := Some (s2l "req-1"); d_recipient := Some acs |} |}];
     a_name_id := Some (s2l "alice") |}]; r_encrypted := [] |}.
Example C04_witness :
  is_ok (parse_response (cfgT 1000000 0) (respT None)) = true /\
  is_ok (parse_response (cfgT 1000300 0) (respT None)) = true /\        (* now = NotOnOrAfter: accepted by the code *)
  is_ok (parse_response (cfgT 1000301 0) (respT None)) = false /\
  is_ok (parse_response (cfgT 1000301 1) (respT None)) = true /\
  is_ok (parse_response (cfgT 999699 0) (respT None)) = false /\
  match parse_response (cfgT 1000000 0) (respT (Some 1000100)) with Ok o => o_nooa o | Err _ => -1 end = 1000100 /\
  match parse_response (cfgT 1000000 0) (respT None) with Ok o => o_nooa o | Err _ => -1 end = 1000300.
Proof. vm_compute. repeat split; reflexivity. Qed.
Print Assumptions C04_witness.

(* the same edges over SOAP (asynchop = False, nothing outstanding needed), PAOS, and for a logout response *)
Definition logoutT (ii : Z) := {| r_sig := None; r_valid_instance := true; r_irt := Some (s2l "req-1");
  r_version := Some V20; r_ver_lt2 := Some false; r_destination := None; r_issue_instant := ii;
  r_status := Some {| st_code := Some (Code (Some Gen.StatusTable.STATUS_SUCCESS) None); st_msg := false |};
  r_assertions := []; r_encrypted := [] |}.
Example C04_witness_kinds :
  is_ok (parse_authn_via BSoap (cfgT 1000300 0) (respT None)) = true /\
  is_ok (parse_authn_via BSoap (cfgT 1000301 0) (respT None)) = false /\
  is_ok (parse_authn_via BSoap (cfgT 1000301 1) (respT None)) = true /\
  is_ok (parse_authn_via BPaos (cfgT 1000000 0) (respT None)) = false /\
  accepted (KQuery QAttr) BSoap (cfgT 1000300 0) (respT None) = true /\
  accepted (KQuery QAttr) BSoap (cfgT 1000301 0) (respT None) = false /\
  accepted (KStatus SLogout) BSoap (cfgT 1000000 0) (logoutT 913600) = true /\
  accepted (KStatus SLogout) BSoap (cfgT 1000000 0) (logoutT 913599) = false /\
  accepted (KStatus SLogout) BSoap (cfgT 1000000 5) (logoutT 913595) = true /\
  accepted (KStatus SManageNameId) BPost (cfgT 1000000 0) (logoutT 1086400) = false /\
  accepted (KStatus SManageNameId) BPost (cfgT 1000000 0) (logoutT 1086399) = true.
Proof. vm_compute. repeat split; reflexivity. Qed.
Print Assumptions C04_witness_kinds.

(* ---- the OTHER public ways in (Model/C04Entry.v): response_factory, authn_response, attribute_response and the classes
   AuthnResponse / AttributeResponse / AuthnQueryResponse / ArtifactResponse / AuthzResponse built directly, then
   .loads(..).verify().  [args] is what the caller wrote (an argument given or left out), [flags_of] what the constructor
   chain of that entry point stores, [asked] what the call means by the def lines' defaults. ---- *)

(* every constructor passes on exactly what the caller wrote; `test` is on only when a caller names test=True on an entry
   point that has the parameter; the allowance is the caller's (0 / left out: conf.accepted_time_diff for the three functions) *)
Theorem C04_entry_points_pass_flags_on :
  forall e cf a,
    flags_of e cf a = asked e cf a /\
    (f_test (flags_of e cf a) = true -> has_test e = true /\ a_test a = Some true) /\
    f_slack (flags_of e cf a) =
      match a_slack a with
      | Some t => if t =? 0 then (if reads_conf e then dflt (cf_time_diff cf) 0 else 0) else t
      | None => if reads_conf e then dflt (cf_time_diff cf) 0 else 0
      end.
Proof. intros e cf a. split; [exact (flags_passed_on e cf a)|]. split; [exact (test_only_when_named e cf a)|exact (slack_is_the_callers e cf a)]. Qed.
Print Assumptions C04_entry_points_pass_flags_on.

(* every entry point computes verify of the SAME flags the caller gave *)
Theorem C04_entry_points_verify_the_callers_flags :
  forall e cf nowv a r,
    entry_verify e cf nowv a r =
    object_verify (ctx_of e) (match e with EFactory => true | _ => false end) (cfg_of cf nowv (asked e cf a)) r.
Proof. exact entry_verify_asked. Qed.
Print Assumptions C04_entry_points_verify_the_callers_flags.

(* C04_reject_outside through every entry point, for every way of writing the call (so: every combination of asynchop /
   allow_unsolicited, given or left out): accepted => every window of the context holds at the clock value and at the
   allowance the caller gave — unless the caller named test=True where that parameter exists.
   ctx_windows_ok: authn = windows_ok (all of C04_reject_outside); attribute / authz / artifact = IssueInstant, every bearer
   bound, Conditions; authn query = IssueInstant, every bearer bound (the library's contexts, as in C04_query_kinds) *)
Theorem C04_reject_outside_every_entry_point :
  forall e cf nowv a r s,
    entry_verify e cf nowv a r = Ok (Some s) -> (has_test e = true -> a_test a <> Some true) ->
    ctx_windows_ok (ctx_of e) nowv (f_slack (asked e cf a)) r.
Proof. exact entry_windows. Qed.
Print Assumptions C04_reject_outside_every_entry_point.

Theorem C04_reject_outside_any_switches :
  forall e cf nowv a r asy uns s,
    entry_verify e cf nowv {| a_return_addrs := a_return_addrs a; a_outstanding := a_outstanding a; a_slack := a_slack a;
                             a_asynch := asy; a_unsol := uns; a_was := a_was a; a_test := None |} r = Ok (Some s) ->
    ctx_windows_ok (ctx_of e) nowv (f_slack (asked e cf a)) r.
Proof. exact entry_windows_any_switches. Qed.
Print Assumptions C04_reject_outside_any_switches.

(* non-vacuity: the edges through the factory, the function and the class; all switch combinations reject a Conditions
   NotBefore 700 s ahead; naming test=True on the class accepts it (lax), on the factory it cannot be asked *)
Definition confT := {| cf_entity_id := me; cf_time_diff := Some 5 |}.
Definition argsT (slackv : option Z) (asy uns test : option bool) :=
  {| a_return_addrs := Some [acs]; a_outstanding := Some [(s2l "req-1", s2l "/home")]; a_slack := slackv;
     a_asynch := asy; a_unsol := uns; a_was := None; a_test := test |}.
Example C04_witness_entry_points :
  entry_accepts EFactory confT 1000305 (argsT None None None None) (respT None) = true /\      (* allowance from conf: 5 *)
  entry_accepts EFactory confT 1000306 (argsT None None None None) (respT None) = false /\
  entry_accepts EFactory confT 1000306 (argsT (Some 6) None None None) (respT None) = true /\
  entry_accepts EAuthnCls confT 1000300 (argsT None None None None) (respT None) = true /\     (* the class does not read conf *)
  entry_accepts EAuthnCls confT 1000301 (argsT None None None None) (respT None) = false /\
  forallb (fun asy => forallb (fun uns => forallb (fun e =>
     negb (entry_accepts e confT 999000 (argsT None asy uns None) (respT None)))
     [EFactory; EAuthnFn; EAuthnCls; EAttrFn; EAttrCls; EArtifactCls; EAuthzCls])
     [None; Some true; Some false]) [None; Some true; Some false] = true /\
  entry_accepts EAuthnCls confT 999000 (argsT None None None (Some true)) (respT None) = true /\      (* lax, asked by name *)
  entry_accepts EAttrCls confT 999000 (argsT None None None (Some true)) (respT None) = true /\
  entry_accepts EFactory confT 999000 (argsT None None None (Some true)) (respT None) = false /\      (* no such parameter *)
  entry_accepts EAuthzCls confT 999000 (argsT None None None (Some true)) (respT None) = false /\
  entry_accepts EAuthnQueryCls confT 999000 (argsT None None None None) (respT None) = true /\        (* Conditions not consulted there *)
  entry_accepts EAuthnQueryCls confT 1003900 (argsT None None None None) (respT None) = false /\       (* its bearer bound *)
  entry_accepts EAttrCls confT 1000000 (argsT None None None None) (respT (Some 5)) = true /\          (* no session check there *)
  entry_accepts EAuthnCls confT 1000000 (argsT None None None None) (respT (Some 5)) = false.
Proof. vm_compute. repeat split; reflexivity. Qed.
Print Assumptions C04_witness_entry_points.

(* ---- the time zone of the PROCESS ----
   A zone is its offset from UTC in seconds; localtime zone t = gmtime (t + zone), mktime zone c = timegm c - zone.
   Every reading the library takes is gmtime / timegm based (utc_now = timegm (gmtime now), str_to_time =
   gmtime (timegm (strptime ..)), tuple order = instant order by C04_tuple_order_is_instant_order): no offset enters,
   whatever the zone *)
Theorem C04_no_zone_offset_enters :
  forall zone nowv,
    utc_now zone nowv = nowv /\ mktime zone (localtime zone nowv) = nowv /\
    (forall s c, Model.TimeUtil.str_to_time s = Ok (Some c) ->
       Model.TimeUtil.before nowv (Model.TimeUtil.AText s) = Ok (utc_now zone nowv <=? Model.TimeUtil.timegm c) /\
       Model.TimeUtil.after nowv (Model.TimeUtil.AText s) = Ok (negb (utc_now zone nowv <=? Model.TimeUtil.timegm c))).
Proof. exact no_zone_enters. Qed.
Print Assumptions C04_no_zone_offset_enters.

(* ... which is NOT so for a comparison that mixes mktime(gmtime()) with timegm: the full statement
     forall zone now t, (mktime zone (gmtime now) <=? t) = (now <=? t)
   fails — in Tokyo a bound expired two seconds ago still passes, in New York one with hours to go is refused *)
Theorem C04_mktime_gmtime_against_timegm_refuted :
  (forall zone nowv, utc_now_mktime zone nowv = nowv - zone) /\
  exists zone nowv s c, Model.TimeUtil.str_to_time s = Ok (Some c) /\
    (utc_now_mktime zone nowv <=? Model.TimeUtil.timegm c) = true /\ (nowv <=? Model.TimeUtil.timegm c) = false.
Proof.
  split; [exact mixing_mktime_with_timegm|].
  exists 32400, 1790000002, (s2l "2026-09-21T14:13:20Z"), (Model.TimeUtil.gmtime 1790000000).
  vm_compute. repeat split; reflexivity.
Qed.
Print Assumptions C04_mktime_gmtime_against_timegm_refuted.
Theorem C04_mktime_gmtime_against_timegm_partial :
  forall nowv t, (utc_now_mktime 0 nowv <=? t) = (nowv <=? t).
Proof. intros nowv t. rewrite mixing_mktime_with_timegm, Z.sub_0_r. reflexivity. Qed.
Print Assumptions C04_mktime_gmtime_against_timegm_partial.

(* ==== the TEXT of a time stamp (Model/TimeUtil.v, Proofs/TimeUtil_lemmas.v) ====================================
   Everything above takes instants (Z).  The library starts from attribute texts: time_util.str_to_time
   (time.strptime, the fall-back pattern, calendar.timegm, time.gmtime) and compares time.struct_time TUPLES in
   before / after / later_than / issue_instant_ok.  The theorems below bring that step inside the model: the calendar
   functions are inverse to each other, tuple order of normalised values IS the order of instants, what strptime reads,
   and the text-level tests equal the integer tests used above. *)
Module TU := PV.Model.TimeUtil.
Module TL := PV.Proofs.TimeUtil_lemmas.

(* gmtime and timegm are inverse: for EVERY integer t (Python restricts t to years 1..9999:
   -62135596800 <= t <= 253402300799; calendar.timegm raises outside, the model is total), and for every normalised
   civil time (valid month / day of that month / hour / minute / second, wday and yday as the calendar gives them, isdst 0) *)
Theorem C04_gmtime_timegm :
  (forall t, TU.timegm (TU.gmtime t) = t) /\
  (forall t, TU.valid_tm (TU.gmtime t)) /\
  (forall c, TU.valid_tm c -> TU.gmtime (TU.timegm c) = c).
Proof. split; [exact TL.timegm_gmtime|]. split; [exact TL.gmtime_valid|exact TL.gmtime_timegm]. Qed.
Print Assumptions C04_gmtime_timegm.

(* the day number is strictly monotone in (year, month, day) read lexicographically — all years, proved *)
Theorem C04_day_number_strictly_monotone :
  forall y m d y' m' d', TU.valid_date y m d -> TU.valid_date y' m' d' ->
    (y < y' \/ (y = y' /\ (m < m' \/ (m = m' /\ d < d')))) -> TU.days_from_civil y m d < TU.days_from_civil y' m' d'.
Proof. intros y m d y' m' d' V V' H. unfold TU.days_from_civil. pose proof (TL.ordinal_lt _ _ _ _ _ _ V V' H). lia. Qed.
Print Assumptions C04_day_number_strictly_monotone.

(* Python compares struct_time values as 9-tuples (year, month, day, hour, minute, second, wday, yday, isdst), first
   difference decides.  For ALL normalised a b that comparison is the comparison of the instants: <=, >=, < alike *)
Theorem C04_tuple_order_is_instant_order :
  forall a b, TU.valid_tm a -> TU.valid_tm b ->
    TU.tuple_cmp a b = (TU.timegm a ?= TU.timegm b) /\
    (TU.tuple_leb a b = true <-> TU.timegm a <= TU.timegm b) /\
    (TU.tuple_geb a b = true <-> TU.timegm a >= TU.timegm b) /\
    (TU.tuple_ltb a b = true <-> TU.timegm a < TU.timegm b).
Proof.
  intros a b Va Vb. split; [exact (TL.tuple_cmp_is_instant_cmp a b Va Vb)|].
  rewrite (TL.tuple_leb_instant a b Va Vb), (TL.tuple_geb_instant a b Va Vb), (TL.tuple_ltb_instant a b Va Vb).
  rewrite Z.leb_le, Z.geb_le, Z.ltb_lt. repeat split; lia.
Qed.
Print Assumptions C04_tuple_order_is_instant_order.

(* instant(t) read back by str_to_time is gmtime t — years 1000..9999 (this platform's strftime does not pad %Y:
   year 999 is written with three digits, which strptime's \d\d\d\d does not read; the harness shows the real
   functions do the same) *)
Theorem C04_instant_round_trip :
  forall t, -30610224000 <= t <= 253402300799 ->
    TU.str_to_time (TU.instant_of t) = Ok (Some (TU.gmtime t)) /\
    (forall now, t <> 0 -> TU.str_to_time (TU.instant now t) = Ok (Some (TU.gmtime t))).
Proof.
  intros t R. pose proof (TL.instant_round_trip t (TL.gmtime_year_range t R)) as H. split; [exact H|].
  intros now NZ. unfold TU.instant. destruct (Z.eqb_spec t 0); [congruence|exact H].
Qed.
Print Assumptions C04_instant_round_trip.

(* THE BRIDGE.  On every text str_to_time reads, before / after / later_than (tuple comparisons against the clock
   reading) are the integer tests of the models above on timegm of the parsed value: before = not-past (now <= point),
   later_than = Response.later_than, and the IssueInstant test on tuples (bounds from datetime.timetuple(), whose
   tm_isdst = -1 breaks the tie) is Response.issue_instant_ok: closed at the old end, open at the future end.
   validate_on_or_after / validate_before call calendar.timegm on the parsed value themselves: the instant they use
   is the same timegm c. *)
Theorem C04_text_tests_are_instant_tests :
  (forall now s c, TU.str_to_time s = Ok (Some c) ->
     TU.before now (TU.AText s) = Ok (now <=? TU.timegm c) /\
     TU.after now (TU.AText s) = Ok (negb (now <=? TU.timegm c))) /\
  (forall a b ca cb, TU.str_to_time a = Ok (Some ca) -> TU.str_to_time b = Ok (Some cb) ->
     TU.later_than (TU.AText a) (TU.AText b) = Ok (later_than (Some (TU.timegm ca)) (Some (TU.timegm cb)))) /\
  (forall cfg s c, TU.str_to_time s = Ok (Some c) ->
     TU.issue_window (now cfg) (slack cfg) c = issue_instant_ok cfg (TU.timegm c)) /\
  (forall now z, z <> 0 -> TU.before now (TU.AInt z) = Ok (now <=? z) /\ TU.after now (TU.AInt z) = Ok (negb (now <=? z))) /\
  (forall now, TU.before now TU.ANone = Ok true /\ TU.before now (TU.AText []) = Ok true /\ TU.before now (TU.AInt 0) = Ok true /\
               TU.after now TU.ANone = Ok true /\ TU.after now (TU.AText []) = Ok true /\ TU.after now (TU.AInt 0) = Ok true).
Proof.
  split; [intros nowv s c H; split; [exact (TL.before_text nowv s c H)|exact (TL.after_text nowv s c H)]|].
  split; [intros a b ca cb Ha Hb; exact (TL.later_than_text a b ca cb Ha Hb)|].
  split; [intros cfg s c H; exact (TL.issue_window_text (now cfg) (slack cfg) s c H)|].
  split; [exact TL.before_int|]. intros nowv. repeat split; reflexivity.
Qed.
Print Assumptions C04_text_tests_are_instant_tests.

(* what str_to_time returns is always normalised, is the tuple of exactly one instant, and that instant is timegm of
   the fields strptime read from the text itself or from group 1 of the fall-back pattern + Z *)
Theorem C04_accepted_text_denotes_one_instant :
  forall s c, TU.str_to_time s = Ok (Some c) ->
    TU.valid_tm c /\ c = TU.gmtime (TU.timegm c) /\
    ((exists p, TU.strptime_iso s = Some p /\ TU.timegm c = TU.timegm p) \/
     (TU.strptime_iso s = None /\ exists g p, TU.fragment_group s = Some g /\ TU.strptime_iso (g ++ [TU.c_Z]) = Some p /\
        TU.timegm c = TU.timegm p)).
Proof. exact TL.str_to_time_denotes. Qed.
Print Assumptions C04_accepted_text_denotes_one_instant.

(* WHAT strptime ACCEPTS, exactly: 4 digits - month - day T hour : minute : second Z to the end of the text, T / Z in
   either case, every field one or two characters read by field_m .. field_S (the alternatives of CPython's expression:
   \d is any Unicode decimal digit, the bracket classes are ASCII), year >= 1 and the day inside its month *)
Theorem C04_strptime_accepts_exactly :
  forall s c, TU.strptime_iso s = Some c <->
    exists y1 y2 y3 y4 fm fd cT fH fM fS cZ y mo d h mi sec,
      s = TL.iso_text y1 y2 y3 y4 fm fd cT fH fM fS cZ /\ TU.is_T cT = true /\ TU.is_Z cZ = true /\
      TU.field_Y y1 y2 y3 y4 = Some y /\ TU.field_m fm = Some mo /\ TU.field_d fd = Some d /\
      TU.field_H fH = Some h /\ TU.field_M fM = Some mi /\ TU.field_S fS = Some sec /\
      1 <= y /\ d <= TU.days_in_month y mo /\ c = TU.mk_parsed y mo d h mi sec.
Proof. exact TL.strptime_iso_characterised. Qed.
Print Assumptions C04_strptime_accepts_exactly.

(* ... and what it reads is a date of the calendar with hour 0..23, minute 0..59, second 0..61 (60 and 61 are carried
   into the next minute by timegm), year 1..9999 *)
Theorem C04_strptime_ranges :
  forall s c, TU.strptime_iso s = Some c ->
    1 <= TU.tm_year c <= 9999 /\ TU.valid_date (TU.tm_year c) (TU.tm_mon c) (TU.tm_mday c) /\
    0 <= TU.tm_hour c <= 23 /\ 0 <= TU.tm_min c <= 59 /\ 0 <= TU.tm_sec c <= 61 /\ TU.tm_isdst c = -1.
Proof. exact TL.strptime_iso_ranges. Qed.
Print Assumptions C04_strptime_ranges.

(* two DIFFERENT accepted spellings of one instant (padded / unpadded, Z / z / none, with a fraction, other digits ...)
   are the same value and get the same verdict from every test, against any clock reading and any other argument *)
Theorem C04_spellings_of_one_instant_agree :
  forall now s1 s2 c1 c2 other, TU.str_to_time s1 = Ok (Some c1) -> TU.str_to_time s2 = Ok (Some c2) -> TU.timegm c1 = TU.timegm c2 ->
    c1 = c2 /\ TU.before now (TU.AText s1) = TU.before now (TU.AText s2) /\ TU.after now (TU.AText s1) = TU.after now (TU.AText s2) /\
    TU.later_than (TU.AText s1) other = TU.later_than (TU.AText s2) other /\
    TU.later_than other (TU.AText s1) = TU.later_than other (TU.AText s2).
Proof. exact TL.same_instant_same_verdict. Qed.
Print Assumptions C04_spellings_of_one_instant_agree.

(* non-vacuity: leap day, month ends, one-digit fields, blank + digit day, other digits, lower case, fractions, the epoch,
   the 2038 boundary, year 1 and 9999, carried seconds; and what is refused *)
Definition tt_of (s : string) : val := TU.run_str_to_time (s2l s).
Definition inst_of (s : string) : option Z :=
  match TU.str_to_time (s2l s) with Ok (Some c) => Some (TU.timegm c) | _ => None end.
Example C04_time_text_witness :
  inst_of "1970-01-01T00:00:00Z" = Some 0 /\
  inst_of "2038-01-19T03:14:07Z" = Some 2147483647 /\ inst_of "2038-01-19T03:14:08Z" = Some 2147483648 /\
  inst_of "2024-02-29T23:59:59Z" = Some 1709251199 /\ inst_of "2024-03-01T00:00:00Z" = Some 1709251200 /\
  inst_of "2023-02-29T00:00:00Z" = None /\ inst_of "1900-02-29T00:00:00Z" = None /\ inst_of "2000-02-29T00:00:00Z" = Some 951782400 /\
  inst_of "2026-9-1T1:2:3Z" = Some 1788224523 /\ inst_of "2026-09-01t01:02:03z" = Some 1788224523 /\
  inst_of "2026-09- 1T01:02:03Z" = Some 1788224523 /\ inst_of "2026-09-01T01:02:03.999" = Some 1788224523 /\
  inst_of "2026-09-01T01:02:03" = Some 1788224523 /\ inst_of "2026-9-1T1:2:3" = None /\
  inst_of "9999-12-31T23:59:59Z" = Some 253402300799 /\ inst_of "0001-01-01T00:00:00Z" = Some (-62135596800) /\
  inst_of "0000-01-01T00:00:00Z" = None /\ inst_of "2026-12-31T23:59:60Z" = Some 1798761600 /\ inst_of "2027-01-01T00:00:00Z" = Some 1798761600 /\
  inst_of "2026-09-01T24:00:00Z" = None /\ inst_of "2026-09-01T01:02:03+00:00" = None /\ inst_of " 2026-09-01T01:02:03Z" = None /\
  TU.str_to_time (s2l "2026-13-01T00:00:00") = Err TU.ValueError /\ TU.str_to_time (s2l "2026-09-01T01:02:03+00:00") = Err TU.AttributeError /\
  TU.str_to_time [] = Ok None /\
  TU.str_to_time [50; 48; 50; 54; 45; 48; 57; 45; 48; 49; 84; 49; 1636; 58; 48; 50; 58; 48; 51; 90]%N = Ok (Some (TU.gmtime 1788271323)) /\
  TU.instant_of 1788224523 = s2l "2026-09-01T01:02:03Z" /\ TU.instant_of (-30610224001) = s2l "999-12-31T23:59:59Z" /\
  TU.tm_list (TU.gmtime 0) = [1970; 1; 1; 0; 0; 0; 3; 1; 0] /\
  TU.before 1788224523 (TU.AText (s2l "2026-9-1T1:2:3Z")) = Ok true /\ TU.before 1788224524 (TU.AText (s2l "2026-9-1T1:2:3Z")) = Ok false /\
  TU.later_than (TU.AText (s2l "2027-01-01T00:00:00Z")) (TU.AText (s2l "2026-12-31T23:59:59.5")) = Ok true /\
  TU.later_than (TU.AText (s2l "2026-12-31T23:59:59Z")) (TU.AText (s2l "2027-1-1T0:0:0z")) = Ok false /\
  TU.later_than (TU.AText []) (TU.AText (s2l "2027-01-01T00:00:00Z")) = Err TU.TypeError.
Proof. vm_compute. repeat split; reflexivity. Qed.
Print Assumptions C04_time_text_witness.
