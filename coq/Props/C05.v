(* Props/C05.v — responses are accepted only if addressed to this SP and solicited.
   "accepted" = Entity._parse_response returns normally: parse_response c r = Ok o.
   [processed r] = the assertions (plain and decrypted) the application may read. *)
From PV Require Import Lib.Base Model.Status Model.Response Proofs.Response_lemmas Proofs.C05_lemmas.
Open Scope Z_scope.

(* Unless unsolicited responses are allowed: InResponseTo identifies an
   outstanding request, and every RETAINED bearer confirmation (plain or
   decrypted assertion, at any position) that names a request names that one *)
Theorem C05_solicited :
  forall c r o, parse_response c r = Ok o -> asynch c = true -> allow_unsolicited c = false ->
    (exists i cf, r_irt r = Some i /\ lookup_str i (outstanding c) = Some cf) /\
    Forall (fun a => exists kept, kept <> [] /\ incl kept (a_confirmations a) /\
       Forall (fun sc => forall d x, c_method sc = Bearer -> c_data sc = Some d -> d_irt d = Some x -> r_irt r = Some x) kept)
      (processed r).
Proof.
  intros c r o H Ha Hu. destruct (accepted_processed c r o H) as (Hall & _ & Hs).
  destruct (Hs Ha Hu) as (i & cf & Hi & Hl). split; [now exists i, cf|].
  eapply Forall_impl; [|exact Hall]. intros a Fa. destruct (af_subject _ _ _ Fa) as (kept & Hne & Hk & Hin).
  exists kept. split; [exact Hne|]. split; [exact Hin|].
  eapply Forall_impl; [|exact Hk]. intros sc (d & rcp & Hd & _ & _ & Hb) d' x Hm Hd' Hx.
  rewrite Hd in Hd'. injection Hd' as <-. destruct (Hb Hm) as (Hn & _).
  unfold names_other_request in Hn. rewrite Ha, Hu, Hx, Hi in Hn. cbn in Hn.
  apply negb_false_iff, str_eqb_eq in Hn. now subst x.
Qed.
Print Assumptions C05_solicited.

(* Browser binding: a Destination, when present, matches the configured pattern,
   or (no pattern) is one of the own endpoints for that binding — independently
   of allow_unsolicited, also when the SP has no endpoint for the binding *)
Theorem C05_destination :
  forall c r o, parse_response c r = Ok o -> asynch c = true ->
    forall d, r_destination r = Some d ->
      (dest_regex_set c = true -> dest_regex_match c = true) /\
      (dest_regex_set c = false -> exists addrs, return_addrs c = Some addrs /\ In d addrs).
Proof.
  intros c r o H Ha d Hd. destruct (accepted_processed c r o H) as (_ & Hdest & _).
  destruct (Hdest Ha d Hd) as [A B]. split; [exact A|]. intros Hr. destruct (B Hr) as (addrs & H1 & H2).
  exists addrs. split; [exact H1|]. now apply mem_str_In.
Qed.
Print Assumptions C05_destination.

(* EVERY audience restriction of every accepted assertion lists this SP —
   whatever allow_unsolicited says (full statement; holds since the two fix:
   commits recorded in known_findings.json) *)
Theorem C05_audience :
  forall c r o, parse_response c r = Ok o -> test_mode c = false ->
    Forall (fun a => forall k, a_conditions a = Some k -> k_empty k = false ->
               forall auds, In auds (k_audiences k) -> auds <> [] -> In (entity_id c) auds) (processed r).
Proof.
  intros c r o H Ht. destruct (accepted_processed c r o H) as (Hall & _).
  eapply Forall_impl; [|exact Hall]. intros a Fa k Hk He auds Hin Hne.
  pose proof (af_audience _ _ _ Fa k Hk He Ht) as F. unfold for_me in F. rewrite forallb_forall in F.
  specialize (F auds Hin). destruct auds as [|x xs]; [congruence|]. now apply mem_str_In.
Qed.
Print Assumptions C05_audience.

(* record of the repaired defects: the pre-fix audience test accepted what the statement forbids *)
Theorem C05_audience_before_fix_refuted :
  let other := s2l "https://other.example.org/sp" in let me := s2l "https://sp.example.org/sp" in
  let k := {| k_empty := false; k_nb := None; k_nooa := None; k_audiences := [[me]; [other]]; k_unknown_condition := false |} in
  for_me_before_fix k me = true /\ for_me k me = false.
Proof. vm_compute. split; reflexivity. Qed.
Print Assumptions C05_audience_before_fix_refuted.

(* With conversation information every retained confirmation's Recipient is the
   entity id given there or one of the own endpoints *)
Theorem C05_recipient :
  forall c r o ci, parse_response c r = Ok o -> conv_info c = Some ci ->
    Forall (fun a => exists kept, kept <> [] /\ incl kept (a_confirmations a) /\
       Forall (fun sc => exists d rcp, c_data sc = Some d /\ d_recipient d = Some rcp /\
                  (ci_entity_id ci = Some rcp \/ exists addrs, return_addrs c = Some addrs /\ In rcp addrs)) kept)
      (processed r).
Proof.
  intros c r o ci H Hc. destruct (accepted_processed c r o H) as (Hall & _).
  eapply Forall_impl; [|exact Hall]. intros a Fa. destruct (af_subject _ _ _ Fa) as (kept & Hne & Hk & Hin).
  exists kept. split; [exact Hne|]. split; [exact Hin|].
  eapply Forall_impl; [|exact Hk]. intros sc (d & rcp & Hd & Hr & Hv & _). exists d, rcp. split; [exact Hd|]. split; [exact Hr|].
  unfold verify_recipient in Hv. rewrite Hc in Hv.
  destruct (ci_entity_id ci) as [e|] eqn:Ee.
  - destruct (str_eqb_spec rcp e) as [->|Hn]; [now left|].
    destruct (return_addrs c) as [addrs|]; [|discriminate]. injection Hv as Hv. right. exists addrs. split; [reflexivity|now apply mem_str_In].
  - destruct (return_addrs c) as [addrs|]; [|discriminate]. injection Hv as Hv. right. exists addrs. split; [reflexivity|now apply mem_str_In].
Qed.
Print Assumptions C05_recipient.

(* non-vacuity: a well-addressed solicited response is accepted; the same with a foreign audience is not *)
Definition me := s2l "https://sp.example.org/sp".
Definition acs := s2l "https://sp.example.org/acs/post".
Definition cfg0 := {| entity_id := me; return_addrs := Some [acs]; wrs := false; was := false; waors := false;
  allow_unsolicited := false; dest_regex_set := false; dest_regex_match := false; slack := 0; now := 1000000;
  asynch := true; outstanding := [(s2l "req-1", s2l "/home")]; conv_info := Some {| ci_entity_id := Some me; ci_remote_addr := None |};
  test_mode := false |}.
Definition conf0 := {| c_method := Bearer; c_data := Some {| d_address := None; d_address_valid := true; d_nooa := Some 1000300;
  d_nb := None; d_irt := Some (s2l "req-1"); d_recipient := Some acs |} |}.
Definition asrt (auds : list (list str)) := {| a_id := 1%N; a_sig := None; a_authn := [None];
  a_conditions := Some {| k_empty := false; k_nb := Some 999700; k_nooa := Some 1000300; k_audiences := auds; k_unknown_condition := false |};
  a_has_subject := true; a_confirmations := [conf0]; a_name_id := Some (s2l "alice") |}.
Definition resp0 (auds : list (list str)) := {| r_sig := None; r_valid_instance := true; r_irt := Some (s2l "req-1");
  r_version := Some V20; r_ver_lt2 := Some false; r_destination := Some acs; r_issue_instant := 1000000;
  r_status := Some {| st_code := Some (Code (Some Gen.StatusTable.STATUS_SUCCESS) None); st_msg := false |};
  r_assertions := [asrt auds]; r_encrypted := [] |}.
Example C05_witness :
  is_ok (parse_response cfg0 (resp0 [[me]])) = true /\
  is_ok (parse_response cfg0 (resp0 [[me]; [s2l "https://other.example.org/sp"]])) = false.
Proof. vm_compute. split; reflexivity. Qed.
Print Assumptions C05_witness.
