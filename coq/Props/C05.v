(* Props/C05.v — responses are accepted only if addressed to this SP and solicited.
   "accepted" = Entity._parse_response returns normally: parse_response c r = Ok o.
   [processed r] = the assertions (plain and decrypted) the application may read. *)
From PV Require Import Lib.Base Model.Status Model.Response Model.Endpoints Proofs.Response_lemmas Proofs.C05_lemmas Proofs.Endpoints_lemmas.
Open Scope Z_scope.

(* Unless unsolicited responses are allowed: InResponseTo identifies an
   outstanding request, and every RETAINED bearer confirmation (plain or
   decrypted assertion, at any position) that names a request names that one *)
Theorem C05_solicited :
  forall c r o, parse_response c r = Ok o -> asynch c = true -> allow_unsolicited c = false ->
    (exists i cf, r_irt r = Some i /\ lookup_str i (outstanding c) = Some cf) /\
    Forall (fun a => exists kept, kept <> [] /\ incl kept (a_confirmations a) /\
       Forall (fun sc => forall d x, c_method sc = Bearer -> c_data sc = Some d -> d_irt d = Some x -> r_irt r = Some x) kept)
      (processed r).
Proof.
  intros c r o H Ha Hu. destruct (accepted_processed c r o H) as (Hall & _ & Hs).
  destruct (Hs Ha Hu) as (i & cf & Hi & Hl). split; [now exists i, cf|].
  eapply Forall_impl; [|exact Hall]. intros a Fa. destruct (af_subject _ _ _ Fa) as (kept & Hne & Hk & Hin).
  exists kept. split; [exact Hne|]. split; [exact Hin|].
  eapply Forall_impl; [|exact Hk]. intros sc (d & rcp & Hd & _ & _ & Hb) d' x Hm Hd' Hx.
  rewrite Hd in Hd'. injection Hd' as <-. destruct (Hb Hm) as (Hn & _).
  unfold names_other_request in Hn. rewrite Ha, Hu, Hx, Hi in Hn. cbn in Hn.
  apply negb_false_iff, str_eqb_eq in Hn. now subst x.
Qed.
Print Assumptions C05_solicited.

(* Browser binding: a Destination, when present, matches the configured pattern,
   or (no pattern) is one of the own endpoints for that binding — independently
   of allow_unsolicited, also when the SP has no endpoint for the binding *)
Theorem C05_destination :
  forall c r o, parse_response c r = Ok o -> asynch c = true ->
    forall d, r_destination r = Some d ->
      (dest_regex_set c = true -> dest_regex_match c = true) /\
      (dest_regex_set c = false -> exists addrs, return_addrs c = Some addrs /\ In d addrs).
Proof.
  intros c r o H Ha d Hd. destruct (accepted_processed c r o H) as (_ & Hdest & _).
  destruct (Hdest Ha d Hd) as [A B]. split; [exact A|]. intros Hr. destruct (B Hr) as (addrs & H1 & H2).
  exists addrs. split; [exact H1|]. now apply mem_str_In.
Qed.
Print Assumptions C05_destination.

(* EVERY audience restriction of every accepted assertion lists this SP —
   whatever allow_unsolicited says (full statement; holds since the two fix:
   commits recorded in known_findings.json) *)
Theorem C05_audience :
  forall c r o, parse_response c r = Ok o -> test_mode c = false ->
    Forall (fun a => forall k, a_conditions a = Some k -> k_empty k = false ->
               forall auds, In auds (k_audiences k) -> auds <> [] -> In (entity_id c) auds) (processed r).
Proof.
  intros c r o H Ht. destruct (accepted_processed c r o H) as (Hall & _).
  eapply Forall_impl; [|exact Hall]. intros a Fa k Hk He auds Hin Hne.
  pose proof (af_audience _ _ _ Fa k Hk He Ht) as F. unfold for_me in F. rewrite forallb_forall in F.
  specialize (F auds Hin). destruct auds as [|x xs]; [congruence|]. now apply mem_str_In.
Qed.
Print Assumptions C05_audience.

(* record of the repaired defects: the pre-fix audience test accepted what the statement forbids *)
Theorem C05_audience_before_fix_refuted :
  let other := s2l "https://other.example.org/sp" in let me := s2l "https://sp.example.org/sp" in
  let k := {| k_empty := false; k_nb := None; k_nooa := None; k_audiences := [[me]; [other]]; k_unknown_condition := false |} in
  for_me_before_fix k me = true /\ for_me k me = false.
Proof. vm_compute. split; reflexivity. Qed.
Print Assumptions C05_audience_before_fix_refuted.

(* With conversation information every retained confirmation's Recipient is the
   entity id given there or one of the own endpoints *)
Theorem C05_recipient :
  forall c r o ci, parse_response c r = Ok o -> conv_info c = Some ci ->
    Forall (fun a => exists kept, kept <> [] /\ incl kept (a_confirmations a) /\
       Forall (fun sc => exists d rcp, c_data sc = Some d /\ d_recipient d = Some rcp /\
                  (ci_entity_id ci = Some rcp \/ exists addrs, return_addrs c = Some addrs /\ In rcp addrs)) kept)
      (processed r).
Proof.
  intros c r o ci H Hc. destruct (accepted_processed c r o H) as (Hall & _).
  eapply Forall_impl; [|exact Hall]. intros a Fa. destruct (af_subject _ _ _ Fa) as (kept & Hne & Hk & Hin).
  exists kept. split; [exact Hne|]. split; [exact Hin|].
  eapply Forall_impl; [|exact Hk]. intros sc (d & rcp & Hd & Hr & Hv & _). exists d, rcp. split; [exact Hd|]. split; [exact Hr|].
  unfold verify_recipient in Hv. rewrite Hc in Hv.
  destruct (ci_entity_id ci) as [e|] eqn:Ee.
  - destruct (str_eqb_spec rcp e) as [->|Hn]; [now left|].
    destruct (return_addrs c) as [addrs|]; [|discriminate]. injection Hv as Hv. right. exists addrs. split; [reflexivity|now apply mem_str_In].
  - destruct (return_addrs c) as [addrs|]; [|discriminate]. injection Hv as Hv. right. exists addrs. split; [reflexivity|now apply mem_str_In].
Qed.
Print Assumptions C05_recipient.

(* non-vacuity: a well-addressed solicited response is accepted; the same with a foreign audience is not *)
Definition me := s2l "https://sp.example.org/sp".
Definition acs := s2l "https://sp.example.org/acs/post".
Definition cfg0 := {| entity_id := me; return_addrs := Some [acs]; wrs := false; was := false; waors := false;
  allow_unsolicited := false; dest_regex_set := false; dest_regex_match := false; slack := 0; now := 1000000;
  asynch := true; outstanding := [(s2l "req-1", s2l "/home")]; conv_info := Some {| ci_entity_id := Some me; ci_remote_addr := None |};
  test_mode := false |}.
Definition conf0 := {| c_method := Bearer; c_data := Some {| d_address := None; d_address_valid := true; d_nooa := Some 1000300;
  d_nb := None; d_irt := Some (s2l "req-1"); d_recipient := Some acs |} |}.
Definition asrt (auds : list (list str)) := {| a_id := 1%N; a_sig := None; a_authn := [None];
  a_conditions := Some {| k_empty := false; k_nb := Some 999700; k_nooa := Some 1000300; k_audiences := auds; k_unknown_condition := false |};
  a_has_subject := true; a_confirmations := [conf0]; a_name_id := Some (s2l "alice") |}.
Definition resp0 (auds : list (list str)) := {| r_sig := None; r_valid_instance := true; r_irt := Some (s2l "req-1");
  r_version := Some V20; r_ver_lt2 := Some false; r_destination := Some acs; r_issue_instant := 1000000;
  r_status := Some {| st_code := Some (Code (Some Gen.StatusTable.STATUS_SUCCESS) None); st_msg := false |};
  r_assertions := [asrt auds]; r_encrypted := [] |}.
Example C05_witness :
  is_ok (parse_response cfg0 (resp0 [[me]])) = true /\
  is_ok (parse_response cfg0 (resp0 [[me]; [s2l "https://other.example.org/sp"]])) = false.
Proof. vm_compute. split; reflexivity. Qed.
Print Assumptions C05_witness.

(* ------------------------------------------------------------------------
   The endpoint table quantified per binding (Model/Endpoints.v): the SP is
   configured with an arbitrary assertion_consumer_service table [acs ec] and
   the response arrives over an arbitrary binding [arriving ec]; the expected
   return addresses are what Base.service_urls computes from the two.
   [registered_for eps b u]: u is listed with binding b, or no entry carries b
   and u is listed without a binding. *)

(* what service_urls hands out is exactly the set registered FOR THAT BINDING *)
Theorem C05_service_urls_exact :
  forall eps b,
    (forall l, service_urls eps b = Some l -> forall u, In u l <-> registered_for eps b u) /\
    (service_urls eps b = None -> forall u, ~ registered_for eps b u).
Proof. intros eps b. split; [exact (service_urls_some eps b)|exact (service_urls_none eps b)]. Qed.
Print Assumptions C05_service_urls_exact.

(* an accepted Destination is an endpoint registered for the arriving binding (or matches the pattern) *)
Theorem C05_destination_for_binding :
  forall ec r o, parse_authn_response ec r = Ok o -> browser_binding (arriving ec) = true ->
    forall d, r_destination r = Some d ->
      (dest_regex_set (base ec) = true -> dest_regex_match (base ec) = true) /\
      (dest_regex_set (base ec) = false -> registered_for (acs_table ec) (arriving ec) d).
Proof.
  intros ec r o H Hb d Hd. destruct (C05_destination (cfg_of ec) r o H Hb d Hd) as [A B].
  split; [exact A|]. intros Hr. destruct (B Hr) as (addrs & H1 & H2).
  cbn [cfg_of return_addrs] in H1. now apply (service_urls_some _ _ _ H1).
Qed.
Print Assumptions C05_destination_for_binding.

(* in particular: the SP's own endpoint of ANOTHER binding, a foreign URL, anything not listed
   for the arriving binding is refused when no pattern is configured — also when the SP has
   no endpoint at all for the arriving binding *)
Theorem C05_destination_other_binding_refused :
  forall ec r d, browser_binding (arriving ec) = true -> dest_regex_set (base ec) = false ->
    r_destination r = Some d -> ~ In (EP d (arriving ec)) (acs_table ec) -> ~ In (Unspec d) (acs_table ec) ->
    is_ok (parse_authn_response ec r) = false.
Proof.
  intros ec r d Hb Hr Hd H1 H2. destruct (parse_authn_response ec r) as [o|e] eqn:Ep; [|reflexivity].
  exfalso. destruct (C05_destination_for_binding ec r o Ep Hb d Hd) as [_ B].
  exact (other_binding_not_registered _ _ _ H1 H2 (B Hr)).
Qed.
Print Assumptions C05_destination_other_binding_refused.

(* with conversation information every retained confirmation's Recipient is the entity id given
   there or an endpoint registered for the arriving binding *)
Theorem C05_recipient_for_binding :
  forall ec r o ci, parse_authn_response ec r = Ok o -> conv_info (base ec) = Some ci ->
    Forall (fun a => exists kept, kept <> [] /\ incl kept (a_confirmations a) /\
       Forall (fun sc => exists d rcp, c_data sc = Some d /\ d_recipient d = Some rcp /\
                  (ci_entity_id ci = Some rcp \/ registered_for (acs_table ec) (arriving ec) rcp)) kept)
      (processed r).
Proof.
  intros ec r o ci H Hc. pose proof (C05_recipient (cfg_of ec) r o ci H Hc) as F.
  eapply Forall_impl; [|exact F]. intros a (kept & Hne & Hin & Hk). exists kept. split; [exact Hne|]. split; [exact Hin|].
  eapply Forall_impl; [|exact Hk]. intros sc (d & rcp & Hd & Hr & [He|(addrs & H1 & H2)]); exists d, rcp; (split; [exact Hd|]); (split; [exact Hr|]).
  - now left.
  - right. cbn [cfg_of return_addrs] in H1. now apply (service_urls_some _ _ _ H1).
Qed.
Print Assumptions C05_recipient_for_binding.

(* the solicited clause for a call: browser binding = any binding other than SOAP / PAOS *)
Theorem C05_solicited_call :
  forall ec r o, parse_authn_response ec r = Ok o -> browser_binding (arriving ec) = true ->
    allow_unsolicited (base ec) = false ->
    (exists i cf, r_irt r = Some i /\ lookup_str i (outstanding (base ec)) = Some cf) /\
    Forall (fun a => exists kept, kept <> [] /\ incl kept (a_confirmations a) /\
       Forall (fun sc => forall d x, c_method sc = Bearer -> c_data sc = Some d -> d_irt d = Some x -> r_irt r = Some x) kept)
      (processed r).
Proof. intros ec r o H Hb Hu. exact (C05_solicited (cfg_of ec) r o H Hb Hu). Qed.
Print Assumptions C05_solicited_call.

(* a history of calls on ONE long-lived SP (fixed endpoint table; binding, outstanding requests,
   conversation info, clock, pattern verdict and message free per call): whatever came before,
   the n-th call, when accepted, satisfies the addressing clauses for ITS OWN binding *)
Theorem C05_history :
  forall eps (calls : list call) n c b r o,
    nth_error calls n = Some (c, b, r) -> nth_error (run_calls eps calls) n = Some (Ok o) ->
    browser_binding b = true ->
    (forall d, r_destination r = Some d ->
       (dest_regex_set c = true -> dest_regex_match c = true) /\
       (dest_regex_set c = false -> registered_for eps b d)) /\
    (allow_unsolicited c = false -> exists i cf, r_irt r = Some i /\ lookup_str i (outstanding c) = Some cf).
Proof.
  intros eps calls n c b r o Hn Hr Hb. rewrite nth_error_run_calls, Hn in Hr. injection Hr as Hr.
  split.
  - intros d Hd. exact (C05_destination_for_binding {| base := c; acs_table := eps; arriving := b |} r o Hr Hb d Hd).
  - intros Hu. exact (proj1 (C05_solicited_call {| base := c; acs_table := eps; arriving := b |} r o Hr Hb Hu)).
Qed.
Print Assumptions C05_history.

(* non-vacuity / the situation itself: ACS endpoints for POST and Artifact only.  Over POST the POST
   endpoint is accepted; over Redirect the same Destination (own endpoint of another binding) is
   refused, so is a response whose only fault is a Recipient naming the POST endpoint; a
   Destination-less response with Recipient = entity id is accepted over Redirect *)
Definition acs_art := s2l "https://sp.example.org/acs/artifact".
Definition tbl_pa := [EP acs B_POST; EP acs_art B_ARTIFACT].
Definition conf_me := {| c_method := Bearer; c_data := Some {| d_address := None; d_address_valid := true; d_nooa := Some 1000300;
  d_nb := None; d_irt := Some (s2l "req-1"); d_recipient := Some me |} |}.
Definition resp1 (dest : option str) (cf : confirmation) := {| r_sig := None; r_valid_instance := true; r_irt := Some (s2l "req-1");
  r_version := Some V20; r_ver_lt2 := Some false; r_destination := dest; r_issue_instant := 1000000;
  r_status := Some {| st_code := Some (Code (Some Gen.StatusTable.STATUS_SUCCESS) None); st_msg := false |};
  r_assertions := [{| a_id := 1%N; a_sig := None; a_authn := [None];
     a_conditions := Some {| k_empty := false; k_nb := Some 999700; k_nooa := Some 1000300; k_audiences := [[me]]; k_unknown_condition := false |};
     a_has_subject := true; a_confirmations := [cf]; a_name_id := Some (s2l "alice") |}]; r_encrypted := [] |}.
Example C05_binding_witness :
  is_ok (parse_authn_response {| base := cfg0; acs_table := tbl_pa; arriving := B_POST |} (resp1 (Some acs) conf0)) = true /\
  is_ok (parse_authn_response {| base := cfg0; acs_table := tbl_pa; arriving := B_REDIRECT |} (resp1 (Some acs) conf_me)) = false /\
  is_ok (parse_authn_response {| base := cfg0; acs_table := tbl_pa; arriving := B_REDIRECT |} (resp1 None conf0)) = false /\
  is_ok (parse_authn_response {| base := cfg0; acs_table := tbl_pa; arriving := B_REDIRECT |} (resp1 None conf_me)) = true /\
  is_ok (parse_authn_response {| base := cfg0; acs_table := tbl_pa; arriving := B_ARTIFACT |} (resp1 (Some acs_art) conf_me)) = true.
Proof. vm_compute. repeat split; reflexivity. Qed.
Print Assumptions C05_binding_witness.

(* ---------------------------------------------------------------- the SPELLING of allow_unsolicited
   The solicited clause in terms of the EFFECTIVE option value: the SP is built from a configuration of
   any class (SPConfig / Config / IdPConfig ...) whose sp section writes allow_unsolicited in any way
   (absent, None, a bool, any string, any int) beside any other arguments and role sections; the value
   goes through Config.load / load_special / getattr and Base.__init__ (Model/Client.v, reused from C02). *)
From PV Require Import Model.Client Model.C05Opts Proofs.Client_lemmas Proofs.C05Opts_lemmas.

Theorem C05_solicited_effective :
  forall sc r o, parse_spelled sc r = Ok o -> browser_binding (arriving (s_call sc)) = true ->
    effective sc = false ->
    (exists i cf, r_irt r = Some i /\ lookup_str i (outstanding (base (s_call sc))) = Some cf) /\
    Forall (fun a => exists kept, kept <> [] /\ incl kept (a_confirmations a) /\
       Forall (fun sc => forall d x, c_method sc = Bearer -> c_data sc = Some d -> d_irt d = Some x -> r_irt r = Some x) kept)
      (processed r).
Proof. intros sc r o H Hb He. exact (C05_solicited_call (ecfg_of sc) r o H Hb He). Qed.
Print Assumptions C05_solicited_effective.

(* the effective value is the coercion of what the sp section says — whatever the configuration class,
   the other role sections and the other sp arguments: exact true / false strings are the booleans,
   None and absence are the default False, everything else counts by its truth *)
Theorem C05_effective_is_coerced :
  forall dc others rest s, assigned AU rest = None -> effective_unsolicited dc others rest s = coerced s.
Proof. exact effective_coerced. Qed.
Print Assumptions C05_effective_is_coerced.

Theorem C05_false_string_is_False :
  forall dc others rest,
    effective_unsolicited dc others rest (Val (CStr (s2l "false"))) = effective_unsolicited dc others rest (Val (CBool false)) /\
    effective_unsolicited dc others rest (Val (CStr (s2l "false"))) = false /\
    effective_unsolicited dc others rest (Val (CStr (s2l "true"))) = effective_unsolicited dc others rest (Val (CBool true)).
Proof. intros. split; [apply false_string_is_False|]. split; [apply false_string_refuses|apply true_string_is_True]. Qed.
Print Assumptions C05_false_string_is_False.

(* exactly these spellings refuse unsolicited responses: absent, None, False, the string false, the empty string, 0 *)
Theorem C05_refusing_spellings :
  forall dc others rest s, assigned AU rest = None ->
    (effective_unsolicited dc others rest s = false <-> means_refuse s).
Proof. intros dc others rest s Hr. rewrite (effective_coerced dc others rest s Hr). apply coerced_false_iff. Qed.
Print Assumptions C05_refusing_spellings.

(* the statement of the property for an SP configured with one of those spellings *)
Theorem C05_solicited_spelled :
  forall sc r o, parse_spelled sc r = Ok o -> browser_binding (arriving (s_call sc)) = true ->
    assigned AU (s_rest sc) = None -> means_refuse (s_spell sc) ->
    (exists i cf, r_irt r = Some i /\ lookup_str i (outstanding (base (s_call sc))) = Some cf) /\
    Forall (fun a => exists kept, kept <> [] /\ incl kept (a_confirmations a) /\
       Forall (fun sc => forall d x, c_method sc = Bearer -> c_data sc = Some d -> d_irt d = Some x -> r_irt r = Some x) kept)
      (processed r).
Proof.
  intros sc r o H Hb Hr Hs. apply (C05_solicited_effective sc r o H Hb).
  unfold effective. now apply C05_refusing_spellings.
Qed.
Print Assumptions C05_solicited_spelled.

(* histories: the option is resolved once, when the SP object is made; the n-th call of ANY sequence of
   calls on that object, over a browser binding, when accepted, answers an outstanding request *)
Theorem C05_spelled_history :
  forall sc (calls : list call) n c b r o,
    nth_error calls n = Some (c, b, r) -> nth_error (run_spelled sc calls) n = Some (Ok o) ->
    browser_binding b = true -> effective sc = false ->
    exists i cf, r_irt r = Some i /\ lookup_str i (outstanding c) = Some cf.
Proof.
  intros sc calls n c b r o Hn Hr Hb He. rewrite nth_error_run_spelled, Hn in Hr. injection Hr as Hr.
  exact (proj1 (C05_solicited_call {| base := with_unsolicited (effective sc) c; acs_table := acs_table (s_call sc); arriving := b |} r o Hr Hb He)).
Qed.
Print Assumptions C05_spelled_history.

(* non-vacuity and the situation itself: the SP of C05_witness configured with the STRING false
   accepts the solicited response and refuses the same response once its request is no longer
   outstanding; configured with the string False (capital F: not coerced, a non-empty string) it accepts it *)
Example C05_spelling_witness :
  let sc := fun s outs => {| s_call := {| base := {| entity_id := me; return_addrs := None; wrs := false; was := false; waors := false;
                 allow_unsolicited := true; dest_regex_set := false; dest_regex_match := false; slack := 0; now := 1000000;
                 asynch := false; outstanding := outs; conv_info := None; test_mode := false |};
               acs_table := tbl_pa; arriving := B_POST |};
             s_class := s2l "sp"; s_others := []; s_rest := [(WRS, CBool false)]; s_spell := s |} in
  let rq := [(s2l "req-1", s2l "/")] in
  is_ok (parse_spelled (sc (Val (CStr (s2l "false"))) rq) (resp1 (Some acs) conf_me)) = true /\
  is_ok (parse_spelled (sc (Val (CStr (s2l "false"))) []) (resp1 (Some acs) conf_me)) = false /\
  is_ok (parse_spelled (sc Absent []) (resp1 (Some acs) conf_me)) = false /\
  is_ok (parse_spelled (sc (IntVal 0) []) (resp1 (Some acs) conf_me)) = false /\
  is_ok (parse_spelled (sc (Val (CStr (s2l "true"))) []) (resp1 (Some acs) conf_me)) = true /\
  is_ok (parse_spelled (sc (Val (CStr (s2l "False"))) []) (resp1 (Some acs) conf_me)) = true.
Proof. vm_compute. repeat split. Qed.
Print Assumptions C05_spelling_witness.
