(* Props/C16.v — the metadata store serves exactly what valid, unexpired
   metadata declares.  All statements quantify over arbitrary stores /
   document lists / role, key and endpoint lists (proofs by induction in
   Proofs/MdStore_lemmas.v). *)
From PV Require Import Lib.Base Model.Xmlsec Model.MdStore Model.MdSig Proofs.MdStore_lemmas Proofs.MdSig_lemmas.
Open Scope N_scope.

(* ---- (1) exactness of service() ------------------------------------------
   Ok l  iff  l is the non-empty answer of the FIRST source whose answer is
   non-empty; a source's answer is exactly (membership, both directions) the
   endpoints s with: entity stored under eid, role r of that entity with
   r_type = typ, s among r's endpoints, sv_type s = svc, sv_binding s = b. *)
Theorem C16_exact_service :
  forall st eid typ svc b l,
    store_service st eid typ svc b = Ok l <->
    l <> [] /\ exists pre k m post, st = pre ++ (k, m) :: post /\
       md_service m eid typ svc b = Some l /\ Forall (quiet eid typ svc b) pre.
Proof. exact store_service_ok_iff. Qed.
Print Assumptions C16_exact_service.

Theorem C16_exact_service_members :
  forall m eid typ svc b l, md_service m eid typ svc b = Some l ->
    forall s, In s l <-> declares m eid typ svc b s.
Proof. exact md_service_In. Qed.
Print Assumptions C16_exact_service_members.

(* … traced back to the loaded DOCUMENTS: whatever service() returns is an
   endpoint of a role of type typ of an occurrence e0 of THAT entity id in a
   configured, admissible source, e0 being the occurrence the specification
   doc_entity selects (first acceptable one) and unexpired *)
Theorem C16_exact :
  forall now srcs eid typ svc b l sv,
    store_service (load_all now [] srcs) eid typ svc b = Ok l -> In sv l ->
    exists s e0 r, In s srcs /\ admissible s /\
      doc_entity now (eff_check s) (d_body (s_doc s)) eid = Some (stored_form e0) /\
      e_id e0 = eid /\ (eff_check s = true -> valid now (e_valid_until e0) = true) /\
      In r (e_roles e0) /\ r_type r = typ /\ In sv (r_services r) /\ sv_type sv = svc /\ sv_binding sv = b.
Proof. exact service_from_documents. Qed.
Print Assumptions C16_exact.

(* what a registered source holds under an entity id IS the specification *)
Theorem C16_exact_source :
  forall now srcs k m, In (k, m) (load_all now [] srcs) ->
    exists s, In s srcs /\ s_key s = k /\ load_source now s = Ok m /\ admissible s /\
              forall eid, aget eid m = doc_entity now (eff_check s) (d_body (s_doc s)) eid.
Proof. exact registered_source. Qed.
Print Assumptions C16_exact_source.

(* with distinct source keys the store is the list of successful loads, in order *)
Theorem C16_exact_store :
  forall now srcs, NoDup (map s_key srcs) -> load_all now [] srcs = loaded now srcs.
Proof. intros now srcs H. apply (load_all_distinct now srcs [] H). intros k []. Qed.
Print Assumptions C16_exact_store.

(* ---- (1) exactness of certs() --------------------------------------------- *)
Theorem C16_exact_certs :
  forall st eid d use l, d <> s2l "any" -> store_certs st eid d use = Ok l ->
    exists e, store_get st eid = Some e /\ NoDup l /\
      forall c, In c l <-> role_declares use (roles_of e (descr_key d)) c.
Proof. exact store_certs_exact. Qed.
Print Assumptions C16_exact_certs.

Theorem C16_exact_certs_any :
  forall st eid use l, store_certs st eid (s2l "any") use = Ok l ->
    exists e, store_get st eid = Some e /\
      forall c, In c l <-> exists d, In d ANY_ROLES /\ role_declares use (roles_of e (descr_key d)) c.
Proof. exact store_certs_any_exact. Qed.
Print Assumptions C16_exact_certs_any.

(* the entity certs() reads is the one of the FIRST source that has it *)
Theorem C16_exact_which_source :
  forall st eid e, store_get st eid = Some e ->
    exists pre k m post, st = pre ++ (k, m) :: post /\ aget eid m = Some e /\
                         Forall (fun km => aget eid (snd km) = None) pre.
Proof. intros st eid e H. pose proof (store_get_char st eid) as C. now rewrite H in C. Qed.
Print Assumptions C16_exact_which_source.

(* nothing from another entity, role or key use: every served certificate sits
   in a key descriptor of that entity (and of that role type, when one is
   named) whose use is absent or equal to the requested one *)
Theorem C16_key_use_isolation :
  forall st eid d use l c, store_certs st eid d use = Ok l -> In c l ->
    exists e r k c0, store_get st eid = Some e /\ In r (e_roles e) /\ In k (r_keys r) /\
      (kd_use k = None \/ kd_use k = Some use) /\ In c0 (kd_certs k) /\ c = repack_cert c0 /\
      (d <> s2l "any" -> r_type r = descr_key d).
Proof. exact store_certs_sound. Qed.
Print Assumptions C16_key_use_isolation.

(* an encryption-only certificate is never returned for signing, whatever the
   order of the key descriptors *)
Theorem C16_encryption_only_never_for_signing :
  forall st eid d l c e,
    store_get st eid = Some e ->
    (forall r k c0, In r (e_roles e) -> In k (r_keys r) -> In c0 (kd_certs k) -> repack_cert c0 = c ->
                    kd_use k = Some U_ENCRYPTION) ->
    store_certs st eid d U_SIGNING = Ok l -> ~ In c l.
Proof.
  intros st eid d l c e He Honly H Hin.
  destruct (store_certs_sound _ _ _ _ _ _ H Hin) as (e' & r & k & c0 & He' & Hr & Hk & Hu & Hc & -> & _).
  rewrite He in He'. injection He' as <-. specialize (Honly r k c0 Hr Hk Hc eq_refl).
  rewrite Honly in Hu. destruct Hu as [Hu|Hu]; [discriminate|]. injection Hu as Hu. vm_compute in Hu. discriminate.
Qed.
Print Assumptions C16_encryption_only_never_for_signing.

(* certs() raises only KeyError, exactly for: unknown entity / named role type absent.  The model follows the library
   with proposed_fix/C03-1: a use-matching key descriptor without X509Data (KeyName / KeyValue only) is skipped *)
Theorem C16_certs_errors :
  forall st eid d use x, store_certs st eid d use = Err x ->
    x = KeyError /\
    (store_get st eid = None \/
     exists e, store_get st eid = Some e /\ d <> s2l "any" /\ roles_of e (descr_key d) = []).
Proof. exact store_certs_err. Qed.
Print Assumptions C16_certs_errors.

(* FULL statement for a served entity: certs(eid, any, use) ANSWERS, with exactly the certificates the entity's key
   descriptors declare for that use (use equal or absent) - whatever other key descriptors the entity carries *)
Theorem C16_certs_serves_what_is_declared :
  forall st eid use e, store_get st eid = Some e ->
    exists l, store_certs st eid (s2l "any") use = Ok l /\
      forall c, In c l <-> exists d, In d ANY_ROLES /\ role_declares use (roles_of e (descr_key d)) c.
Proof.
  intros st eid use e He. destruct (store_certs_answers st eid (s2l "any") use e He (or_introl eq_refl)) as [l Hl].
  exists l. split; [exact Hl|]. destruct (store_certs_any_exact _ _ _ _ Hl) as (e' & He' & H).
  rewrite He in He'. injection He' as <-. exact H.
Qed.
Print Assumptions C16_certs_serves_what_is_declared.

(* the library BEFORE proposed_fix/C03-1 (store_certs_before_fix: key[key_info][x509_data] without .get) did not
   satisfy it: one signing key descriptor with a KeyName only, and the certificate another signing key descriptor
   of the same entity declares is not served - KeyError for the whole entity *)
Definition kn_cert : str := s2l "QUFBQQ==".
Definition kn_store : store :=
  [(s2l "1", [(s2l "A", Build_entity (s2l "A") None
     [Build_role T_IDP (Some SAML2P) [Build_keydesc (Some U_SIGNING) [kn_cert]; Build_keydesc (Some U_SIGNING) []] [] []] false [])])].
Theorem C16_certs_before_fix_refuted :
  exists st eid use e c,
    store_get st eid = Some e /\
    (exists d, In d ANY_ROLES /\ role_declares use (roles_of e (descr_key d)) c) /\
    store_certs_before_fix st eid (s2l "any") use = Err KeyError /\
    store_certs st eid (s2l "any") use = Ok [c].
Proof.
  exists kn_store, (s2l "A"), U_SIGNING.
  eexists. exists kn_cert. split; [reflexivity|]. split; [|split; reflexivity].
  exists (s2l "idpsso"). split; [vm_compute; tauto|].
  eexists. exists (Build_keydesc (Some U_SIGNING) [kn_cert]), kn_cert.
  split; [left; reflexivity|]. split; [left; reflexivity|]. split; [reflexivity|]. split; [left; reflexivity|reflexivity].
Qed.
Print Assumptions C16_certs_before_fix_refuted.

(* ... and was the same function wherever it answered; it raised KeyError in exactly one more case *)
Theorem C16_certs_before_fix_partial :
  forall st eid d use,
    match store_certs_before_fix st eid d use with
    | Ok l => store_certs st eid d use = Ok l
    | Err x => x = KeyError /\
        (store_certs st eid d use = Err KeyError \/
         exists e r k, store_get st eid = Some e /\ In r (e_roles e) /\ In k (r_keys r) /\ use_ok use k = true /\ kd_certs k = [])
    end.
Proof. exact store_certs_before_fix_char. Qed.
Print Assumptions C16_certs_before_fix_partial.

(* ---- (1) entity attributes / categories / attribute requirements ---------- *)
Theorem C16_exact_entity_attributes :
  forall st eid res, store_entity_attributes st eid = Ok res ->
    forall n, aget n res =
      match store_get st eid with
      | None => None
      | Some e => if hits n (List.concat (e_eattrs e)) then Some (vals_of n (List.concat (e_eattrs e))) else None
      end.
Proof. exact entity_attributes_exact. Qed.
Print Assumptions C16_exact_entity_attributes.

Theorem C16_exact_entity_categories :
  forall st eid l, store_entity_categories st eid = Ok l ->
    l = match store_get st eid with
        | None => []
        | Some e => vals_of ENTITY_CATEGORY (List.concat (e_eattrs e))
        end.
Proof.
  intros st eid l. unfold store_entity_categories.
  destruct (store_entity_attributes st eid) as [res|x] eqn:E; [|discriminate].
  intros H; injection H as <-. rewrite (entity_attributes_exact _ _ _ E ENTITY_CATEGORY).
  destruct (store_get st eid) as [e|]; [|reflexivity].
  destruct (hits ENTITY_CATEGORY (List.concat (e_eattrs e))) eqn:Eh; [reflexivity|].
  unfold vals_of. unfold hits in Eh. now rewrite (filter_none _ _ Eh).
Qed.
Print Assumptions C16_exact_entity_categories.

Theorem C16_exact_supported_categories :
  forall st eid l, store_supported_categories st eid = Ok l ->
    l = match store_get st eid with
        | None => []
        | Some e => vals_of EC_SUPPORT (List.concat (e_eattrs e))
        end.
Proof.
  intros st eid l. unfold store_supported_categories.
  destruct (store_entity_attributes st eid) as [res|x] eqn:E; [|discriminate].
  intros H; injection H as <-. rewrite (entity_attributes_exact _ _ _ E EC_SUPPORT).
  destruct (store_get st eid) as [e|]; [|reflexivity].
  destruct (hits EC_SUPPORT (List.concat (e_eattrs e))) eqn:Eh; [reflexivity|].
  unfold vals_of. unfold hits in Eh. now rewrite (filter_none _ _ Eh).
Qed.
Print Assumptions C16_exact_supported_categories.

Theorem C16_exact_attribute_requirement :
  forall st eid index req opt, store_attribute_requirement st eid index = Some (req, opt) ->
    exists e, store_get st eid = Some e /\
      let all := flat_map ac_req (filter (index_selected index)
                                         (flat_map r_acs (roles_of e (s2l "spsso_descriptor")))) in
      req = filter is_required all /\ opt = filter (fun a => negb (is_required a)) all.
Proof. exact attribute_requirement_exact. Qed.
Print Assumptions C16_exact_attribute_requirement.

(* ---- (2) unknown entity vs known entity lacking the binding ---------------- *)
Theorem C16_unknown_vs_unsupported :
  forall st eid typ svc b,
    (store_service st eid typ svc b = Err UnknownSystemEntity <->
       forall km, In km st -> has_role (snd km) eid typ = false) /\
    (store_service st eid typ svc b = Err UnsupportedBinding <->
       (forall km, In km st -> quiet eid typ svc b km) /\ exists km, In km st /\ has_role (snd km) eid typ = true) /\
    UnknownSystemEntity <> UnsupportedBinding /\
    ((exists l, store_service st eid typ svc b = Ok l /\ l <> []) \/
     store_service st eid typ svc b = Err UnsupportedBinding \/
     store_service st eid typ svc b = Err UnknownSystemEntity).
Proof.
  intros. split; [apply store_service_unknown_iff|]. split; [apply store_service_unsupported_iff|].
  split; [exact Unknown_ne_Unsupported|apply store_service_classes].
Qed.
Print Assumptions C16_unknown_vs_unsupported.

(* an entity id that no source holds is always reported as unknown *)
Theorem C16_unknown_entity :
  forall st eid typ svc b, store_get st eid = None ->
    store_service st eid typ svc b = Err UnknownSystemEntity.
Proof.
  intros st eid typ svc b H. apply store_service_unknown_iff. intros km Hin.
  pose proof (store_get_char st eid) as C. rewrite H in C. unfold has_role. now rewrite (C km Hin).
Qed.
Print Assumptions C16_unknown_entity.

(* the typed wrappers ask service() for their own role type / service and, when
   no binding is given, their default binding - so (1) and (2) carry over to
   single_sign_on_service, assertion_consumer_service, ... *)
Theorem C16_wrappers_are_service :
  forall st eid b,
    store_wrapper st W_SSO eid b None = store_service st eid T_IDP S_SSO (match b with Some x => x | None => B_REDIRECT end) /\
    store_wrapper st W_ACS eid b None = store_service st eid T_SP S_ACS (match b with Some x => x | None => B_POST end) /\
    store_wrapper st W_ATTR eid b None = store_service st eid T_AA S_ATTR (match b with Some x => x | None => B_REDIRECT end) /\
    store_wrapper st W_AUTHZ eid b None = store_service st eid T_PDP S_AUTHZ (match b with Some x => x | None => B_SOAP end) /\
    (forall t, store_wrapper st W_SLO eid b (Some t) =
               store_service st eid (descr_key t) S_SLO (match b with Some x => x | None => B_REDIRECT end)) /\
    (forall t, store_wrapper st W_ARS eid b (Some t) =
               store_service st eid (descr_key t) S_ARS (match b with Some x => x | None => B_REDIRECT end)) /\
    (forall t, store_wrapper st W_AIDR eid b (Some t) =
               store_service st eid (descr_key t) S_AIDR (match b with Some x => x | None => B_SOAP end)) /\
    (forall w t t', In w [W_SSO; W_ACS; W_ATTR; W_AUTHZ] -> store_wrapper st w eid b t = store_wrapper st w eid b t').
Proof.
  intros st eid b. repeat split; try reflexivity.
  intros w t t' Hw. cbn [In] in Hw. destruct Hw as [<-|[<-|[<-|[<-|[]]]]]; reflexivity.
Qed.
Print Assumptions C16_wrappers_are_service.

(* ---- (3) expired entities / documents are never served --------------------- *)
Theorem C16_expired_never_served :
  forall now srcs k m eid e,
    In (k, m) (load_all now [] srcs) -> aget eid m = Some e ->
    exists s e0, In s srcs /\ s_key s = k /\ admissible s /\ e = stored_form e0 /\ e_id e0 = eid /\
      (eff_check s = true -> valid now (e_valid_until e0) = true) /\
      match d_body (s_doc s) with
      | Many vu iv es => iv = IvOk /\ In e0 es /\ (eff_check s = true -> valid now vu = true)
      | Single e1 => e0 = e1
      | NotMetadata => False
      end.
Proof. exact served_entity_declared. Qed.
Print Assumptions C16_expired_never_served.

Theorem C16_expired_document_contributes_nothing :
  forall now s m t iv es,
    load_source now s = Ok m -> eff_check s = true -> d_body (s_doc s) = Many (Some t) iv es ->
    (t < now)%Z -> m = [].
Proof.
  intros now s m t iv es Hl Hc Hb Ht. apply (expired_document now s m (Some t) iv es Hl Hc Hb).
  cbn [valid]. apply Z.leb_gt. exact Ht.
Qed.
Print Assumptions C16_expired_document_contributes_nothing.

Theorem C16_valid_means_not_passed : forall now t, valid now (Some t) = true <-> (now <= t)%Z.
Proof. exact valid_spec. Qed.
Print Assumptions C16_valid_means_not_passed.

(* ---- (4) signed metadata with a verification certificate ------------------
   (4a) relative to the verification CALL (security.verify_signature, i.e. the
   crypto backend's answer): a source with a certificate and a signed root is
   registered only if it is remote and the call answered True.  A failure
   reported by raising (xmlsec1 backend) or by returning False
   (CryptoBackendXMLSecurity) is fatal alike - the model follows the repaired
   parse_and_check_signature (proposed_fix/C16-1). *)
Theorem C16_signed_only_if_verified :
  forall now s m, load_source now s = Ok m -> s_kind s <> Inline -> s_cert s = true -> d_signed (s_doc s) = true ->
    s_kind s = Remote /\ s_verdict s = Ok true.
Proof. intros now s m Hl Hk Hc Hd. apply load_source_ok in Hl as [_ [_ Ha]]. exact (Ha Hk Hc Hd). Qed.
Print Assumptions C16_signed_only_if_verified.

(* the same for every source of a long-lived store *)
Theorem C16_registered_signed_source_verified :
  forall now srcs k m, In (k, m) (load_all now [] srcs) ->
    exists s, In s srcs /\ s_key s = k /\ load_source now s = Ok m /\
      (s_kind s = Remote -> s_http_ok s = true) /\
      (s_kind s <> Inline -> s_cert s = true -> d_signed (s_doc s) = true ->
         s_kind s = Remote /\ s_verdict s = Ok true).
Proof.
  intros now srcs k m H. destruct (registered_source _ _ _ _ H) as (s & H1 & H2 & H3 & [H4 H5] & _).
  exists s. repeat split; auto; now apply H5.
Qed.
Print Assumptions C16_registered_signed_source_verified.

(* a verification that does not succeed contributes no entity: the load raises,
   the store is left as it was *)
Theorem C16_failed_verification_contributes_nothing :
  forall now st s, s_kind s <> Inline -> s_cert s = true -> d_signed (s_doc s) = true -> s_verdict s <> Ok true ->
    (exists x, load_source now s = Err x) /\ fst (store_load now st s) = st.
Proof.
  intros now st s Hk Hc Hd Hv. destruct (failed_verification_fatal now s Hk Hc Hd Hv) as [x Hx].
  split; [now exists x|]. unfold store_load. now rewrite Hx.
Qed.
Print Assumptions C16_failed_verification_contributes_nothing.

(* exactly the admissible sources whose document parses are registered *)
Theorem C16_registered_iff :
  forall now s m, load_source now s = Ok m <->
    admissible s /\ parse now (eff_check s) (d_body (s_doc s)) = Ok m.
Proof.
  intros now s m. split.
  - intros H. apply load_source_ok in H as [Hp Ha]. now split.
  - intros [Ha Hp]. now apply load_source_complete.
Qed.
Print Assumptions C16_registered_iff.

(* BEFORE the repair (load_source_before_fix: MetadataStore.load ignored the
   value parse_and_check_signature returned) the statement failed: a backend
   answering False got the entities served *)
Definition witness_entity : entity :=
  {| e_id := s2l "https://idp.example.org"; e_valid_until := None;
     e_roles := [{| r_type := T_IDP; r_protocols := Some SAML2P; r_keys := [];
                    r_services := [Build_service S_SSO B_REDIRECT (s2l "https://idp.example.org/sso") None];
                    r_acs := [] |}];
     e_affil := false; e_eattrs := [] |}.
Definition witness_source : source :=
  {| s_key := s2l "http://md.example.org/"; s_kind := Remote; s_cert := true; s_check := true; s_http_ok := true;
     s_verdict := Ok false; s_doc := {| d_signed := true; d_body := Many None IvOk [witness_entity] |} |}.

Theorem C16_signed_only_if_verified_before_fix_refuted :
  exists now s m, load_source_before_fix now s = Ok m /\ s_kind s <> Inline /\ s_cert s = true /\
    d_signed (s_doc s) = true /\ s_verdict s = Ok false /\ m <> [] /\
    (exists l, store_service [(s_key s, m)] (s2l "https://idp.example.org") T_IDP S_SSO B_REDIRECT = Ok l) /\
    (* the repaired loader refuses the same source *)
    exists x, load_source now s = Err x.
Proof.
  exists 0%Z, witness_source. eexists. split; [vm_compute; reflexivity|].
  repeat split; try discriminate; eexists; vm_compute; reflexivity.
Qed.
Print Assumptions C16_signed_only_if_verified_before_fix_refuted.

(* (4b) WHICH signature the call is about (DESIGN.md 5.1 F15, Model/MdSig.v).
   parse_and_check_signature passes no node id: the tool's answer is about the
   FIRST ds:Signature in document order, whatever signed() looked at. *)
Theorem C16_no_node_id_means_first_signature :
  forall dupfail doc nm cert,
    tool_verify dupfail doc nm None cert =
    if dupfail && has_dup (registered nm doc []) then false
    else match first_sig doc with None => false | Some p => sig_verifies doc nm p cert end.
Proof. exact tool_verify_no_node_id. Qed.
Print Assumptions C16_no_node_id_means_first_signature.

(* FULL STATEMENT, for the repaired loader (proposed_fix/C16-3: the pre-check
   sigver._enveloped_signature_ok(..., whole_document_ok=True) on the document
   element before the tool is called; Model/MdSig.v md_precheck): a registered
   source with a certificate and a signed root - the root's own signature
   verified (own_signature_ok), namely: the first ds:Signature of the whole
   document is the root's k-th child and its only Signature child, made with
   the configured certificate's key, value intact, with a single Reference -
   URI "" or "#" + the root's non-empty ID - whose digest is the whole document
   minus that signature. *)
Theorem C16_prechecked_loader_full :
  forall dupfail now s doc nm cert m,
    s_kind s <> Inline -> s_cert s = true -> root_signed doc = true ->
    load_source now (signed_source_prechecked s dupfail doc nm cert) = Ok m ->
    own_signature_ok doc nm cert = true /\
    exists n i pl kids k u d,
      doc = El n i pl kids /\ first_sig doc = Some [k] /\ count_sigs kids = 1%nat /\
      nth_error kids k = Some (Sg [(u, d)] cert true) /\
      (u = [] \/ exists v, i = Some v /\ v <> [] /\ u = HASH :: v) /\
      tree_eqb d (remove_at [k] doc) = true.
Proof. exact prechecked_loader_full. Qed.
Print Assumptions C16_prechecked_loader_full.

Theorem C16_precheck_refused_not_registered :
  forall dupfail now s doc nm cert,
    s_kind s <> Inline -> s_cert s = true -> root_signed doc = true -> md_precheck doc = false ->
    exists x, load_source now (signed_source_prechecked s dupfail doc nm cert) = Err x.
Proof. exact precheck_refused_not_registered. Qed.
Print Assumptions C16_precheck_refused_not_registered.

(* BEFORE that repair (signed_source_before_fix: the tool alone) the statement
   failed.  Witnesses: the attacker's EntitiesDescriptor (no ID) carries
   Extensions holding the federation's validly signed document, THEN a
   top-level Signature whose value is garbage; and the genuine Signature MOVED
   to the attacker's root with the genuine document parked without it.  The
   repaired loader refuses both, and their URI "" variants. *)
Definition N_ED : N := 1.   Definition N_EXT : N := 2.   Definition N_ENT : N := 3.
Definition K_FED : N := 6.
Definition genuine_unsigned : tree := El N_ED (Some (s2l "fed")) 10 [El N_ENT None 11 []].
Definition genuine_signed : tree :=
  El N_ED (Some (s2l "fed")) 10 [Sg [(s2l "#fed", genuine_unsigned)] K_FED true; El N_ENT None 11 []].
(* the same federation document signed with a whole-document Reference (URI ""), root without ID *)
Definition genuine0_unsigned : tree := El N_ED None 10 [El N_ENT None 11 []].
Definition genuine0_signed : tree :=
  El N_ED None 10 [Sg [([], genuine0_unsigned)] K_FED true; El N_ENT None 11 []].
Definition wrapped_doc : tree :=
  El N_ED None 20 [El N_EXT None 21 [genuine_signed];
                   Sg [(s2l "#fed", genuine_unsigned)] 0 false;
                   El N_ENT None 22 []].
Definition wrapped_doc_moved : tree :=
  El N_ED None 20 [Sg [(s2l "#fed", genuine_unsigned)] K_FED true;
                   El N_EXT None 21 [genuine_unsigned];
                   El N_ENT None 22 []].
(* URI "" variants: garbage whole-document signature after the parked original;
   the genuine whole-document signature moved onto the attacker's root *)
Definition wrapped0_doc : tree :=
  El N_ED None 20 [El N_EXT None 21 [genuine_signed];
                   Sg [([], genuine0_unsigned)] 0 false;
                   El N_ENT None 22 []].
Definition wrapped0_doc_moved : tree :=
  El N_ED None 20 [Sg [([], genuine0_unsigned)] K_FED true;
                   El N_EXT None 21 [genuine0_unsigned];
                   El N_ENT None 22 []].
Definition evil_source : source := remote_stub true [witness_entity].

Theorem C16_signed_only_if_own_signature_verifies_before_fix_refuted :
  exists dupfail now s doc nm cert m,
    s_kind s <> Inline /\ s_cert s = true /\ root_signed doc = true /\
    load_source now (signed_source_before_fix s dupfail doc nm cert) = Ok m /\ m <> [] /\
    own_signature_ok doc nm cert = false /\
    (exists m', load_source now (signed_source_before_fix s dupfail wrapped_doc_moved nm cert) = Ok m' /\ m' <> []) /\
    own_signature_ok wrapped_doc_moved nm cert = false /\
    (exists m', load_source now (signed_source_before_fix s dupfail wrapped0_doc nm cert) = Ok m' /\ m' <> []) /\
    own_signature_ok wrapped0_doc nm cert = false /\
    (* the repaired loader refuses all of them (the moved whole-document signature fails by digest in the tool) *)
    Forall (fun d => exists x, load_source now (signed_source_prechecked s dupfail d nm cert) = Err x)
           [doc; wrapped_doc_moved; wrapped0_doc; wrapped0_doc_moved] /\
    md_precheck wrapped0_doc_moved = true /\
    (* ... and accepts the genuine documents, Reference by ID and whole-document *)
    Forall (fun d => own_signature_ok d nm cert = true /\
                     exists m', load_source now (signed_source_prechecked s dupfail d nm cert) = Ok m' /\ m' <> [])
           [genuine_signed; genuine0_signed].
Proof.
  exists true, 0%Z, evil_source, wrapped_doc, N_ED, K_FED. eexists.
  repeat split; try discriminate; try (vm_compute; reflexivity);
    try (eexists; split; [vm_compute; reflexivity|discriminate]).
  - repeat constructor; eexists; vm_compute; reflexivity.
  - repeat constructor; try (vm_compute; reflexivity); eexists; (split; [vm_compute; reflexivity|discriminate]).
Qed.
Print Assumptions C16_signed_only_if_own_signature_verifies_before_fix_refuted.

(* ---- (5) configuration round trip ------------------------------------------
   loading the descriptor generated from a configuration serves, for every role
   type, service and binding, exactly the endpoints do_endpoints makes of the
   configured ones … *)
Theorem C16_config_roundtrip :
  forall now cfg e typ svc b l,
    entity_of_cfg cfg = Ok e -> c_roles cfg <> [] ->
    store_service (load_all now [] [inline_source e]) (c_entityid cfg) typ svc b = Ok l ->
    forall s, In s l <->
      exists cr x, In cr (c_roles cfg) /\ cr_type cr = typ /\ In x (cr_endpoints cr) /\ fst (fst x) = svc /\
                   In s (do_endpoints svc (snd (fst x)) 1 (snd x)) /\ sv_binding s = b.
Proof. exact roundtrip_service. Qed.
Print Assumptions C16_config_roundtrip.

(* … and do_endpoints keeps every configured endpoint, in order, with its
   location and binding, keeps a configured index, numbers the others of an
   indexed service, and leaves a non-indexed endpoint without index *)
Theorem C16_config_endpoints :
  forall svc indexed eps i,
    map (fun s => (sv_location s, sv_binding s)) (do_endpoints svc indexed i eps) =
    map (fun ep => (ce_location ep, ce_binding ep)) eps /\
    Forall2 (fun s ep => match ce_index ep with
                         | Some ix => sv_index s = Some ix
                         | None => if indexed then exists n, sv_index s = Some (N_to_str n) else sv_index s = None
                         end) (do_endpoints svc indexed i eps) eps.
Proof. intros. apply do_endpoints_exact. Qed.
Print Assumptions C16_config_endpoints.

(* ---- the hypotheses are satisfiable: a four-source federation --------------- *)
Definition cert_a : str := s2l "QUFBQQ==".
Definition cert_b : str := s2l "QkJCQg==".
Definition ex_idp (loc : str) (keys : list keydesc) : role :=
  {| r_type := T_IDP; r_protocols := Some SAML2P; r_keys := keys;
     r_services := [Build_service S_SSO B_REDIRECT loc None; Build_service S_SSO B_POST loc None]; r_acs := [] |}.
Definition ex_ent (id loc : str) (vu : option Z) (keys : list keydesc) : entity :=
  {| e_id := id; e_valid_until := vu; e_roles := [ex_idp loc keys]; e_affil := false; e_eattrs := [] |}.
Definition ex_src (k : str) (kind : skind) (cert : bool) (verdict : result bool) (d : document) : source :=
  {| s_key := k; s_kind := kind; s_cert := cert; s_check := true; s_http_ok := true; s_verdict := verdict; s_doc := d |}.
Definition ex_federation : list source := [
  (* 1: inline; entity A expired, entity B with encryption key FIRST, then signing *)
  ex_src (s2l "1") Inline false (Ok true)
    {| d_signed := false;
       d_body := Many None IvOk [ex_ent (s2l "A") (s2l "https://a1/sso") (Some 99%Z) [];
                                 ex_ent (s2l "B") (s2l "https://b1/sso") (Some 101%Z)
                                   [Build_keydesc (Some U_ENCRYPTION) [cert_b]; Build_keydesc (Some U_SIGNING) [cert_a]]] |};
  (* 2: remote, signed, verification raised: contributes nothing *)
  ex_src (s2l "u2") Remote true (Err (s2l "SignatureError"))
    {| d_signed := true; d_body := Many None IvOk [ex_ent (s2l "A") (s2l "https://evil/sso") None []] |};
  (* 3: remote, signed, verified: A is served from here *)
  ex_src (s2l "u3") Remote true (Ok true)
    {| d_signed := true; d_body := Many (Some 200%Z) IvOk [ex_ent (s2l "A") (s2l "https://a3/sso") None []] |};
  (* 4: remote, signed, the backend answered False: contributes nothing either (C stays unknown) *)
  ex_src (s2l "u4") Remote true (Ok false)
    {| d_signed := true; d_body := Many None IvOk [ex_ent (s2l "C") (s2l "https://c4/sso") None []] |}
].
Example C16_example :
  let st := load_all 100 [] ex_federation in
  map fst st = [s2l "1"; s2l "u3"] /\
  store_service st (s2l "A") T_IDP S_SSO B_POST = Ok [Build_service S_SSO B_POST (s2l "https://a3/sso") None] /\
  store_service st (s2l "A") T_IDP S_SSO B_SOAP = Err UnsupportedBinding /\
  store_service st (s2l "A") T_SP S_ACS B_POST = Err UnknownSystemEntity /\
  store_service st (s2l "C") T_IDP S_SSO B_POST = Err UnknownSystemEntity /\
  store_certs st (s2l "B") (s2l "idpsso") U_SIGNING = Ok [cert_a] /\
  store_certs st (s2l "B") (s2l "any") U_ENCRYPTION = Ok [cert_b] /\
  store_keys (load_all 102 [] ex_federation) = [s2l "A"] /\
  load_outcomes 100 [] ex_federation = [None; Some (s2l "SignatureError"); None; Some SignatureError] /\
  (* the hypotheses of C16_prechecked_loader_full are satisfiable: genuine documents pass the pre-check and load *)
  md_precheck genuine_signed = true /\ md_precheck genuine0_signed = true /\
  (exists m, load_source 0 (signed_source_prechecked evil_source true genuine0_signed N_ED K_FED) = Ok m) /\
  md_precheck wrapped_doc = false /\ md_precheck wrapped_doc_moved = false /\ md_precheck wrapped0_doc = false.
Proof. vm_compute. repeat split; try reflexivity. eexists; reflexivity. Qed.
Print Assumptions C16_example.

(* GLUE to C03 / C08 / C10 / C17 (Proofs/Glue_certs.v, docs/Glue.md): certs(eid, any, use) IS Model/CertSelect.v's
   md_certs - the function signatures are checked under and assertions are encrypted for - on this store read as a
   CertSelect store (certificate texts numbered by their position in the list of all texts of the store): same
   certificates, same order, same duplicates dropped; KeyError (unknown entity) there = None here.  No side condition. *)
From PV Require Model.CertSelect Proofs.Glue_certs.
Theorem C16_certs_is_the_function_signatures_are_checked_under :
  forall st eid use,
    let num := Glue_certs.num_of (Glue_certs.store_texts st) in
    CertSelect.md_certs (Glue_certs.abs_store num st) (Some eid) use =
    match store_certs st eid (s2l "any") use with Ok l => Some (map num l) | Err _ => None end.
Proof. intros st eid use. exact (Glue_certs.md_certs_eq_canonical st eid use). Qed.
Print Assumptions C16_certs_is_the_function_signatures_are_checked_under.

(* GLUE to C01 (Proofs/Glue_xsw.v): the pre-check of parse_and_check_signature (Model/MdSig.v md_precheck) is, on the
   document embedded into C01's document model, either "the single Reference is to the whole document" or C01's
   pre-check (sigver._enveloped_signature_ok) for the root element under its own name and ID. *)
From PV Require Model.Xsw Proofs.Glue_xsw.
Theorem C16_md_precheck_is_C01_precheck_on_the_root :
  forall n i pl kids,
    md_precheck (El n i pl kids) =
    Glue_xsw.whole_ref (El n i pl kids) || Xsw.precheck (Glue_xsw.emb (El n i pl kids)) (N.succ n) i.
Proof. exact Glue_xsw.md_precheck_char. Qed.
Print Assumptions C16_md_precheck_is_C01_precheck_on_the_root.

(* ---- (6) validUntil AS WRITTEN (Model/MdSpell.v) ----------------------------
   The statements above start from documents whose validUntil is a number.  The
   library starts from the attribute text; str_to_time interprets the second-
   resolution ...Z form, the same without Z, and both with a fraction of ANY
   number of digits (the fraction is dropped: the instant is the whole second),
   and nothing else - in particular no time-zone offset.  [lenient] is what
   do_entity_descriptor does with an uninterpretable text: true = the library
   as it is (AttributeError swallowed, the entity counts as valid), false = the
   library with proposed_fix/C16-4 (the entity counts as too old). *)
From PV Require Import Model.MdSpell Proofs.MdSpell_lemmas.

Theorem C16_spellings_that_parse :
  forall t ds, forallb is_digit ds = true ->
    str_to_time {| vt_core := CoreDate t; vt_suffix := [90] |} = Ok t /\                  (* ...SSZ *)
    str_to_time {| vt_core := CoreDate t; vt_suffix := [] |} = Ok t /\                    (* ...SS *)
    str_to_time {| vt_core := CoreDate t; vt_suffix := 46 :: ds ++ [90] |} = Ok t /\      (* ...SS.dddZ, any number of digits *)
    str_to_time {| vt_core := CoreDate t; vt_suffix := 46 :: ds |} = Ok t.                (* ...SS.ddd *)
Proof. exact str_to_time_parses. Qed.
Print Assumptions C16_spellings_that_parse.

(* any character other than a digit, the dot, Z, z and a line feed after the seconds (the + - : of an offset, a
   blank, a comma): AttributeError from elem.groups() on None *)
Theorem C16_offset_spellings_do_not_parse :
  forall v c, In c (vt_suffix v) -> suffix_char_ok c = false -> str_to_time v = Err AttributeError.
Proof. exact str_to_time_foreign_char. Qed.
Print Assumptions C16_offset_spellings_do_not_parse.

(* the text layer is the store model above on the elaborated documents: every theorem of (1)-(5) holds of it *)
Theorem C16_text_layer_is_the_store_model :
  forall lenient now rsrcs,
    rload_all lenient now [] rsrcs = load_all now [] (map (elab_source lenient) rsrcs) /\
    map none_b (rload_outcomes lenient now [] rsrcs) =
    map none_b (load_outcomes now [] (map (elab_source lenient) rsrcs)) /\
    fst (rimp lenient now [] rsrcs) = fst (imp now [] (map (elab_source lenient) rsrcs)).
Proof.
  intros. split; [apply rload_all_bridge|]. split; [apply rload_outcomes_bridge|]. apply rimp_bridge.
Qed.
Print Assumptions C16_text_layer_is_the_store_model.

(* FULL STATEMENT over the texts (library with proposed_fix/C16-4): an entity held by a registered source comes
   from a configured, admissible source; when validity checking reaches the source, its validUntil text - and, in
   an aggregate, the aggregate's - is absent or IS INTERPRETED as an instant that has not passed; an aggregate
   that is served has no uninterpretable validUntil anywhere (valid_instance passed) *)
Theorem C16_spelled_expired_never_served :
  forall now rsrcs k m eid e,
    In (k, m) (rload_all false now [] rsrcs) -> aget eid m = Some e ->
    exists rs re, In rs rsrcs /\ s_key (rs_src rs) = k /\ admissible (rs_src rs) /\
      e = stored_form (ent_of re) /\ e_id (re_ent re) = eid /\
      (eff_check (rs_src rs) = true -> spelled_unexpired now (re_vu re)) /\
      match rs_body rs with
      | RMany vu iv es => In re es /\ doc_ivalid vu iv es = IvOk /\
                          (eff_check (rs_src rs) = true -> spelled_unexpired now vu)
      | RSingle re1 => re = re1
      | RNotMetadata => False
      end.
Proof.
  intros now rsrcs k m eid e Hin Hget.
  destruct (rserved_declared false now rsrcs k m eid e Hin Hget) as (rs & re & H1 & H2 & H3 & H4 & H5 & Hb).
  exists rs, re. repeat (split; [assumption|]). destruct (rs_body rs) as [vu iv es|re1|].
  - destruct Hb as (Hre & Hiv & Hc). split; [intros C; now destruct (Hc C)|].
    split; [exact Hre|]. split; [exact Hiv|]. intros C; now destruct (Hc C).
  - destruct Hb as (-> & Hc). split; [|reflexivity]. intros C. destruct (Hc C) as [H|[H _]]; [exact H|discriminate].
  - destruct Hb.
Qed.
Print Assumptions C16_spelled_expired_never_served.

(* the library AS IT IS does not satisfy it: a stand-alone EntityDescriptor whose validUntil - one second in the
   past - is written with a time-zone offset (a legal xs:dateTime) is served; with proposed_fix/C16-4 it is not *)
Definition offset_text (t : Z) : vutext := {| vt_core := CoreDate t; vt_suffix := s2l "+00:00" |}.
Definition offset_source (t : Z) : rsource :=
  {| rs_src := inline_source witness_entity;
     rs_body := RSingle {| re_vu := Some (offset_text t); re_iv := IvOk; re_ent := witness_entity |} |}.
Theorem C16_spelled_expired_never_served_refuted :
  exists now rs re m,
    rs_body rs = RSingle re /\ eff_check (rs_src rs) = true /\
    re_vu re = Some (offset_text (now - 1)) /\ ~ spelled_unexpired now (re_vu re) /\
    rload_all true now [] [rs] = [(s_key (rs_src rs), m)] /\ aget (e_id (re_ent re)) m <> None /\
    (exists l, store_service (rload_all true now [] [rs]) (e_id (re_ent re)) T_IDP S_SSO B_REDIRECT = Ok l) /\
    (* with the proposed repair the same source is registered empty *)
    rload_all false now [] [rs] = [(s_key (rs_src rs), [])].
Proof.
  exists 100%Z, (offset_source 99). eexists. eexists.
  split; [reflexivity|]. split; [reflexivity|]. split; [reflexivity|]. split.
  - intros [H|(x & t & H & Hs & _)]; [discriminate|]. injection H as <-. vm_compute in Hs. discriminate.
  - split; [vm_compute; reflexivity|]. split; [vm_compute; discriminate|].
    split; [eexists; vm_compute; reflexivity|vm_compute; reflexivity].
Qed.
Print Assumptions C16_spelled_expired_never_served_refuted.

(* ... and satisfies it for every text that str_to_time interprets; the exception, characterised: a stand-alone
   EntityDescriptor whose validUntil text makes str_to_time raise AttributeError *)
Theorem C16_spelled_expired_never_served_partial :
  forall now rsrcs k m eid e,
    In (k, m) (rload_all true now [] rsrcs) -> aget eid m = Some e ->
    exists rs re, In rs rsrcs /\ s_key (rs_src rs) = k /\ admissible (rs_src rs) /\
      e = stored_form (ent_of re) /\ e_id (re_ent re) = eid /\
      match rs_body rs with
      | RMany vu iv es =>
          In re es /\ doc_ivalid vu iv es = IvOk /\
          (eff_check (rs_src rs) = true -> spelled_unexpired now vu /\ spelled_unexpired now (re_vu re))
      | RSingle re1 =>
          re = re1 /\
          (eff_check (rs_src rs) = true ->
             spelled_unexpired now (re_vu re) \/ exists x, re_vu re = Some x /\ str_to_time x = Err AttributeError)
      | RNotMetadata => False
      end.
Proof.
  intros now rsrcs k m eid e Hin Hget.
  destruct (rserved_declared true now rsrcs k m eid e Hin Hget) as (rs & re & H1 & H2 & H3 & H4 & H5 & Hb).
  exists rs, re. repeat (split; [assumption|]). destruct (rs_body rs) as [vu iv es|re1|]; [exact Hb| |exact Hb].
  destruct Hb as (-> & Hc). split; [reflexivity|]. intros C. destruct (Hc C) as [H|[_ H]]; [now left|now right].
Qed.
Print Assumptions C16_spelled_expired_never_served_partial.

(* an EntitiesDescriptor with ONE uninterpretable validUntil - its own or a child's - fails closed as a whole
   (valid_date_time turns any exception of str_to_time into NotValid): it is registered empty *)
Theorem C16_uninterpretable_text_in_aggregate_contributes_nothing :
  forall lenient now check vu iv es,
    (vu_bad vu = true \/ (iv = IvOk /\ exists re, In re es /\ vu_bad (re_vu re) = true /\
                           forall re', In re' es -> re_iv re' = IvOk)) ->
    rparse lenient now check (RMany vu iv es) = Ok [].
Proof. exact bad_text_in_aggregate. Qed.
Print Assumptions C16_uninterpretable_text_in_aggregate_contributes_nothing.

(* ---- (7) histories on one long-lived store -----------------------------------
   loads interleaved with lookups, in any order and number: the answers of a lookup are exactly those of the store
   made by the loads that precede it - lookups leave no trace, a raising load leaves the store as it was - so
   (1)-(6) hold at every point of a history (induction over the operation sequence) *)
Theorem C16_history :
  forall lenient now pre qs post,
    run_ops lenient now [] (pre ++ OpAsk qs :: post) =
    run_ops lenient now [] pre ++
    map (run_query (rload_all lenient now [] (loads_of pre))) qs ++
    run_ops lenient now (rload_all lenient now [] (loads_of pre)) post.
Proof. exact history_answers. Qed.
Print Assumptions C16_history.

Theorem C16_history_store :
  forall lenient now ops, ops_store lenient now [] ops = rload_all lenient now [] (loads_of ops).
Proof. intros. apply ops_store_loads. Qed.
Print Assumptions C16_history_store.

(* ---- (8) entity attributes: every value of every saml:Attribute of that Name is served ------------------------
   the same Name in several Attributes of one EntityAttributes element and across several elements: the answer
   under that Name is the concatenation, in document order, of ALL their values (nothing replaced, nothing
   de-duplicated: its length is the sum of the lengths) *)
Theorem C16_every_declared_attribute_value_served :
  forall st eid e res elem a v,
    store_get st eid = Some e -> store_entity_attributes st eid = Ok res ->
    In elem (e_eattrs e) -> In a elem -> In v (ea_values a) ->
    exists l, aget (ea_name a) res = Some l /\ In v l /\
      l = vals_of (ea_name a) (List.concat (e_eattrs e)) /\
      List.length l = fold_right (fun a' acc => ((if str_eqb (ea_name a) (ea_name a') then List.length (ea_values a') else O) + acc)%nat)
                                 O (List.concat (e_eattrs e)).
Proof.
  intros st eid e res elem a v He Hres Helem Ha Hv.
  destruct (all_attribute_values_served st eid e res elem a v He Hres Helem Ha Hv) as (l & H1 & H2 & H3).
  exists l. split; [exact H1|]. split; [exact H2|]. split; [exact H3|]. rewrite H3. apply vals_of_length.
Qed.
Print Assumptions C16_every_declared_attribute_value_served.

(* ---- (9) unknown entity vs unsupported binding does not depend on WHERE the source stands ---------------------
   an entity with a role of that type in ANY registered source - first, middle or last - is never reported
   unknown; one with such a role in no source is always reported unknown *)
Theorem C16_known_in_any_source_never_unknown :
  forall pre k m post eid typ svc b,
    has_role m eid typ = true ->
    store_service (pre ++ (k, m) :: post) eid typ svc b <> Err UnknownSystemEntity /\
    ((exists l, store_service (pre ++ (k, m) :: post) eid typ svc b = Ok l /\ l <> []) \/
     store_service (pre ++ (k, m) :: post) eid typ svc b = Err UnsupportedBinding).
Proof.
  intros pre k m post eid typ svc b Hr.
  pose proof (known_anywhere_never_unknown pre k m post eid typ svc b Hr) as Hn. split; [exact Hn|].
  destruct (store_service_classes (pre ++ (k, m) :: post) eid typ svc b) as [H|[H|H]]; [now left|now right|contradiction].
Qed.
Print Assumptions C16_known_in_any_source_never_unknown.

(* the hypotheses are satisfiable: one store, a history with every spelling class *)
Definition sp_ent (id : str) : entity := ex_ent id (s2l "https://x/sso") None [].
Definition sp_single (key id : str) (v : vuspell) : rsource :=
  {| rs_src := ex_src key Inline false (Ok true) {| d_signed := false; d_body := NotMetadata |};
     rs_body := RSingle {| re_vu := v; re_iv := IvOk; re_ent := sp_ent id |} |}.
Definition sp_many (key : str) (root : vuspell) (vs : list (str * vuspell)) : rsource :=
  {| rs_src := ex_src key Inline false (Ok true) {| d_signed := false; d_body := NotMetadata |};
     rs_body := RMany root IvOk (map (fun p => {| re_vu := snd p; re_iv := IvOk; re_ent := sp_ent (fst p) |}) vs) |}.
Definition txt (t : Z) (sfx : str) : vuspell := Some {| vt_core := CoreDate t; vt_suffix := sfx |}.
Example C16_spelling_example :
  let ops := [OpLoad (sp_single (s2l "1") (s2l "A") (txt 99 (s2l ".999999999Z")));     (* expired, 9 digits *)
              OpAsk [QKnown (s2l "A")];
              OpLoad (sp_single (s2l "2") (s2l "A") (txt 100 (s2l ".5")));             (* now, fraction, no Z *)
              OpAsk [QKnown (s2l "A"); QKnown (s2l "B")];
              OpLoad (sp_many (s2l "3") (txt 100 []) [(s2l "B", txt 99 (s2l "Z")); (s2l "C", txt 101 (s2l ".1234567Z"))]);
              OpLoad (sp_many (s2l "4") None [(s2l "D", None); (s2l "E", txt 500 (s2l "+01:00"))]);   (* fails closed *)
              OpLoad (sp_single (s2l "5") (s2l "F") (Some {| vt_core := CoreShape; vt_suffix := s2l "Z" |}));   (* raises *)
              OpAsk (map QKnown [s2l "A"; s2l "B"; s2l "C"; s2l "D"; s2l "E"; s2l "F"])] in
  run_ops false 100 [] ops =
    [VB true; VB false; VB true; VB true; VB false; VB true; VB true; VB false;
     VB true; VB false; VB true; VB false; VB false; VB false] /\
  run_ops true 100 [] ops = run_ops false 100 [] ops /\
  run_ops true 100 [] [OpLoad (sp_single (s2l "6") (s2l "G") (txt 99 (s2l "+00:00"))); OpAsk [QKnown (s2l "G")]] = [VB true; VB true] /\
  run_ops false 100 [] [OpLoad (sp_single (s2l "6") (s2l "G") (txt 99 (s2l "+00:00"))); OpAsk [QKnown (s2l "G")]] = [VB true; VB false].
Proof. vm_compute. repeat split; reflexivity. Qed.
Print Assumptions C16_spelling_example.
