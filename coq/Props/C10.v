(* Props/C10.v — incoming requests are validated before use (stub while the model is being validated) *)
From PV Require Import Lib.Base Model.Request Gen.RequestTable Proofs.Request_lemmas.
Open Scope N_scope.

Theorem C10_table_is_documented : rows_eqb request_table documented_table = true.
Proof. exact table_is_documented. Qed.
Print Assumptions C10_table_is_documented.
