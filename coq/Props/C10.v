(* Props/C10.v — incoming requests are validated before an IdP / AA / SP acts
   on them.  Only statements, `exact` proofs and Print Assumptions.

   parse_request pre fixd c k b w  models  Entity._parse_request for the entry
   point of request kind k (Model/Request.v: documented table), an entity with
   configuration c, binding b and received text w (classified by what the
   transport decoder makes of it).  Its result is Err <exception class>,
   Ok None (Request.verify swallowed an AssertionError) or Ok (Some d): the
   request document d is handed to the application.
     pre  = the enveloping pre-check of the C01 repair is in _check_signature;
     fixd = the last step of _check_signature insists on a verified signature
            (the F16 repair, proposed_fix/C10-1.diff).  All theorems below are
            about fixd = true except C10_before_fix_refuted. *)
From Coq Require Import Lia.
From PV Require Import Lib.Base Model.Sigver Model.CertSelect Model.Xmlsec Model.Request Gen.RequestTable
  Proofs.Request_lemmas.
Open Scope N_scope.

(* (0) the entry-point table RECORDED from the code on this run (which request
   class, msgtype and service each public parse_* method hands to
   _parse_request; which msgtype each class's signature_check asks for and that
   the text and must are passed through; which root tags
   <msgtype>_from_string and the SOAP reader accept) is the documented table the
   model is written against *)
Theorem C10_table_is_documented : rows_eqb request_table documented_table = true.
Proof. exact table_is_documented. Qed.
Print Assumptions C10_table_is_documented.

(* (1) FULL STATEMENT, first half.  For every code state of the pre-check,
   every configuration, request kind, binding and received text: a request is
   handed over only if
   - the text is the clean encoding of that document for the binding,
   - its root element is the expected request type of the entry point,
   - valid_instance passed,
   - Version is 2.0,
   - Destination is absent / empty, or the receiver has no address for this
     service and binding, or it is one of those addresses,
   - IssueInstant lies in [now - 1 day - slack, now + 1 day + slack),
   - if the root carries a Signature child: the tool verified (Model/Xmlsec.v
     semantics, either duplicate-ID policy) the document for the root's name
     and ID under a candidate certificate that also passed certificate
     validation, and with only_use_keys_in_metadata (the default) that
     certificate is one the metadata holds for the issuer, use signing,
   - if want_authn_requests_signed or ..._only_with_valid_cert is on: the root
     carries a Signature child. *)
Theorem C10_handed_over_only_if_valid :
  forall pre c k b w d,
    parse_request pre true c k b w = Ok (Some d) ->
    carries k b w d /\
    root_name (d_tree d) = Some (kind_name k) /\
    d_valid d = true /\
    d_version d = Some V20 /\
    destination_ok c k b d /\
    (exists t, d_issue_instant d = Some t /\ in_window c t) /\
    (root_signed (d_tree d) = true ->
       exists certs cert,
         request_certs c d = Ok certs /\ In cert certs /\
         tool_verify (c_dupfail c) (d_tree d) (kind_name k) (node_id_arg (root_id (d_tree d))) cert = true /\
         cert_ok c cert = true /\
         (c_only_md c = true -> issuer_signing_cert c d cert)) /\
    (c_want_signed c = true \/ c_only_valid_cert c = true -> root_signed (d_tree d) = true).
Proof. exact handed_over_only_if_valid. Qed.
Print Assumptions C10_handed_over_only_if_valid.

(* (2) FULL STATEMENT, second half (the signature covers the request element
   itself), for the code state WITH the enveloping pre-check: the root has
   exactly one Signature child, intact, by the certificate's key, whose single
   reference is "#" + the root's ID and digests exactly the root without it *)
Theorem C10_signature_covers_request :
  forall c k b w d,
    parse_request true true c k b w = Ok (Some d) ->
    root_signed (d_tree d) = true ->
    exists certs cert,
      request_certs c d = Ok certs /\ In cert certs /\ cert_ok c cert = true /\
      signature_covers_root (d_tree d) cert.
Proof. intros c k b w d H Hs. exact (signature_covers_request true c k b w d H Hs (or_introl eq_refl)). Qed.
Print Assumptions C10_signature_covers_request.

(* (3) corollary in the quantifier's own terms, same code state: if the only
   intact signatures under the issuer's candidate certificates occurring
   anywhere in the received document are copies of one signature (reference
   "#v" over [content]) - the sender signed nothing else, signatures cannot be
   forged - then a handed-over signed request IS [content] plus that signature:
   every modification of a signed request (field edit, destination swap,
   re-dated instant, added / removed child, wrapping, transplanted signature)
   is refused *)
Theorem C10_tamper :
  forall c k b w d v content,
    parse_request true true c k b w = Ok (Some d) ->
    root_signed (d_tree d) = true ->
    (forall certs refs key, request_certs c d = Ok certs -> In key certs ->
        In (Sg refs key true) (doc_sigs (d_tree d)) -> refs = [(HASH :: v, content)]) ->
    exists n pl kids k0 key,
      d_tree d = El n (Some v) pl kids /\
      nth_error kids k0 = Some (Sg [(HASH :: v, content)] key true) /\
      content = El n (Some v) pl (remove_nth k0 kids).
Proof. intros c k b w d v content H Hs. exact (tamper_refused true c k b w d v content H Hs (or_introl eq_refl)). Qed.
Print Assumptions C10_tamper.

(* the code state the correspondence runs against (Model/Request.v) IS the one of (1)-(3):
   pre-check in force (fix: f6d4380b), F16 repaired (fix: 0b54cc6b), options read in the
   entity's own section (fix: dace676c) *)
Theorem C10_code_state :
  parse_request_now = parse_request true true /\ OPTIONS_OWN_CONTEXT = true.
Proof. split; reflexivity. Qed.
Print Assumptions C10_code_state.

(* (2'), (3') BEFORE fix: f6d4380b the library had no pre-check (pre = false):
   there (2) is REFUTED - a forged request carrying the genuine content inside
   Extensions and the genuine signature as its own child is handed over, and no
   signature child of the root covers the root - ... *)
Theorem C10_covers_refuted_without_precheck :
  exists c k b w d,
    parse_request false true c k b w = Ok (Some d) /\
    root_signed (d_tree d) = true /\
    (forall cert, ~ signature_covers_root (d_tree d) cert) /\
    parse_request true true c k b w = Err (E "IncorrectlySigned").
Proof.
  exists (w_cfg true false), KAuthn, BPost, (WText (Xml (w_doc w_wrapped (Some w_sso) 0))), (w_doc w_wrapped (Some w_sso) 0).
  destruct wrapping_witness as (H1 & H2 & _ & H4).
  split; [exact H1|]. split; [exact H2|]. split; [exact wrapped_not_covered|exact H4].
Qed.
Print Assumptions C10_covers_refuted_without_precheck.

(* ... and (2), (3) hold under the hypothesis that the pre-check predicate is
   true of the received document *)
Theorem C10_covers_partial :
  forall c k b w d,
    parse_request false true c k b w = Ok (Some d) ->
    root_signed (d_tree d) = true ->
    enveloped_ok (d_tree d) (kind_name k) (root_id (d_tree d)) = true ->
    exists certs cert,
      request_certs c d = Ok certs /\ In cert certs /\ cert_ok c cert = true /\
      signature_covers_root (d_tree d) cert.
Proof. intros c k b w d H Hs He. exact (signature_covers_request false c k b w d H Hs (or_intror He)). Qed.
Print Assumptions C10_covers_partial.

Theorem C10_tamper_partial :
  forall c k b w d v content,
    parse_request false true c k b w = Ok (Some d) ->
    root_signed (d_tree d) = true ->
    enveloped_ok (d_tree d) (kind_name k) (root_id (d_tree d)) = true ->
    (forall certs refs key, request_certs c d = Ok certs -> In key certs ->
        In (Sg refs key true) (doc_sigs (d_tree d)) -> refs = [(HASH :: v, content)]) ->
    exists n pl kids k0 key,
      d_tree d = El n (Some v) pl kids /\
      nth_error kids k0 = Some (Sg [(HASH :: v, content)] key true) /\
      content = El n (Some v) pl (remove_nth k0 kids).
Proof. intros c k b w d v content H Hs He. exact (tamper_refused false c k b w d v content H Hs (or_intror He)). Qed.
Print Assumptions C10_tamper_partial.

(* (4) F16, history: with `if verified or only_valid_cert:` as the last step of
   _check_signature (fixd = false) statement (1) FAILS: with
   want_authn_requests_only_with_valid_cert on, a request with an edited
   attribute, whose signature verifies under neither candidate certificate, is
   handed over.  The repaired step refuses it, with or without the pre-check. *)
Theorem C10_before_fix_refuted :
  exists c k b w d,
    c_only_valid_cert c = true /\
    parse_request false false c k b w = Ok (Some d) /\
    root_signed (d_tree d) = true /\
    (exists certs, request_certs c d = Ok certs /\
       forall cert, In cert certs ->
         tool_verify (c_dupfail c) (d_tree d) (kind_name k) (node_id_arg (root_id (d_tree d))) cert = false) /\
    parse_request false true c k b w = Err (E "IncorrectlySigned") /\
    parse_request true true c k b w = Err (E "IncorrectlySigned").
Proof.
  exists (w_cfg false true), KAuthn, BPost, (WText (Xml (w_doc w_tampered (Some w_sso) 0))), (w_doc w_tampered (Some w_sso) 0).
  destruct before_fix_witness as (H1 & H2 & H3 & H4 & H5 & H6 & H7).
  split; [exact H1|]. split; [exact H2|]. split; [exact H3|]. split; [|split; [exact H6|exact H7]].
  exists [3; 5]. split; [exact H4|]. intros cert Hin.
  rewrite forallb_forall in H5. specialize (H5 cert Hin). apply negb_true_iff in H5. exact H5.
Qed.
Print Assumptions C10_before_fix_refuted.

(* the repair changes nothing for a receiver that does not set only_valid_cert *)
Theorem C10_repair_keeps_the_rest :
  forall pre c k b w, c_only_valid_cert c = false ->
    parse_request pre false c k b w = parse_request pre true c k b w.
Proof. exact parse_request_fix_agrees. Qed.
Print Assumptions C10_repair_keeps_the_rest.

(* (4b) which section the want options are read from.  With the repair of
   proposed_fix/C10-2 (mk_cfg true: the section of the entity's own type - an
   IdP's idp section, an attribute authority's aa section): whenever that section
   sets want_authn_requests_signed or ..._only_with_valid_cert, a handed-over
   request carries a signature (the last clause of (1) in terms of the
   CONFIGURATION rather than of what _parse_request read) ... *)
Theorem C10_own_options_honoured :
  forall pre etype eps secs slack now mdp md only vc dup k b w d,
    parse_request pre true (mk_cfg true etype eps secs slack now mdp md only vc dup) k b w = Ok (Some d) ->
    fst (lookup_opts etype secs) = true \/ snd (lookup_opts etype secs) = true ->
    root_signed (d_tree d) = true.
Proof. exact own_options_honoured. Qed.
Print Assumptions C10_own_options_honoured.

(* ... history: reading them in the idp section whatever the entity is (mk_cfg
   false), an attribute authority of its own (Server(stype="aa")) whose aa section
   wants signed requests hands over an unsigned AttributeQuery *)
Theorem C10_options_before_fix_refuted :
  exists etype eps secs slack now mdp md only vc dup k b w d,
    fst (lookup_opts etype secs) = true /\
    parse_request false true (mk_cfg false etype eps secs slack now mdp md only vc dup) k b w = Ok (Some d) /\
    root_signed (d_tree d) = false /\
    parse_request false true (mk_cfg true etype eps secs slack now mdp md only vc dup) k b w = Err (E "IncorrectlySigned").
Proof.
  exists CAa, [(CAa, [(s2l "attribute_service", [EP (s2l "https://idp.example.org/aa/soap") (s2l "urn:oasis:names:tc:SAML:2.0:bindings:SOAP")])])],
         w_aa_secs, 0%Z, 1790000000%Z, true, [(w_sp, [[{| kd_use := Some SIGNING; kd_certs := [5] |}]])], true, None, true,
         KAttrQ, BSoap, (WSoap (SoapPart w_query)), w_query.
  exact options_witness.
Qed.
Print Assumptions C10_options_before_fix_refuted.

(* (5) truncated / garbled encodings and wrong roots, for every code state *)
Theorem C10_undecodable_refused :
  forall pre fixd c k b, b <> BUri -> b <> BNone ->
    (exists e, parse_request pre fixd c k b WFail = Err e) /\
    (exists e, parse_request pre fixd c k b (WText NotXml) = Err e).
Proof. intros pre fixd c k b H1 H2. split; [exact (undecodable_refused pre fixd c k b H1 H2)|exact (not_xml_refused pre fixd c k b)]. Qed.
Print Assumptions C10_undecodable_refused.

Theorem C10_wrong_root_refused :
  forall pre fixd c k b w d,
    parse_request pre fixd c k b w = Ok (Some d) -> root_name (d_tree d) = Some (kind_name k).
Proof. exact wrong_root_refused. Qed.
Print Assumptions C10_wrong_root_refused.

(* (6) non-vacuity: a genuine signed AuthnRequest (two candidate certificates,
   the second verifies; allowance 60 s) is handed over in every code state and
   under every want / only_valid_cert setting, its signature covers it and it
   passes the pre-check; an edited one, one addressed to the other binding's
   endpoint or to a near-miss URL, one dated 86460 s ahead or 86461 s back, an
   unsigned one when signatures are wanted, and one sent to the logout entry
   point are refused; 86459 s ahead and an absent Destination are accepted *)
Example C10_witness :
  let g := w_doc w_genuine (Some w_sso) 0 in
  (forall pre fixd want ovc, w_run pre fixd want ovc g = Ok (Some g)) /\
  signature_covers_root w_genuine 5 /\
  enveloped_ok w_genuine (kind_name KAuthn) (root_id w_genuine) = true /\
  w_run true true true false (w_doc w_tampered (Some w_sso) 0) = Err (E "IncorrectlySigned") /\
  w_run true true false false (w_doc w_genuine (Some (s2l "https://idp.example.org/sso/redirect")) 0) = Err (E "OtherError") /\
  w_run true true false false (w_doc w_genuine (Some (s2l "https://idp.example.org/sso/post/")) 0) = Err (E "OtherError") /\
  w_run true true false false (w_doc w_genuine (Some w_sso) 86460) = Ok None /\
  w_run true true false false (w_doc w_genuine (Some w_sso) (-86461)) = Ok None /\
  w_run true true true false (w_doc w_unsigned (Some w_sso) 0) = Err (E "IncorrectlySigned") /\
  parse_request true true (w_cfg false false) KLogout BPost (WText (Xml g)) = Err (E "TypeError").
Proof.
  destruct witness_runs as (H1 & H2 & H3 & H4 & H5 & _ & H7 & _ & H9 & _ & H11 & _ & H13).
  repeat split; try assumption. exact genuine_covered.
Qed.
Print Assumptions C10_witness.

(* (7) NO KIND-SPECIFIC EXCEPTION.  There is one _loads, one _verify and one issue_instant_ok for all eight request
   kinds (C10_table_is_documented: no request class resolves one of those steps to a definition of its own), and
   none of them reads the kind-specific optional content of the message - LogoutRequest/@NotOnOrAfter, Reason,
   SessionIndex; AuthnRequest Conditions (NotBefore / NotOnOrAfter), Subject, ForceAuthn / IsPassive, Scoping; the
   optional children of the queries and of ManageNameID / NameIDMapping requests ([d_opts], Model/Request.v).
   (7a) for every kind, binding, configuration and received text: replacing the optional content by ANY other
   leaves the outcome (exception class / None / handed over) unchanged *)
Theorem C10_blind_to_optional_content :
  forall pre fixd c k b w o,
    parse_request pre fixd c k b (wire_set_opts o w) = res_set_opts o (parse_request pre fixd c k b w).
Proof. exact blind_to_optional_content. Qed.
Print Assumptions C10_blind_to_optional_content.

(* (7b) statement (1) in refusal form, over the kind parameter: a request document that is stale / dated ahead /
   without instant, or addressed elsewhere, or unsigned though signatures are wanted, or of another version, or
   schema-invalid, or of another root, is handed over by NO entry point, whatever optional content it carries *)
Theorem C10_no_kind_specific_exception :
  forall pre c k b w d, must_be_refused c k b d -> parse_request pre true c k b w <> Ok (Some d).
Proof. exact no_kind_specific_exception. Qed.
Print Assumptions C10_no_kind_specific_exception.

(* (7c) in particular: a NotOnOrAfter in the future (on a LogoutRequest, or any other dateTime among the optional
   content of any kind) does not excuse an IssueInstant outside the window *)
Theorem C10_future_not_on_or_after_does_not_excuse :
  forall pre c k b w d t name noa,
    In (name, Some noa) (d_opts d) -> (c_now c < noa)%Z ->
    d_issue_instant d = Some t -> (t < c_now c - 86400 - c_slack c \/ c_now c + 86400 + c_slack c <= t)%Z ->
    parse_request pre true c k b w <> Ok (Some d).
Proof.
  intros pre c k b w d t name noa _ _ Ht Hout. apply no_kind_specific_exception. left.
  intros t' Ht' [H1 H2]. rewrite Ht in Ht'. inversion Ht'; subst t'. lia.
Qed.
Print Assumptions C10_future_not_on_or_after_does_not_excuse.

(* (8) ONE LONG-LIVED RECEIVER taking in any sequence of messages (induction over the sequence): everything it has
   handed over at any point was handed over by _parse_request on that message alone - hence satisfies (1)-(3),
   (7) - and what came before changes nothing: valid requests taken in earlier excuse nothing later *)
Theorem C10_history :
  forall pre fixd c ops,
    Forall (handed_by pre fixd c) (run_history pre fixd c ops []) /\
    (forall ops1 ops2, ops = ops1 ++ ops2 ->
       run_history pre fixd c ops [] = run_history pre fixd c ops1 [] ++ run_history pre fixd c ops2 []).
Proof.
  intros pre fixd c ops. split.
  - apply history_invariant. constructor.
  - intros ops1 ops2 ->. rewrite history_split. apply run_history_app.
Qed.
Print Assumptions C10_history.

Theorem C10_history_handed_over_only_if_valid :
  forall pre c ops k b w d,
    In ((k, b, w), d) (run_history pre true c ops []) ->
    In (k, b, w) ops /\ ~ must_be_refused c k b d.
Proof.
  intros pre c ops k b w d Hin. split.
  - exact (history_ops_only pre true c ops k b w d Hin).
  - intros Hr. destruct (C10_history pre true c ops) as [Hall _].
    rewrite Forall_forall in Hall. specialize (Hall _ Hin). cbn in Hall.
    exact (no_kind_specific_exception _ _ _ _ _ _ Hr Hall).
Qed.
Print Assumptions C10_history_handed_over_only_if_valid.

(* non-vacuity of (7), (8): a LogoutRequest carrying NotOnOrAfter one hour ahead and a Reason (allowance 60 s) is
   handed over when issued now; issued 86461 s ago or 86460 s ahead it is not (None); addressed to the SOAP endpoint
   but sent by POST, and unsigned when signatures are wanted, it is refused; and a receiver that took in the valid
   one first still refuses the stale one and takes the next valid one *)
Example C10_logout_witness :
  let run want d := parse_request true true (w_lcfg want) KLogout BPost (WText (Xml d)) in
  run false (w_logout (Some w_slo) 0 w_noa_future) = Ok (Some (w_logout (Some w_slo) 0 w_noa_future)) /\
  run false (w_logout (Some w_slo) (-86461) w_noa_future) = Ok None /\
  run false (w_logout (Some w_slo) 86460 w_noa_future) = Ok None /\
  run false (w_logout (Some (s2l "https://idp.example.org/slo/soap")) 0 w_noa_future) = Err (E "OtherError") /\
  run true (w_logout (Some w_slo) 0 w_noa_future) = Err (E "IncorrectlySigned") /\
  List.length (run_history true true (w_lcfg false)
    [(KLogout, BPost, WText (Xml (w_logout (Some w_slo) 0 w_noa_future)));
     (KLogout, BPost, WText (Xml (w_logout (Some w_slo) (-86461) w_noa_future)));
     (KLogout, BPost, WText (Xml (w_logout (Some w_slo) 0 [])))] []) = 2%nat.
Proof.
  destruct logout_witness as (H1 & H2 & H3 & H4 & H5 & H6).
  split; [exact H1|]. split; [exact H2|]. split; [exact H3|]. split; [exact H4|]. split; [exact H5|].
  rewrite H6. reflexivity.
Qed.
Print Assumptions C10_logout_witness.

(* GLUE to C01 (Proofs/Glue_xsw.v, docs/Glue.md).  The symbolic documents above are Model/Xmlsec.v's; C01 is proved
   over Model/Xsw.v (signatures with their own ID / Object children, three duplicate-ID policies, Dolev-Yao closure).
   Through the embedding [emb] the tool and the pre-check of this file are C01's (Glue_tool_verify_agrees,
   Glue_request_precheck_is_C01_precheck in Props/Glue.v), so C01's conclusion holds for every SIGNED request handed
   to the application: it is COVERED - its ID is non-empty and carried by no other node of the document, it has
   exactly one Signature child, the first signature in document order, with the single reference to that ID, an
   intact value under a certificate selected for the issuer, digesting exactly the request minus that child. *)
From PV Require Model.Xsw Proofs.Xsw_lemmas Proofs.Glue_xsw.
Theorem C10_signed_request_is_covered_as_in_C01 :
  forall c k b w d,
    parse_request true true c k b w = Ok (Some d) -> root_signed (d_tree d) = true ->
    exists certs v X j D,
      request_certs c d = Ok certs /\ root_id (d_tree d) = Some v /\
      Xsw_lemmas.covered (Glue_xsw.emb (d_tree d)) (N.succ (kind_name k)) v certs [] X j D /\
      X = Glue_xsw.emb (d_tree d).
Proof. exact Glue_xsw.parse_request_relied_is_covered. Qed.
Print Assumptions C10_signed_request_is_covered_as_in_C01.

(* ------------------------------------------------------------------------------------------------------------------
   (9) SCHEMA VALIDITY IS THE C13 JUDGEMENT; REQUIRED ATTRIBUTES PRESENT BUT EMPTY (Model/RequestValid.v).
   In (1)-(8) d_valid is an input bit.  Here the received document comes with the instance tree [i] that
   <msgtype>_from_string makes of it (Model/Schema.v; an attribute written X="" is the member holding the EMPTY value) and
   d_valid is COMPUTED: vi prim i = validate.valid_instance of Model/Validate.v (C13) over Gen/SchemaTables.v, the tables
   regenerated from the working tree on this run.  parse_request_v = _parse_request on such a text. *)
From PV Require Import Model.Schema Model.Validate Gen.SchemaTables Proofs.Validate_lemmas Model.RequestValid
  Proofs.RequestValid_lemmas Gen.RequestInst.

(* (9a) handed over => valid_instance accepted the instance tree (and everything (1) says holds of the document) *)
Theorem C10_handed_over_only_if_valid_instance :
  forall pre prim c k b w i d,
    parse_request_v pre true prim c k b w i = Ok (Some d) ->
    vi prim i = ok /\ exists d0, d = judged prim i d0 /\ carries k b w d0.
Proof. exact handed_over_valid_instance. Qed.
Print Assumptions C10_handed_over_only_if_valid_instance.

(* (9b) REFUSAL.  If the root or ANY node reachable below it through declared child members, at any depth (IDPEntry under
   Scoping/IDPList, SubjectConfirmation under Subject, Attribute, Action, the Assertion inside Evidence, EncryptionMethod
   inside EncryptedID ...), has a required attribute that is missing OR EMPTY, the request is handed over by no entry
   point, over no binding, under no configuration, signed or not, for every primitive validator function *)
Theorem C10_empty_required_attribute_refused :
  forall pre prim c k b w i j d,
    reach actual_schema i j -> required_missing_or_empty j ->
    parse_request_v pre true prim c k b w i <> Ok (Some d).
Proof. exact empty_required_refused. Qed.
Print Assumptions C10_empty_required_attribute_refused.

(* the executable reading of the hypothesis: the members it names *)
Theorem C10_empty_required_members_sound :
  forall j m, In m (empty_required_members j) -> required_missing_or_empty j.
Proof. exact empty_required_members_sound. Qed.
Print Assumptions C10_empty_required_members_sound.

(* (9c) EXACTLY AS IF ABSENT: the judgement cannot tell X="" from no X - per attribute row (required or optional, typed or
   not), hence per node and for the root of a request: two instance trees whose root attribute lists agree except that
   one has "" where the other has nothing get the same verdict, so the same outcome of _parse_request *)
Theorem C10_empty_is_judged_as_absent :
  forall prim c attrs1 attrs2 t K xa xe,
    same_but_empty attrs1 attrs2 ->
    vi prim (I c attrs1 t K xa xe) = vi prim (I c attrs2 t K xa xe) /\
    forall pre fixd cf k b w,
      parse_request_v pre fixd prim cf k b w (I c attrs1 t K xa xe) = parse_request_v pre fixd prim cf k b w (I c attrs2 t K xa xe).
Proof.
  intros prim c attrs1 attrs2 t K xa xe Hs.
  pose proof (root_empty_as_absent prim c attrs1 attrs2 t K xa xe Hs) as Hv. split; [exact Hv|].
  intros pre fixd cf k b w. unfold parse_request_v, wire_judged, judged, vi_ok. rewrite Hv. reflexivity.
Qed.
Print Assumptions C10_empty_is_judged_as_absent.

(* (9d) one long-lived receiver: whatever it has handed over at any point of a sequence passed valid_instance itself *)
Theorem C10_history_only_valid_instances :
  forall pre prim c ops k b w d,
    In ((k, b, w), d) (run_history_v pre true prim c ops) ->
    exists w0 i, In (k, b, w0, i) ops /\ w = wire_judged prim i w0 /\ vi prim i = ok.
Proof. exact history_v_only_valid. Qed.
Print Assumptions C10_history_only_valid_instances.

(* (9e) non-vacuity, on instance trees REGENERATED on this run from requests built with the library's own classes
   (Gen/RequestInst.v): an AuthnRequest carrying Scoping/IDPList/IDPEntry is judged valid and handed over; the same with
   ID="" at the root, with IDPEntry ProviderID="" two levels below Scoping, and with that ProviderID absent are judged
   invalid - a violation is reachable - and refused (NotValid), the empty and the absent one with the same verdict *)
Example C10_empty_required_witness :
  let P := prim_of [] in
  let run i := parse_request_v_now P (w_cfg false false) KAuthn BPost (WText (Xml (w_doc w_unsigned None 0))) i in
  vi P ri_good = ok /\ (exists d, run ri_good = Ok (Some d)) /\
  vi_ok P ri_empty_root = false /\ empty_required_members ri_empty_root <> [] /\ run ri_empty_root = Err (E "NotValid") /\
  vi_ok P ri_empty_deep = false /\ has_violation P validator_keys actual_schema ri_empty_deep = true /\
  run ri_empty_deep = Err (E "NotValid") /\
  vi P ri_empty_deep = vi P ri_absent_deep /\ run ri_absent_deep = Err (E "NotValid").
Proof.
  cbv zeta. repeat split; try (vm_compute; reflexivity); try (vm_compute; discriminate).
  eexists. vm_compute. reflexivity.
Qed.
Print Assumptions C10_empty_required_witness.

(* ------------------------------------------------------------------------------------------------------------------
   (10) THE PROCESS TIME ZONE AND THE CLOCK SOURCES.  Model/RequestWindow.v: Request.issue_instant_ok on the TEXT of
   IssueInstant, through Model/TimeUtil.v (strptime / str_to_time, calendar.timegm, time.gmtime, datetime.timetuple,
   the order on time tuples), with the clock of the process explicit: pclock = (the instant, what the wall clock of the
   zone in force is ahead of UTC).  The code reads datetime.utcnow() for now and calendar.timegm for the text. *)
From PV Require Import Model.TimeUtil Model.RequestWindow Proofs.RequestWindow_lemmas.

(* (10a) the verdict on a text that denotes the tuple c is the window on instants [now-86400-slack, now+86400+slack),
   now = the UTC instant, timegm c = the UTC reading of the text *)
Theorem C10_window_text :
  forall k slack s c, str_to_time s = Ok (Some c) ->
    window_text k slack s = Ok (within (pc_now k) slack (timegm c)).
Proof. exact window_text_spec. Qed.
Print Assumptions C10_window_text.

(* (10b) the verdict is a function of (now_utc, text, allowance) only: two processes whose clocks read the same instant
   give the same verdict on every text whatever their zones *)
Theorem C10_window_verdict_is_zone_free :
  forall k k' slack s, pc_now k = pc_now k' -> window_text k slack s = window_text k' slack s.
Proof. exact window_text_function_of_utc. Qed.
Print Assumptions C10_window_verdict_is_zone_free.

(* (10c) it IS the IssueInstant clause of the request model (Model/Request.v issue_instant_ok on d_issue_instant) when
   the document's instant is the one its text denotes; so C10_handed_over_only_if_valid speaks about texts *)
Theorem C10_window_text_is_the_request_window :
  forall k (c : rcfg) s tm, c_now c = pc_now k -> str_to_time s = Ok (Some tm) ->
    window_text k (c_slack c) s = Ok (issue_instant_ok c (timegm tm)).
Proof. exact window_text_is_request_window. Qed.
Print Assumptions C10_window_text_is_the_request_window.

(* (10d) accepted by the test => the text parses and lies strictly within a day plus allowance of the UTC now - in
   every zone; a request more than a day + allowance away is never accepted *)
Theorem C10_window_never_beyond_a_day :
  forall k slack s, window_text k slack s = Ok true ->
    exists c, str_to_time s = Ok (Some c) /\ (pc_now k - 86400 - slack <= timegm c < pc_now k + 86400 + slack)%Z.
Proof. exact window_text_sound. Qed.
Print Assumptions C10_window_never_beyond_a_day.

(* (10e) a message stamped by time_util.instant at t (years 1000..9999) gets the window on t *)
Theorem C10_window_of_stamped_instant :
  forall k slack t, (-30610224000 <= t <= 253402300799)%Z ->
    window_text k slack (instant_of t) = Ok (within (pc_now k) slack t).
Proof. exact window_text_of_instant. Qed.
Print Assumptions C10_window_of_stamped_instant.

(* (10f) REFUTED for a window that takes mktime(gmtime()) (time_util.utc_time_sans_frac: the UTC tuple read as LOCAL
   time) as now: in New York a request dated a day and an hour ahead passes, in Tokyo one dated 23 h ahead is refused;
   likewise for datetime.now() as now and for mktime instead of timegm on the text.  Under UTC the three variants ARE
   the code (the partial statement) - which is why a run in a UTC process cannot tell them apart. *)
Theorem C10_window_mktime_now_refuted :
  (exists c, str_to_time s_ahead_1d_1h = Ok (Some c) /\ timegm c = (W_NOW + 86400 + 3600)%Z /\
             window_text_mktime_now k_new_york 0 s_ahead_1d_1h = Ok true /\
             window_text k_new_york 0 s_ahead_1d_1h = Ok false /\ window_text_mktime_now k_utc 0 s_ahead_1d_1h = Ok false) /\
  (exists c, str_to_time s_ahead_23h = Ok (Some c) /\ timegm c = (W_NOW + 82800)%Z /\
             window_text_mktime_now k_tokyo 0 s_ahead_23h = Ok false /\
             window_text k_tokyo 0 s_ahead_23h = Ok true).
Proof. exact window_mktime_now_refuted. Qed.
Print Assumptions C10_window_mktime_now_refuted.

Theorem C10_window_local_now_refuted :
  window_text_local_now k_tokyo 60 s_ahead_1d_1h = Ok true /\ window_text k_tokyo 60 s_ahead_1d_1h = Ok false /\
  window_text_local_now k_new_york 60 s_ahead_23h = Ok false /\ window_text k_new_york 60 s_ahead_23h = Ok true.
Proof. exact window_local_now_refuted. Qed.
Print Assumptions C10_window_local_now_refuted.

Theorem C10_window_mktime_text_refuted :
  window_text_mktime_text k_tokyo 0 s_ahead_1d_1h = Ok true /\ window_text k_tokyo 0 s_ahead_1d_1h = Ok false.
Proof. exact window_mktime_text_refuted. Qed.
Print Assumptions C10_window_mktime_text_refuted.

Theorem C10_window_variants_partial :
  forall k slack s, pc_ahead k = 0%Z ->
    window_text_mktime_now k slack s = window_text k slack s /\ window_text_local_now k slack s = window_text k slack s /\
    window_text_mktime_text k slack s = window_text k slack s.
Proof. exact window_variants_partial. Qed.
Print Assumptions C10_window_variants_partial.

(* the shifted windows, in general *)
Theorem C10_window_variants_shift :
  forall k slack s c, str_to_time s = Ok (Some c) ->
    window_text_mktime_now k slack s = Ok (within (pc_now k - pc_ahead k) slack (timegm c)) /\
    window_text_local_now k slack s = Ok (within (pc_now k + pc_ahead k) slack (timegm c)) /\
    window_text_mktime_text k slack s = Ok (within (pc_now k) slack (timegm c - pc_ahead k)).
Proof.
  intros k slack s c H. repeat split.
  - exact (window_mktime_now_spec k slack s c H).
  - exact (window_local_now_spec k slack s c H).
  - exact (window_mktime_text_spec k slack s c H).
Qed.
Print Assumptions C10_window_variants_shift.

(* non-vacuity: a text the code accepts in every zone, one it refuses in every zone *)
Example C10_window_witness :
  window_text k_tokyo 0 s_ahead_23h = Ok true /\ window_text k_new_york 0 s_ahead_23h = Ok true /\
  window_text k_utc 0 s_ahead_23h = Ok true /\ window_text k_tokyo 3600 s_ahead_1d_1h = Ok false /\
  window_text k_tokyo 3601 s_ahead_1d_1h = Ok true /\ window_text k_utc 0 [] = Err TypeError.
Proof. repeat split; vm_compute; reflexivity. Qed.
Print Assumptions C10_window_witness.
