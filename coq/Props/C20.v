(* Props/C20.v — failures of the external tool never turn into acceptance.
   The tool is arbitrary: every theorem quantifies over all [tool_result]s. *)
From PV Require Import Lib.Base Model.Sigver Proofs.Sigver_lemmas Model.MdStoreLoad Proofs.MdStoreLoad_lemmas.
Open Scope N_scope.

(* success is recognised only by a LINE that is exactly OK, with neither OK nor
   FAIL on an earlier line *)
Theorem C20_ok_line_exact :
  forall s, parse_xmlsec_output s = Ok true <->
    exists pre post, splitlines s = pre ++ OKs :: post /\ Forall (fun l => l <> OKs /\ l <> FAILs) pre.
Proof.
  intros s. unfold parse_xmlsec_output. rewrite <- scan_lines_spec.
  destruct (scan_lines (splitlines s)); split; congruence.
Qed.
Print Assumptions C20_ok_line_exact.

(* "OK" merely contained in other text on one line is not success *)
Theorem C20_ok_inside_text :
  forall s, forallb (fun c => negb (is_linebreak c)) s = true -> s <> OKs ->
    parse_xmlsec_output s = Err XmlsecError.
Proof. exact single_line_only_exact_ok. Qed.
Print Assumptions C20_ok_inside_text.

(* Verification: for EVERY behaviour of the tool on the invocations made for
   the candidate certificates, if none of them reports success (not startable,
   killed by a signal, undecodable/garbled, no OK line, FAIL first, …) the
   signature check fails — it never returns normally. *)
Theorem C20_verify :
  forall (no_certs : bool) (runs : list tool_result) (only_valid_cert cert_valid : bool),
    (forall r, In r runs -> reports_success r = false) ->
    check_signature_runs no_certs runs only_valid_cert cert_valid <> Ok tt.
Proof.
  intros z runs ovc cv Hall H. apply check_signature_ok in H as (_ & _ & r & Hin & Hr).
  rewrite (Hall r Hin) in Hr. discriminate.
Qed.
Print Assumptions C20_verify.

(* the library before fix 0b54cc6b (F16; check_signature_runs_before_fix) did not satisfy it for only_valid_cert = true:
   a tool run that reports FAIL, a valid certificate - and the check returned normally.  With only_valid_cert off the
   old code was today's (C20_verify_before_fix_partial). *)
Theorem C20_verify_before_fix_refuted :
  exists runs, (forall r, In r runs -> reports_success r = false) /\
    check_signature_runs_before_fix false runs true true = Ok tt /\
    check_signature_runs false runs true true = Err (s2l "SignatureError").
Proof.
  exists [Ran {| signaled := false; p_out := []; p_err := s2l "FAIL"; undecodable := false; outfile := [] |}].
  split; [intros r [<-|[]]; reflexivity|]. split; reflexivity.
Qed.
Print Assumptions C20_verify_before_fix_refuted.

Theorem C20_verify_before_fix_partial :
  forall (no_certs : bool) (runs : list tool_result) (cert_valid : bool),
    (forall r, In r runs -> reports_success r = false) ->
    check_signature_runs_before_fix no_certs runs false cert_valid <> Ok tt.
Proof.
  intros z runs cv Hall. rewrite check_signature_before_fix_off. now apply C20_verify.
Qed.
Print Assumptions C20_verify_before_fix_partial.

Theorem C20_verify_single_never_false : forall r, validate_signature r <> Ok false.
Proof. exact validate_signature_never_false. Qed.
Print Assumptions C20_verify_single_never_false.

(* Signing / encryption: a returned text is always the tool's own non-empty
   output of a run that was started, not killed, decodable (and, for signing,
   silent on stdout).  In particular the unsigned / unencrypted input is never
   returned as if it were protected. *)
Theorem C20_sign_encrypt :
  (forall r s, sign_statement r = Ok s ->
     exists o, r = Ran o /\ undecodable o = false /\ signaled o = false /\ p_out o = [] /\ s = outfile o /\ s <> []) /\
  (forall r s, encrypt_assertion r = Ok s ->
     exists o, r = Ran o /\ undecodable o = false /\ signaled o = false /\ s = outfile o /\ s <> []).
Proof. split; [exact sign_statement_ok | exact encrypt_assertion_ok]. Qed.
Print Assumptions C20_sign_encrypt.

(* Decryption: the text handed on is either a real non-empty tool output or the
   UNCHANGED ciphertext document (which contains no readable assertion) *)
Theorem C20_decrypt :
  forall enc runs t, decrypt_keys enc runs = Ok t ->
    t = enc \/ exists o, In (Ran o) runs /\ undecodable o = false /\ signaled o = false /\ t = outfile o /\ t <> [].
Proof. exact decrypt_keys_ok. Qed.
Print Assumptions C20_decrypt.

(* the fault catalogue, instantiated (non-vacuity + documentation) *)
Definition mk sig out err und outf := Ran {| signaled := sig; p_out := out; p_err := err; undecodable := und; outfile := outf |}.
Definition catalogue : list tool_result := [
  NotStartable;
  mk false [] [] false [];                                   (* exit 1, silent *)
  mk false [] (s2l "FAIL") false [];                          (* explicit FAIL *)
  mk true  [] [] false [];                                    (* killed by signal *)
  mk true  [] (OKs ++ [10]) false [];                         (* OK, then killed by signal *)
  mk false [] (s2l "everything is OK here") false [];         (* OK inside other text *)
  mk false [] (s2l "ok") false [];                            (* wrong case *)
  mk false [] (s2l " OK ") false [];                          (* padded *)
  mk false OKs [] false [];                                   (* OK on stdout only *)
  mk false [] (s2l "O") false [];                             (* truncated *)
  mk false [] (FAILs ++ [10] ++ OKs) false [];                (* FAIL then OK *)
  mk false [] OKs true []                                     (* garbled / undecodable bytes *)
].
Example C20_fault_catalogue :
  forallb (fun r => negb (reports_success r)) catalogue = true /\
  (forall ovc cv, check_signature_runs false catalogue ovc cv <> Ok tt) /\
  forallb (fun r => negb (is_ok (sign_statement r)) && negb (is_ok (encrypt_assertion r))) catalogue = true /\
  reports_success (mk false [] (s2l "OK") false []) = true /\
  reports_success (mk false [] (s2l "func=xmlSec" ++ [13;10] ++ OKs ++ [10] ++ s2l "SignedInfo References (ok/all): 1/1") false []) = true.
Proof.
  split; [vm_compute; reflexivity|]. split.
  - intros ovc cv. apply C20_verify. intros r Hin.
    assert (forallb (fun r => negb (reports_success r)) catalogue = true) as H by (vm_compute; reflexivity).
    rewrite forallb_forall in H. specialize (H r Hin). now destruct (reports_success r).
  - vm_compute. repeat split; reflexivity.
Qed.
Print Assumptions C20_fault_catalogue.

(* ---------- what a FAILED load leaves behind (Model/MdStoreLoad.v) ----------
   store = dict key -> source; load = (parse into a new source; verify; register);
   the application catches the exception and keeps using the store. *)

(* one operation: a load that raises leaves the store exactly as it was; a load
   that has to verify and whose tool run does not report success does raise *)
Theorem C20_failed_load_unchanged :
  (forall o s e, snd (load o s) = Err e -> fst (load o s) = s) /\
  (forall o s, op_must_verify o = true -> reports_success (op_tool o) = false -> exists e, load o s = (s, Err e)).
Proof. split; [exact load_failed_unchanged | exact load_unverified]. Qed.
Print Assumptions C20_failed_load_unchanged.

(* every history (induction over the operation list): the failed operations are
   invisible - the final store is the one the successful operations alone
   produce; a failed operation anywhere in a history leaves no trace; a history
   of failures only is the identity *)
Theorem C20_history_failed_loads_invisible :
  (forall ops s, run_history ops s = run_history (filter op_succeeds ops) s) /\
  (forall ops1 o ops2 s, op_must_verify o = true -> reports_success (op_tool o) = false ->
     run_history (ops1 ++ o :: ops2) s = run_history (ops1 ++ ops2) s) /\
  (forall ops s, (forall o, In o ops -> op_must_verify o = true /\ reports_success (op_tool o) = false) ->
     run_history ops s = s).
Proof.
  split; [exact run_history_filter|]. split; [exact run_history_failed_in_the_middle | exact run_history_all_failed].
Qed.
Print Assumptions C20_history_failed_loads_invisible.

(* nothing from a document that could not be verified: a (key, document) the
   store holds after any history was there before, or was registered by an
   operation that did not have to verify (no certificate configured / unsigned
   document) or whose tool run reported success *)
Theorem C20_history_provenance :
  forall ops s k d, In (k, d) (run_history ops s) ->
    In (k, d) s \/
    exists o, In o ops /\ op_key o = k /\ op_doc o = d /\
              (op_must_verify o = false \/ reports_success (op_tool o) = true).
Proof.
  intros ops s k d H. apply run_history_provenance in H as [H|(o & Hin & Hk & Hd & Hs)]; [now left|].
  right. exists o. repeat split; try assumption.
  destruct (op_must_verify o) eqn:Hm; [right; now apply op_succeeds_verified|now left].
Qed.
Print Assumptions C20_history_provenance.

(* a store that registers before it verifies (NOT the library; the hidden change
   the history units look for) violates both: the failed load replaces the
   verified source under the same key, and leaves a new one under a new key *)
Theorem C20_register_before_verify_refuted :
  exists o1 o2 s,
    op_must_verify o1 = true /\ reports_success (op_tool o1) = false /\
    snd (load_register_first o1 s) <> Ok tt /\ fst (load_register_first o1 s) <> s /\ fst (load o1 s) = s /\
    op_must_verify o2 = true /\ reports_success (op_tool o2) = false /\
    run_history_register_first [o1; o2] s = [(1, 3); (2, 3)] /\ run_history [o1; o2] s = s.
Proof.
  exists (1, 3, true, true, mk true [] [] false []), (2, 3, true, true, NotStartable), [(1, 1)].
  vm_compute. repeat split; discriminate.
Qed.
Print Assumptions C20_register_before_verify_refuted.

Example C20_history_example :
  run_history [ (1, 1, true, true, mk false [] (s2l "OK") false []);      (* verified load of document 1 under key 1 *)
                (1, 3, true, true, mk false [] (s2l "FAIL") false []);    (* refresh with document 3: bad signature *)
                (2, 3, true, true, mk true [] (s2l "OK") false []);       (* new key, tool killed by a signal *)
                (1, 2, true, true, mk false [] (s2l "OK") false []) ] []  (* verified refresh *)
  = [(1, 2)].
Proof. vm_compute. reflexivity. Qed.
Print Assumptions C20_history_example.
