(* Props/C03.v — signatures are trusted only under the issuer's keys from metadata *)
From PV Require Import Lib.Base Model.Sigver Model.CertSelect Proofs.Sigver_lemmas Proofs.CertSelect_lemmas.
Open Scope N_scope.

(* Default setting (only_use_keys_in_metadata on): a successful check means the
   signer's key is a certificate of a key descriptor of THE ISSUER's entity (the
   entry the store serves for that id) whose use is signing or absent.  The
   embedded certificates are never consulted. *)
Theorem C03_only_issuer_keys :
  forall mp m issuer embedded signer,
    check_signature mp m issuer true embedded signer = Ok tt ->
    mp = true /\ exists i e r kd, issuer = Some i /\ find_entity m i = Some e /\ In r e /\ In kd r /\
      (kd_use kd = Some SIGNING \/ kd_use kd = None) /\ In signer (kd_certs kd).
Proof.
  intros mp m issuer embedded signer H. rewrite check_signature_spec in H. unfold candidate_certs in H.
  rewrite andb_false_r in H.
  destruct mp; [|discriminate]. split; [reflexivity|].
  destruct (md_certs m issuer SIGNING) as [l|] eqn:Mc; [|discriminate].
  destruct (md_certs_spec _ _ _ _ Mc) as (i & e & Hi & F & S).
  destruct l as [|c0 l']; [discriminate|].
  destruct (memN signer (c0 :: l')) eqn:M; [|discriminate]. apply memN_In, S in M as (r & kd & Hr & Hk & Hu & Hc).
  exists i, e, r, kd. repeat split; auto. unfold use_matches in Hu. destruct (kd_use kd) as [u|]; [left|now right].
  apply str_eqb_eq in Hu. now subst.
Qed.
Print Assumptions C03_only_issuer_keys.

(* consequences, default setting *)
Theorem C03_rejections :
  forall mp m issuer embedded signer,
    (* issuer absent from metadata, or no usable signing key there: MissingKey — even with an embedded certificate *)
    ((mp = false \/ md_certs m issuer SIGNING = None \/ md_certs m issuer SIGNING = Some []) ->
       check_signature mp m issuer true embedded signer = Err (s2l "MissingKey")) /\
    (* a key that is not among the issuer's signing certificates (another entity's key, an encryption-only key): SignatureError *)
    (forall l, mp = true -> md_certs m issuer SIGNING = Some l -> l <> [] -> ~ In signer l ->
       check_signature mp m issuer true embedded signer = Err (s2l "SignatureError")).
Proof.
  intros mp m issuer embedded signer. split.
  - intros H. rewrite check_signature_spec. unfold candidate_certs. rewrite andb_false_r.
    destruct H as [->|[H|H]]; [reflexivity| |]; destruct mp; try reflexivity; now rewrite H.
  - intros l -> Hm Hne Hn. rewrite check_signature_spec. unfold candidate_certs. rewrite andb_false_r, Hm.
    destruct l as [|c0 l']; [congruence|]. destruct (memN signer (c0 :: l')) eqn:M; [|reflexivity].
    apply memN_In in M. contradiction.
Qed.
Print Assumptions C03_rejections.

(* an encryption-only key descriptor never contributes to the signing set, whatever the descriptor order *)
Theorem C03_use_respected :
  forall m issuer l x, md_certs m issuer SIGNING = Some l -> In x l ->
    exists i e r kd, issuer = Some i /\ find_entity m i = Some e /\ In r e /\ In kd r /\ In x (kd_certs kd) /\
      kd_use kd <> Some (s2l "encryption").
Proof.
  intros m issuer l x Hm Hx. destruct (md_certs_spec _ _ _ _ Hm) as (i & e & Hi & F & S).
  apply S in Hx as (r & kd & Hr & Hk & Hu & Hc). exists i, e, r, kd. repeat split; auto.
  unfold use_matches in Hu. destruct (kd_use kd) as [u|]; [|discriminate].
  apply str_eqb_eq in Hu. rewrite Hu. vm_compute. discriminate.
Qed.
Print Assumptions C03_use_respected.

(* Setting off: embedded certificates are consulted iff metadata yields no signing certificate for the issuer *)
Theorem C03_embedded_only_as_fallback :
  forall (mp : bool) (m : mdstore) (issuer : option str) (embedded : list N),
    let from_md : list N := if mp then match md_certs m issuer SIGNING with Some l => l | None => [] end else [] in
    candidate_certs mp m issuer false embedded =
      match from_md with
      | [] => match embedded with [] => Err (s2l "MissingKey") | _ => Ok embedded end
      | _ => Ok from_md
      end.
Proof.
  intros mp m issuer embedded. cbv zeta. unfold candidate_certs. cbn [negb]. rewrite andb_true_r.
  destruct (if mp then match md_certs m issuer SIGNING with Some l => l | None => [] end else []); reflexivity.
Qed.
Print Assumptions C03_embedded_only_as_fallback.

(* non-vacuity: a two-IdP federation *)
Definition idpA := s2l "https://idp.example.org/idp".
Definition idpB := s2l "https://idp2.example.org/idp".
Definition fed : mdstore := [
  (idpA, [[ {| kd_use := Some SIGNING; kd_certs := [1] |}; {| kd_use := Some (s2l "encryption"); kd_certs := [3] |} ]]);
  (idpB, [[ {| kd_use := Some (s2l "encryption"); kd_certs := [4] |}; {| kd_use := None; kd_certs := [2] |} ]]) ].
Example C03_witness :
  check_signature true fed (Some idpA) true [9] 1 = Ok tt /\
  check_signature true fed (Some idpA) true [3] 3 = Err (s2l "SignatureError") /\      (* encryption-only key *)
  check_signature true fed (Some idpA) true [2] 2 = Err (s2l "SignatureError") /\      (* the other IdP's key *)
  check_signature true fed (Some idpB) true [] 2 = Ok tt /\
  check_signature true fed (Some (s2l "https://unknown/")) true [9] 9 = Err (s2l "MissingKey") /\
  check_signature true fed (Some (s2l "https://unknown/")) false [9] 9 = Ok tt /\
  check_signature true fed (Some idpA) false [9] 9 = Err (s2l "SignatureError").
Proof. vm_compute. repeat split; reflexivity. Qed.
Print Assumptions C03_witness.
