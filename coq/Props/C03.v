(* Props/C03.v — signatures are trusted only under the issuer's keys from metadata *)
From PV Require Import Lib.Base Model.Sigver Model.CertSelect Model.IssuerSel Model.CertValidity Proofs.Sigver_lemmas Proofs.CertSelect_lemmas Proofs.IssuerSel_lemmas Proofs.CertValidity_lemmas Model.CertSource Proofs.CertSource_lemmas.
Open Scope N_scope.

(* Default setting (only_use_keys_in_metadata on): a successful check means the
   signer's key is a certificate of a key descriptor of THE ISSUER's entity (the
   entry the store serves for that id) whose use is signing or absent.  The
   embedded certificates are never consulted. *)
Theorem C03_only_issuer_keys :
  forall mp m issuer embedded signer,
    check_signature mp m issuer true embedded signer = Ok tt ->
    mp = true /\ exists i e r kd, issuer = Some i /\ find_entity m i = Some e /\ In r e /\ In kd r /\
      (kd_use kd = Some SIGNING \/ kd_use kd = None) /\ In signer (kd_certs kd).
Proof.
  intros mp m issuer embedded signer H. rewrite check_signature_spec in H. unfold candidate_certs in H.
  rewrite andb_false_r in H.
  destruct mp; [|discriminate]. split; [reflexivity|].
  destruct (md_certs m issuer SIGNING) as [l|] eqn:Mc; [|discriminate].
  destruct (md_certs_spec _ _ _ _ Mc) as (i & e & Hi & F & S).
  destruct l as [|c0 l']; [discriminate|].
  destruct (memN signer (c0 :: l')) eqn:M; [|discriminate]. apply memN_In, S in M as (r & kd & Hr & Hk & Hu & Hc).
  exists i, e, r, kd. repeat split; auto. unfold use_matches in Hu. destruct (kd_use kd) as [u|]; [left|now right].
  apply str_eqb_eq in Hu. now subst.
Qed.
Print Assumptions C03_only_issuer_keys.

(* consequences, default setting *)
Theorem C03_rejections :
  forall mp m issuer embedded signer,
    (* issuer absent from metadata, or no usable signing key there: MissingKey — even with an embedded certificate *)
    ((mp = false \/ md_certs m issuer SIGNING = None \/ md_certs m issuer SIGNING = Some []) ->
       check_signature mp m issuer true embedded signer = Err (s2l "MissingKey")) /\
    (* a key that is not among the issuer's signing certificates (another entity's key, an encryption-only key): SignatureError *)
    (forall l, mp = true -> md_certs m issuer SIGNING = Some l -> l <> [] -> ~ In signer l ->
       check_signature mp m issuer true embedded signer = Err (s2l "SignatureError")).
Proof.
  intros mp m issuer embedded signer. split.
  - intros H. rewrite check_signature_spec. unfold candidate_certs. rewrite andb_false_r.
    destruct H as [->|[H|H]]; [reflexivity| |]; destruct mp; try reflexivity; now rewrite H.
  - intros l -> Hm Hne Hn. rewrite check_signature_spec. unfold candidate_certs. rewrite andb_false_r, Hm.
    destruct l as [|c0 l']; [congruence|]. destruct (memN signer (c0 :: l')) eqn:M; [|reflexivity].
    apply memN_In in M. contradiction.
Qed.
Print Assumptions C03_rejections.

(* an encryption-only key descriptor never contributes to the signing set, whatever the descriptor order *)
Theorem C03_use_respected :
  forall m issuer l x, md_certs m issuer SIGNING = Some l -> In x l ->
    exists i e r kd, issuer = Some i /\ find_entity m i = Some e /\ In r e /\ In kd r /\ In x (kd_certs kd) /\
      kd_use kd <> Some (s2l "encryption").
Proof.
  intros m issuer l x Hm Hx. destruct (md_certs_spec _ _ _ _ Hm) as (i & e & Hi & F & S).
  apply S in Hx as (r & kd & Hr & Hk & Hu & Hc). exists i, e, r, kd. repeat split; auto.
  unfold use_matches in Hu. destruct (kd_use kd) as [u|]; [|discriminate].
  apply str_eqb_eq in Hu. rewrite Hu. vm_compute. discriminate.
Qed.
Print Assumptions C03_use_respected.

(* Setting off: embedded certificates are consulted iff metadata yields no signing certificate for the issuer *)
Theorem C03_embedded_only_as_fallback :
  forall (mp : bool) (m : mdstore) (issuer : option str) (embedded : list N),
    let from_md : list N := if mp then match md_certs m issuer SIGNING with Some l => l | None => [] end else [] in
    candidate_certs mp m issuer false embedded =
      match from_md with
      | [] => match embedded with [] => Err (s2l "MissingKey") | _ => Ok embedded end
      | _ => Ok from_md
      end.
Proof.
  intros mp m issuer embedded. cbv zeta. unfold candidate_certs. cbn [negb]. rewrite andb_true_r.
  destruct (if mp then match md_certs m issuer SIGNING with Some l => l | None => [] end else []); reflexivity.
Qed.
Print Assumptions C03_embedded_only_as_fallback.

(* The model follows the library WITH proposed_fix/C03-1 (MetaData.certs skips a key descriptor without X509Data).
   BEFORE that repair (md_certs_before_fix: KeyError for the whole entity, swallowed by _check_signature as "no
   certificates from metadata") the statement above was false of the code: metadata holds a signing certificate for
   the issuer (key 1), a second signing KeyDescriptor carries a KeyName only - and the embedded certificate of an
   unrelated key (9) was consulted and trusted. *)
Definition fed_keyname : mdstore :=
  [(s2l "https://idp.example.org/idp", [[ {| kd_use := Some SIGNING; kd_certs := [1] |}; {| kd_use := Some SIGNING; kd_certs := [] |} ]])].
Theorem C03_embedded_only_as_fallback_before_fix_refuted :
  exists m issuer embedded signer l,
    md_certs m issuer SIGNING = Some l /\ l <> [] /\ ~ In signer l /\
    candidate_certs_before_fix true m issuer false embedded = Ok embedded /\
    check_signature_before_fix true m issuer false embedded signer = Ok tt /\
    check_signature true m issuer false embedded signer = Err (s2l "SignatureError").
Proof.
  exists fed_keyname, (Some (s2l "https://idp.example.org/idp")), [9], 9, [1].
  split; [reflexivity|]. split; [discriminate|]. split; [intros [H|[]]; discriminate|]. repeat split; reflexivity.
Qed.
Print Assumptions C03_embedded_only_as_fallback_before_fix_refuted.

(* ... and under the default setting the code before the repair was needlessly strict, never lax: it refused (MissingKey)
   the issuer's own declared key, and whatever it accepted the repaired code accepts *)
Theorem C03_before_fix_default_setting :
  (exists m issuer embedded signer,
     check_signature true m issuer true embedded signer = Ok tt /\
     check_signature_before_fix true m issuer true embedded signer = Err (s2l "MissingKey")) /\
  (forall mp m issuer embedded signer,
     check_signature_before_fix mp m issuer true embedded signer = Ok tt ->
     check_signature mp m issuer true embedded signer = Ok tt).
Proof.
  split.
  - exists fed_keyname, (Some (s2l "https://idp.example.org/idp")), [1], 1. split; reflexivity.
  - exact check_signature_before_fix_default_sound.
Qed.
Print Assumptions C03_before_fix_default_setting.

(* non-vacuity: a two-IdP federation *)
Definition idpA := s2l "https://idp.example.org/idp".
Definition idpB := s2l "https://idp2.example.org/idp".
Definition fed : mdstore := [
  (idpA, [[ {| kd_use := Some SIGNING; kd_certs := [1] |}; {| kd_use := Some (s2l "encryption"); kd_certs := [3] |} ]]);
  (idpB, [[ {| kd_use := Some (s2l "encryption"); kd_certs := [4] |}; {| kd_use := None; kd_certs := [2] |} ]]) ].
Example C03_witness :
  check_signature true fed (Some idpA) true [9] 1 = Ok tt /\
  check_signature true fed (Some idpA) true [3] 3 = Err (s2l "SignatureError") /\      (* encryption-only key *)
  check_signature true fed (Some idpA) true [2] 2 = Err (s2l "SignatureError") /\      (* the other IdP's key *)
  check_signature true fed (Some idpB) true [] 2 = Ok tt /\
  check_signature true fed (Some (s2l "https://unknown/")) true [9] 9 = Err (s2l "MissingKey") /\
  check_signature true fed (Some (s2l "https://unknown/")) false [9] 9 = Ok tt /\
  check_signature true fed (Some idpA) false [9] 9 = Err (s2l "SignatureError").
Proof. vm_compute. repeat split; reflexivity. Qed.
Print Assumptions C03_witness.

(* ======================================================================================
   WHICH issuer: the issuer-selection step of _check_signature and its call sites
   (Model/IssuerSel.v).  [trusted_for m i k]: k is a certificate of a signing (or use-less)
   key descriptor of the entity the store serves for id i. *)

(* The candidate certificates are those of the signed element's OWN Issuer whenever it has
   one: the issuer= argument (whatever a call site or a direct caller passes) is not looked at. *)
Theorem C03_own_issuer_decides :
  forall c arg own embedded signer i,
    issuer_text own = Some i ->
    elem_candidates c arg own embedded = candidate_certs (v_mp c) (v_md c) (Some i) (v_only_md c) embedded /\
    check_elem c arg own embedded signer = check_signature (v_mp c) (v_md c) (Some i) (v_only_md c) embedded signer.
Proof. intros. split; [now apply elem_candidates_own|now apply check_elem_own]. Qed.
Print Assumptions C03_own_issuer_decides.

(* Every call site: with an Issuer of its own the element is checked under that entity's certificates;
   without one, only the advice loop (enclosing assertion's Issuer) and direct callers supply a name,
   every other site looks up nobody — MissingKey under the default setting. *)
Theorem C03_call_sites :
  forall c s enclosing direct own embedded signer,
    (forall i, issuer_text own = Some i ->
       check_at c s enclosing direct own embedded signer =
       check_signature (v_mp c) (v_md c) (Some i) (v_only_md c) embedded signer) /\
    (issuer_text own = None ->
       check_at c s enclosing direct own embedded signer =
       check_signature (v_mp c) (v_md c)
         (match s with SiteAdvice => issuer_text enclosing | SiteDirect => issuer_text direct | _ => None end)
         (v_only_md c) embedded signer) /\
    (issuer_text own = None -> s <> SiteAdvice -> s <> SiteDirect -> v_only_md c = true ->
       check_at c s enclosing direct own embedded signer = Err (s2l "MissingKey")).
Proof.
  intros c s enclosing direct own embedded signer. split; [|split].
  - intros i Hi. unfold check_at. now apply check_elem_own.
  - intros Hn. unfold check_at, check_elem. rewrite (select_issuer_fallback _ _ Hn). destruct s; reflexivity.
  - intros Hn Ha Hd Ho. unfold check_at, check_elem. rewrite (select_issuer_fallback _ _ Hn), Ho.
    replace (issuer_text (site_arg s enclosing direct)) with (@None str) by (destruct s; try reflexivity; contradiction).
    apply C03_rejections. right. now left.
Qed.
Print Assumptions C03_call_sites.

(* Default setting, any call site, any argument: an accepted signature was made with a key trusted for
   the element's own Issuer; only an element WITHOUT Issuer is judged under the fallback name. *)
Theorem C03_accepted_under_own_issuer :
  forall c s enclosing direct own embedded signer,
    v_only_md c = true ->
    check_at c s enclosing direct own embedded signer = Ok tt ->
    exists i, trusted_for (v_md c) i signer /\
      (issuer_text own = Some i \/
       (issuer_text own = None /\ issuer_text (site_arg s enclosing direct) = Some i)).
Proof.
  intros c s enclosing direct own embedded signer Ho H. unfold check_at in H.
  destruct (check_elem_trusted _ _ _ _ _ Ho H) as (i & Hi & T). exists i. split; [exact T|].
  now apply select_issuer_cases.
Qed.
Print Assumptions C03_accepted_under_own_issuer.

(* A whole response document (Response, plain assertions, assertions inside EncryptedAssertion, assertions
   inside EncryptedAssertion of their Advice), default setting: if the SP's signature checks all pass then
   every signed element — by induction over the assertion lists — was signed with a key trusted for ITS OWN
   issuer: never for the Issuer of the Response around it or of a sibling.  An advice assertion without
   Issuer is the only element judged under another element's name (the enclosing assertion's). *)
Theorem C03_document :
  forall c d, v_only_md (dc_v (pc_d c)) = true -> parse_doc c d = Ok tt ->
    (forall emb k, se_sig (d_resp d) = Some (emb, k) ->
       exists i, issuer_text (se_issuer (d_resp d)) = Some i /\ trusted_for (v_md (dc_v (pc_d c))) i k) /\
    (forall a emb k, In a (d_plain d ++ d_enc d) -> se_sig (as_elem a) = Some (emb, k) ->
       exists i, issuer_text (se_issuer (as_elem a)) = Some i /\ trusted_for (v_md (dc_v (pc_d c))) i k) /\
    (forall a x emb k, In a (d_plain d ++ d_enc d) -> In x (as_advice a) -> se_sig x = Some (emb, k) ->
       exists i, trusted_for (v_md (dc_v (pc_d c))) i k /\
         (issuer_text (se_issuer x) = Some i \/
          (issuer_text (se_issuer x) = None /\ issuer_text (se_issuer (as_elem a)) = Some i))).
Proof.
  intros c d Ho H. apply parse_doc_sound, verify_doc_ok in H as (HR & HA & HV). split; [|split].
  - intros emb k Hs. rewrite Hs in HR.
    destruct (check_selem_trusted _ _ _ _ _ Ho Hs HR) as (i & Hi & T). rewrite select_issuer_noarg in Hi. now exists i.
  - intros a emb k Ha Hs. specialize (HA a Ha).
    destruct (check_selem_trusted _ _ _ _ _ Ho Hs HA) as (i & Hi & T). rewrite select_issuer_noarg in Hi. now exists i.
  - intros a x emb k Ha Hx Hs. assert (Ha' : In a (d_enc d ++ d_plain d)).
    { apply in_or_app. apply in_app_or in Ha as [Ha|Ha]; [now right|now left]. }
    specialize (HV a x Ha' Hx). destruct (check_selem_trusted _ _ _ _ _ Ho Hs HV) as (i & Hi & T).
    exists i. split; [exact T|]. now apply select_issuer_cases.
Qed.
Print Assumptions C03_document.

(* Setting off, any call site: the embedded certificates are consulted iff metadata yields no signing
   certificate for the SELECTED issuer — the element's own whenever it has one. *)
Theorem C03_embedded_fallback_selected_issuer :
  forall c arg own embedded, v_only_md c = false ->
    let from_md : list N := if v_mp c then match md_certs (v_md c) (select_issuer own arg) SIGNING with Some l => l | None => [] end else [] in
    elem_candidates c arg own embedded =
      match from_md with
      | [] => match embedded with [] => Err (s2l "MissingKey") | _ => Ok embedded end
      | _ => Ok from_md
      end.
Proof. intros c arg own embedded Ho. unfold elem_candidates. rewrite Ho. apply C03_embedded_only_as_fallback. Qed.
Print Assumptions C03_embedded_fallback_selected_issuer.

(* Histories: any sequence of operations on any set of long-lived clients, from any process state (by
   induction over the sequence): the n-th outcome is the outcome of that operation on that client alone —
   nothing verified earlier, for another issuer or on another client, changes the certificates used later. *)
Theorem C03_history_independent :
  forall cs st ops, snd (run_ops cs st ops) = map (check_op cs) ops.
Proof. intros cs st ops. apply run_ops_results. Qed.
Print Assumptions C03_history_independent.

Theorem C03_history_accepts_only_own_issuer :
  forall cs st ops n cl arg e emb k c,
    nth_error ops n = Some (OpElem cl arg e) -> nth_error cs cl = Some c -> v_only_md (dc_v (pc_d c)) = true ->
    se_sig e = Some (emb, k) ->
    nth_error (snd (run_ops cs st ops)) n = Some (Ok tt) ->
    exists i, select_issuer (se_issuer e) arg = Some i /\ trusted_for (v_md (dc_v (pc_d c))) i k.
Proof.
  intros cs st ops n cl arg e emb k c Hop Hc Ho Hs H. rewrite run_ops_results in H.
  rewrite nth_error_map, Hop in H. cbn [option_map] in H. injection H as H.
  unfold check_op in H. cbn [op_client] in H. rewrite Hc in H.
  exact (check_selem_trusted _ _ _ _ _ Ho Hs H).
Qed.
Print Assumptions C03_history_accepts_only_own_issuer.

(* … and a document accepted at any point of any history passed the entry point of ITS client on its own,
   so C03_document applies to it with that client's metadata *)
Theorem C03_history_documents :
  forall cs st ops n cl d c,
    nth_error ops n = Some (OpDoc cl d) -> nth_error cs cl = Some c ->
    nth_error (snd (run_ops cs st ops)) n = Some (Ok tt) ->
    parse_doc c d = Ok tt.
Proof.
  intros cs st ops n cl d c Hop Hc H. rewrite run_ops_results, nth_error_map, Hop in H. cbn [option_map] in H.
  injection H as H. unfold check_op in H. cbn [op_client] in H. now rewrite Hc in H.
Qed.
Print Assumptions C03_history_documents.

(* non-vacuity: the federation above; idpB's key is 2.  An unsigned (or B-signed) Response of B around an
   assertion of A signed with B's key is refused at every place; an advice assertion WITHOUT Issuer falls
   back to the enclosing assertion's; histories over two clients with different metadata for idpA. *)
Definition own (i : str) : issuer_elem := Some (Some i).
Definition cfgD : pcfg := {| pc_d := {| dc_v := {| v_mp := true; v_md := fed; v_only_md := true |}; dc_wrs := false |}; pc_was := false |}.
Definition cfgD2 : pcfg := {| pc_d := {| dc_v := {| v_mp := true; v_md := [(idpA, [[ {| kd_use := Some SIGNING; kd_certs := [2] |} ]])]; v_only_md := true |}; dc_wrs := false |}; pc_was := false |}.
Definition el (i : issuer_elem) (k : N) : selem := {| se_issuer := i; se_sig := Some ([k], k) |}.
Definition unsigned (i : issuer_elem) : selem := {| se_issuer := i; se_sig := None |}.
Definition docAB (resp : selem) (plain enc : list asrt) : doc := {| d_resp := resp; d_plain := plain; d_enc := enc |}.
Example C03_issuer_witness :
  parse_doc cfgD (docAB (unsigned (own idpB)) [] [{| as_elem := el (own idpA) 2; as_advice := [] |}]) = Err (s2l "SignatureError") /\
  parse_doc cfgD (docAB (el (own idpB) 2) [{| as_elem := el (own idpA) 2; as_advice := [] |}] []) = Err (s2l "SignatureError") /\
  parse_doc cfgD (docAB (el (own idpB) 2) [] [{| as_elem := el (own idpA) 1; as_advice := [] |}]) = Ok tt /\
  parse_doc cfgD (docAB (unsigned (own idpB)) [] [{| as_elem := unsigned (own idpB); as_advice := [el (own idpA) 2] |}]) = Err (s2l "SignatureError") /\
  parse_doc cfgD (docAB (unsigned (own idpB)) [{| as_elem := unsigned (own idpB); as_advice := [el None 2] |}] []) = Ok tt /\
  parse_doc cfgD (docAB (unsigned (own idpB)) [] [{| as_elem := el None 2; as_advice := [] |}]) = Err (s2l "MissingKey") /\
  check_at (dc_v (pc_d cfgD)) SiteDirect None (own idpB) (own idpA) [2] 2 = Err (s2l "SignatureError") /\
  check_at (dc_v (pc_d cfgD)) SiteDirect None (own idpB) (Some None) [2] 2 = Ok tt /\
  select_issuer (Some (Some (s2l "  https://idp.example.org/idp "))) (own idpB) = Some idpA /\
  snd (run_ops [cfgD; cfgD2] [] [OpElem 0 None (el (own idpA) 1); OpElem 1 None (el (own idpA) 1); OpElem 1 None (el (own idpA) 2);
                                 OpElem 0 None (el (own idpA) 2); OpElem 0 None (el (own idpB) 2); OpElem 0 None (el (own idpB) 1)])
    = [Ok tt; Err (s2l "SignatureError"); Ok tt; Err (s2l "SignatureError"); Ok tt; Err (s2l "SignatureError")].
Proof. vm_compute. repeat split; reflexivity. Qed.
Print Assumptions C03_issuer_witness.

(* ======================================================================================
   GLUE to C16 (Proofs/Glue_certs.v, docs/Glue.md).  The metadata store above is Model/CertSelect.v's; the model
   that C16 ties to MetadataStore / MetaData.certs is Model/MdStore.v (certificate texts, role descriptors with a
   type, several sources, loading with expiry and signature verification).  [abs_store num st] is the C16 store st
   read as a CertSelect store (one key-descriptor group per descriptor type in the order certs() visits them,
   texts numbered by num after repack_cert); Glue_md_certs_agree (Props/Glue.v) shows md_certs and store_certs
   return the same list through it.  For the store an SP loaded from its configured sources: an accepted
   signature's key - and every key [trusted_for] the issuer, which is what C03_document, C03_accepted_under_own_issuer
   and the history theorems conclude - is a certificate of a signing / use-less KeyDescriptor in a role descriptor
   of an UNEXPIRED EntityDescriptor carrying the issuer's entity id, in the document of a source that load()
   registered (admissible: signed + verification certificate configured => remote and verified). *)
From PV Require Model.MdStore Proofs.Glue_certs.
Theorem C03_accepted_key_is_declared_in_loaded_metadata :
  forall num now srcs,
    let st := MdStore.load_all now [] srcs in
    (forall mp issuer embedded signer,
       check_signature mp (Glue_certs.abs_store num st) issuer true embedded signer = Ok tt ->
       mp = true /\ exists i, issuer = Some i /\ Glue_certs.declared_in_documents num now srcs MdStore.U_SIGNING i signer) /\
    (forall i k, trusted_for (Glue_certs.abs_store num st) i k ->
       Glue_certs.declared_in_documents num now srcs MdStore.U_SIGNING i k).
Proof.
  intros num now srcs st. split.
  - intros mp issuer embedded signer. apply Glue_certs.accepted_key_in_loaded_documents.
  - intros i k. apply Glue_certs.trusted_for_in_loaded_documents.
Qed.
Print Assumptions C03_accepted_key_is_declared_in_loaded_metadata.

(* ================================================================ certificate validity dates
   Model/CertValidity.v: a certificate is (key, validity window); the window is an attribute that the
   certificate selection carries along and never reads.  `Metadata holds a signing key for the issuer`
   is a statement about the DECLARED list. *)

(* the model with dates gives, on every input, the verdict of the model without them on the federation
   with the dates erased: every theorem above holds for federations with expired / not yet valid
   certificates (and the correspondence units that compare with Model/IssuerSel.v on erased federations
   compare with this model) *)
Theorem C03_validity_erased :
  forall mp m issuer only_md embedded signer,
    vcheck_signature mp m issuer only_md embedded signer =
    check_signature mp (erase_md m) issuer only_md (map c_key embedded) signer.
Proof. exact vcheck_erase. Qed.
Print Assumptions C03_validity_erased.

(* change the window of every certificate - metadata by f, KeyInfo by g - at will: same verdict, same fallback decision *)
Theorem C03_validity_ignored :
  forall f g mp m issuer only_md embedded signer,
    vcheck_signature mp (redate_md f m) issuer only_md (map (redate_cert g) embedded) signer =
    vcheck_signature mp m issuer only_md embedded signer /\
    consults_embedded mp (redate_md f m) issuer only_md = consults_embedded mp m issuer only_md.
Proof. intros. split; [apply vcheck_redate|apply consults_embedded_redate]. Qed.
Print Assumptions C03_validity_ignored.

(* the fallback decision depends only on the setting and on the declared list being empty *)
Theorem C03_fallback_declared_list_only :
  forall mp m issuer only_md,
    consults_embedded mp m issuer only_md = true <-> only_md = false /\ declared_signing mp m issuer = [].
Proof. exact consults_embedded_iff. Qed.
Print Assumptions C03_fallback_declared_list_only.

(* ANY certificate c - valid, expired, not yet valid - in a signing / use-less key descriptor of the issuer's entity:
   KeyInfo is not consulted under either setting; the verdict is the one with the setting on and no KeyInfo *)
Theorem C03_declared_certificate_blocks_fallback :
  forall m i e r kd c only_md embedded signer,
    vfind_entity m i = Some e -> In r e -> In kd r -> vuse_matches SIGNING kd = true -> In c (vkd_certs kd) ->
    consults_embedded true m (Some i) only_md = false /\
    vcheck_signature true m (Some i) only_md embedded signer = vcheck_signature true m (Some i) true [] signer.
Proof. exact declared_blocks_fallback. Qed.
Print Assumptions C03_declared_certificate_blocks_fallback.

(* C03_only_issuer_keys with the dates visible: default setting, success => the signer's key is held by a certificate
   (of whatever window) of a signing / use-less key descriptor of the ISSUER's entity *)
Theorem C03_validity_only_issuer_keys :
  forall mp m issuer embedded signer,
    vcheck_signature mp m issuer true embedded signer = Ok tt ->
    mp = true /\ exists i e r kd c, issuer = Some i /\ vfind_entity m i = Some e /\ In r e /\ In kd r /\
      (vkd_use kd = Some SIGNING \/ vkd_use kd = None) /\ In c (vkd_certs kd) /\ c_key c = signer.
Proof.
  intros mp m issuer embedded signer H. destruct (vcheck_accepts_declared _ _ _ _ _ H) as (c & Hd & Hk).
  unfold declared_signing in Hd. destruct mp; [|destruct Hd]. split; [reflexivity|].
  destruct (vmd_certs m issuer SIGNING) as [l|] eqn:Mc; [|destruct Hd].
  destruct (vmd_certs_spec _ _ _ _ Mc) as (i & e & Hi & F & S). apply S in Hd as (r & kd & Hr & Hkd & Hu & Hc).
  exists i, e, r, kd, c. repeat split; auto. unfold vuse_matches in Hu. destruct (vkd_use kd) as [u|]; [left|now right].
  apply str_eqb_eq in Hu. now subst.
Qed.
Print Assumptions C03_validity_only_issuer_keys.

(* conversely: the key of a declared certificate is accepted under both settings, whatever the window of that certificate *)
Theorem C03_declared_key_accepted_whatever_window :
  forall mp m issuer only_md embedded c,
    In c (declared_signing mp m issuer) -> vcheck_signature mp m issuer only_md embedded (c_key c) = Ok tt.
Proof. exact vcheck_declared_accepted. Qed.
Print Assumptions C03_declared_key_accepted_whatever_window.

(* non-vacuity: idp1 declares key 1 in an EXPIRED certificate.  Key 9 signs and embeds its own valid certificate:
   refused under both settings; key 1 accepted; without any key descriptor the setting-off fallback trusts key 9 *)
Definition fed_expired : vmdstore :=
  [(s2l "idp1", [[{| vkd_use := Some SIGNING; vkd_certs := [{| c_key := 1; c_valid := Expired |}] |}]])].
Theorem C03_validity_witness :
  vcheck_signature true fed_expired (Some (s2l "idp1")) false [{| c_key := 9; c_valid := Valid |}] 9 = Err (s2l "SignatureError") /\
  vcheck_signature true fed_expired (Some (s2l "idp1")) true [{| c_key := 9; c_valid := Valid |}] 9 = Err (s2l "SignatureError") /\
  vcheck_signature true fed_expired (Some (s2l "idp1")) false [{| c_key := 9; c_valid := Valid |}] 1 = Ok tt /\
  vcheck_signature true [(s2l "idp1", [[]])] (Some (s2l "idp1")) false [{| c_key := 9; c_valid := Valid |}] 9 = Ok tt.
Proof. vm_compute. repeat split. Qed.
Print Assumptions C03_validity_witness.

(* ======================================================================================
   WHERE the issuer's descriptor comes from: metadata sources other than local files
   (Model/CertSource.v): static sources (inline / remote) and the lazy MDQ / MDX source, which
   asks a server per entity id and caches what it got.  [server] is ANY function from the asked
   id to an answer (not found | unparsable | descriptors, each with its own entityID).
   [holds ss d]: one of the sources holds descriptor d; [served_now srv i d]: d is a member of
   the answer of srv to the question i; [declares_signing d k]: k is a certificate of a signing
   or use-less key descriptor of d. *)

(* one check, any store, any answer function, default setting: accepted => the signer's key is
   declared for signing by a descriptor whose entityID IS the issuer, which the store held or the
   server has just sent - never by whatever else the source holds or was sent *)
Theorem C03_source_named_like_issuer :
  forall srv ss issuer embedded signer ss',
    src_check srv ss issuer true embedded signer = (Ok tt, ss') ->
    exists d, d_id d = issuer /\ (holds ss d \/ served_now srv issuer d) /\ declares_signing d signer.
Proof.
  intros srv ss issuer embedded signer ss' H.
  destruct (src_check_sound _ _ _ _ _ _ _ H) as [Hd|[Ho _]]; [exact Hd|discriminate].
Qed.
Print Assumptions C03_source_named_like_issuer.

(* setting off: the only other way in is the embedded certificate *)
Theorem C03_source_setting_off :
  forall srv ss issuer embedded signer ss',
    src_check srv ss issuer false embedded signer = (Ok tt, ss') ->
    (exists d, d_id d = issuer /\ (holds ss d \/ served_now srv issuer d) /\ declares_signing d signer) \/ In signer embedded.
Proof.
  intros srv ss issuer embedded signer ss' H.
  destruct (src_check_sound _ _ _ _ _ _ _ H) as [Hd|[_ He]]; [now left|now right].
Qed.
Print Assumptions C03_source_setting_off.

(* ... and a descriptor named like the issuer that declares a signing certificate closes that way: the verdict is
   the one of the default setting *)
Theorem C03_source_named_descriptor_blocks_fallback :
  forall srv ss issuer embedded signer d ss' c0 l,
    store_lookup srv ss issuer = (Found d, ss') ->
    md_certs [(issuer, d_ent d)] (Some issuer) SIGNING = Some (c0 :: l) ->
    fst (src_check srv ss issuer false embedded signer) = fst (src_check srv ss issuer true [] signer).
Proof.
  intros srv ss issuer embedded signer d ss' c0 l L M. unfold src_check. rewrite L. cbn [fst verdict_of].
  rewrite !check_signature_spec. unfold candidate_certs. rewrite M. reflexivity.
Qed.
Print Assumptions C03_source_named_descriptor_blocks_fallback.

(* a lookup never hands out a descriptor of another name, and everything a store comes to hold it held before or was sent *)
Theorem C03_source_lookup :
  forall srv ss asked r ss',
    store_lookup srv ss asked = (r, ss') ->
    (forall d, r = Found d -> d_id d = asked /\ holds ss' d) /\
    (forall x, holds ss' x -> holds ss x \/ served_now srv asked x).
Proof.
  intros srv ss asked r ss' H. split.
  - intros d ->. exact (store_lookup_found _ _ _ _ _ H).
  - exact (store_lookup_holds _ _ _ _ _ H).
Qed.
Print Assumptions C03_source_lookup.

(* histories on one long-lived client (induction over the operation sequence; every step with its own answer
   function - the server may change its mind, replay, mix up): the n-th check is accepted only under a key declared
   by a descriptor NAMED like the n-th issuer that the store held at the start or that was sent in one of the
   answers up to then (first lookup, second lookup, cached or not) *)
Theorem C03_source_history :
  forall qs ss n q,
    nth_error qs n = Some q -> nth_error (run_steps true ss qs) n = Some (Ok tt) ->
    exists d, d_id d = q_issuer q /\ (holds ss d \/ served_in (firstn (S n) qs) d) /\ declares_signing d (q_signer q).
Proof.
  intros qs ss n q Hq Hr. destruct (run_steps_sound true qs ss n q Hq Hr) as [Hd|[Ho _]]; [exact Hd|discriminate].
Qed.
Print Assumptions C03_source_history.

Theorem C03_source_history_setting_off :
  forall qs ss n q,
    nth_error qs n = Some q -> nth_error (run_steps false ss qs) n = Some (Ok tt) ->
    (exists d, d_id d = q_issuer q /\ (holds ss d \/ served_in (firstn (S n) qs) d) /\ declares_signing d (q_signer q)) \/
    In (q_signer q) (q_embedded q).
Proof.
  intros qs ss n q Hq Hr. destruct (run_steps_sound false qs ss n q Hq Hr) as [Hd|[_ He]]; [now left|now right].
Qed.
Print Assumptions C03_source_history_setting_off.

(* A lazy source that files the answer under the ASKED id without comparing it with the descriptor's own entityID
   (lazy_lookup_unchecked) does not have the property: the server answers every question with idpA's descriptor
   (a fallback answer); a signature for issuer idpB made with idpA's key 1 is accepted, although nothing named idpB
   was ever sent.  The code as it is refuses (MissingKey). *)
Definition descA : descriptor := {| d_id := idpA; d_ent := [[ {| kd_use := Some SIGNING; kd_certs := [1] |} ]] |}.
Definition descB : descriptor := {| d_id := idpB; d_ent := [[ {| kd_use := Some SIGNING; kd_certs := [2] |} ]] |}.
Definition fallback_server : server := fun _ => Served [descA].
Theorem C03_source_unchecked_refuted :
  exists srv issuer signer,
    src_check_unchecked srv [] issuer true [] signer = Ok tt /\
    (forall d, served_now srv issuer d -> d_id d <> issuer) /\
    fst (src_check srv [Lazy []] issuer true [] signer) = Err (s2l "MissingKey").
Proof.
  exists fallback_server, idpB, 1. split; [reflexivity|]. split; [|reflexivity].
  intros d (ds & Hs & Hd). injection Hs as <-. destruct Hd as [<-|[]]. vm_compute. discriminate.
Qed.
Print Assumptions C03_source_unchecked_refuted.

(* non-vacuity: own answer, another entity's answer, aggregate, first lookup / second lookup, a static source after the lazy one *)
Example C03_source_witness :
  fst (src_check (fun _ => Served [descB]) [Lazy []] idpB true [] 2) = Ok tt /\
  fst (src_check fallback_server [Lazy []] idpB true [1] 1) = Err (s2l "MissingKey") /\
  fst (src_check fallback_server [Lazy []] idpB false [1] 1) = Ok tt /\
  fst (src_check (fun _ => Served [descA; descB]) [Lazy []] idpB true [] 1) = Err (s2l "SignatureError") /\
  fst (src_check (fun _ => Served [descA; descB]) [Lazy []] idpB false [1] 1) = Err (s2l "SignatureError") /\
  fst (src_check fallback_server [Lazy []; Static [descB]] idpB true [] 2) = Ok tt /\
  fst (src_check (fun _ => Unparsable) [Lazy []] idpB false [2] 2) = Err (s2l "ParseError") /\
  run_steps true [Lazy []] [ {| q_srv := fallback_server; q_issuer := idpB; q_embedded := []; q_signer := 1 |};
                             {| q_srv := fun _ => NotFound; q_issuer := idpA; q_embedded := []; q_signer := 1 |};
                             {| q_srv := fun _ => Served [descB]; q_issuer := idpB; q_embedded := []; q_signer := 1 |};
                             {| q_srv := fallback_server; q_issuer := idpB; q_embedded := []; q_signer := 2 |} ]
    = [Err (s2l "MissingKey"); Ok tt; Err (s2l "SignatureError"); Ok tt].
Proof. vm_compute. repeat split; reflexivity. Qed.
Print Assumptions C03_source_witness.
