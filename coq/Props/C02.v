(* Props/C02.v — SP signature requirements decide acceptance exactly as documented.
   present / verifies are pysaml2's own view: item.signature after parsing, and the
   outcome of SecurityContext._check_signature for that element (C01/C03/C20 say
   what a positive outcome means). *)
From PV Require Import Lib.Base Model.Status Model.Response Model.Client Proofs.Response_lemmas Proofs.Rel_lemmas Proofs.C02_lemmas Proofs.Client_lemmas Model.AdviceSig Proofs.AdviceSig_lemmas.
Open Scope Z_scope.

(* For EVERY configuration, clock, content and signature state:
   accepted  <->  all non-signature checks pass  /\  every present signature verifies
                  /\ (want_response_signed -> response signed)
                  /\ (want_assertions_signed -> every assertion read is signed)
                  /\ (want_assertions_or_response_signed -> response signed \/ every assertion signed) *)
Theorem C02_accept_iff :
  forall c r, is_ok (parse_response c r) = otherwise_valid c r && documented c r.
Proof. exact accept_iff. Qed.
Print Assumptions C02_accept_iff.

(* a signature that is present but invalid is never ignored — whatever the three options *)
Theorem C02_invalid_never_ignored :
  forall c r, (sigok (r_sig r) = false \/ exists a, In a (processed r) /\ sigok (a_sig a) = false) ->
    is_ok (parse_response c r) = false.
Proof.
  intros c r H. rewrite accept_iff. unfold documented. destruct H as [H|(a & Ha & Hs)].
  - rewrite H. cbn. now rewrite andb_false_r.
  - assert (all_sigok r = false) as ->.
    { unfold all_sigok. destruct (forallb (fun a0 => sigok (a_sig a0)) (processed r)) eqn:F; [|reflexivity].
      rewrite forallb_forall in F. rewrite (F a Ha) in Hs. discriminate. }
    rewrite andb_false_r. cbn. now rewrite andb_false_r.
Qed.
Print Assumptions C02_invalid_never_ignored.

(* a missing required signature is never compensated by another one *)
Theorem C02_no_compensation :
  forall c r,
    (wrs c = true /\ present (r_sig r) = false) \/ (was c = true /\ all_present r = false) ->
    is_ok (parse_response c r) = false.
Proof.
  intros c r H. rewrite accept_iff. unfold documented. destruct H as [[-> ->]|[-> ->]]; cbn [implb];
    rewrite ?andb_false_r; reflexivity.
Qed.
Print Assumptions C02_no_compensation.

(* the documented table, evaluated on a concrete otherwise-valid response (non-vacuity):
   8 settings x {none, response, assertion, both} signed x {plain, encrypted} x {valid, response sig bad, assertion sig bad} *)
Definition me := s2l "https://sp.example.org/sp".
Definition acs := s2l "https://sp.example.org/acs/post".
Definition cfgS (b1 b2 b3 : bool) := {| entity_id := me; return_addrs := Some [acs]; wrs := b1; was := b2; waors := b3;
  allow_unsolicited := false; dest_regex_set := false; dest_regex_match := false; slack := 0; now := 1000000;
  asynch := true; outstanding := [(s2l "req-1", s2l "/home")]; conv_info := None; test_mode := false |}.
Definition asrtS (sg : option (result unit)) := {| a_id := 1%N; a_sig := sg; a_authn := [None];
  a_conditions := Some {| k_empty := false; k_nb := Some 999700; k_nooa := Some 1000300; k_audiences := [[me]]; k_unknown_condition := false |};
  a_has_subject := true;
  a_confirmations := [{| c_method := Bearer; c_data := Some {| d_address := None; d_address_valid := true; d_nooa := Some 1000300;
                          d_nb := None; d_irt := Some (s2l "req-1"); d_recipient := Some acs |} |}];
  a_name_id := Some (s2l "alice") |}.
Definition respS (rsg asg : option (result unit)) (enc : bool) := {| r_sig := rsg; r_valid_instance := true; r_irt := Some (s2l "req-1");
  r_version := Some V20; r_ver_lt2 := Some false; r_destination := Some acs; r_issue_instant := 1000000;
  r_status := Some {| st_code := Some (Code (Some Gen.StatusTable.STATUS_SUCCESS) None); st_msg := false |};
  r_assertions := if enc then [] else [asrtS asg];
  r_encrypted := if enc then [{| e_opens := true; e_inner := asrtS asg |}] else [] |}.
Definition sigstates : list (option (result unit)) := [None; Some (Ok tt); Some (Err SignatureError)].
Definition bools := [false; true].
Definition table_ok : bool :=
  forallb (fun b1 => forallb (fun b2 => forallb (fun b3 => forallb (fun rsg => forallb (fun asg => forallb (fun enc =>
    let c := cfgS b1 b2 b3 in let r := respS rsg asg enc in
    otherwise_valid c r &&
    Bool.eqb (is_ok (parse_response c r))
             (sigok rsg && sigok asg && implb b1 (present rsg) && implb b2 (present asg) && implb b3 (present rsg || present asg)))
    bools) sigstates) sigstates) bools) bools) bools.
Example C02_table : table_ok = true.
Proof. vm_compute. reflexivity. Qed.
Print Assumptions C02_table.

(* ================= where the options come from: every configuration class, every section ================= *)
(* the client reads the three options from the sp section of the dictionary — explicit value, else the
   default (want_response_signed: true, the others: false) — whatever the configuration class
   (SPConfig: def_context sp; the generic Config: def_context empty; ...) and whatever other roles
   the same configuration serves *)
Theorem C02_options_from_sp_section :
  forall def_context service,
    client_opts def_context service =
    {| o_wrs := opt_value (find_section (E "sp") service) WRS true;
       o_was := opt_value (find_section (E "sp") service) WAS false;
       o_waors := opt_value (find_section (E "sp") service) WAORS false |}.
Proof. exact client_opts_spec. Qed.
Print Assumptions C02_options_from_sp_section.

Theorem C02_config_class_irrelevant :
  forall dc dc' service, client_opts dc service = client_opts dc' service.
Proof. exact config_class_irrelevant. Qed.
Print Assumptions C02_config_class_irrelevant.

Theorem C02_other_sections_irrelevant :
  forall dc service service',
    find_section (E "sp") service = find_section (E "sp") service' -> client_opts dc service = client_opts dc service'.
Proof. exact other_sections_irrelevant. Qed.
Print Assumptions C02_other_sections_irrelevant.

(* what opt_value means: absent (no section / not in the section / None) -> default; a boolean or the strings true / false -> that value *)
Theorem C02_option_meaning :
  forall name d,
    opt_value None name d = d /\
    (forall s, assigned name s = None -> opt_value (Some s) name d = d) /\
    (forall s, assigned name s = Some CNone -> opt_value (Some s) name d = d) /\
    (forall s b, assigned name s = Some (CBool b) -> opt_value (Some s) name d = b) /\
    (forall s, assigned name s = Some (CStr (E "true")) -> opt_value (Some s) name d = true) /\
    (forall s, assigned name s = Some (CStr (E "false")) -> opt_value (Some s) name d = false).
Proof.
  intros name d. repeat split; intros; unfold opt_value; try rewrite H; try reflexivity.
Qed.
Print Assumptions C02_option_meaning.

Definition documented_opts (o : opts) (r : response) : bool :=
  sigok (r_sig r) && all_sigok r &&
  implb (o_wrs o) (present (r_sig r)) && implb (o_was o) (all_present r) &&
  implb (o_waors o) (present (r_sig r) || all_present r).

(* the documented iff for a client built from ANY configuration class and dictionary *)
Theorem C02_client_accept_iff :
  forall dc service c r,
    let o := client_opts dc service in
    is_ok (parse_on (new_client dc service) c r) = otherwise_valid (with_opts o c) r && documented_opts o r.
Proof. intros dc service c r o. unfold parse_on. cbn [new_client cl_opts]. fold o. now rewrite accept_iff. Qed.
Print Assumptions C02_client_accept_iff.

(* ================= histories on one long-lived client / one shared SecurityContext ================= *)
(* the verdict of a step depends only on that step's message (and call context) and on the options in force
   (the last SetOpts before it, else the configured ones) — for EVERY prefix of earlier operations, every
   client state (cached subjects, identifiers and signature values seen before) and every continuation *)
Theorem C02_history :
  forall cl pre w c r post,
    nth_error (run_ops cl (pre ++ Parse w c r :: post)) (parses pre) =
    Some (parse_response (with_opts (opts_after (cl_opts cl) pre) c) r).
Proof. exact history_step. Qed.
Print Assumptions C02_history.

Theorem C02_history_state_irrelevant :
  forall cl cl' ops, cl_opts cl = cl_opts cl' -> run_ops cl ops = run_ops cl' ops.
Proof. exact history_state_irrelevant. Qed.
Print Assumptions C02_history_state_irrelevant.

(* ... hence the documented iff holds at every step of every history *)
Theorem C02_history_accept_iff :
  forall cl pre w c r post,
    let o := opts_after (cl_opts cl) pre in
    exists v, nth_error (run_ops cl (pre ++ Parse w c r :: post)) (parses pre) = Some v /\
              is_ok v = otherwise_valid (with_opts o c) r && documented_opts o r.
Proof. intros cl pre w c r post o. eexists. split; [apply history_step|]. fold o. now rewrite accept_iff. Qed.
Print Assumptions C02_history_accept_iff.

(* a message with a present-but-invalid signature is refused at every point of every history — in particular
   right after a genuine message with the same identifiers and the same signature values was accepted *)
Theorem C02_history_invalid_never_accepted :
  forall cl pre w c r post,
    (sigok (r_sig r) = false \/ exists a, In a (processed r) /\ sigok (a_sig a) = false) ->
    exists v, nth_error (run_ops cl (pre ++ Parse w c r :: post)) (parses pre) = Some v /\ is_ok v = false.
Proof. intros cl pre w c r post H. eexists. split; [apply history_step|]. now apply C02_invalid_never_ignored. Qed.
Print Assumptions C02_history_invalid_never_accepted.

Theorem C02_history_no_compensation :
  forall cl pre w c r post,
    let o := opts_after (cl_opts cl) pre in
    (o_wrs o = true /\ present (r_sig r) = false) \/ (o_was o = true /\ all_present r = false) ->
    exists v, nth_error (run_ops cl (pre ++ Parse w c r :: post)) (parses pre) = Some v /\ is_ok v = false.
Proof. intros cl pre w c r post o H. eexists. split; [apply history_step|]. apply C02_no_compensation. exact H. Qed.
Print Assumptions C02_history_no_compensation.

(* non-vacuity: both configuration classes x each option absent / false / true (27) x {none, response, assertion, both}
   signed x {plain, encrypted}: [genuine; tampered copy, same identifiers and signature values; genuine;
   options flipped; the same three again] evaluates to [rule; refused-if-signed; rule; ...] *)
Definition raws : list (option cv) := [None; Some (CBool false); Some (CBool true)].
Definition secS (x1 x2 x3 : option cv) : section :=
  (match x1 with Some v => [(WRS, v)] | None => [] end) ++ (match x2 with Some v => [(WAS, v)] | None => [] end) ++
  (match x3 with Some v => [(WAORS, v)] | None => [] end).
Definition val_of (x : option cv) (d : bool) : bool := match x with Some (CBool b) => b | _ => d end.
Definition tamper (s : option (result unit)) : option (result unit) :=
  match s with None => None | Some _ => Some (Err SignatureError) end.
Definition rule (b1 b2 b3 : bool) (rsg asg : option (result unit)) : bool :=
  sigok rsg && sigok asg && implb b1 (present rsg) && implb b2 (present asg) && implb b3 (present rsg || present asg).
Definition wireS := {| w_rid := s2l "r-1"; w_sigvals := [11%N; 12%N] |}.
Definition signed_states : list (option (result unit)) := [None; Some (Ok tt)].
Definition history_table_ok : bool :=
  forallb (fun dc => forallb (fun x1 => forallb (fun x2 => forallb (fun x3 => forallb (fun rsg => forallb (fun asg => forallb (fun enc =>
    let service := [(E "idp", [(WRS, CBool (negb (val_of x1 true)))]); (E "sp", secS x1 x2 x3)] in
    let b1 := val_of x1 true in let b2 := val_of x2 false in let b3 := val_of x3 false in
    let c := cfgS false false false in
    let g := respS rsg asg enc in let t := respS (tamper rsg) (tamper asg) enc in
    let ops := [Parse wireS c g; Parse wireS c t; Parse wireS c g;
                SetOpts {| o_wrs := negb b1; o_was := negb b2; o_waors := negb b3 |};
                Parse wireS c g; Parse wireS c t; Parse wireS c g] in
    let want := [rule b1 b2 b3 rsg asg; rule b1 b2 b3 (tamper rsg) (tamper asg); rule b1 b2 b3 rsg asg;
                 rule (negb b1) (negb b2) (negb b3) rsg asg; rule (negb b1) (negb b2) (negb b3) (tamper rsg) (tamper asg);
                 rule (negb b1) (negb b2) (negb b3) rsg asg] in
    (fix eqbl (l1 l2 : list bool) := match l1, l2 with [], [] => true | x :: l1', y :: l2' => Bool.eqb x y && eqbl l1' l2' | _, _ => false end)
      (map is_ok (run_ops (new_client dc service) ops)) want)
    bools) signed_states) signed_states) raws) raws) raws) [E "sp"; E ""; E "idp"].
Example C02_history_table : history_table_ok = true.
Proof. vm_compute. reflexivity. Qed.
Print Assumptions C02_history_table.

(* ================= encrypted advice: an assertion whose <Advice> holds EncryptedAssertion elements ================= *)
(* The run on a document tree is Model.Encrypt.parse_response_t (the model of AuthnResponse.parse_assertion with both
   decrypt loops and the advice pass decrypt_assertions(advice.encrypted_assertion, decr_text, issuer), shared with
   C17), for every tool policy, key set, fault schedule and tree.  advice_read t2 = the assertions found inside the
   EncryptedAssertions of the Advice of every assertion in hand after decryption; sig_bad = present and not verifying. *)

(* at the assertion stage, whatever is required (req), in whatever state (first attempt or retry): the stage
   succeeds only if the text was decrypted and NO advice assertion carries a signature that does not verify *)
Theorem C02_advice_stage_invalid_never_ignored :
  forall tc c irt req s root again fs s',
    Encrypt.so_res (Encrypt.parse_t tc c irt req s root again fs) = Ok s' -> Encrypt.find_encrypt_data root = true ->
    exists t2, decrypted tc root fs = Some t2 /\ Forall (fun v => sig_bad v = false) (advice_read t2).
Proof. exact parse_t_advice. Qed.
Print Assumptions C02_advice_stage_invalid_never_ignored.

Theorem C02_advice_stage_bad_refused :
  forall tc c irt req s root again fs t2,
    Encrypt.find_encrypt_data root = true -> decrypted tc root fs = Some t2 ->
    Exists (fun v => sig_bad v = true) (advice_read t2) ->
    exists e, Encrypt.so_res (Encrypt.parse_t tc c irt req s root again fs) = Err e.
Proof. exact parse_t_bad_advice_refused. Qed.
Print Assumptions C02_advice_stage_bad_refused.

(* the whole run (force-require / catch / retry around the stage): an accepted response was accepted by an attempt
   whose document - the response as received, or what the failed first attempt left when want_assertions_signed
   is off - was decrypted completely, every advice signature present verifying.  No option switches this off. *)
Theorem C02_invalid_never_ignored_advice :
  forall tc c r root fs o,
    Encrypt.parse_response_t tc c r root fs = Ok o ->
    exists root' fs', attempt_document tc c r root fs root' fs' /\
      (Encrypt.find_encrypt_data root' = true ->
       exists t2, decrypted tc root' fs' = Some t2 /\ Forall (fun v => sig_bad v = false) (advice_read t2)).
Proof. exact tree_advice_verified. Qed.
Print Assumptions C02_invalid_never_ignored_advice.

(* the documented table on concrete trees (non-vacuity, and the retry paths evaluated): 8 settings x response sig x
   assertion sig x {plain, encrypted} assertion carrying an encrypted advice assertion x advice sig, and the same
   with a second, validly signed, advice EncryptedAssertion before / after it:
   accepted <-> documented rule /\ the advice signature, if present, verifies *)
Definition advS (n : N) (sg : option (result unit)) := {| a_id := n; a_sig := sg; a_authn := []; a_conditions := a_conditions (asrtS None);
  a_has_subject := true; a_confirmations := []; a_name_id := None |}.
Definition advEA (n : N) (sg : option (result unit)) : Encrypt.dtree :=
  Encrypt.DEA [Encrypt.DEnc 1%N (Encrypt.DAsrt (advS n sg) false [] [])].
Definition treeS (asg bsg : option (result unit)) (enc : bool) (shape : nat) : list Encrypt.dtree :=
  let adv := match shape with
             | O => [advEA 2%N bsg]
             | S O => [advEA 2%N bsg; advEA 3%N (Some (Ok tt))]
             | _ => [advEA 3%N (Some (Ok tt)); advEA 2%N bsg]
             end in
  let main := Encrypt.DAsrt (asrtS asg) false adv [] in
  if enc then [Encrypt.DEA [Encrypt.DEnc 1%N main]] else [main].
Definition tcS := {| Encrypt.t_keys := [1%N]; Encrypt.t_pol := Encrypt.PFail; Encrypt.t_fixed := true |}.
Definition advice_table_ok : bool :=
  forallb (fun b1 => forallb (fun b2 => forallb (fun b3 => forallb (fun rsg => forallb (fun asg => forallb (fun bsg => forallb (fun enc =>
    forallb (fun shape =>
      Bool.eqb (is_ok (parse_advice_run tcS (cfgS b1 b2 b3) (respS rsg None false) (treeS asg bsg enc shape)))
               (sigok rsg && sigok asg && sigok bsg && implb b1 (present rsg) && implb b2 (present asg) && implb b3 (present rsg || present asg)))
    [0; 1; 2]%nat) bools) sigstates) sigstates) sigstates) bools) bools) bools.
Example C02_advice_table : advice_table_ok = true.
Proof. vm_compute. reflexivity. Qed.
Print Assumptions C02_advice_table.

(* ---- several calls on ONE client / SecurityContext at the same time (Model/Interleave.v): steps Write / Run / Read of
   the calls interleave arbitrarily over one shared file map.  The harness checks on every run that the scratch files
   of calls that are alive together are pairwise distinct (the hypothesis), and that every tool run saw the text written
   for its own call (the conclusion) under forced interleavings of the real code. *)
From PV Require Import Model.Interleave Proofs.Interleave_lemmas.
Open Scope N_scope.

(* ANY number of callers, ANY interleaving: es is an arbitrary step sequence in which the steps of caller c are the
   steps of its call (uses us) and no other caller writes to a file of that call.  Then every tool run of c sees the text
   of its own call and the library reads the tool's answer to that text — whatever the other callers do. *)
Theorem C02_concurrent_own_document :
  forall tool f es c us,
    only c es = call_events c us ->
    (forall e, In e es -> ev_caller e <> c -> forall p, In p (writes e) -> ~ In p (paths us)) ->
    proj c (exec tool f es) = alone tool c us.
Proof. exact any_calls. Qed.
Print Assumptions C02_concurrent_own_document.

(* two calls with separate files: in EVERY interleaving of their step sequences each call gets the observations —
   hence the verdict — of its own document (induction over the merge) *)
Theorem C02_concurrent_two_calls :
  forall tool f a b ua ub es,
    a <> b -> disjoint (paths ua) (paths ub) -> merge (call_events a ua) (call_events b ub) es ->
    proj a (exec tool f es) = alone tool a ua /\ proj b (exec tool f es) = alone tool b ub.
Proof. exact two_calls. Qed.
Print Assumptions C02_concurrent_two_calls.

Theorem C02_concurrent_two_calls_verdict :
  forall ok tool f a b ua ub es,
    a <> b -> disjoint (paths ua) (paths ub) -> merge (call_events a ua) (call_events b ub) es ->
    call_verdict ok (proj a (exec tool f es)) = call_verdict ok (alone tool a ua) /\
    call_verdict ok (proj b (exec tool f es)) = call_verdict ok (alone tool b ub).
Proof.
  intros ok tool f a b ua ub es Hab Hd Hm. destruct (two_calls tool f a b ua ub es Hab Hd Hm) as [-> ->]. now split.
Qed.
Print Assumptions C02_concurrent_two_calls_verdict.

(* three calls: the third interleaved with any interleaving of the first two *)
Theorem C02_concurrent_three_calls :
  forall tool f a b c ua ub uc es1 es,
    a <> b -> a <> c -> b <> c ->
    disjoint (paths ua) (paths ub) -> disjoint (paths ua) (paths uc) -> disjoint (paths ub) (paths uc) ->
    merge (call_events a ua) (call_events b ub) es1 -> merge es1 (call_events c uc) es ->
    proj a (exec tool f es) = alone tool a ua /\ proj b (exec tool f es) = alone tool b ub /\
    proj c (exec tool f es) = alone tool c uc.
Proof. exact three_calls. Qed.
Print Assumptions C02_concurrent_three_calls.

(* with ONE shared input path the statement is false: an interleaving exists in which the call with the refused text
   (verdict alone: false) is accepted, because its tool run saw the other call's text *)
Theorem C02_concurrent_shared_path_refuted :
  merge (call_events 0 shared_a) (call_events 1 shared_b) shared_es /\
  call_verdict ok_only_2 (alone tool10 0 shared_a) = false /\
  call_verdict ok_only_2 (proj 0 (exec tool10 [] shared_es)) = true /\
  proj 0 (exec tool10 [] shared_es) = map (fun o => (0, snd o)) (alone tool10 1 shared_b).
Proof. exact shared_path_refuted. Qed.
Print Assumptions C02_concurrent_shared_path_refuted.

(* and with one shared OUTPUT path: the inputs are separate, yet call 0 reads the tool's answer to call 1 *)
Theorem C02_concurrent_shared_output_refuted :
  merge (call_events 0 [(1, 5, 8, 1)]) (call_events 1 [(1, 6, 8, 2)]) shared_out_es /\
  proj 0 (exec tool10 [] shared_out_es) = [(0, Some 1); (0, Some 112)] /\
  alone tool10 0 [(1, 5, 8, 1)] = [(0, Some 1); (0, Some 111)].
Proof. exact shared_output_refuted. Qed.
Print Assumptions C02_concurrent_shared_output_refuted.

(* non-vacuity: a real interleaving of two calls with two tool uses each, separate files *)
Example C02_concurrent_example :
  let ua := [(0, 1, 2, 10); (1, 3, 4, 11)] in let ub := [(0, 5, 6, 20); (1, 7, 8, 21)] in
  let es := [Write 0 1 10; Write 1 5 20; Run 0 0 1 2; Run 1 0 5 6; Read 0 2; Write 0 3 11; Read 1 6; Write 1 7 21; Run 1 1 7 8; Run 0 1 3 4; Read 1 8; Read 0 4] in
  merge (call_events 0 ua) (call_events 1 ub) es /\ proj 0 (exec tool10 [] es) = alone tool10 0 ua /\ proj 1 (exec tool10 [] es) = alone tool10 1 ub.
Proof.
  cbv zeta. split; [|vm_compute; auto].
  cbn. apply merge_l, merge_r, merge_l, merge_r, merge_l, merge_l, merge_r, merge_r, merge_r, merge_l, merge_r, merge_l, merge_nil.
Qed.
Print Assumptions C02_concurrent_example.
