(* Props/C02.v — SP signature requirements decide acceptance exactly as documented.
   present / verifies are pysaml2's own view: item.signature after parsing, and the
   outcome of SecurityContext._check_signature for that element (C01/C03/C20 say
   what a positive outcome means). *)
From PV Require Import Lib.Base Model.Status Model.Response Proofs.Response_lemmas Proofs.Rel_lemmas Proofs.C02_lemmas.
Open Scope Z_scope.

(* For EVERY configuration, clock, content and signature state:
   accepted  <->  all non-signature checks pass  /\  every present signature verifies
                  /\ (want_response_signed -> response signed)
                  /\ (want_assertions_signed -> every assertion read is signed)
                  /\ (want_assertions_or_response_signed -> response signed \/ every assertion signed) *)
Theorem C02_accept_iff :
  forall c r, is_ok (parse_response c r) = otherwise_valid c r && documented c r.
Proof. exact accept_iff. Qed.
Print Assumptions C02_accept_iff.

(* a signature that is present but invalid is never ignored — whatever the three options *)
Theorem C02_invalid_never_ignored :
  forall c r, (sigok (r_sig r) = false \/ exists a, In a (processed r) /\ sigok (a_sig a) = false) ->
    is_ok (parse_response c r) = false.
Proof.
  intros c r H. rewrite accept_iff. unfold documented. destruct H as [H|(a & Ha & Hs)].
  - rewrite H. cbn. now rewrite andb_false_r.
  - assert (all_sigok r = false) as ->.
    { unfold all_sigok. destruct (forallb (fun a0 => sigok (a_sig a0)) (processed r)) eqn:F; [|reflexivity].
      rewrite forallb_forall in F. rewrite (F a Ha) in Hs. discriminate. }
    rewrite andb_false_r. cbn. now rewrite andb_false_r.
Qed.
Print Assumptions C02_invalid_never_ignored.

(* a missing required signature is never compensated by another one *)
Theorem C02_no_compensation :
  forall c r,
    (wrs c = true /\ present (r_sig r) = false) \/ (was c = true /\ all_present r = false) ->
    is_ok (parse_response c r) = false.
Proof.
  intros c r H. rewrite accept_iff. unfold documented. destruct H as [[-> ->]|[-> ->]]; cbn [implb];
    rewrite ?andb_false_r; reflexivity.
Qed.
Print Assumptions C02_no_compensation.

(* the documented table, evaluated on a concrete otherwise-valid response (non-vacuity):
   8 settings x {none, response, assertion, both} signed x {plain, encrypted} x {valid, response sig bad, assertion sig bad} *)
Definition me := s2l "https://sp.example.org/sp".
Definition acs := s2l "https://sp.example.org/acs/post".
Definition cfgS (b1 b2 b3 : bool) := {| entity_id := me; return_addrs := Some [acs]; wrs := b1; was := b2; waors := b3;
  allow_unsolicited := false; dest_regex_set := false; dest_regex_match := false; slack := 0; now := 1000000;
  asynch := true; outstanding := [(s2l "req-1", s2l "/home")]; conv_info := None; test_mode := false |}.
Definition asrtS (sg : option (result unit)) := {| a_id := 1%N; a_sig := sg; a_authn := [None];
  a_conditions := Some {| k_empty := false; k_nb := Some 999700; k_nooa := Some 1000300; k_audiences := [[me]]; k_unknown_condition := false |};
  a_has_subject := true;
  a_confirmations := [{| c_method := Bearer; c_data := Some {| d_address := None; d_address_valid := true; d_nooa := Some 1000300;
                          d_nb := None; d_irt := Some (s2l "req-1"); d_recipient := Some acs |} |}];
  a_name_id := Some (s2l "alice") |}.
Definition respS (rsg asg : option (result unit)) (enc : bool) := {| r_sig := rsg; r_valid_instance := true; r_irt := Some (s2l "req-1");
  r_version := Some V20; r_ver_lt2 := Some false; r_destination := Some acs; r_issue_instant := 1000000;
  r_status := Some {| st_code := Some (Code (Some Gen.StatusTable.STATUS_SUCCESS) None); st_msg := false |};
  r_assertions := if enc then [] else [asrtS asg];
  r_encrypted := if enc then [{| e_opens := true; e_inner := asrtS asg |}] else [] |}.
Definition sigstates : list (option (result unit)) := [None; Some (Ok tt); Some (Err SignatureError)].
Definition bools := [false; true].
Definition table_ok : bool :=
  forallb (fun b1 => forallb (fun b2 => forallb (fun b3 => forallb (fun rsg => forallb (fun asg => forallb (fun enc =>
    let c := cfgS b1 b2 b3 in let r := respS rsg asg enc in
    otherwise_valid c r &&
    Bool.eqb (is_ok (parse_response c r))
             (sigok rsg && sigok asg && implb b1 (present rsg) && implb b2 (present asg) && implb b3 (present rsg || present asg)))
    bools) sigstates) sigstates) bools) bools) bools.
Example C02_table : table_ok = true.
Proof. vm_compute. reflexivity. Qed.
Print Assumptions C02_table.
