(* Props/C07.v — an IdP never releases attributes beyond what its policy allows.
   Every theorem quantifies over EVERY regex matcher [matches], attribute map
   [lname], compiled policy [p], SP [sp] with its metadata view [md], and
   identity (ordered list of (name, values)); proofs are by induction over
   those lists (Proofs/Policy_lemmas.v). *)
From PV Require Import Lib.Base Gen.EntityCat Model.Policy Proofs.Policy_lemmas Model.PolicyRx Proofs.PolicyRx_lemmas Model.PolicyVal Proofs.PolicyVal_lemmas.
Open Scope N_scope.

(* (1) what Assertion.apply_policy leaves in the assertion dict *)
Theorem C07_release_subset :
  forall matches lname (p : cpolicy) (identity : ava) (sp : str) (md : option mdview) (out : ava),
    apply_policy matches lname p identity sp md = Ok out ->
    let rq := fst (declared md) in
    let op := snd (declared md) in
    (* names are identity keys, values identity values *)
    (forall n vs, In (n, vs) out -> exists ivs, In (n, ivs) identity /\ incl vs ivs) /\
    (* attribute_restrictions apply: lower-cased name is one of their keys; with a pattern list every value matches one *)
    (forall r, get_attribute_restrictions p sp = Ok (Some r) -> r <> [] ->
       forall n vs, In (n, vs) out ->
         exists rr, lookup (lower n) r = Some rr /\
           forall rxs, rr = Some rxs -> forall v, In v vs -> exists rx, In rx rxs /\ matches rx v = true) /\
    (* the entity-category rules yield an allowance: every released name is in it *)
    (forall allow, get_entity_categories p sp md rq = Ok allow -> allow <> [] ->
       forall n vs, In (n, vs) out -> In (lower n) allow) /\
    (* otherwise, when declarations exist: every name and every value is covered by one of them *)
    (get_entity_categories p sp md rq = Ok [] -> rq ++ op <> [] ->
       forall n vs, In (n, vs) out ->
         (exists d, In d (rq ++ op) /\ decl_names lname d n) /\
         (forall v, In v vs -> exists d, In d (rq ++ op) /\ decl_names lname d n /\
                                         (decl_values d = [] \/ In v (decl_values d)))).
Proof. intros matches lname p identity sp md out H. exact (apply_policy_permitted matches lname p identity sp md out H). Qed.
Print Assumptions C07_release_subset.

(* the same for the functions the policy is made of *)
Theorem C07_policy_filter :
  forall matches lname p a sp md rq op out,
    pfilter matches lname p a sp md rq op = Ok out -> permitted_for matches lname p sp md rq op a out.
Proof. exact pfilter_permitted. Qed.
Print Assumptions C07_policy_filter.

Theorem C07_filter_attribute_value_assertions :
  forall matches a r n vs, r <> [] -> In (n, vs) (favs matches a (Some r)) ->
    (exists vs0, In (n, vs0) a /\ incl vs vs0) /\
    exists rr, lookup (lower n) r = Some rr /\ values_match matches rr vs.
Proof.
  intros matches a r n vs Hne Hin. split; [eapply favs_sub; exact Hin|eapply favs_restricted; eassumption].
Qed.
Print Assumptions C07_filter_attribute_value_assertions.

Theorem C07_filter_on_attributes :
  forall lname a rq op fail res, filter_on_attributes lname a rq op fail = Ok res ->
    forall n vs, In (n, vs) res -> covered lname (rq ++ op) a n vs.
Proof. intros lname a rq op fail res H. exact (filter_on_attributes_inv lname a rq op fail res H). Qed.
Print Assumptions C07_filter_on_attributes.

(* (2) every outcome of create_authn_response, FULL STATEMENT: the construction ends in an error
   (no AttributeStatement) or in an assertion satisfying (1) -- INCLUDING when a required attribute
   or value cannot be supplied.  The model follows Server.setup_assertion as repaired by
   proposed_fix/C07-1 (on the swallowed MissingValue the policy is applied again with the SP's
   demands treated as wishes); the code before the repair is kept as *_before_fix below. *)
Theorem C07_every_outcome :
  forall matches lname (p : cpolicy) (identity : ava) (sp : str) (md : option mdview),
    outcome_ok matches lname p sp md identity (authn_response matches lname p identity sp md).
Proof. exact authn_response_every_outcome. Qed.
Print Assumptions C07_every_outcome.

(* the same for Server.setup_assertion with either value of best_effort (False: error response) *)
Theorem C07_setup_assertion_every_outcome :
  forall matches lname p identity sp md best_effort,
    outcome_ok matches lname p sp md identity (setup_assertion matches lname p identity sp md best_effort).
Proof. exact setup_assertion_every_outcome. Qed.
Print Assumptions C07_setup_assertion_every_outcome.

(* the MissingValue path spelled out: what is asserted is the identity narrowed by Policy.filter
   run with wishes only (never the identity itself unless the policy permits all of it), the
   answer is never an error response and MissingValue never leaves create_authn_response *)
Theorem C07_best_effort_is_policy_filtered :
  forall matches lname p identity sp md,
    restrict matches lname p identity sp md = Err MissingValue ->
    authn_response matches lname p identity sp md =
      match pfilter matches lname p identity sp md [] (fst (declared md) ++ snd (declared md)) with
      | Ok f => Asserted (narrow identity f)
      | Err e => Raised e
      end.
Proof. exact authn_response_missing_value. Qed.
Print Assumptions C07_best_effort_is_policy_filtered.

Theorem C07_authn_response_always_answers :
  forall matches lname p identity sp md,
    authn_response matches lname p identity sp md <> ErrorResponse /\
    authn_response matches lname p identity sp md <> Raised MissingValue.
Proof. exact authn_response_answers. Qed.
Print Assumptions C07_authn_response_always_answers.

(* ---- HISTORY: the code before proposed_fix/C07-1 (finding F3) ------------------------------ *)
Definition no_rx (_ _ : str) : bool := false.
Definition no_ln (_ _ : str) : option str := None.
Definition w_sp : str := s2l "https://sp0.example.org/sp".
Definition w_decl : decl := {| d_name := s2l "urn:oid:2.5.4.4"; d_nf := None; d_fn := Some (s2l "sn"); d_vals := [] |}.
Definition w_opt : decl := {| d_name := s2l "urn:oid:2.5.4.42"; d_nf := None; d_fn := Some (s2l "givenName"); d_vals := [] |}.
Definition w_md : option mdview := Some {| m_req := Some ([w_decl], [w_opt]); m_ecs := [] |}.
Definition w_raw : rawpolicy :=
  Some [(DEFAULT, Some {| r_ec := None;
                          r_ar := Some (Some [(s2l "givenName", None); (s2l "sn", None)]);
                          r_fail := None |})].
Definition w_ar : restrictions := [(s2l "givenname", None); (s2l "sn", None)].
Definition w_pol : cpolicy := Some [(DEFAULT, Some {| s_ec := None; s_ar := Some (Some w_ar); s_fail := None |})].
Definition w_ident : ava := [(s2l "givenName", [s2l "Anna"]); (s2l "secret", [s2l "s3cret"])].

(* before the repair the full statement was FALSE: policy releases givenName and sn only, the SP
   requires sn (absent) and wishes givenName; the whole identity incl. secret was asserted *)
Theorem C07_every_outcome_before_fix_refuted :
  exists matches lname p identity sp md a,
    authn_response_before_fix matches lname p identity sp md = Asserted a /\
    ~ permitted matches lname p sp md identity a.
Proof.
  exists no_rx, no_ln, w_pol, w_ident, w_sp, w_md, w_ident. split; [vm_compute; reflexivity|].
  intros [_ [Har _]].
  destruct (Har w_ar) with (n := s2l "secret") (vs := [s2l "s3cret"]) as [rr [Hl _]].
  - vm_compute; reflexivity.
  - discriminate.
  - right; left; reflexivity.
  - vm_compute in Hl. discriminate.
Qed.
Print Assumptions C07_every_outcome_before_fix_refuted.

(* the witness is a configured policy; the repaired code asserts givenName only *)
Example C07_witness_is_configurable :
  compile w_raw = Ok w_pol /\
  restrict no_rx no_ln w_pol w_ident w_sp w_md = Err MissingValue /\
  authn_response_before_fix no_rx no_ln w_pol w_ident w_sp w_md = Asserted w_ident /\
  authn_response no_rx no_ln w_pol w_ident w_sp w_md = Asserted [(s2l "givenName", [s2l "Anna"])] /\
  setup_assertion no_rx no_ln w_pol w_ident w_sp w_md false = ErrorResponse /\
  (* had the required attribute been there, the secret would have been withheld before the repair too *)
  authn_response_before_fix no_rx no_ln w_pol ((s2l "sn", [s2l "X"]) :: w_ident) w_sp w_md
    = Asserted [(s2l "sn", [s2l "X"]); (s2l "givenName", [s2l "Anna"])] /\
  authn_response no_rx no_ln w_pol ((s2l "sn", [s2l "X"]) :: w_ident) w_sp w_md
    = Asserted [(s2l "sn", [s2l "X"]); (s2l "givenName", [s2l "Anna"])].
Proof. vm_compute. repeat split; reflexivity. Qed.
Print Assumptions C07_witness_is_configurable.

(* the defect exactly: before the repair the only assertion outside the permitted set was the whole,
   untouched identity on the swallowed-MissingValue path -- and on that path it was ALWAYS asserted;
   on every other run the repaired function does what the old one did *)
Theorem C07_before_fix_characterised :
  forall matches lname p identity sp md,
    (forall a, authn_response_before_fix matches lname p identity sp md = Asserted a ->
       permitted matches lname p sp md identity a \/
       (restrict matches lname p identity sp md = Err MissingValue /\ a = identity)) /\
    (restrict matches lname p identity sp md = Err MissingValue ->
       authn_response_before_fix matches lname p identity sp md = Asserted identity) /\
    (restrict matches lname p identity sp md <> Err MissingValue ->
       forall b, setup_assertion matches lname p identity sp md b =
                 setup_assertion_before_fix matches lname p identity sp md b).
Proof.
  intros matches lname p identity sp md. split; [|split].
  - intros a. apply authn_response_before_fix_characterised.
  - apply authn_response_before_fix_missing_value.
  - intros H b. apply setup_assertion_agrees_when_met; exact H.
Qed.
Print Assumptions C07_before_fix_characterised.

(* the attribute authority: an exception of apply_policy leaves create_attribute_response *)
Theorem C07_attribute_response_every_outcome :
  forall matches lname p identity sp md,
    outcome_ok matches lname p sp md identity (attribute_response matches lname (Some p) identity sp md).
Proof. exact attribute_response_every_outcome. Qed.
Print Assumptions C07_attribute_response_every_outcome.

(* observation (not alarmed on): with NO aa policy configured create_attribute_response applies
   no policy object at all, not even the SP's declarations *)
Theorem C07_attribute_response_no_policy :
  forall matches lname identity sp md,
    attribute_response matches lname None identity sp md = Asserted identity.
Proof. exact attribute_response_no_policy. Qed.
Print Assumptions C07_attribute_response_no_policy.

(* corner (upstream semantics, not alarmed on): entity categories configured, the SP is entitled
   to nothing, declares nothing, no attribute_restrictions: no category filter is applied *)
Theorem C07_ec_entitled_to_nothing :
  forall matches lname p a sp md,
    get_entity_categories p sp md [] = Ok [] ->
    get_attribute_restrictions p sp = Ok None ->
    pfilter matches lname p a sp md [] [] = Ok a.
Proof. exact ec_entitled_to_nothing. Qed.
Print Assumptions C07_ec_entitled_to_nothing.

Definition ec_only (m : string) : rawpolicy :=
  Some [(DEFAULT, Some {| r_ec := Some [s2l m]; r_ar := None; r_fail := None |})].
Definition plain_md : option mdview := Some {| m_req := None; m_ecs := [] |}.
Definition run_raw (raw : rawpolicy) (identity : ava) (md : option mdview) : result ava :=
  do p <- compile raw; restrict no_rx no_ln p identity w_sp md.

(* with today's regenerated tables: at_egov_pvp2 has no always-released row, so an SP without
   categories gets everything; edugain has one, so the same SP gets eduPersonTargetedID only;
   a CoCo SP gets mail only if it REQUIRES it *)
Example C07_ec_corner_on_todays_tables :
  let ident := [(s2l "eduPersonTargetedID", [s2l "t"]); (s2l "mail", [s2l "a@b"]); (s2l "secret", [s2l "s"])] in
  let coco := s2l "http://www.geant.net/uri/dataprotection-code-of-conduct/v1" in
  let mail rq := {| d_name := s2l "urn:oid:0.9.2342.19200300.100.1.3"; d_nf := None; d_fn := Some (s2l "mail"); d_vals := [] |} in
  run_raw (ec_only "at_egov_pvp2") ident plain_md = Ok ident /\
  run_raw (ec_only "edugain") ident plain_md = Ok [(s2l "eduPersonTargetedID", [s2l "t"])] /\
  run_raw (ec_only "edugain") ident (Some {| m_req := Some ([], [mail tt]); m_ecs := [coco] |})
    = Ok [(s2l "eduPersonTargetedID", [s2l "t"])] /\
  run_raw (ec_only "edugain") ident (Some {| m_req := Some ([mail tt], []); m_ecs := [coco] |})
    = Ok [(s2l "eduPersonTargetedID", [s2l "t"]); (s2l "mail", [s2l "a@b"])].
Proof. vm_compute. repeat split; reflexivity. Qed.
Print Assumptions C07_ec_corner_on_todays_tables.

(* the regenerated RELEASE / ONLY_REQUIRED maps of every module, compiled as Policy.compile does,
   are (as sets, per module and key) the documented entitlements *)
Theorem C07_entity_category_tables : tables_equiv compiled_tables documented_ec = true.
Proof. exact ec_tables_as_documented. Qed.
Print Assumptions C07_entity_category_tables.

(* (3) the entity-category clause, non-circular.  What post_entity_categories lets through is EXACTLY
   what some row of a configured module entitles this SP to ([entitles]: the name is in the row, the row
   key is the empty string or consists of categories of the SP, and for an only-required row the name is
   the lower-cased friendly name of a REQUIRED declaration) *)
Theorem C07_category_allowance_exact :
  forall maps md rq a,
    In a (post_entity_categories maps md rq) <->
    exists m em row, md = Some m /\ In em maps /\ In row em /\ entitles (m_ecs m) (req_friendly rq) row a.
Proof. exact post_ec_spec. Qed.
Print Assumptions C07_category_allowance_exact.

(* ... and for a policy compiled from its configuration over the REGENERATED Gen/EntityCat.v these rows
   are rows of the hand-written documented table [documented_ec] of a module the configuration names
   for this SP (its own entry when that has the key, else default) *)
Theorem C07_category_allowance_documented :
  forall raw p sp md rq allow a,
    compile raw = Ok p -> get_entity_categories p sp md rq = Ok allow -> In a allow ->
    exists names m mn dm row, configured_categories raw sp names /\ md = Some m /\ In mn names /\
      lookup mn documented_ec = Some dm /\ In row dm /\ entitles (m_ecs m) (req_friendly rq) row a.
Proof. exact get_ec_documented. Qed.
Print Assumptions C07_category_allowance_documented.

(* every outcome of create_authn_response, category clause against the documented table *)
Theorem C07_every_outcome_documented_categories :
  forall matches lname raw p identity sp md a,
    compile raw = Ok p -> authn_response matches lname p identity sp md = Asserted a ->
    forall allow, get_entity_categories p sp md (fst (declared md)) = Ok allow -> allow <> [] ->
    forall n vs, In (n, vs) a ->
      exists names m mn dm row, configured_categories raw sp names /\ md = Some m /\ In mn names /\
        lookup mn documented_ec = Some dm /\ In row dm /\
        entitles (m_ecs m) (req_friendly (fst (declared md))) row (lower n).
Proof. exact authn_response_documented. Qed.
Print Assumptions C07_every_outcome_documented_categories.

(* non-vacuity: all three filters bite on one concrete configuration *)
Definition mkd (n f : string) (vs : list (option str)) : decl :=
  {| d_name := s2l n; d_nf := None; d_fn := Some (s2l f); d_vals := vs |}.
Example C07_hypotheses_satisfiable :
  let rx (r v : str) := str_eqb r (s2l "^a") && match v with 97 :: _ => true | _ => false end in
  let raw := Some [(DEFAULT, Some {| r_ec := None;
                                     r_ar := Some (Some [(s2l "Mail", Some [s2l "^a"]); (s2l "givenName", None); (s2l "secret", None)]);
                                     r_fail := Some false |})] in
  let md := Some {| m_req := Some ([mkd "urn:oid:2.5.4.42" "givenName" []; mkd "urn:oid:2.5.4.4" "sn" []],
                                    [mkd "urn:oid:0.9.2342.19200300.100.1.3" "MAIL" []]);
                    m_ecs := [] |} in
  let ident := [(s2l "givenName", [s2l "Anna"]); (s2l "mail", [s2l "a@x"; s2l "b@x"]); (s2l "secret", [s2l "s"])] in
  exists p, compile raw = Ok p /\
    apply_policy rx no_ln p ident w_sp md = Ok [(s2l "givenName", [s2l "Anna"]); (s2l "mail", [s2l "a@x"])].
Proof. eexists. split; vm_compute; reflexivity. Qed.
Print Assumptions C07_hypotheses_satisfiable.

(* ---- restriction LISTS of regular expressions: each expression is judged on its own ------------------------------- *)
(* EXACT (iff): a value of a regex-restricted attribute is released iff it is an identity value and SOME SINGLE expression of
   that attribute's list matches it; `matches` is any engine (re.compile(rx).match(v)), one expression and one value at a time *)
Theorem C07_each_expression_on_its_own : forall (matches : str -> str -> bool) rest e rxs v,
  lookup (lower (fst e)) rest = Some (Some rxs) ->
  ((exists vs, favs_entry matches rest e = Some (fst e, vs) /\ In v vs) <->
   (In v (snd e) /\ exists rx, In rx rxs /\ matches rx v = true)).
Proof.
  intros matches rest e rxs v Hl. rewrite (favs_entry_values_exact matches rest e rxs v Hl).
  unfold released_by_list. rewrite filter_In, existsb_exists. reflexivity.
Qed.
Print Assumptions C07_each_expression_on_its_own.

(* the outcome depends on the engine only through the (expression, value) pairs of the attribute's own list: an engine that differs
   elsewhere (a flag of one expression seen by another, the list merged into one alternation) gives the same release *)
Theorem C07_restriction_list_pointwise : forall m1 m2 rest e,
  (forall rxs rx v, lookup (lower (fst e)) rest = Some (Some rxs) -> In rx rxs -> In v (snd e) -> m1 rx v = m2 rx v) ->
  favs_entry m1 rest e = favs_entry m2 rest e.
Proof. exact favs_entry_pointwise. Qed.
Print Assumptions C07_restriction_list_pointwise.

Theorem C07_value_matching_no_expression_withheld : forall m rxs vals v,
  (forall rx, In rx rxs -> m rx v = false) -> ~ In v (released_by_list m rxs vals).
Proof. exact released_by_list_none. Qed.
Print Assumptions C07_value_matching_no_expression_withheld.

(* witness: [(?i)anna; bob] - BOB matches neither expression on its own (it would under a leaked (?i) or as (?i)anna|bob) *)
Example C07_flag_does_not_leak :
  let m := tbl_matches [(s2l "(?i)anna", s2l "ANNA"); (s2l "(?i)anna", s2l "anna"); (s2l "bob", s2l "bob")] in
  favs_entry m [(s2l "givenname", Some [s2l "(?i)anna"; s2l "bob"])] (s2l "givenName", [s2l "ANNA"; s2l "BOB"; s2l "bob"])
  = Some (s2l "givenName", [s2l "ANNA"; s2l "bob"]).
Proof. vm_compute. reflexivity. Qed.
Print Assumptions C07_flag_does_not_leak.

(* ---- the SP's categories are what its metadata lists under the entity-category Name, nothing else ------------------ *)
Theorem C07_categories_only_under_their_name : forall ea c,
  In c (md_entity_categories ea) <-> exists vs, In (ENTITY_CATEGORY, vs) ea /\ In c vs.
Proof. exact md_entity_categories_In. Qed.
Print Assumptions C07_categories_only_under_their_name.

Theorem C07_other_entity_attributes_do_not_count : forall ea1 ea2 extra,
  (forall e, In e extra -> fst e <> ENTITY_CATEGORY) ->
  md_entity_categories (ea1 ++ extra ++ ea2) = md_entity_categories (ea1 ++ ea2).
Proof. exact md_entity_categories_other_names. Qed.
Print Assumptions C07_other_entity_attributes_do_not_count.

(* composed with C07_category_allowance_exact / C07_every_outcome_documented_categories (whose `entitles (m_ecs m) ...` is over the
   view): with the view taken from the raw metadata, every category named by the key of an entitling row is listed under the
   entity-category Name - a value under entity-category-support never entitles *)
Theorem C07_entitlement_from_raw_metadata : forall req ea reqf row a,
  entitles (m_ecs (mdview_of req ea)) reqf row a ->
  forall k, In k (snd (fst row)) -> k = [] \/ exists vs, In (ENTITY_CATEGORY, vs) ea /\ In k vs.
Proof. exact entitles_from_metadata. Qed.
Print Assumptions C07_entitlement_from_raw_metadata.

Example C07_support_only_is_no_category :
  md_entity_categories [(ENTITY_CATEGORY_SUPPORT, [s2l "http://refeds.org/category/research-and-scholarship"]);
                        (s2l "urn:x", [s2l "c"])] = [].
Proof. vm_compute. reflexivity. Qed.
Print Assumptions C07_support_only_is_no_category.

(* ---- identity VALUES that are not text (Model/PolicyVal.v): int, bool, float, bytes, None, nested list, tuple, dict.
   Values are a sum type text | other kind; re.match on anything but a text raises TypeError. *)

(* the list filter, for EVERY expression list and EVERY value list - IFF: what one restriction list lets through are
   exactly the TEXTS of the list that a single expression matches; a value of another kind is never among them *)
Theorem C07_value_list_releases_matched_texts_only : forall matches rxs vals out,
  filter_values_v matches rxs vals = Ok out ->
  forall v, In v out <-> In v vals /\ exists s rx, v = VText s /\ In rx rxs /\ matches rx s = true.
Proof. exact filter_values_v_ok. Qed.
Print Assumptions C07_value_list_releases_matched_texts_only.

(* what the code does today: any non-text value under a non-empty expression list and the call raises (no response) *)
Theorem C07_non_text_value_raises : forall matches rx rxs vals p,
  In (VOther p) vals -> filter_values_v matches (rx :: rxs) vals = Err TypeError.
Proof. exact filter_values_v_other. Qed.
Print Assumptions C07_non_text_value_raises.

Theorem C07_value_list_only_error_is_non_text : forall matches rxs vals e,
  filter_values_v matches rxs vals = Err e -> e = TypeError /\ exists p, In (VOther p) vals.
Proof. exact filter_values_v_err. Qed.
Print Assumptions C07_value_list_only_error_is_non_text.

(* Policy.filter with typed values answers what the text model answers under a matcher that lets no carried non-text
   value through - so every theorem above applies to it *)
Theorem C07_typed_policy_filter : forall matches lname p a sp md rq op out,
  pfilter_t matches lname p a sp md rq op = Ok out ->
  permitted_for (vmatches matches) lname p sp md rq op a out.
Proof. intros matches lname p a sp md rq op out H. apply pfilter_permitted. apply pfilter_t_ok. exact H. Qed.
Print Assumptions C07_typed_policy_filter.

(* FULL, every outcome of create_authn_response / setup_assertion (both best_effort values) / create_attribute_response
   for EVERY typed identity: an exception, an error response, or an assertion that is permitted (all four clauses) and in
   which every value of an attribute restricted by an expression list IS a text value of the identity matched by a single
   expression of that list - whatever else (of whatever kind) the identity holds *)
Theorem C07_non_text_every_outcome : forall matches lname p (vid : vava) sp md b,
  let o := setup_assertion_t matches lname p (enc_ident vid) sp md b in
  outcome_ok (vmatches matches) lname p sp md (enc_ident vid) o /\ outcome_texts_only matches p sp vid o.
Proof.
  intros matches lname p vid sp md b o.
  pose proof (setup_assertion_t_every_outcome matches lname p (enc_ident vid) sp md b) as H.
  split; [exact H|eapply outcome_ok_texts_only; exact H].
Qed.
Print Assumptions C07_non_text_every_outcome.

Theorem C07_non_text_authn_response : forall matches lname p (vid : vava) sp md a,
  authn_response_t matches lname p (enc_ident vid) sp md = Asserted a ->
  forall r, get_attribute_restrictions p sp = Ok (Some r) -> r <> [] ->
    forall n vs rxs, In (n, vs) a -> lookup (lower n) r = Some (Some rxs) ->
      forall s, In s vs -> exists ivs rx, In (n, ivs) vid /\ In (VText s) ivs /\ In rx rxs /\ matches rx s = true.
Proof.
  intros matches lname p vid sp md a H.
  pose proof (C07_non_text_every_outcome matches lname p vid sp md true) as [_ Ht].
  unfold authn_response_t in H. rewrite H in Ht. exact Ht.
Qed.
Print Assumptions C07_non_text_authn_response.

Theorem C07_non_text_attribute_response : forall matches lname p (vid : vava) sp md,
  let o := attribute_response_t matches lname (Some p) (enc_ident vid) sp md in
  outcome_ok (vmatches matches) lname p sp md (enc_ident vid) o /\ outcome_texts_only matches p sp vid o.
Proof.
  intros matches lname p vid sp md o.
  pose proof (attribute_response_t_every_outcome matches lname p (enc_ident vid) sp md) as H.
  split; [exact H|eapply outcome_ok_texts_only; exact H].
Qed.
Print Assumptions C07_non_text_attribute_response.

(* the mistake the property excludes, refuted: a filter that judges str(value) and keeps the value lets the int 5 through
   the list [\d+$] - the code raises on the same input *)
Theorem C07_str_matching_filter_refuted :
  exists matches rxs vals v, In v (filter_values_str matches rxs vals) /\ (forall s, v <> VText s) /\
                             filter_values_v matches rxs vals = Err TypeError.
Proof.
  exists witness_matches, [witness_rx], [VText (s2l "x"); VOther (s2l "5")], (VOther (s2l "5")).
  destruct str_of_is_not_the_value as [H1 H2]. split; [exact H1|]. split; [intros s; discriminate|exact H2].
Qed.
Print Assumptions C07_str_matching_filter_refuted.

(* non-vacuity: a typed identity with a text and an int under an expression list and a text-only one *)
Example C07_non_text_hypotheses_satisfiable :
  filter_values_v witness_matches [witness_rx] [VText (s2l "5"); VText (s2l "x")] = Ok [VText (s2l "5")] /\
  favs_t witness_matches (enc_ident [(s2l "age", [VText (s2l "5"); VOther (s2l "5")])]) (Some [(s2l "age", Some [witness_rx])]) = Err TypeError /\
  favs_t witness_matches (enc_ident [(s2l "age", [VText (s2l "5"); VText (s2l "x")]); (s2l "o", [VOther (s2l "5")])])
         (Some [(s2l "age", Some [witness_rx]); (s2l "o", None)]) = Ok [(s2l "age", [s2l "5"]); (s2l "o", [SENT :: s2l "5"])].
Proof. vm_compute. repeat split. Qed.
Print Assumptions C07_non_text_hypotheses_satisfiable.
