From PV Require Import Lib.Base Model.Policy.
Theorem C07_stub : True. Proof. exact I. Qed.
Print Assumptions C07_stub.
