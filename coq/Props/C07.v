(* Props/C07.v — an IdP never releases attributes beyond what its policy allows.
   Every theorem quantifies over EVERY regex matcher [matches], attribute map
   [lname], compiled policy [p], SP [sp] with its metadata view [md], and
   identity (ordered list of (name, values)); proofs are by induction over
   those lists (Proofs/Policy_lemmas.v). *)
From PV Require Import Lib.Base Gen.EntityCat Model.Policy Proofs.Policy_lemmas.
Open Scope N_scope.

(* (1) what Assertion.apply_policy leaves in the assertion dict *)
Theorem C07_release_subset :
  forall matches lname (p : cpolicy) (identity : ava) (sp : str) (md : option mdview) (out : ava),
    apply_policy matches lname p identity sp md = Ok out ->
    let rq := fst (declared md) in
    let op := snd (declared md) in
    (* names are identity keys, values identity values *)
    (forall n vs, In (n, vs) out -> exists ivs, In (n, ivs) identity /\ incl vs ivs) /\
    (* attribute_restrictions apply: lower-cased name is one of their keys; with a pattern list every value matches one *)
    (forall r, get_attribute_restrictions p sp = Ok (Some r) -> r <> [] ->
       forall n vs, In (n, vs) out ->
         exists rr, lookup (lower n) r = Some rr /\
           forall rxs, rr = Some rxs -> forall v, In v vs -> exists rx, In rx rxs /\ matches rx v = true) /\
    (* the entity-category rules yield an allowance: every released name is in it *)
    (forall allow, get_entity_categories p sp md rq = Ok allow -> allow <> [] ->
       forall n vs, In (n, vs) out -> In (lower n) allow) /\
    (* otherwise, when declarations exist: every name and every value is covered by one of them *)
    (get_entity_categories p sp md rq = Ok [] -> rq ++ op <> [] ->
       forall n vs, In (n, vs) out ->
         (exists d, In d (rq ++ op) /\ decl_names lname d n) /\
         (forall v, In v vs -> exists d, In d (rq ++ op) /\ decl_names lname d n /\
                                         (decl_values d = [] \/ In v (decl_values d)))).
Proof. intros matches lname p identity sp md out H. exact (apply_policy_permitted matches lname p identity sp md out H). Qed.
Print Assumptions C07_release_subset.

(* the same for the functions the policy is made of *)
Theorem C07_policy_filter :
  forall matches lname p a sp md rq op out,
    pfilter matches lname p a sp md rq op = Ok out -> permitted_for matches lname p sp md rq op a out.
Proof. exact pfilter_permitted. Qed.
Print Assumptions C07_policy_filter.

Theorem C07_filter_attribute_value_assertions :
  forall matches a r n vs, r <> [] -> In (n, vs) (favs matches a (Some r)) ->
    (exists vs0, In (n, vs0) a /\ incl vs vs0) /\
    exists rr, lookup (lower n) r = Some rr /\ values_match matches rr vs.
Proof.
  intros matches a r n vs Hne Hin. split; [eapply favs_sub; exact Hin|eapply favs_restricted; eassumption].
Qed.
Print Assumptions C07_filter_attribute_value_assertions.

Theorem C07_filter_on_attributes :
  forall lname a rq op fail res, filter_on_attributes lname a rq op fail = Ok res ->
    forall n vs, In (n, vs) res -> covered lname (rq ++ op) a n vs.
Proof. intros lname a rq op fail res H. exact (filter_on_attributes_inv lname a rq op fail res H). Qed.
Print Assumptions C07_filter_on_attributes.

(* (2) every outcome.  FULL STATEMENT (does NOT hold for create_authn_response on the unchanged code):

     forall matches lname p identity sp md,
       outcome_ok matches lname p sp md identity (authn_response matches lname p identity sp md)

   i.e. the construction ends in an error (no AttributeStatement) or in an assertion
   satisfying (1), including when a required attribute / value is missing. *)
Definition no_rx (_ _ : str) : bool := false.
Definition no_ln (_ _ : str) : option str := None.
Definition w_sp : str := s2l "https://sp0.example.org/sp".
Definition w_decl : decl := {| d_name := s2l "urn:oid:2.5.4.4"; d_nf := None; d_fn := Some (s2l "sn"); d_vals := [] |}.
Definition w_md : option mdview := Some {| m_req := Some ([w_decl], []); m_ecs := [] |}.
Definition w_raw : rawpolicy :=
  Some [(DEFAULT, Some {| r_ec := None;
                          r_ar := Some (Some [(s2l "givenName", None); (s2l "sn", None)]);
                          r_fail := None |})].
Definition w_ar : restrictions := [(s2l "givenname", None); (s2l "sn", None)].
Definition w_pol : cpolicy := Some [(DEFAULT, Some {| s_ec := None; s_ar := Some (Some w_ar); s_fail := None |})].
Definition w_ident : ava := [(s2l "givenName", [s2l "Anna"]); (s2l "secret", [s2l "s3cret"])].

Theorem C07_every_outcome_refuted :
  exists matches lname p identity sp md a,
    authn_response matches lname p identity sp md = Asserted a /\
    ~ permitted matches lname p sp md identity a.
Proof.
  exists no_rx, no_ln, w_pol, w_ident, w_sp, w_md, w_ident. split; [vm_compute; reflexivity|].
  intros [_ [Har _]].
  destruct (Har w_ar) with (n := s2l "secret") (vs := [s2l "s3cret"]) as [rr [Hl _]].
  - vm_compute; reflexivity.
  - discriminate.
  - right; left; reflexivity.
  - vm_compute in Hl. discriminate.
Qed.
Print Assumptions C07_every_outcome_refuted.

(* the witness is a configured policy, and the SP gets the secret attribute *)
Example C07_witness_is_configurable :
  compile w_raw = Ok w_pol /\
  restrict no_rx no_ln w_pol w_ident w_sp w_md = Err MissingValue /\
  authn_response no_rx no_ln w_pol w_ident w_sp w_md = Asserted w_ident /\
  (* had the required attribute been there, the secret would have been withheld *)
  authn_response no_rx no_ln w_pol ((s2l "sn", [s2l "X"]) :: w_ident) w_sp w_md = Asserted [(s2l "sn", [s2l "X"])].
Proof. vm_compute. repeat split; reflexivity. Qed.
Print Assumptions C07_witness_is_configurable.

(* partial: every run in which the requirements can be met (restrict does not raise MissingValue) *)
Theorem C07_every_outcome_partial :
  forall matches lname p identity sp md,
    restrict matches lname p identity sp md <> Err MissingValue ->
    outcome_ok matches lname p sp md identity (authn_response matches lname p identity sp md).
Proof. exact authn_response_partial. Qed.
Print Assumptions C07_every_outcome_partial.

(* the defect exactly: the only assertion outside the permitted set is the whole, untouched
   identity on the swallowed-MissingValue path — and on that path it is ALWAYS what is asserted *)
Theorem C07_every_outcome_characterised :
  forall matches lname p identity sp md,
    (forall a, authn_response matches lname p identity sp md = Asserted a ->
       permitted matches lname p sp md identity a \/
       (restrict matches lname p identity sp md = Err MissingValue /\ a = identity)) /\
    (restrict matches lname p identity sp md = Err MissingValue ->
       authn_response matches lname p identity sp md = Asserted identity).
Proof.
  intros matches lname p identity sp md. split.
  - intros a. apply authn_response_characterised.
  - apply authn_response_missing_value.
Qed.
Print Assumptions C07_every_outcome_characterised.

(* without best_effort (what setup_assertion does when the flag is honoured) and for the
   attribute authority the every-outcome statement holds in full *)
Theorem C07_setup_assertion_without_best_effort :
  forall matches lname p identity sp md,
    outcome_ok matches lname p sp md identity (setup_assertion matches lname p identity sp md false).
Proof. exact setup_assertion_no_best_effort. Qed.
Print Assumptions C07_setup_assertion_without_best_effort.

Theorem C07_attribute_response_every_outcome :
  forall matches lname p identity sp md,
    outcome_ok matches lname p sp md identity (attribute_response matches lname (Some p) identity sp md).
Proof. exact attribute_response_every_outcome. Qed.
Print Assumptions C07_attribute_response_every_outcome.

(* the PROPOSED repair of setup_assertion (Proofs: setup_assertion_fixed — on the swallowed MissingValue
   re-run Policy.filter with the requirements treated as wishes) satisfies the FULL every-outcome statement *)
Theorem C07_suggested_fix_every_outcome :
  forall matches lname p identity sp md best_effort,
    outcome_ok matches lname p sp md identity (setup_assertion_fixed matches lname p identity sp md best_effort).
Proof. exact setup_assertion_fixed_every_outcome. Qed.
Print Assumptions C07_suggested_fix_every_outcome.

Example C07_suggested_fix_on_witness :
  setup_assertion_fixed no_rx no_ln w_pol w_ident w_sp w_md true = Asserted [].
Proof. vm_compute. reflexivity. Qed.
Print Assumptions C07_suggested_fix_on_witness.

(* observation (not alarmed on): with NO aa policy configured create_attribute_response applies
   no policy object at all, not even the SP's declarations *)
Theorem C07_attribute_response_no_policy :
  forall matches lname identity sp md,
    attribute_response matches lname None identity sp md = Asserted identity.
Proof. exact attribute_response_no_policy. Qed.
Print Assumptions C07_attribute_response_no_policy.

(* corner (upstream semantics, not alarmed on): entity categories configured, the SP is entitled
   to nothing, declares nothing, no attribute_restrictions: no category filter is applied *)
Theorem C07_ec_entitled_to_nothing :
  forall matches lname p a sp md,
    get_entity_categories p sp md [] = Ok [] ->
    get_attribute_restrictions p sp = Ok None ->
    pfilter matches lname p a sp md [] [] = Ok a.
Proof. exact ec_entitled_to_nothing. Qed.
Print Assumptions C07_ec_entitled_to_nothing.

Definition ec_only (m : string) : rawpolicy :=
  Some [(DEFAULT, Some {| r_ec := Some [s2l m]; r_ar := None; r_fail := None |})].
Definition plain_md : option mdview := Some {| m_req := None; m_ecs := [] |}.
Definition run_raw (raw : rawpolicy) (identity : ava) (md : option mdview) : result ava :=
  do p <- compile raw; restrict no_rx no_ln p identity w_sp md.

(* with today's regenerated tables: at_egov_pvp2 has no always-released row, so an SP without
   categories gets everything; edugain has one, so the same SP gets eduPersonTargetedID only;
   a CoCo SP gets mail only if it REQUIRES it *)
Example C07_ec_corner_on_todays_tables :
  let ident := [(s2l "eduPersonTargetedID", [s2l "t"]); (s2l "mail", [s2l "a@b"]); (s2l "secret", [s2l "s"])] in
  let coco := s2l "http://www.geant.net/uri/dataprotection-code-of-conduct/v1" in
  let mail rq := {| d_name := s2l "urn:oid:0.9.2342.19200300.100.1.3"; d_nf := None; d_fn := Some (s2l "mail"); d_vals := [] |} in
  run_raw (ec_only "at_egov_pvp2") ident plain_md = Ok ident /\
  run_raw (ec_only "edugain") ident plain_md = Ok [(s2l "eduPersonTargetedID", [s2l "t"])] /\
  run_raw (ec_only "edugain") ident (Some {| m_req := Some ([], [mail tt]); m_ecs := [coco] |})
    = Ok [(s2l "eduPersonTargetedID", [s2l "t"])] /\
  run_raw (ec_only "edugain") ident (Some {| m_req := Some ([mail tt], []); m_ecs := [coco] |})
    = Ok [(s2l "eduPersonTargetedID", [s2l "t"]); (s2l "mail", [s2l "a@b"])].
Proof. vm_compute. repeat split; reflexivity. Qed.
Print Assumptions C07_ec_corner_on_todays_tables.

(* the regenerated RELEASE / ONLY_REQUIRED maps of every module, compiled as Policy.compile does,
   are (as sets, per module and key) the documented entitlements *)
Theorem C07_entity_category_tables : tables_equiv compiled_tables documented_ec = true.
Proof. exact ec_tables_as_documented. Qed.
Print Assumptions C07_entity_category_tables.

(* non-vacuity: all three filters bite on one concrete configuration *)
Definition mkd (n f : string) (vs : list (option str)) : decl :=
  {| d_name := s2l n; d_nf := None; d_fn := Some (s2l f); d_vals := vs |}.
Example C07_hypotheses_satisfiable :
  let rx (r v : str) := str_eqb r (s2l "^a") && match v with 97 :: _ => true | _ => false end in
  let raw := Some [(DEFAULT, Some {| r_ec := None;
                                     r_ar := Some (Some [(s2l "Mail", Some [s2l "^a"]); (s2l "givenName", None); (s2l "secret", None)]);
                                     r_fail := Some false |})] in
  let md := Some {| m_req := Some ([mkd "urn:oid:2.5.4.42" "givenName" []; mkd "urn:oid:2.5.4.4" "sn" []],
                                    [mkd "urn:oid:0.9.2342.19200300.100.1.3" "MAIL" []]);
                    m_ecs := [] |} in
  let ident := [(s2l "givenName", [s2l "Anna"]); (s2l "mail", [s2l "a@x"; s2l "b@x"]); (s2l "secret", [s2l "s"])] in
  exists p, compile raw = Ok p /\
    apply_policy rx no_ln p ident w_sp md = Ok [(s2l "givenName", [s2l "Anna"]); (s2l "mail", [s2l "a@x"])].
Proof. eexists. split; vm_compute; reflexivity. Qed.
Print Assumptions C07_hypotheses_satisfiable.
