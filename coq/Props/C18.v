(* Props/C18.v — name identifiers map to one principal, stably, without cross-SP linkage *)
From PV Require Import Lib.Base Model.Codec Gen.IdentConsts Model.Ident Proofs.Base64_lemmas Proofs.Url_lemmas Proofs.Ident_lemmas.
Open Scope N_scope.

(* the attribute order code/decode depend on, as ident.py has it NOW (regenerated table) *)
Theorem C18_attr_order :
  ATTR = [s2l "name_qualifier"; s2l "sp_name_qualifier"; s2l "format"; s2l "sp_provided_id"; s2l "text"] /\
  str_eqb NAMEID_FORMAT_PERSISTENT NAMEID_FORMAT_TRANSIENT = false /\
  str_eqb NAMEID_FORMAT_PERSISTENT NAMEID_FORMAT_EMAILADDRESS = false /\
  str_eqb NAMEID_FORMAT_TRANSIENT NAMEID_FORMAT_EMAILADDRESS = false.
Proof. vm_compute. repeat split; reflexivity. Qed.
Print Assumptions C18_attr_order.

(* (1) the storage key coding is reversible for ARBITRARY field contents (any bytes, any length:
   separators, percent signs, spaces, UTF-8): only None and the empty string are identified *)
Theorem C18_codec_roundtrip : forall n, wfb n -> decode (code n) = Ok (norm n).
Proof. exact decode_code. Qed.
Print Assumptions C18_codec_roundtrip.

(* ... and collision-free on normalised identifiers *)
Theorem C18_codec_injective :
  (forall n1 n2, wfb n1 -> wfb n2 -> code n1 = code n2 -> norm n1 = norm n2) /\
  (forall n1 n2, wfb n1 -> wfb n2 -> norm n1 = n1 -> norm n2 = n2 -> code n1 = code n2 -> n1 = n2).
Proof.
  split; [exact code_injective|]. intros n1 n2 W1 W2 N1 N2 H. rewrite <- N1, <- N2. now apply code_injective.
Qed.
Print Assumptions C18_codec_injective.

(* ... and a code never contains the separator of the per-user list *)
Theorem C18_code_no_separator : forall n, wfb n -> forallb (fun c => negb (c =? SPACE)) (code n) = true.
Proof. exact code_no_space. Qed.
Print Assumptions C18_code_no_separator.

(* (2) the two directions of the store stay in step, for ANY sequence of operations that
   satisfies op_wfb (user ids satisfy is_user; identifier texts supplied by callers and every
   digest the random source yields do not; all strings are bytes; no raw store; e-mail
   format only without a domain): EVERY element of the code list recorded under a user decodes
   to an identifier with a non-empty text that find_local_id resolves to exactly that user;
   conversely whatever resolves to a user is recorded under that user; and two records with
   the same text are one record of one user.
   (Before fix C18-1 the first clause failed for the empty element remove_remote left behind:
   C18_persistent_empty_before_fix_refuted.) *)
Theorem C18_inverse_maps : forall (is_user : str -> bool) c ops,
  forallb (op_wfb is_user c) ops = true ->
  let d := run c [] ops in
  (forall u c0, is_user u = true -> In c0 (entries d u) ->
     exists n t, decode c0 = Ok n /\ n_text n = Some t /\ t <> [] /\ is_user t = false /\ find_local_id d n = Some u) /\
  (forall t u, is_user t = false -> lookup t d = Some u ->
     is_user u = true /\ exists c0 n, In c0 (entries d u) /\ decode c0 = Ok n /\ n_text n = Some t) /\
  (forall u1 u2 c1 c2 t, is_user u1 = true -> is_user u2 = true -> In c1 (entries d u1) -> In c2 (entries d u2) ->
     ctext c1 = Some t -> ctext c2 = Some t -> u1 = u2 /\ c1 = c2).
Proof.
  intros is_user c ops H d. pose proof (reachable_inv is_user c ops H) as I. split; [|split].
  - intros u c0. now apply inv_resolves.
  - intros t u. now apply inv_recorded.
  - intros u1 u2 c1 c2 t. now apply inv_no_sharing.
Qed.
Print Assumptions C18_inverse_maps.

(* every identifier an issuing call returns is recorded under its user, resolves to that user,
   and (4) its text was not a key of the previous state *)
Theorem C18_issued_recorded_resolves_fresh : forall (is_user : str -> bool) c ops u f sp nq cands,
  forallb (op_wfb is_user c) ops = true -> get_ok is_user c u f sp nq cands = true ->
  let d := run c [] ops in
  forall n, snd (get_nameid c d u f sp nq cands) = ONid n ->
    let d' := fst (get_nameid c d u f sp nq cands) in
    wfb n /\ In (code n) (entries d' u) /\ find_local_id d' n = Some u /\
    exists t, n_text n = Some t /\ In t cands /\ lookup t d = None.
Proof.
  intros is_user c ops u f sp nq cands H Hok d n Hn.
  now apply (get_nameid_full is_user c d u f sp nq cands (reachable_inv is_user c ops H) Hok).
Qed.
Print Assumptions C18_issued_recorded_resolves_fresh.

(* (4) freshness needs no hypothesis at all: in ANY state and for ANY digest stream the text of
   a newly issued transient identifier is not a key of the previous state (the create_id loop) *)
Theorem C18_transient_fresh : forall c d u sp nq cands d' n,
  step c d (Transient u sp nq cands) = (d', ONid n) ->
  exists t, n_text n = Some t /\ In t cands /\ lookup t d = None /\ find_local_id d' n = Some u.
Proof.
  intros c d u sp nq cands d' n H. apply (issued_fresh c d u NAMEID_FORMAT_TRANSIENT sp nq cands d' n H).
  vm_compute. reflexivity.
Qed.
Print Assumptions C18_transient_fresh.

(* (3) stability: in ANY state, the call after a successful persistent_nameid call returns the
   same identifier (up to None / empty string) and leaves the store alone, whatever the digest source yields *)
Theorem C18_persistent_stable : forall c d u sp nq cands d1 n,
  obytes sp -> obytes nq -> Forall (Forall byte) cands -> ~ In u cands ->
  persistent_nameid c d u sp nq cands = (d1, ONid n) ->
  forall cands', exists n', persistent_nameid c d1 u sp nq cands' = (d1, ONid n') /\ norm n' = norm n.
Proof. exact persistent_stable. Qed.
Print Assumptions C18_persistent_stable.

(* ... and stays what it is across any later issuing / lookup operations for anybody *)
Theorem C18_persistent_stable_under_issues : forall (is_user : str -> bool) c ops0 ops u sp nq n,
  forallb (op_wfb is_user c) ops0 = true -> is_user u = true ->
  forallb (op_wfb is_user c) ops = true -> forallb issue_only ops = true ->
  match_local_id (run c [] ops0) u sp nq = Ok (Some n) ->
  match_local_id (run c (run c [] ops0) ops) u sp nq = Ok (Some n).
Proof.
  intros is_user c ops0 ops u sp nq n H0 Hu Hw Hi M.
  apply (persistent_stable_under_issues is_user c ops (run c [] ops0) u sp nq n); auto. now apply reachable_inv.
Qed.
Print Assumptions C18_persistent_stable_under_issues.

(* (3) no linkage, FULL statement (any qualifiers, also empty ones): in every reachable state, what
   persistent_nameid / match_local_id finds for different users, or for SP qualifiers / name
   qualifiers that differ as Python reads them (None and the empty string both mean: no
   qualifier), has different texts, each resolving to its own user. *)
Theorem C18_persistent_distinct : forall (is_user : str -> bool) c ops u1 u2 sp1 sp2 nq1 nq2 n1 n2,
  forallb (op_wfb is_user c) ops = true ->
  let d := run c [] ops in
  is_user u1 = true -> is_user u2 = true ->
  match_local_id d u1 sp1 nq1 = Ok (Some n1) -> match_local_id d u2 sp2 nq2 = Ok (Some n2) ->
  u1 <> u2 \/ tr sp1 <> tr sp2 \/ tr nq1 <> tr nq2 ->
  n_text n1 <> n_text n2 /\ find_local_id d n1 = Some u1 /\ find_local_id d n2 = Some u2.
Proof.
  intros is_user c ops u1 u2 sp1 sp2 nq1 nq2 n1 n2 H d. apply persistent_distinct. now apply reachable_inv.
Qed.
Print Assumptions C18_persistent_distinct.

(* FULL statement: whatever persistent_nameid / match_local_id finds, for ANY qualifiers, has a
   non-empty text that resolves to the user asked for *)
Theorem C18_persistent_resolves : forall (is_user : str -> bool) c ops u sp nq n,
  forallb (op_wfb is_user c) ops = true -> is_user u = true ->
  match_local_id (run c [] ops) u sp nq = Ok (Some n) ->
  exists t, n_text n = Some t /\ t <> [] /\ find_local_id (run c [] ops) n = Some u.
Proof.
  intros is_user c ops u sp nq n H Hu M. apply (persistent_resolves is_user _ u sp nq n); auto. now apply reachable_inv.
Qed.
Print Assumptions C18_persistent_resolves.

(* ... and so does whatever a name-id mapping request returns (an old identifier matching the
   policy, for ANY policy, or a new one): non-empty text, resolving to the principal of the request *)
Theorem C18_mapping_resolves : forall (is_user : str -> bool) c ops n pfmt psp allow cands d' m,
  forallb (op_wfb is_user c) ops = true -> op_wfb is_user c (MapReq n pfmt psp allow cands) = true ->
  step c (run c [] ops) (MapReq n pfmt psp allow cands) = (d', ONid m) ->
  exists u t, find_local_id (run c [] ops) n = Some u /\ is_user u = true /\
              n_text m = Some t /\ t <> [] /\ find_local_id d' m = Some u.
Proof.
  intros is_user c ops n pfmt psp allow cands d' m H Hw S.
  apply (map_req_resolves is_user c (run c [] ops) n pfmt psp allow cands d' m); auto. now apply reachable_inv.
Qed.
Print Assumptions C18_mapping_resolves.

(* remove_local(u) in any reachable state (the code after fix C18-2): it returns None, afterwards u
   has no recorded identifier, no identifier text resolves to u, persistent_nameid would start
   afresh, and the records and resolutions of every OTHER user are untouched; nothing new resolves *)
Theorem C18_remove_local_withdraws : forall (is_user : str -> bool) c ops u,
  forallb (op_wfb is_user c) ops = true -> is_user u = true ->
  let d := run c [] ops in
  let d' := fst (step c d (RemoveLocal u)) in
  snd (step c d (RemoveLocal u)) = ONone /\
  entries d' u = [] /\ (forall sp nq, match_local_id d' u sp nq = Ok None) /\
  (forall n t, n_text n = Some t -> is_user t = false -> find_local_id d' n <> Some u) /\
  (forall u2, is_user u2 = true -> u2 <> u -> entries d' u2 = entries d u2) /\
  (forall n t u2, n_text n = Some t -> is_user t = false -> u2 <> u ->
     find_local_id d n = Some u2 -> find_local_id d' n = Some u2) /\
  (forall n v, find_local_id d' n = Some v -> find_local_id d n = Some v).
Proof.
  intros is_user c ops u H Hu d d'. pose proof (reachable_inv is_user c ops H) as I.
  destruct (remove_local_full is_user d u I Hu) as (R & _ & L & G & EC & K & S).
  change (fst (do_remove_local d u)) with d' in L, G, EC, K, S.
  assert (entries d' u = []) as EU by (unfold entries; now rewrite L).
  split; [exact R|]. split; [exact EU|]. split; [intros sp nq; now rewrite match_local_id_entries, EU|].
  split; [intros n t T Ht; unfold find_local_id; rewrite T; now apply G|]. split; [exact EC|].
  split; [intros n t u2 T Ht Hn; unfold find_local_id; rewrite T; now apply K|].
  intros n v. unfold find_local_id. destruct (n_text n); [apply S|discriminate].
Qed.
Print Assumptions C18_remove_local_withdraws.

(* ---------------- the code before the repairs (…_before_fix definitions of Model/Ident.v) ---------------- *)
Definition two_users (s : str) : bool := str_eqb s (s2l "u1") || str_eqb s (s2l "u2").
Definition C0 := Cfg [] [].
Definition E : option str := Some [].
Definition pers (t : str) : nameid := NameId E E (Some NAMEID_FORMAT_PERSISTENT) None (Some t).

(* C18_persistent_resolves / C18_persistent_distinct / the first clause of C18_inverse_maps did NOT hold
   for the code before fix C18-1 (remove_remote wrote the empty string back): after a remove_remote
   of the only identifier the user's list held an empty code, which decodes to an all-None identifier
   that match_local_id accepts with EMPTY qualifiers: both users got the same text-less identifier. *)
Definition F10 : list op :=
  [Persistent (s2l "u1") E E [s2l "a"]; RemoveRemote (pers (s2l "a")); Persistent (s2l "u1") E E [s2l "b"];
   Persistent (s2l "u2") E E [s2l "c"]; RemoveRemote (pers (s2l "c")); Persistent (s2l "u2") E E [s2l "d"]].
Theorem C18_persistent_empty_before_fix_refuted :
  exists (is_user : str -> bool) c ops,
    forallb (op_wfb is_user c) ops = true /\
    nth 2 (run_outs_before_fix c [] ops) ONone = ONid empty_nid /\ nth 5 (run_outs_before_fix c [] ops) ONone = ONid empty_nid /\
    find_local_id (run_before_fix c [] ops) empty_nid = None /\
    In [] (entries (run_before_fix c [] ops) (s2l "u1")) /\
    (* the repaired code on the same history: two different identifiers, each resolving to its user *)
    nth 2 (run_outs c [] ops) ONone = ONid (pers (s2l "b")) /\ nth 5 (run_outs c [] ops) ONone = ONid (pers (s2l "d")).
Proof. exists two_users, C0, F10. vm_compute. repeat split; try reflexivity. left. reflexivity. Qed.
Print Assumptions C18_persistent_empty_before_fix_refuted.

(* same root cause, through handle_name_id_mapping_request with a policy naming neither format nor
   SP qualifier (C18_mapping_resolves did not hold before fix C18-1) *)
Definition F11 : list op :=
  [Transient (s2l "u1") (Some (s2l "sp1")) E [s2l "a"];
   RemoveRemote (NameId E (Some (s2l "sp1")) (Some NAMEID_FORMAT_TRANSIENT) None (Some (s2l "a")));
   Transient (s2l "u1") (Some (s2l "sp2")) E [s2l "b"];
   MapReq (nid_t (s2l "b")) None None None []].
Theorem C18_mapping_empty_before_fix_refuted :
  forallb (op_wfb two_users C0) F11 = true /\
  nth 3 (run_outs_before_fix C0 [] F11) ONone = ONid empty_nid /\
  nth 3 (run_outs C0 [] F11) ONone = OErr (s2l "SAMLError").      (* repaired: nothing matches, no format to create one *)
Proof. vm_compute. repeat split; reflexivity. Qed.
Print Assumptions C18_mapping_empty_before_fix_refuted.

(* C18_remove_local_withdraws did NOT hold for the code before fix C18-2: remove_local raised NameError
   (isinstance(sid, unicode) on Python 3) and withdrew nothing *)
Definition F12 : list op := [Persistent (s2l "u1") (Some (s2l "sp1")) E [s2l "a"]; RemoveLocal (s2l "u1")].
Theorem C18_remove_local_before_fix_refuted :
  forallb (op_wfb two_users C0) F12 = true /\
  nth 1 (run_outs_before_fix C0 [] F12) ONone = OErr (s2l "NameError") /\
  find_local_id (run_before_fix C0 [] F12) (nid_t (s2l "a")) = Some (s2l "u1") /\
  nth 1 (run_outs C0 [] F12) ONone = ONone /\ find_local_id (run C0 [] F12) (nid_t (s2l "a")) = None.
Proof. vm_compute. repeat split; reflexivity. Qed.
Print Assumptions C18_remove_local_before_fix_refuted.

(* ---------------- where the code does not satisfy the full statement (outside op_wfb) ---------------- *)
(* Full statement of (2) for ALL public methods: refuted for the raw store(), which re-binds an
   identifier text without looking (the record under u1 stays, the text now resolves to u2) *)
Theorem C18_raw_store_refuted :
  let n := NameId None (Some (s2l "sp1")) (Some NAMEID_FORMAT_PERSISTENT) None (Some (s2l "a")) in
  let d := run C0 [] [Store (s2l "u1") n; Store (s2l "u2") n] in
  In (code n) (entries d (s2l "u1")) /\ find_local_id d n = Some (s2l "u2").
Proof. vm_compute. split; [left|]; reflexivity. Qed.
Print Assumptions C18_raw_store_refuted.

(* Full statement of (4) for every format: refuted for the e-mail format with a domain, where
   create_id tests the digest but the identifier is digest@domain (only reachable when the digest
   source repeats itself: probability 2^-256 with sha256 over 32 random bytes) *)
Theorem C18_email_collision_refuted :
  let c := Cfg (s2l "d") [] in
  let ops := [GetNameid (s2l "u1") NAMEID_FORMAT_EMAILADDRESS None None [s2l "a"];
              GetNameid (s2l "u2") NAMEID_FORMAT_EMAILADDRESS None None [s2l "a"]] in
  exists n, nth 0 (run_outs c [] ops) ONone = ONid n /\ nth 1 (run_outs c [] ops) ONone = ONid n /\
            find_local_id (run c [] ops) n = Some (s2l "u2") /\ In (code n) (entries (run c [] ops) (s2l "u1")).
Proof. eexists. vm_compute. repeat split; try reflexivity. left. reflexivity. Qed.
Print Assumptions C18_email_collision_refuted.

(* the hypotheses are satisfiable by a non-trivial history: issue, collide, manage, map, remove,
   withdraw a user (the other user's identifier stays), issue again *)
Example C18_witness :
  let sp1 := Some (s2l "sp1") in let sp2 := Some (s2l "sp2") in
  let a := NameId E sp1 (Some NAMEID_FORMAT_PERSISTENT) None (Some (s2l "a")) in
  let ops := [Persistent (s2l "u1") sp1 E [s2l "a"]; Persistent (s2l "u2") sp1 E [s2l "a"; s2l "b"];
              Transient (s2l "u1") sp2 E [s2l "b"; s2l "a"; s2l "c"];
              Manage a (ANew (Some (s2l "x,y=z %"))); MapReq (nid_t (s2l "a")) (Some NAMEID_FORMAT_PERSISTENT) sp2 None [s2l "e"];
              Persistent (s2l "u1") sp1 E []; RemoveRemote (nid_t (s2l "c"));
              RemoveLocal (s2l "u1"); FindLocalId (nid_t (s2l "a")); FindLocalId (nid_t (s2l "e")); FindLocalId (nid_t (s2l "b"));
              FindNameid (s2l "u1") []; Persistent (s2l "u1") sp1 E [s2l "a"]] in
  forallb (op_wfb two_users C0) ops = true /\
  map show_out (run_outs C0 [] ops) =
    [show_nid a; show_nid (NameId E sp1 (Some NAMEID_FORMAT_PERSISTENT) None (Some (s2l "b")));
     show_nid (NameId E sp2 (Some NAMEID_FORMAT_TRANSIENT) None (Some (s2l "c")));
     show_nid (NameId E sp1 (Some NAMEID_FORMAT_PERSISTENT) (Some (s2l "x,y=z %")) (Some (s2l "a")));
     show_nid (NameId (Some []) sp2 (Some NAMEID_FORMAT_PERSISTENT) None (Some (s2l "e")));
     show_nid (NameId None sp1 (Some NAMEID_FORMAT_PERSISTENT) (Some (s2l "x,y=z %")) (Some (s2l "a")));
     VE (s2l "ValueError");
     VNone; VNone; VNone; VS (s2l "u2"); VL []; show_nid a].
Proof. vm_compute. split; reflexivity. Qed.
Print Assumptions C18_witness.

(* GLUE to C14 and C19 (Proofs/Glue_quote.v, docs/Glue.md): the quoting inside code() is C14's quote except that the
   slash is kept (an instance of the single round-trip theorem), and the cache key of C19 (Model/Cache.v code) is THIS
   code, read through toC (an absent or empty attribute is the empty string there): injectivity of code
   (C18 above) is injectivity of the cache key. *)
From PV Require Model.Cache Proofs.Glue_quote.
Theorem C18_code_is_the_cache_key_of_C19 :
  forall n, Cache.code (Glue_quote.toC n) = code n /\
            (forallb (fun c => negb (c =? 47)) (Glue_quote.od (n_text n)) = true ->
             quote_s (Glue_quote.od (n_text n)) = quote (Glue_quote.od (n_text n))).
Proof. intros n. split; [exact (Glue_quote.code_same n)|exact (Glue_quote.quote_s_is_codec_quote _)]. Qed.
Print Assumptions C18_code_is_the_cache_key_of_C19.

(* ---------------- FRESHNESS ACROSS PROCESSES (Model/IdentWorkers.v) ----------------
   A deployment is a list of workers; every worker has its own store (starting empty) and its own
   digest stream: the cands arguments of its operations ([stream]).  The assumption about the random
   source is explicit: [independent w1 w2] = no digest occurs in both streams (true for the OS source;
   FALSE for a generator whose state a fork duplicates: C18_workers_shared_stream_refuted).  The harness
   unit `processes` ties it: forked workers and fresh interpreters on the real code. *)
From PV Require Import Model.IdentWorkers Proofs.IdentWorkers_lemmas.

(* one process, by induction over its history, no hypothesis: every text it issues new (transient call,
   or persistent call that finds nothing) was drawn from ITS stream and was not a key of ITS store *)
Theorem C18_worker_issues_from_own_stream :
  (forall c ops d t, In t (issued_texts c d ops) -> In t (stream ops)) /\
  (forall c d o t, In t (issued_now c d o) -> In t (op_cands o) /\ lookup t d = None).
Proof. split; [exact issued_texts_in_stream|exact issued_now_spec]. Qed.
Print Assumptions C18_worker_issues_from_own_stream.

(* two processes with independent streams never issue the same text, whatever their configurations,
   stores and histories (any operations, any length) *)
Theorem C18_workers_fresh : forall c1 c2 d1 d2 w1 w2,
  independent w1 w2 -> forall t, In t (issued_texts c1 d1 w1) -> In t (issued_texts c2 d2 w2) -> False.
Proof. exact workers_fresh. Qed.
Print Assumptions C18_workers_fresh.

(* any number of workers: the observable compared with the real forked workers on every run *)
Theorem C18_deployment_disjoint : forall c ws,
  independent_all ws -> pairwise_disjointb (worker_texts c ws) = true.
Proof. exact deployment_disjoint. Qed.
Print Assumptions C18_deployment_disjoint.

(* step level: a transient identifier issued at any point of one worker's history and one issued at any
   point of another's have different texts; each resolves to its own user in its own store - no
   identifier goes to two users *)
Theorem C18_workers_transient_distinct :
  forall c1 c2 pre1 pre2 post1 post2 u1 u2 sp1 sp2 nq1 nq2 cands1 cands2 d1 d2 n1 n2,
  independent (pre1 ++ Transient u1 sp1 nq1 cands1 :: post1) (pre2 ++ Transient u2 sp2 nq2 cands2 :: post2) ->
  step c1 (run c1 [] pre1) (Transient u1 sp1 nq1 cands1) = (d1, ONid n1) ->
  step c2 (run c2 [] pre2) (Transient u2 sp2 nq2 cands2) = (d2, ONid n2) ->
  n_text n1 <> n_text n2 /\ find_local_id d1 n1 = Some u1 /\ find_local_id d2 n2 = Some u2.
Proof. exact workers_transient_distinct. Qed.
Print Assumptions C18_workers_transient_distinct.

(* without the assumption (the fork duplicated the generator state: equal streams) the statement is
   false: the same text goes to u1 in one worker and to u2 in the other *)
Theorem C18_workers_shared_stream_refuted :
  let sp1 := Some (s2l "sp1") in
  let w1 := [Transient (s2l "u1") sp1 None [s2l "a"]] in
  let w2 := [Transient (s2l "u2") sp1 None [s2l "a"]] in
  stream w1 = stream w2 /\
  issued_texts C0 [] w1 = [s2l "a"] /\ issued_texts C0 [] w2 = [s2l "a"] /\
  find_local_id (run C0 [] w1) (nid_t (s2l "a")) = Some (s2l "u1") /\
  find_local_id (run C0 [] w2) (nid_t (s2l "a")) = Some (s2l "u2") /\
  pairwise_disjointb (worker_texts C0 [w1; w2]) = false.
Proof. vm_compute. repeat split; reflexivity. Qed.
Print Assumptions C18_workers_shared_stream_refuted.

(* the assumption is satisfiable by non-trivial workers (collision inside a worker, persistent found again) *)
Example C18_workers_witness :
  let sp1 := Some (s2l "sp1") in
  let w1 := [Transient (s2l "u1") sp1 None [s2l "a"]; Transient (s2l "u2") sp1 None [s2l "a"; s2l "b"];
             Persistent (s2l "u1") sp1 None [s2l "c"]; Persistent (s2l "u1") sp1 None [s2l "d"]] in
  let w2 := [Transient (s2l "u3") sp1 None [s2l "e"]; Persistent (s2l "u3") sp1 None [s2l "f"]] in
  independent w1 w2 /\
  worker_texts C0 [w1; w2] = [[s2l "a"; s2l "b"; s2l "c"]; [s2l "e"; s2l "f"]] /\
  pairwise_disjointb (worker_texts C0 [w1; w2]) = true.
Proof.
  cbv zeta. split; [|vm_compute; split; reflexivity].
  intros t H1 H2. vm_compute in H1, H2.
  repeat (destruct H1 as [H1|H1]; [subst t; repeat (destruct H2 as [H2|H2]; [discriminate H2|]); exact H2|]). exact H1.
Qed.
Print Assumptions C18_workers_witness.
