(* Props/C17.v — encrypted assertions stay confidential and are validated like plain ones.

   Identity provider (Model/Encrypt.v PART I, symbolic encryption: an EncryptedData node for
   key k can be opened with k and with nothing else, reveals nothing; a digest is taken to
   reveal the tree it covers).  Service provider: Model/Response.v (the shared pipeline of
   C02/C04/C05, flat documents) and Model/Encrypt.v PART II (document trees: advice, nested
   and stray EncryptedData, any key set, tool policy and fault schedule).
   The certificates of the service provider are DERIVED from its metadata (Model/EncryptMd.v over
   Model/CertSelect.v's md_certs: key descriptors with an optional use attribute, several role
   descriptors, several sources, first entity with the id wins): the *_md theorems put the hypothesis there.
   [idp_build] / [t_fixed := true] follow the code WITH proposed_fix/C17-1 and C17-2;
   the *_before_fix theorems keep the defects of the code without them visible. *)
From PV Require Import Lib.Base Model.Status Model.Response Model.Encrypt Model.CertSelect Model.EncryptMd
  Proofs.Response_lemmas Proofs.EncryptSP_lemmas Proofs.Encrypt_lemmas Proofs.EncryptMd_lemmas Proofs.EncryptTree_lemmas Proofs.EncryptLoop_lemmas.
Open Scope Z_scope.

(* ===================== identity provider ===================== *)

(* encrypt_assertion requested and the SP has an encryption certificate (in metadata or handed in):
   what an observer reads off the response (and whether one is emitted at all) is the same for ANY two
   identities — name identifier, attribute names and attribute values have no influence on it *)
Theorem C17_confidential :
  forall g i1 i2, g_encrypt_assertion g = true -> has_cert_for (g_cert_assertion g) g ->
    vis (idp_build g i1) = vis (idp_build g i2).
Proof. exact confidential_main. Qed.
Print Assumptions C17_confidential.

(* PEFIM / encrypted advice: the same for the attributes of the advice assertion, whatever the other options *)
Theorem C17_confidential_advice :
  forall g n a1 a2, g_pefim g = true -> has_cert_for (g_cert_advice g) g ->
    vis (idp_build g {| i_name_id := n; i_attrs := a1 |}) = vis (idp_build g {| i_name_id := n; i_attrs := a2 |}).
Proof. exact confidential_advice. Qed.
Print Assumptions C17_confidential_advice.

(* in the statement's words: a string that is not already readable in the response built for the empty
   identity (issuer, destination, ids ... are) is not readable in the response built for the real one *)
Theorem C17_no_identity_string :
  forall g i out s, g_encrypt_assertion g = true -> has_cert_for (g_cert_assertion g) g -> idp_build g i = Ok out ->
    (forall out0, idp_build g no_ident = Ok out0 -> ~ In s (visible out0)) -> ~ In s (visible out).
Proof. exact no_occurrence_main. Qed.
Print Assumptions C17_no_identity_string.

Theorem C17_no_advice_attribute_string :
  forall g n attrs out s, g_pefim g = true -> has_cert_for (g_cert_advice g) g ->
    idp_build g {| i_name_id := n; i_attrs := attrs |} = Ok out ->
    (forall out0, idp_build g {| i_name_id := n; i_attrs := [] |} = Ok out0 -> ~ In s (visible out0)) -> ~ In s (visible out).
Proof. exact no_occurrence_advice. Qed.
Print Assumptions C17_no_advice_attribute_string.

(* every ciphertext in the response (at any depth) is made for a usable certificate that was supplied for
   this SP — the explicit encrypt_cert_* argument, else its metadata: it opens under that key, no other *)
Theorem C17_opens_only_under_sp_key :
  forall g i t k, idp_build g i = Ok t -> In k (enc_keys t) ->
    In (k, true) (certs_for (g_cert_assertion g) (g_md_certs g)) \/ In (k, true) (certs_for (g_cert_advice g) (g_md_certs g)).
Proof. intros g i t k H. exact (enc_keys_for_sp true g i t H k). Qed.
Print Assumptions C17_opens_only_under_sp_key.

(* _encrypt_assertion: when every certificate fails nothing is emitted *)
Theorem C17_all_certificates_fail_raises :
  forall g i, g_encrypt_assertion g = true -> has_cert_for (g_cert_assertion g) g ->
    (forall k u, In (k, u) (certs_for (g_cert_assertion g) (g_md_certs g)) -> u = false) ->
    exists e, idp_build g i = Err e.
Proof. exact all_certs_unusable_raises. Qed.
Print Assumptions C17_all_certificates_fail_raises.

(* a configured verify_encrypt_cert_assertion / _advice callable: a response whose assertion (advice) was to be
   encrypted is emitted only if the certificate handed in is the one the callable accepts *)
Theorem C17_verified_certificate_used :
  forall g i t k0, idp_build g i = Ok t ->
    (g_encrypt_assertion g = true -> g_verify_assertion g = Some k0 -> g_cert_assertion g = CGiven k0 true) /\
    (g_pefim g = true -> g_verify_advice g = Some k0 -> g_cert_advice g = CGiven k0 true).
Proof.
  intros g i t k0 H. split; intros A B; [exact (verified_cert_used true g i t k0 H A B)|exact (verified_advice_cert_used true g i t k0 H A B)].
Qed.
Print Assumptions C17_verified_certificate_used.

(* ===================== identity provider, hypothesis on the SP's METADATA ===================== *)

(* what has_encrypt_cert_in_metadata / _encrypt_assertion / _authn_response find for the SP:
   exactly the certificates of the key descriptors of THAT entity (the first entry the store serves for the id,
   any role descriptor) whose use is encryption OR ABSENT — never a signing-only descriptor, never another entity's *)
Theorem C17_metadata_certificates :
  forall m sp k u, In (k, u) (md_enc_certs m sp) <->
    (exists e r kd, find_entity m sp = Some e /\ In r e /\ In kd r /\
                    (kd_use kd = None \/ kd_use kd = Some ENCRYPTION) /\ In k (kd_certs kd)) /\ u = negb (k =? 0)%N.
Proof. exact md_enc_certs_spec. Qed.
Print Assumptions C17_metadata_certificates.

(* C17_confidential with the hypothesis "the SP's metadata has a key descriptor whose use is encryption or absent":
   a use-less key (hand-written / third-party metadata) obliges the IdP exactly like use=encryption *)
Theorem C17_confidential_md :
  forall g m sp i1 i2, g_encrypt_assertion g = true -> sp_has_enc_key m sp ->
    vis (idp_build_md g m sp i1) = vis (idp_build_md g m sp i2).
Proof. exact confidential_md. Qed.
Print Assumptions C17_confidential_md.

Theorem C17_confidential_advice_md :
  forall g m sp n a1 a2, g_pefim g = true -> sp_has_enc_key m sp ->
    vis (idp_build_md g m sp {| i_name_id := n; i_attrs := a1 |}) = vis (idp_build_md g m sp {| i_name_id := n; i_attrs := a2 |}).
Proof. exact confidential_advice_md. Qed.
Print Assumptions C17_confidential_advice_md.

Theorem C17_no_identity_string_md :
  forall g m sp i out s, g_encrypt_assertion g = true -> sp_has_enc_key m sp -> idp_build_md g m sp i = Ok out ->
    (forall out0, idp_build_md g m sp no_ident = Ok out0 -> ~ In s (visible out0)) -> ~ In s (visible out).
Proof. exact no_occurrence_md. Qed.
Print Assumptions C17_no_identity_string_md.

(* every ciphertext opens under a certificate handed in, or under a real certificate that the SP's OWN entity
   offers in a key descriptor with use encryption or absent *)
Theorem C17_opens_only_under_sp_key_md :
  forall g m sp i t k, idp_build_md g m sp i = Ok t -> In k (enc_keys t) ->
    g_cert_assertion g = CGiven k true \/ g_cert_advice g = CGiven k true \/ (sp_enc_cert m sp k /\ k <> 0%N).
Proof. exact enc_keys_md. Qed.
Print Assumptions C17_opens_only_under_sp_key_md.

(* only a LATER certificate is usable (garbage first, signing descriptors first, another role descriptor,
   a second X509Data ...): a response is emitted and its outermost ciphertext is for the first usable one *)
Theorem C17_later_certificate_used :
  forall g m sp i k0, g_encrypt_assertion g = true -> g_cert_assertion g = CNone -> g_cert_advice g = CNone ->
    g_verify_assertion g = None -> g_verify_advice g = None ->
    g_self_contained g || g_pefim g || g_sign_assertion g = true ->
    sp_enc_cert m sp k0 -> k0 <> 0%N ->
    exists t k, idp_build_md g m sp i = Ok t /\ hd_error (enc_keys t) = Some k /\
                first_usable (md_enc_certs m sp) = Some k /\ sp_enc_cert m sp k /\ k <> 0%N.
Proof. exact later_cert_used_md. Qed.
Print Assumptions C17_later_certificate_used.

(* signing-only metadata (no key descriptor for encryption) and no certificate handed in: encryption is
   silently not done (observed, outside the statement) — but then NOTHING in the message claims to be
   encrypted: no <EncryptedAssertion>, no EncryptedData, at any depth *)
Theorem C17_no_certificate_nothing_claims_encrypted :
  forall g m sp i t, (forall k, ~ sp_enc_cert m sp k) -> g_cert_assertion g = CNone -> g_cert_advice g = CNone ->
    idp_build_md g m sp i = Ok t -> claims_encrypted t = false.
Proof. exact nothing_claims_encrypted_md. Qed.
Print Assumptions C17_no_certificate_nothing_claims_encrypted.

(* hypotheses satisfiable: use-less key after a signing key (another entity first) => encrypted for it, nothing of
   the identity readable; use-less key under another role only; garbage first; signing only => clear and nothing
   claims otherwise; the same entity in two sources => the first one served decides *)
Example C17_metadata_witness :
  (sp_has_enc_key md_useless SPID /\ md_enc_certs md_useless SPID = [(1%N, true)] /\
   exists out, idp_build_md g_enc md_useless SPID ident0 = Ok out /\ enc_keys out = [1%N] /\
               ~ In (E "subject-7") (visible out) /\ ~ In (E "anna@example.org") (visible out)) /\
  (md_enc_certs md_other_role SPID = [(1%N, true)]) /\
  (md_enc_certs md_later SPID = [(0%N, false); (1%N, true)] /\
   exists out, idp_build_md g_enc md_later SPID ident0 = Ok out /\ enc_keys out = [1%N]) /\
  ((forall k, ~ sp_enc_cert md_signing_only SPID k) /\
   exists out, idp_build_md g_enc md_signing_only SPID ident0 = Ok out /\ claims_encrypted out = false /\ In (E "subject-7") (visible out)) /\
  (md_enc_certs md_two_sources SPID = []).
Proof. exact md_witness. Qed.
Print Assumptions C17_metadata_witness.

(* the code before proposed_fix/C17-1: PEFIM + sign_assertion without sign_response / encrypt_assertion
   returned before anything was encrypted — the attribute assertion went out in clear *)
Theorem C17_confidential_advice_before_fix_refuted :
  g_pefim g_pefim_signed = true /\ has_cert_for (g_cert_advice g_pefim_signed) g_pefim_signed /\
  exists out, idp_build_before_fix g_pefim_signed ident0 = Ok out /\ In (E "anna@example.org") (visible out) /\ In (E "mail") (visible out) /\
              enc_keys out = [].
Proof. exact advice_clear_before_fix. Qed.
Print Assumptions C17_confidential_advice_before_fix_refuted.

Example C17_idp_witness :
  exists out, idp_build g_pefim_signed ident0 = Ok out /\ ~ In (E "anna@example.org") (visible out) /\ ~ In (E "mail") (visible out) /\
              In (E "subject-7") (visible out) /\ enc_keys out = [1%N].
Proof. exact advice_hidden_after_fix. Qed.
Print Assumptions C17_idp_witness.

(* ===================== service provider, shared pipeline model ===================== *)

(* the assertion stage accepts exactly when the stage that sends decrypted assertions through the PLAIN path
   (_assertion(…, verified=False): the signature looked at again) accepts, with the same state: the
   verified=True flag skips nothing that decrypt_assertions had not verified *)
Theorem C17_same_checks :
  forall c req s r s', parse_assertion c req s r = Ok s' <-> parse_assertion_uniform c req s r = Ok s'.
Proof. exact parse_assertion_same_checks. Qed.
Print Assumptions C17_same_checks.

(* so for every decrypted assertion of an accepted response: the facts C04 / C05 state for plain assertions
   (validity windows, audience, retained confirmations, solicitation) hold verbatim, its signature — when it
   has one — verified, and the plain-path function accepts it *)
Theorem C17_decrypted_checked :
  forall c r o, parse_response c r = Ok o ->
    Forall (fun a => assertion_facts c (r_irt r) a /\ (a_sig a = None \/ a_sig a = Some (Ok tt)) /\
                     exists req s s', check_assertion c (r_irt r) req false s a = Ok s')
           (decrypted_prefix (r_encrypted r)).
Proof. exact decrypted_checked. Qed.
Print Assumptions C17_decrypted_checked.

(* the application reads exactly the plain assertions and the assertions that opened, nothing else;
   the name identifier is the last one among them *)
Theorem C17_reads_exactly_processed :
  forall c r o, parse_response c r = Ok o ->
    (forall n, In n (o_assertions o) <-> In n (map a_id (processed r))) /\
    o_name_id o = last_name_id (r_assertions r ++ decrypted_prefix (r_encrypted r)) None.
Proof. exact reads_exactly_processed. Qed.
Print Assumptions C17_reads_exactly_processed.

(* content no configured key opens: no assertion, no identity *)
Theorem C17_undecryptable :
  forall c r o, parse_response c r = Ok o -> r_assertions r = [] -> (forall e, In e (r_encrypted r) -> e_opens e = false) ->
    o_assertions o = [] /\ o_name_id o = None.
Proof. exact undecryptable_nothing. Qed.
Print Assumptions C17_undecryptable.

(* ===================== service provider, document trees ===================== *)

(* Model.Response.parse_response is the instance of the retry skeleton used for trees *)
Theorem C17_pipeline_is_instance :
  forall c r, parse_response c r =
    parse_response_x (fun req s (_ : unit) => (parse_assertion c req s r, tt)) (fun req s _ => parse_assertion_residue c req s r) c r tt.
Proof. exact parse_response_is_x. Qed.
Print Assumptions C17_pipeline_is_instance.

(* the decrypt loops (first or second, any condition, keys, policy, faults, fuel) never remove or alter an
   assertion the parser saw before: plain assertions and assertions inside EncryptedAssertions only grow *)
Theorem C17_second_loop_only_adds :
  forall cond keys pol fuel fs root root' fs', dec_loop fuel cond keys pol fs root = Some (root', fs') ->
    subseq (as_of root) (as_of root') /\ subseq (ea_as_of root) (ea_as_of root').
Proof. intros cond keys pol. exact (dec_loop_grows cond keys pol). Qed.
Print Assumptions C17_second_loop_only_adds.

(* with the comparison of proposed_fix/C17-2: for EVERY document tree, key set, tool policy and fault
   schedule, every assertion the application reads (also after the retry of Entity._parse_response) has a
   signature that verified where it was looked at (or none) and is accepted by the plain-path function *)
Theorem C17_second_loop_sees_nothing_new :
  forall tc c r root fs o, t_fixed tc = true -> parse_response_t tc c r root fs = Ok o ->
    Forall (fun n => exists req v, a_id (v_a v) = n /\ view_not_bad v /\
                       exists sa sa', check_assertion c (r_irt r) req false sa (as_checked v) = Ok sa')
           (o_assertions o).
Proof. exact tree_same_checks. Qed.
Print Assumptions C17_second_loop_sees_nothing_new.

(* hence the C04/C05 facts for everything read from a tree document *)
Theorem C17_tree_assertion_facts :
  forall tc c r root fs o, t_fixed tc = true -> parse_response_t tc c r root fs = Ok o ->
    Forall (fun n => exists a, a_id a = n /\ assertion_facts c (r_irt r) a /\ (a_sig a = None \/ a_sig a = Some (Ok tt))) (o_assertions o).
Proof.
  intros tc c r root fs o Hf H. eapply Forall_impl; [|exact (tree_same_checks tc c r root fs o Hf H)].
  intros n (req & v & Hn & Hv & sa & sa' & Hc). exists (as_checked v). split; [exact Hn|]. split; [eapply check_assertion_facts; exact Hc|].
  cbn [as_checked a_sig]. destruct (sig_now v) as [[[]|e]|] eqn:Es; [now right|exfalso; exact (Hv e Es)|now left].
Qed.
Print Assumptions C17_tree_assertion_facts.

(* --- the code before proposed_fix/C17-2 --- *)

(* the obligation of the design, for the code as it stood: with a tool that fails on an EncryptedData it cannot
   open (xmlsec1) and does not fail otherwise, the second (verified=True) loop ends with exactly the response-level
   assertions the verifying call saw, and the plain assertions are the ones checked before decryption — because
   str(self.response) writes extension elements (a stray EncryptedData child of Response) after all assertions *)
Theorem C17_second_loop_nothing_new_without_faults :
  forall keys f1 f2 root t1 fs1 t2 fs2,
    dec_loop f1 find_encrypt_data keys PFail [] (reserialize root) = Some (t1, fs1) ->
    dec_loop f2 cond2 keys PFail fs1 t1 = Some (t2, fs2) ->
    as_of t2 = as_of root /\ ea_as_of t2 = ea_as_of t1.
Proof.
  intros keys f1 f2 root t1 fs1 t2 fs2 L1 L2. destruct (two_loops_nothing_new keys f1 f2 root t1 fs1 t2 fs2 L1 L2) as (_ & _ & A & B).
  split; assumption.
Qed.
Print Assumptions C17_second_loop_nothing_new_without_faults.

(* hence the conclusion of C17_second_loop_sees_nothing_new also WITHOUT the repair, but only fault-free *)
Theorem C17_second_loop_before_fix_partial :
  forall tc c r root o, t_pol tc = PFail -> parse_response_t tc c r root [] = Ok o ->
    Forall (fun n => exists req v, a_id (v_a v) = n /\ view_not_bad v /\
                       exists sa sa', check_assertion c (r_irt r) req false sa (as_checked v) = Ok sa')
           (o_assertions o).
Proof. exact tree_same_checks_nofault. Qed.
Print Assumptions C17_second_loop_before_fix_partial.

Definition me := s2l "https://sp.example.org/sp".
Definition acs := s2l "https://sp.example.org/acs/post".
Definition cfgW (b2 : bool) := {| entity_id := me; return_addrs := Some [acs]; wrs := false; was := b2; waors := false;
  allow_unsolicited := false; dest_regex_set := false; dest_regex_match := false; slack := 0; now := 1000000;
  asynch := true; outstanding := [(s2l "req-1", s2l "/home")]; conv_info := None; test_mode := false |}.
Definition asrtW (n : N) (sg : option (result unit)) (nooa : Z) := {| a_id := n; a_sig := sg; a_authn := [None];
  a_conditions := Some {| k_empty := false; k_nb := Some 999700; k_nooa := Some nooa; k_audiences := [[me]]; k_unknown_condition := false |};
  a_has_subject := true;
  a_confirmations := [{| c_method := Bearer; c_data := Some {| d_address := None; d_address_valid := true; d_nooa := Some 1000300;
                          d_nb := None; d_irt := Some (s2l "req-1"); d_recipient := Some acs |} |}];
  a_name_id := Some (s2l "alice") |}.
Definition envW := {| r_sig := None; r_valid_instance := true; r_irt := Some (s2l "req-1");
  r_version := Some V20; r_ver_lt2 := Some false; r_destination := Some acs; r_issue_instant := 1000000;
  r_status := Some {| st_code := Some (Code (Some Gen.StatusTable.STATUS_SUCCESS) None); st_msg := false |};
  r_assertions := []; r_encrypted := [] |}.
Definition tcW (pol : policy) (fixed : bool) := {| t_keys := [1%N]; t_pol := pol; t_fixed := fixed |}.
Definition bad_sig : option (result unit) := Some (Err SignatureError).
(* an encrypted assertion whose signature does NOT verify, want_assertions_signed on *)
Definition doc_bad := [DEA [DEnc 1 (DAsrt (asrtW 1 bad_sig 1000300) false [] [])]].

(* the first decrypt_keys call fails once (tool fault): the verifying call sees nothing, the second loop
   decrypts and takes the signature for granted — the assertion with the bad signature is read *)
Theorem C17_second_loop_before_fix_refuted :
  (exists o, parse_response_t (tcW PFail false) (cfgW true) envW doc_bad [true] = Ok o /\ o_assertions o = [1%N]) /\
  is_ok (parse_response_t (tcW PFail false) (cfgW true) envW doc_bad []) = false /\
  is_ok (parse_response_t (tcW PFail true) (cfgW true) envW doc_bad [true]) = false.
Proof. split; [eexists; split; vm_compute; reflexivity|]. split; vm_compute; reflexivity. Qed.
Print Assumptions C17_second_loop_before_fix_refuted.

(* what-if, NOT xmlsec1's behaviour: a tool that skips an EncryptedData it cannot open and decrypts the next
   one lets a stray EncryptedData (child of Response) surface as a plain assertion that no check ever sees
   (expired, unsigned, want_assertions_signed on); the comparison of C17-2 refuses that as well *)
Definition doc_stray := [DEA [DEnc 9 (DAsrt (asrtW 1 (Some (Ok tt)) 1000300) false [] [])];
                         DEnc 1 (DAsrt (asrtW 2 None 5) false [] [])].
Theorem C17_skipping_tool_before_fix_refuted :
  (exists o, parse_response_t (tcW PSkip false) (cfgW true) envW doc_stray [] = Ok o /\ o_assertions o = [2%N]) /\
  (exists o, parse_response_t (tcW PFail false) (cfgW true) envW doc_stray [] = Ok o /\ o_assertions o = []) /\
  is_ok (parse_response_t (tcW PSkip true) (cfgW true) envW doc_stray []) = false.
Proof. split; [eexists; split; vm_compute; reflexivity|]. split; [eexists; split; vm_compute; reflexivity|]. vm_compute; reflexivity. Qed.
Print Assumptions C17_skipping_tool_before_fix_refuted.

(* non-vacuity: PEFIM with encrypt_assertion (nested ciphertext, the second loop is needed), signed assertion,
   want_assertions_signed: accepted, the advice assertion is merged; with a foreign key nothing is read;
   an expired assertion inside the ciphertext is refused like a plain one *)
Definition adviceW := DAsrt (asrtW 2 None 1000300) false [] [].
Definition doc_pefim (k1 k2 : N) (nooa : Z) :=
  [DEA [DEnc k1 (DAsrt (asrtW 1 (Some (Ok tt)) nooa) false [DEA [DEnc k2 adviceW]] [])]].
Example C17_tree_witness :
  (exists o, parse_response_t (tcW PFail true) (cfgW true) envW (doc_pefim 1 1 1000300) [] = Ok o /\ o_assertions o = [1%N] /\
             o_name_id o = Some (s2l "alice") /\ advice_merged (tcW PFail true) (doc_pefim 1 1 1000300) (o_assertions o) = [2%N]) /\
  (exists o, parse_response_t (tcW PFail true) (cfgW true) envW (doc_pefim 7 1 1000300) [] = Ok o /\ o_assertions o = [] /\ o_name_id o = None) /\
  is_ok (parse_response_t (tcW PFail true) (cfgW true) envW (doc_pefim 1 1 999999) []) = false /\
  is_ok (parse_response_t (tcW PFail true) (cfgW true) envW [DAsrt (asrtW 1 (Some (Ok tt)) 999999) false [] []] []) = false.
Proof.
  split; [eexists; repeat split; vm_compute; reflexivity|]. split; [eexists; repeat split; vm_compute; reflexivity|].
  split; vm_compute; reflexivity.
Qed.
Print Assumptions C17_tree_witness.

(* --- decrypted assertions in a SIGNED response (Model/EncryptSigned.v) ---
   parse_assertion hands a `verified` flag to decrypt_assertions after the first decrypt loop and in the advice pass.
   A valid response signature covers the ciphertext, not what is inside it: both flags are False whatever the
   response signature is, the model with the flags explicit IS the model of the theorems above, ... *)
From PV Require Import Model.EncryptSigned Proofs.EncryptSigned_lemmas.
Theorem C17_verified_flag_ignores_response_signature :
  (forall signed, vf_first code_flags signed = false /\ vf_advice code_flags signed = false) /\
  (forall signed tc c irt req s root again fs,
     parse_t_v code_flags signed tc c irt req s root again fs = parse_t tc c irt req s root again fs) /\
  (forall tc c r root fs, parse_response_t_v code_flags tc c r root fs = parse_response_t tc c r root fs).
Proof. split; [exact code_flags_false|]. split; [exact parse_t_v_code|exact parse_response_t_v_code]. Qed.
Print Assumptions C17_verified_flag_ignores_response_signature.

(* ... hence C17_decrypted_checked for SIGNED responses: for every tree, key set, tool policy, fault schedule and every
   signature-requirement setting of the SP (c is arbitrary), every assertion read from a validly signed response
   satisfies the C04/C05 facts and its own signature, if any, verified *)
Theorem C17_decrypted_checked_signed_response :
  forall tc c r root fs o, t_fixed tc = true -> r_sig r = Some (Ok tt) ->
    parse_response_t_v code_flags tc c r root fs = Ok o ->
    Forall (fun n => exists a, a_id a = n /\ assertion_facts c (r_irt r) a /\ (a_sig a = None \/ a_sig a = Some (Ok tt))) (o_assertions o) /\
    Forall (fun n => exists req v, a_id (v_a v) = n /\ view_not_bad v /\
                       exists sa sa', check_assertion c (r_irt r) req false sa (as_checked v) = Ok sa') (o_assertions o).
Proof.
  intros tc c r root fs o Hf _ H. rewrite parse_response_t_v_code in H. split.
  - exact (C17_tree_assertion_facts tc c r root fs o Hf H).
  - exact (C17_second_loop_sees_nothing_new tc c r root fs o Hf H).
Qed.
Print Assumptions C17_decrypted_checked_signed_response.

(* the same code with a flag that trusts the response signature (verified = bool(self.response.signature)) is refuted:
   a validly signed response, an encrypted assertion whose own signature does NOT verify, want_assertions_signed on or
   off: read; the code as it is refuses it, and the trusting variant refuses it too when the response is unsigned.
   Likewise for the flag of the advice pass (PEFIM: encrypted advice assertion with a bad signature). *)
Definition envS := {| r_sig := Some (Ok tt); r_valid_instance := true; r_irt := Some (s2l "req-1");
  r_version := Some V20; r_ver_lt2 := Some false; r_destination := Some acs; r_issue_instant := 1000000;
  r_status := Some {| st_code := Some (Code (Some Gen.StatusTable.STATUS_SUCCESS) None); st_msg := false |};
  r_assertions := []; r_encrypted := [] |}.
Definition doc_pefim_bad :=
  [DEA [DEnc 1 (DAsrt (asrtW 1 (Some (Ok tt)) 1000300) false [DEA [DEnc 1 (DAsrt (asrtW 2 bad_sig 1000300) false [] [])]] [])]].
Theorem C17_trusting_response_signature_refuted :
  (forall b, exists o, parse_response_t_v trusting_flags (tcW PFail true) (cfgW b) envS doc_bad [] = Ok o /\ o_assertions o = [1%N]) /\
  (forall b, is_ok (parse_response_t_v code_flags (tcW PFail true) (cfgW b) envS doc_bad []) = false) /\
  (forall b, is_ok (parse_response_t_v trusting_flags (tcW PFail true) (cfgW b) envW doc_bad []) = false) /\
  (forall b, exists o, parse_response_t_v trusting_advice_flags (tcW PFail true) (cfgW b) envS doc_pefim_bad [] = Ok o /\ o_assertions o = [1%N]) /\
  (forall b, is_ok (parse_response_t_v code_flags (tcW PFail true) (cfgW b) envS doc_pefim_bad []) = false).
Proof.
  split; [intros []; eexists; split; vm_compute; reflexivity|]. split; [intros []; vm_compute; reflexivity|].
  split; [intros []; vm_compute; reflexivity|]. split; [intros []; eexists; split; vm_compute; reflexivity|intros []; vm_compute; reflexivity].
Qed.
Print Assumptions C17_trusting_response_signature_refuted.

(* non-vacuity: a validly signed response with a validly signed encrypted assertion is accepted and read *)
Example C17_signed_response_witness :
  exists o, parse_response_t_v code_flags (tcW PFail true) (cfgW true) envS
              [DEA [DEnc 1 (DAsrt (asrtW 1 (Some (Ok tt)) 1000300) false [] [])]] [] = Ok o /\ o_assertions o = [1%N].
Proof. eexists; split; vm_compute; reflexivity. Qed.
Print Assumptions C17_signed_response_witness.

(* GLUE to C16 (Proofs/Glue_enc_certs.v, docs/Glue.md): the metadata store of the *_md theorems is Model/CertSelect.v's;
   C16 ties Model/MdStore.v to MetadataStore.  For the store an IdP loaded from its configured sources, read as a
   CertSelect store ([abs_store num]): every ciphertext opens under a certificate handed in, or under a real
   certificate of an encryption / use-less KeyDescriptor of an UNEXPIRED EntityDescriptor carrying the SP's entity id
   in the document of a source load() registered; and the hypothesis sp_enc_cert of the theorems above is exactly
   "the entity the C16 store serves for the SP declares such a certificate". *)
From PV Require Model.MdStore Proofs.Glue_certs Proofs.Glue_enc_certs.
Theorem C17_ciphertext_keys_are_declared_in_loaded_metadata :
  forall num now srcs g sp i t k,
    idp_build_md g (Glue_certs.abs_store num (MdStore.load_all now [] srcs)) sp i = Ok t -> In k (enc_keys t) ->
    (g_cert_assertion g = CGiven k true \/ g_cert_advice g = CGiven k true \/
     (Glue_certs.declared_in_documents num now srcs MdStore.U_ENCRYPTION sp k /\ k <> 0%N)) /\
    (forall st x, sp_enc_cert (Glue_certs.abs_store num st) sp x <-> Glue_certs.declared_enc_key num st sp x).
Proof.
  intros num now srcs g sp i t k H Hk. split.
  - exact (Glue_enc_certs.ciphertext_keys_from_loaded_documents num now srcs g sp i t k H Hk).
  - intros st x. apply Glue_enc_certs.sp_enc_cert_declared.
Qed.
Print Assumptions C17_ciphertext_keys_are_declared_in_loaded_metadata.
