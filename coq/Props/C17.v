(* Props/C17.v — stub while building *)
From PV Require Import Lib.Base Model.Status Model.Response Model.Encrypt Proofs.Response_lemmas Proofs.EncryptSP_lemmas.
Theorem C17_stub : True. Proof. exact I. Qed.
Print Assumptions C17_stub.
