(* Props/C06.v — only statements, `exact` proofs and Print Assumptions. *)
From PV Require Import Lib.Base Gen.StatusTable Model.Status Proofs.Status_lemmas Model.StatusNear Proofs.StatusNear_lemmas.
Open Scope N_scope.

(* The documented mapping second-level status code -> error class (SAML core
   3.2.2.2 names; class names of response.py).  Written by hand; compared by the
   kernel with the table REGENERATED from today's source. *)
Definition P := "urn:oasis:names:tc:SAML:2.0:status:"%string.
Definition documented : list (str * str) := map (fun p => (s2l (P ++ fst p), s2l (snd p))) [
  ("VersionMismatch", "StatusVersionMismatch"); ("AuthnFailed", "StatusAuthnFailed");
  ("InvalidAttrNameOrValue", "StatusInvalidAttrNameOrValue");
  ("InvalidNameIDPolicy", "StatusInvalidNameidPolicy"); ("NoAuthnContext", "StatusNoAuthnContext");
  ("NoAvailableIDP", "StatusNoAvailableIdp"); ("NoPassive", "StatusNoPassive");
  ("NoSupportedIDP", "StatusNoSupportedIdp"); ("PartialLogout", "StatusPartialLogout");
  ("ProxyCountExceeded", "StatusProxyCountExceeded"); ("RequestDenied", "StatusRequestDenied");
  ("RequestUnsupported", "StatusRequestUnsupported");
  ("RequestVersionDeprecated", "StatusRequestVersionDeprecated");
  ("RequestVersionTooHigh", "StatusRequestVersionTooHigh");
  ("RequestVersionTooLow", "StatusRequestVersionTooLow");
  ("ResourceNotRecognized", "StatusResourceNotRecognized");
  ("TooManyResponses", "StatusTooManyResponses"); ("UnknownAttrProfile", "StatusUnknownAttrProfile");
  ("UnknownPrincipal", "StatusUnknownPrincipal"); ("UnsupportedBinding", "StatusUnsupportedBinding");
  ("Responder", "StatusResponder")
]%string.

Definition opt_eqb (a b : option str) : bool :=
  match a, b with Some x, Some y => str_eqb x y | None, None => true | _, _ => false end.
Definition same_mapping (t1 t2 : list (str * str)) : bool :=
  forallb (fun kv => opt_eqb (lookup (fst kv) t2) (Some (snd kv))) t1 &&
  forallb (fun kv => opt_eqb (lookup (fst kv) t1) (Some (snd kv))) t2.

(* today's STATUSCODE2EXCEPTION is exactly the documented mapping; every class
   in it is a StatusError subclass; STATUS_SUCCESS is the SAML success URI *)
Theorem C06_table_matches :
  same_mapping status_table documented = true /\
  forallb (fun kv => mem_str (snd kv) status_error_subclasses) status_table = true /\
  STATUS_SUCCESS = s2l (P ++ "Success").
Proof. vm_compute. repeat split; reflexivity. Qed.
Print Assumptions C06_table_matches.

(* A response whose (present) top-level status code is not Success is never
   accepted: whatever the assertion stage [rest] would say, for every request
   id / destination / time situation and every content *)
Theorem C06_non_success_never_accepted :
  forall (A : Type) (i : verify_in) (rest : result (option A)) st v sub,
    status i = Some st -> st_code st = Some (Code v sub) -> is_success v = false ->
    (forall a, parse_tail (authn_verify i rest) <> Ok a) /\ status_verify i <> Ok (Some tt).
Proof.
  intros A i rest st v sub Hs Hc Hv. split.
  - exact (authn_verify_not_some i rest (verify_core_nonsuccess i st v sub Hs Hc Hv)).
  - exact (status_verify_not_some i (verify_core_nonsuccess i st v sub Hs Hc Hv)).
Qed.
Print Assumptions C06_non_success_never_accepted.

(* …and when the checks that come first pass, the error is exactly the class
   [class_for]: the table's class for a listed second-level code, StatusError
   when there is none, KeyError (a generic error) for an unknown one *)
Theorem C06_exact_class :
  forall (A : Type) (i : verify_in) (rest : result (option A)) st v sub,
    id_mismatch i = false -> version_is_20 (version i) = true ->
    (asynchop i && negb (dest_ok i)) = false -> issue_ok i = Ok true ->
    status i = Some st -> st_code st = Some (Code v sub) -> is_success v = false ->
    parse_tail (authn_verify i rest) = Err (class_for status_table sub).
Proof.
  intros A i rest st v sub H1 H2 H3 H4 Hs Hc Hv. unfold authn_verify.
  rewrite (verify_core_exact i st v sub H1 H2 H3 H4 Hs Hc Hv). reflexivity.
Qed.
Print Assumptions C06_exact_class.

Theorem C06_class_for_documented :
  forall k cls, lookup k documented = Some cls ->
    class_for status_table (Some (Code (Some k) None)) = cls /\ mem_str cls status_error_subclasses = true.
Proof.
  intros k cls H.
  assert (forallb (fun kv => str_eqb (class_for status_table (Some (Code (Some (fst kv)) None))) (snd kv)
                             && mem_str (snd kv) status_error_subclasses) documented = true) as Hall
    by (vm_compute; reflexivity).
  rewrite forallb_forall in Hall.
  assert (In (k, cls) documented) as Hin.
  { clear Hall. revert H. generalize documented. induction l as [|[k' v'] l IH]; cbn [lookup]; [discriminate|].
    destruct (str_eqb_spec k k') as [->|Hn]; intros H.
    - left. congruence.
    - right. auto. }
  specialize (Hall _ Hin). cbn [fst snd] in Hall. apply andb_true_iff in Hall as [H1 H2].
  apply str_eqb_eq in H1. split; assumption.
Qed.
Print Assumptions C06_class_for_documented.

(* a Status without any StatusCode is an error too *)
Theorem C06_status_without_code :
  forall (A : Type) (i : verify_in) (rest : result (option A)) st,
    status i = Some st -> st_code st = None -> forall a, parse_tail (authn_verify i rest) <> Ok a.
Proof. intros A i rest st Hs Hc. exact (authn_verify_not_some i rest (verify_core_nocode i st Hs Hc)). Qed.
Print Assumptions C06_status_without_code.

(* Version other than "2.0": response and request are rejected *)
Theorem C06_version :
  (forall (A : Type) (i : verify_in) (rest : result (option A)),
      version_is_20 (version i) = false ->
      (forall a, parse_tail (authn_verify i rest) <> Ok a) /\ status_verify i <> Ok (Some tt)) /\
  (forall r, version_is_20 (r_version r) = false -> request_verify r = Ok None).
Proof.
  split.
  - intros A i rest H. split.
    + exact (authn_verify_not_some i rest (verify_core_version i H)).
    + exact (status_verify_not_some i (verify_core_version i H)).
  - exact request_verify_version.
Qed.
Print Assumptions C06_version.

(* ---- near-miss status codes ------------------------------------------------
   The model compares codes with exact string equality.  Any top-level code
   other than the literal specification URN of Success - in particular every
   proper substring and every proper superstring of it, every string of another
   length - is not Success, so it can never yield an accepted response. *)
Theorem C06_only_the_success_urn :
  forall (A : Type) (i : verify_in) (rest : result (option A)) st v sub,
    status i = Some st -> st_code st = Some (Code v sub) ->
    v <> Some (s2l "urn:oasis:names:tc:SAML:2.0:status:Success") ->
    (forall a, parse_tail (authn_verify i rest) <> Ok a) /\ status_verify i <> Ok (Some tt).
Proof.
  intros A i rest st v sub Hs Hc Hv.
  apply (C06_non_success_never_accepted A i rest st v sub Hs Hc).
  apply is_success_false_iff. exact Hv.
Qed.
Print Assumptions C06_only_the_success_urn.

Theorem C06_success_iff_exact_urn :
  (forall v, is_success v = true <-> v = Some SUCCESS_URN) /\
  (forall x, x <> SUCCESS_URN -> is_success (Some x) = false) /\
  (forall x, List.length x <> 42%nat -> is_success (Some x) = false).
Proof.
  split; [|split].
  - intros v. rewrite <- success_urn_is_constant. exact (is_success_true_iff v).
  - exact other_code_not_success.
  - exact length_differs_not_success.
Qed.
Print Assumptions C06_success_iff_exact_urn.

(* a proper substring is strictly shorter, hence different: `proper` may be read either way *)
Theorem C06_proper_substring_not_success :
  forall x, substring x SUCCESS_URN ->
    (x <> SUCCESS_URN <-> (List.length x < List.length SUCCESS_URN)%nat) /\
    (x <> SUCCESS_URN -> is_success (Some x) = false).
Proof.
  intros x Hsub. split; [split|].
  - exact (substring_proper_shorter x SUCCESS_URN Hsub).
  - intros Hl ->. exact (PeanoNat.Nat.lt_irrefl _ Hl).
  - exact (other_code_not_success x).
Qed.
Print Assumptions C06_proper_substring_not_success.

(* every generated near-miss (one character dropped / inserted / replaced / case
   changed, proper prefixes and suffixes with the empty string, white space around)
   of ANY non-empty string differs from it; for the Success URN: refused, with
   exactly the class of the second level when the earlier checks pass *)
Theorem C06_near_misses_differ :
  forall s x, s <> [] -> In x (near_misses s) -> x <> s.
Proof. exact near_misses_neq. Qed.
Print Assumptions C06_near_misses_differ.

Theorem C06_near_miss_top_never_accepted :
  forall (A : Type) (i : verify_in) (rest : result (option A)) st x sub,
    In x (near_misses SUCCESS_URN) ->
    status i = Some st -> st_code st = Some (Code (Some x) sub) ->
    ((forall a, parse_tail (authn_verify i rest) <> Ok a) /\ status_verify i <> Ok (Some tt)) /\
    (id_mismatch i = false -> version_is_20 (version i) = true ->
     (asynchop i && negb (dest_ok i)) = false -> issue_ok i = Ok true ->
     parse_tail (authn_verify i rest) = Err (class_for status_table sub)).
Proof.
  intros A i rest st x sub Hin Hs Hc.
  pose proof (near_miss_of_success_not_success x Hin) as Hv. split.
  - exact (C06_non_success_never_accepted A i rest st (Some x) sub Hs Hc Hv).
  - intros H1 H2 H3 H4. exact (C06_exact_class A i rest st (Some x) sub H1 H2 H3 H4 Hs Hc Hv).
Qed.
Print Assumptions C06_near_miss_top_never_accepted.

(* second level: a code that is not one of the 21 documented ones gets the generic
   error (KeyError) from today's table, never one of the specific classes; and no
   generated near-miss of a documented code is itself a documented code *)
Theorem C06_unlisted_second_level_generic :
  forall k sub, lookup k documented = None ->
    class_for status_table (Some (Code (Some k) sub)) = s2l "KeyError" /\
    mem_str (s2l "KeyError") (map snd documented) = false.
Proof.
  intros k sub H. split; [|vm_compute; reflexivity].
  apply class_for_unlisted. destruct (lookup k status_table) as [c|] eqn:E; [|reflexivity].
  apply lookup_some_in in E.
  destruct C06_table_matches as [Hm _]. unfold same_mapping in Hm.
  apply andb_true_iff in Hm as [Hm _]. rewrite forallb_forall in Hm.
  specialize (Hm _ E). cbn [fst snd] in Hm. rewrite H in Hm. discriminate.
Qed.
Print Assumptions C06_unlisted_second_level_generic.

Theorem C06_near_miss_second_level_unlisted :
  forall k x, In k (map fst documented) -> In x (near_misses k) ->
    lookup x documented = None /\ x <> SUCCESS_URN.
Proof.
  intros k x Hk Hx.
  assert (forallb (fun k => forallb (fun x => match lookup x documented with None => negb (str_eqb x SUCCESS_URN) | Some _ => false end)
                                    (near_misses k)) (map fst documented) = true) as Hall by (vm_compute; reflexivity).
  rewrite forallb_forall in Hall. specialize (Hall k Hk). rewrite forallb_forall in Hall. specialize (Hall x Hx).
  destruct (lookup x documented); [discriminate|]. split; [reflexivity|].
  apply str_eqb_neq. now apply negb_true_iff.
Qed.
Print Assumptions C06_near_miss_second_level_unlisted.

(* non-vacuity: the generated set for the Success URN is large and contains the
   strings the harness feeds to the real code (a prefix at a colon, the bare name,
   the empty string, a trailing blank) *)
Example C06_near_miss_witness :
  Nat.ltb 500 (List.length (near_misses SUCCESS_URN)) = true /\
  In (s2l "urn:oasis:names:tc:SAML:2.0:status:") (near_misses SUCCESS_URN) /\
  In (s2l "Success") (near_misses SUCCESS_URN) /\ In [] (near_misses SUCCESS_URN) /\
  In (s2l "urn:oasis:names:tc:SAML:2.0:status:Success ") (near_misses SUCCESS_URN) /\
  In (s2l "urn:oasis:names:tc:SAML:2.0:status:success") (near_misses SUCCESS_URN) /\
  refused_all status_table None (near_misses SUCCESS_URN) = true.
Proof.
  assert (forall x l, mem_str x l = true -> In x l) as M by (intros x l; apply mem_str_In).
  split; [vm_compute; reflexivity|].
  do 5 (split; [apply M; vm_compute; reflexivity|]). vm_compute. reflexivity.
Qed.
Print Assumptions C06_near_miss_witness.

(* non-vacuity: a Responder/AuthnFailed status with everything else fine *)
Example C06_witness :
  let st := {| st_code := Some (Code (Some STATUS_RESPONDER) (Some (Code (Some STATUS_AUTHN_FAILED) None))); st_msg := true |} in
  let i := {| id_mismatch := false; version := Some V20; ver_lt2 := Some false; asynchop := true; dest_ok := true;
              issue_ok := Ok true; status := Some st |} in
  parse_tail (authn_verify i (Ok (Some 7%nat))) = Err (s2l "StatusAuthnFailed")
  /\ parse_tail (authn_verify {| id_mismatch := false; version := Some V20; ver_lt2 := Some false; asynchop := true;
        dest_ok := true; issue_ok := Ok true;
        status := Some {| st_code := Some (Code (Some STATUS_SUCCESS) None); st_msg := false |} |} (Ok (Some 7%nat))) = Ok 7%nat.
Proof. vm_compute. split; reflexivity. Qed.
Print Assumptions C06_witness.

(* The title at full strength (possible since /repo repair "fix: a response without Status is refused"):
   whatever the message says, an identity is handed over ONLY IF the response carries a <Status> whose top-level
   StatusCode Value is exactly the Success URN and its Version is the string "2.0" — absent <Status>, <Status>
   without StatusCode, StatusCode without Value and every other Value are all refused. *)
Theorem C06_identity_only_from_success_2_0 :
  forall (A : Type) (i : verify_in) (rest : result (option A)) (a : A),
    parse_tail (authn_verify i rest) = Ok a ->
    version_is_20 (version i) = true /\
    exists st sub, status i = Some st /\ st_code st = Some (Code (Some STATUS_SUCCESS) sub).
Proof.
  intros A i rest a H.
  assert (Hc : verify_core i = Ok (Some tt)).
  { unfold authn_verify in H. destruct (verify_core i) as [[[]|]|e]; cbn in H; try discriminate. reflexivity. }
  split.
  - destruct (version_is_20 (version i)) eqn:Hv; [reflexivity|].
    exfalso. now apply (verify_core_version i Hv).
  - exact (verify_core_ok_success i Hc).
Qed.
Print Assumptions C06_identity_only_from_success_2_0.

(* the same for the logout / manage-name-id style responses (StatusResponse.verify) *)
Theorem C06_status_response_only_from_success :
  forall (i : verify_in), status_verify i = Ok (Some tt) ->
    exists st sub, status i = Some st /\ st_code st = Some (Code (Some STATUS_SUCCESS) sub).
Proof.
  intros i H. apply verify_core_ok_success.
  unfold status_verify in H. destruct (verify_core i) as [[[]|]|e]; try discriminate; [reflexivity|].
  destruct (str_eqb e (s2l "AssertionError")); discriminate.
Qed.
Print Assumptions C06_status_response_only_from_success.

(* a response with NO <Status> element at all is refused (StatusError) whenever the earlier checks pass … *)
Theorem C06_absent_status_refused :
  forall (A : Type) (i : verify_in) (rest : result (option A)),
    status i = None -> (forall a, parse_tail (authn_verify i rest) <> Ok a) /\ status_verify i <> Ok (Some tt).
Proof.
  intros A i rest Hs. split.
  - exact (authn_verify_not_some i rest (verify_core_absent_status i Hs)).
  - exact (status_verify_not_some i (verify_core_absent_status i Hs)).
Qed.
Print Assumptions C06_absent_status_refused.

(* … which was NOT so before the repair: status_ok returned True when `response.status` was None, so a validly
   signed assertion below a Status-less response yielded its identity (found by an adversary session, round 4) *)
Example C06_absent_status_before_fix_refuted :
  status_ok_before_fix None = Ok tt /\ status_ok None = Err (s2l "StatusError").
Proof. split; reflexivity. Qed.
Print Assumptions C06_absent_status_before_fix_refuted.
