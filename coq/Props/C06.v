(* Props/C06.v — only statements, `exact` proofs and Print Assumptions. *)
From PV Require Import Lib.Base Gen.StatusTable Model.Status Proofs.Status_lemmas.
Open Scope N_scope.

(* The documented mapping second-level status code -> error class (SAML core
   3.2.2.2 names; class names of response.py).  Written by hand; compared by the
   kernel with the table REGENERATED from today's source. *)
Definition P := "urn:oasis:names:tc:SAML:2.0:status:"%string.
Definition documented : list (str * str) := map (fun p => (s2l (P ++ fst p), s2l (snd p))) [
  ("VersionMismatch", "StatusVersionMismatch"); ("AuthnFailed", "StatusAuthnFailed");
  ("InvalidAttrNameOrValue", "StatusInvalidAttrNameOrValue");
  ("InvalidNameIDPolicy", "StatusInvalidNameidPolicy"); ("NoAuthnContext", "StatusNoAuthnContext");
  ("NoAvailableIDP", "StatusNoAvailableIdp"); ("NoPassive", "StatusNoPassive");
  ("NoSupportedIDP", "StatusNoSupportedIdp"); ("PartialLogout", "StatusPartialLogout");
  ("ProxyCountExceeded", "StatusProxyCountExceeded"); ("RequestDenied", "StatusRequestDenied");
  ("RequestUnsupported", "StatusRequestUnsupported");
  ("RequestVersionDeprecated", "StatusRequestVersionDeprecated");
  ("RequestVersionTooHigh", "StatusRequestVersionTooHigh");
  ("RequestVersionTooLow", "StatusRequestVersionTooLow");
  ("ResourceNotRecognized", "StatusResourceNotRecognized");
  ("TooManyResponses", "StatusTooManyResponses"); ("UnknownAttrProfile", "StatusUnknownAttrProfile");
  ("UnknownPrincipal", "StatusUnknownPrincipal"); ("UnsupportedBinding", "StatusUnsupportedBinding");
  ("Responder", "StatusResponder")
]%string.

Definition opt_eqb (a b : option str) : bool :=
  match a, b with Some x, Some y => str_eqb x y | None, None => true | _, _ => false end.
Definition same_mapping (t1 t2 : list (str * str)) : bool :=
  forallb (fun kv => opt_eqb (lookup (fst kv) t2) (Some (snd kv))) t1 &&
  forallb (fun kv => opt_eqb (lookup (fst kv) t1) (Some (snd kv))) t2.

(* today's STATUSCODE2EXCEPTION is exactly the documented mapping; every class
   in it is a StatusError subclass; STATUS_SUCCESS is the SAML success URI *)
Theorem C06_table_matches :
  same_mapping status_table documented = true /\
  forallb (fun kv => mem_str (snd kv) status_error_subclasses) status_table = true /\
  STATUS_SUCCESS = s2l (P ++ "Success").
Proof. vm_compute. repeat split; reflexivity. Qed.
Print Assumptions C06_table_matches.

(* A response whose (present) top-level status code is not Success is never
   accepted: whatever the assertion stage [rest] would say, for every request
   id / destination / time situation and every content *)
Theorem C06_non_success_never_accepted :
  forall (A : Type) (i : verify_in) (rest : result (option A)) st v sub,
    status i = Some st -> st_code st = Some (Code v sub) -> is_success v = false ->
    (forall a, parse_tail (authn_verify i rest) <> Ok a) /\ status_verify i <> Ok (Some tt).
Proof.
  intros A i rest st v sub Hs Hc Hv. split.
  - exact (authn_verify_not_some i rest (verify_core_nonsuccess i st v sub Hs Hc Hv)).
  - exact (status_verify_not_some i (verify_core_nonsuccess i st v sub Hs Hc Hv)).
Qed.
Print Assumptions C06_non_success_never_accepted.

(* …and when the checks that come first pass, the error is exactly the class
   [class_for]: the table's class for a listed second-level code, StatusError
   when there is none, KeyError (a generic error) for an unknown one *)
Theorem C06_exact_class :
  forall (A : Type) (i : verify_in) (rest : result (option A)) st v sub,
    id_mismatch i = false -> version_is_20 (version i) = true ->
    (asynchop i && negb (dest_ok i)) = false -> issue_ok i = Ok true ->
    status i = Some st -> st_code st = Some (Code v sub) -> is_success v = false ->
    parse_tail (authn_verify i rest) = Err (class_for status_table sub).
Proof.
  intros A i rest st v sub H1 H2 H3 H4 Hs Hc Hv. unfold authn_verify.
  rewrite (verify_core_exact i st v sub H1 H2 H3 H4 Hs Hc Hv). reflexivity.
Qed.
Print Assumptions C06_exact_class.

Theorem C06_class_for_documented :
  forall k cls, lookup k documented = Some cls ->
    class_for status_table (Some (Code (Some k) None)) = cls /\ mem_str cls status_error_subclasses = true.
Proof.
  intros k cls H.
  assert (forallb (fun kv => str_eqb (class_for status_table (Some (Code (Some (fst kv)) None))) (snd kv)
                             && mem_str (snd kv) status_error_subclasses) documented = true) as Hall
    by (vm_compute; reflexivity).
  rewrite forallb_forall in Hall.
  assert (In (k, cls) documented) as Hin.
  { clear Hall. revert H. generalize documented. induction l as [|[k' v'] l IH]; cbn [lookup]; [discriminate|].
    destruct (str_eqb_spec k k') as [->|Hn]; intros H.
    - left. congruence.
    - right. auto. }
  specialize (Hall _ Hin). cbn [fst snd] in Hall. apply andb_true_iff in Hall as [H1 H2].
  apply str_eqb_eq in H1. split; assumption.
Qed.
Print Assumptions C06_class_for_documented.

(* a Status without any StatusCode is an error too *)
Theorem C06_status_without_code :
  forall (A : Type) (i : verify_in) (rest : result (option A)) st,
    status i = Some st -> st_code st = None -> forall a, parse_tail (authn_verify i rest) <> Ok a.
Proof. intros A i rest st Hs Hc. exact (authn_verify_not_some i rest (verify_core_nocode i st Hs Hc)). Qed.
Print Assumptions C06_status_without_code.

(* Version other than "2.0": response and request are rejected *)
Theorem C06_version :
  (forall (A : Type) (i : verify_in) (rest : result (option A)),
      version_is_20 (version i) = false ->
      (forall a, parse_tail (authn_verify i rest) <> Ok a) /\ status_verify i <> Ok (Some tt)) /\
  (forall r, version_is_20 (r_version r) = false -> request_verify r = Ok None).
Proof.
  split.
  - intros A i rest H. split.
    + exact (authn_verify_not_some i rest (verify_core_version i H)).
    + exact (status_verify_not_some i (verify_core_version i H)).
  - exact request_verify_version.
Qed.
Print Assumptions C06_version.

(* non-vacuity: a Responder/AuthnFailed status with everything else fine *)
Example C06_witness :
  let st := {| st_code := Some (Code (Some STATUS_RESPONDER) (Some (Code (Some STATUS_AUTHN_FAILED) None))); st_msg := true |} in
  let i := {| id_mismatch := false; version := Some V20; ver_lt2 := Some false; asynchop := true; dest_ok := true;
              issue_ok := Ok true; status := Some st |} in
  parse_tail (authn_verify i (Ok (Some 7%nat))) = Err (s2l "StatusAuthnFailed")
  /\ parse_tail (authn_verify {| id_mismatch := false; version := Some V20; ver_lt2 := Some false; asynchop := true;
        dest_ok := true; issue_ok := Ok true;
        status := Some {| st_code := Some (Code (Some STATUS_SUCCESS) None); st_msg := false |} |} (Ok (Some 7%nat))) = Ok 7%nat.
Proof. vm_compute. split; reflexivity. Qed.
Print Assumptions C06_witness.

(* Observation kept visible (DESIGN 5.1 F7, outside the statement's quantifier):
   a response with NO <Status> element passes status_ok. *)
Example C06_absent_status_passes : status_ok None = Ok tt.
Proof. reflexivity. Qed.
Print Assumptions C06_absent_status_passes.
