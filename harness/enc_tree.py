"""C17 document trees: a response whose children are plain assertions, EncryptedAssertion
elements, foreign elements and EncryptedData nodes at arbitrary places (response level,
<Advice>, nested, stray), rendered to real XML (real signatures and ciphertexts through the
stand-in tool) and to a Coq term of Model.Encrypt.dtree.

node := ("A", spec, advice_nodes, ext_nodes)   spec = pipeline.A(...) dict (+ 'sig')
      | ("EA", kids) | ("O", kids) | ("Enc", keyname, node)
"""
import xml.etree.ElementTree as ET

import env
import enc_tools
import pipeline
import resp as R
from core import clist
from enc_tools import SAML, DS, KEYID
from saml2_tophat import samlp, saml, sigver

PV_NS = "urn:pv:other"


def A(spec, advice=(), ext=()):
    return ("A", spec, list(advice), list(ext))


def EA(*kids):
    return ("EA", list(kids))


def O(*kids):
    return ("O", list(kids))


def Enc(key, node):
    return ("Enc", key, node)


def render(node):
    """XML text of one node (stand-alone element with its own namespace declarations)"""
    kind = node[0]
    if kind == "Enc":
        return enc_tools.enc_blob(render(node[2]), node[1])
    if kind == "EA":
        return '<saml:EncryptedAssertion xmlns:saml="%s">%s</saml:EncryptedAssertion>' % (SAML, "".join(render(k) for k in node[1]))
    if kind == "O":
        return '<pv:other xmlns:pv="%s">%s</pv:other>' % (PV_NS, "".join(render(k) for k in node[1]))
    spec, advice, ext = node[1], node[2], node[3]
    obj = pipeline._assertion_obj(spec, "Z")
    el = ET.fromstring(str(obj))
    if advice:
        adv = ET.Element("{%s}Advice" % SAML)
        for k in advice:
            adv.append(ET.fromstring(render(k)))
        # schema position: after Conditions (or Subject / Issuer when absent), before the statements
        pos = 0
        for i, ch in enumerate(list(el)):
            if enc_tools.local(ch.tag) in ("Issuer", "Signature", "Subject", "Conditions"):
                pos = i + 1
        el.insert(pos, adv)
    for k in ext:
        el.append(ET.fromstring(render(k)))
    how = spec.get("sig")
    if how:
        tmpl = ET.fromstring(str(sigver.pre_signature_part(spec["id"], env.cert_b64("idp"))))
        pos = 1 if (len(el) and enc_tools.local(el[0].tag) == "Issuer") else 0
        el.insert(pos, tmpl)
        text = ET.tostring(el, encoding="unicode")
        text = pipeline._sign(text, "%s:Assertion" % SAML, spec["id"], how)
        if text.startswith("<?xml"):
            text = text[text.index("?>") + 2:].lstrip()
        return text
    return ET.tostring(el, encoding="unicode")


def render_response(kids, rspec=None):
    rspec = rspec or pipeline.R(assertions=[])
    r = samlp.Response(id=rspec["id"], in_response_to=rspec.get("irt"), version=rspec["version"],
                       issue_instant=pipeline.spell(rspec["issue_instant"], "Z"), destination=rspec.get("destination"),
                       issuer=saml.Issuer(text=rspec["issuer"]), status=R._status(rspec.get("status")))
    text = str(r)
    i = text.rindex("</")
    return text[:i] + "".join(render(k) for k in kids) + text[i:]


def all_specs(kids):
    """assertion specs of a tree, document order, through ciphertext"""
    out = []

    def go(n):
        if n[0] == "A":
            out.append(n[1])
            for k in n[2] + n[3]:
                go(k)
        elif n[0] == "Enc":
            go(n[2])
        else:
            for k in n[1]:
                go(k)
    for k in kids:
        go(k)
    return out


def id_table(kids):
    ids = {}
    for a in all_specs(kids):
        ids.setdefault(a["id"], len(ids) + 1)
    return ids


def coq_node(n, ids):
    if n[0] == "Enc":
        return "(DEnc %d %s)" % (KEYID[n[1]], coq_node(n[2], ids))
    if n[0] == "EA":
        return "(DEA %s)" % clist(n[1], lambda k: coq_node(k, ids))
    if n[0] == "O":
        return "(DOther %s)" % clist(n[1], lambda k: coq_node(k, ids))
    return "(DAsrt %s false %s %s)" % (pipeline._assertion_coq(n[1], ids[n[1]["id"]]), clist(n[2], lambda k: coq_node(k, ids)),
                                       clist(n[3], lambda k: coq_node(k, ids)))


def coq_root(kids, ids):
    return clist(kids, lambda k: coq_node(k, ids))


def describe(n):
    if n[0] == "Enc":
        return "Enc[%s](%s)" % (n[1], describe(n[2]))
    if n[0] in ("EA", "O"):
        return "%s[%s]" % (n[0], ", ".join(describe(k) for k in n[1]))
    s = n[1]
    tag = s["id"] + (":" + s["sig"] if s.get("sig") else "") + ("!" + s["mut"] if s.get("mut") else "")
    extra = ""
    if n[2]:
        extra += " advice[%s]" % ", ".join(describe(k) for k in n[2])
    if n[3]:
        extra += " ext[%s]" % ", ".join(describe(k) for k in n[3])
    return "A(%s%s)" % (tag, extra)
