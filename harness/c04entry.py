"""C04 — the OTHER public ways into response verification, and the process time zone.

(a) response.response_factory / response.authn_response / response.attribute_response and the classes
    AuthnResponse / AttributeResponse / AuthnQueryResponse / AuthzResponse / ArtifactResponse constructed
    directly (positionally and by keyword, every combination of asynchop / allow_unsolicited) and driven through
    .loads(...).verify(): the clock grid of c04.py through each of them, against Model.C04Entry (the flags the
    CALLER gave, whatever way they were passed) and the property as an oracle; the lax `test` mode must be on only
    when the caller names it (`lax-test-mode-without-being-asked:*`).
(b) a slice of the grid under os.environ['TZ'] in {UTC, Asia/Tokyo, America/New_York, Pacific/Kiritimati}
    (time.tzset(); restored afterwards): the verdict must be the one the property fixes, in every zone
    (`verdict-depends-on-process-time-zone:*`).  The controlled clock used there also answers datetime.now() /
    time.localtime() in LOCAL time, as the real ones do, so that a local-time reading shows.
"""
import copy
import datetime as _dt
import itertools
import os
import time as _time

import env
import pipeline
from core import Exn, cstr, cbool, cz, copt, clist
from env import NOW, SP_ACS_POST
from saml2_tophat import response as rsp
from saml2_tophat import time_util, validate
from saml2_tophat.sigver import security_context

OUT = {"req-1": "/came-from-1"}
RA = [SP_ACS_POST]
ZONES = ["UTC", "Asia/Tokyo", "America/New_York", "Pacific/Kiritimati"]


# ---------------------------------------------------------------- the entry points
class E(object):
    """what one call is made of: long-lived conf / security context of the SP, the message, the caller's flags"""

    def __init__(self, sp, xml, slack, asy, uns):
        self.conf = sp.config
        self.sec = sec_of(sp)
        self.ac = self.conf.attribute_converters
        self.eid = self.conf.entityid
        self.xml, self.slack, self.asy, self.uns = xml, slack, asy, uns
        self.out = dict(OUT)


_secs = {}


def sec_of(sp):
    """one long-lived security context per SP configuration, shared by every constructor call"""
    k = id(sp)
    if k not in _secs:
        _secs[k] = (sp, security_context(sp.config))
    return _secs[k][1]


def _nd(**kw):
    """keyword arguments a careful caller leaves out because they equal the documented default"""
    d = {}
    if kw.get("asy") is not True and "asy" in kw:
        d["asynchop"] = kw["asy"]
    if kw.get("uns"):
        d["allow_unsolicited"] = True
    return d


def _lv(o, e, origxml=False):
    o = o.loads(e.xml, False, e.xml) if origxml else o.loads(e.xml, False)
    return o.verify()


def _entity_kwargs(e):
    """the keyword set client_base.Base.parse_authn_request_response hands to AuthnResponse(self.sec, **kwargs)"""
    return {"outstanding_queries": e.out, "outstanding_certs": None, "allow_unsolicited": e.uns, "want_assertions_signed": False,
            "want_assertions_or_response_signed": False, "want_response_signed": False, "return_addrs": RA, "entity_id": e.eid,
            "attribute_converters": e.ac, "allow_unknown_attributes": False, "conv_info": None, "timeslack": e.slack, "asynchop": e.asy}


def _entity_call(e):
    kw = _entity_kwargs(e)
    kw.pop("outstanding_certs")
    return _lv(rsp.AuthnResponse(e.sec, **kw), e)


# name -> (context, factory?, combos of (asynchop, allow_unsolicited) it can be given, test asked by name?, slack from conf?, callable)
ALL4 = [(True, False), (True, True), (False, False), (False, True)]
ASY2 = [(False, False), (True, False)]
ENTRIES = {
    # ---- response_factory(xmlstr, conf, return_addrs, outstanding_queries, timeslack, decode, request_id, origxml, asynchop, allow_unsolicited, want_assertions_signed)
    "factory/pos": ("authn", True, ALL4, False, False,
                    lambda e: rsp.response_factory(e.xml, e.conf, RA, e.out, e.slack, False, 0, None, e.asy, e.uns, False).verify()),
    "factory/kw": ("authn", True, ALL4, False, False,
                   lambda e: rsp.response_factory(e.xml, e.conf, return_addrs=RA, outstanding_queries=e.out, timeslack=e.slack, decode=False,
                                                  asynchop=e.asy, allow_unsolicited=e.uns).verify()),
    "factory/kw-conf-slack": ("authn", True, ALL4, False, True,
                              lambda e: rsp.response_factory(e.xml, e.conf, return_addrs=RA, outstanding_queries=e.out, decode=False,
                                                             **_nd(asy=e.asy, uns=e.uns)).verify()),
    "factory/pos-request-id": ("authn", True, ALL4, False, False,
                               lambda e: rsp.response_factory(e.xml, e.conf, RA, e.out, e.slack, False, "req-1", e.xml, e.asy, e.uns).verify()),
    # ---- authn_response(conf, return_addrs, outstanding_queries, timeslack, asynchop, allow_unsolicited, want_assertions_signed)
    "authn_response/pos": ("authn", False, ALL4, False, False,
                           lambda e: _lv(rsp.authn_response(e.conf, RA, e.out, e.slack, e.asy, e.uns, False), e)),
    "authn_response/kw-conf-slack": ("authn", False, ALL4, False, True,
                                     lambda e: _lv(rsp.authn_response(e.conf, RA, outstanding_queries=e.out, **_nd(asy=e.asy, uns=e.uns)), e)),
    "authn_response/ecp": ("authn", False, [(True, True)], False, True,      # ecp.handle_ecp_authn_response
                           lambda e: _lv(rsp.authn_response(e.conf, RA, e.out, allow_unsolicited=True), e, origxml=True)),
    # ---- AuthnResponse(sec, attribute_converters, entity_id, return_addrs, outstanding_queries, timeslack, asynchop, allow_unsolicited, test=..)
    "AuthnResponse/pos": ("authn", False, ALL4, False, False,
                          lambda e: _lv(rsp.AuthnResponse(e.sec, e.ac, e.eid, RA, e.out, e.slack, e.asy, e.uns), e)),
    "AuthnResponse/kw": ("authn", False, ALL4, False, False,
                         lambda e: _lv(rsp.AuthnResponse(e.sec, e.ac, e.eid, return_addrs=RA, outstanding_queries=e.out, timeslack=e.slack,
                                                         asynchop=e.asy, allow_unsolicited=e.uns), e)),
    "AuthnResponse/kw-defaults": ("authn", False, ALL4, False, False,
                                  lambda e: _lv(rsp.AuthnResponse(e.sec, e.ac, e.eid, RA, outstanding_queries=e.out, timeslack=e.slack,
                                                                  **_nd(asy=e.asy, uns=e.uns)), e)),
    "AuthnResponse/entity-kwargs": ("authn", False, ALL4, False, False, _entity_call),
    "AuthnResponse/test=False": ("authn", False, ALL4, False, False,
                                 lambda e: _lv(rsp.AuthnResponse(e.sec, e.ac, e.eid, RA, e.out, e.slack, e.asy, e.uns, test=False), e)),
    "AuthnResponse/test=True": ("authn", False, ALL4, True, False,
                                lambda e: _lv(rsp.AuthnResponse(e.sec, e.ac, e.eid, RA, e.out, e.slack, e.asy, e.uns, test=True), e)),
    # ---- the query kinds: (sec, attribute_converters, entity_id, return_addrs, timeslack, asynchop, test=..)
    "AttributeResponse/pos": ("attr", False, ASY2, False, False, lambda e: _lv(rsp.AttributeResponse(e.sec, e.ac, e.eid, RA, e.slack, e.asy), e)),
    "AttributeResponse/kw": ("attr", False, ASY2, False, False,
                             lambda e: _lv(rsp.AttributeResponse(e.sec, e.ac, e.eid, return_addrs=RA, timeslack=e.slack, asynchop=e.asy), e)),
    "AttributeResponse/defaults": ("attr", False, [(False, False)], False, False,
                                   lambda e: _lv(rsp.AttributeResponse(e.sec, e.ac, e.eid, RA, timeslack=e.slack), e)),
    "AttributeResponse/test=True": ("attr", False, ASY2, True, False,
                                    lambda e: _lv(rsp.AttributeResponse(e.sec, e.ac, e.eid, RA, e.slack, e.asy, test=True), e)),
    "attribute_response/pos": ("attr", False, ASY2, False, False, lambda e: _lv(rsp.attribute_response(e.conf, RA, e.slack, e.asy), e)),
    "attribute_response/kw-conf-slack": ("attr", False, [(False, False)], False, True, lambda e: _lv(rsp.attribute_response(e.conf, return_addrs=RA), e)),
    "attribute_response/test=True": ("attr", False, [(False, False)], True, True, lambda e: _lv(rsp.attribute_response(e.conf, RA, test=True), e)),
    "AuthnQueryResponse/pos": ("authnq", False, ASY2, False, False, lambda e: _lv(rsp.AuthnQueryResponse(e.sec, e.ac, e.eid, RA, e.slack, e.asy), e)),
    "AuthnQueryResponse/kw": ("authnq", False, [(False, False)], False, False,
                              lambda e: _lv(rsp.AuthnQueryResponse(e.sec, e.ac, e.eid, return_addrs=RA, timeslack=e.slack), e)),
    "AuthzResponse/pos": ("authz", False, ASY2, False, False, lambda e: _lv(rsp.AuthzResponse(e.sec, e.ac, e.eid, RA, e.slack, e.asy), e)),
    "AuthzResponse/kw": ("authz", False, [(False, False)], False, False,
                         lambda e: _lv(rsp.AuthzResponse(e.sec, e.ac, e.eid, return_addrs=RA, timeslack=e.slack), e)),
    "ArtifactResponse/pos": ("artifact", False, ASY2, False, False, lambda e: _lv(rsp.ArtifactResponse(e.sec, e.ac, e.eid, RA, e.slack, e.asy), e)),
    "ArtifactResponse/test=True": ("artifact", False, [(False, False)], True, False,
                                   lambda e: _lv(rsp.ArtifactResponse(e.sec, e.ac, e.eid, RA, timeslack=e.slack, test=True), e)),
}
XCOQ = {"authn": "XAuthn", "attr": "XAttr", "authnq": "XAuthnQuery", "authz": "XAuthz", "artifact": "XArtifact"}
# the kind whose rejection clause (c04.violated) applies: which bounds the library consults in that context
VKIND = {"authn": "authn", "attr": "attrq", "authnq": "authnq", "authz": "attrq", "artifact": "attrq"}


def entry_cfg_coq(ctxname, asy, uns, slack, now, test):
    outstanding = list(OUT.items()) if ctxname == "authn" else []
    return ("{| entity_id := %s; return_addrs := %s; wrs := false; was := false; waors := false; allow_unsolicited := %s; "
            "dest_regex_set := false; dest_regex_match := false; slack := %s; now := %s; asynch := %s; outstanding := %s; "
            "conv_info := None; test_mode := %s |}"
            % (cstr(env.SP_ID), copt(RA, lambda l: clist(l, cstr)), cbool(uns), cz(slack), cz(now), cbool(asy),
               clist(outstanding, lambda kv: "(%s, %s)" % (cstr(kv[0]), cstr(kv[1]))), cbool(test)))


def observe(ctxname, r):
    if r is None:
        return None
    nooa = r.session_not_on_or_after if r.session_not_on_or_after > 0 else r.not_on_or_after
    if ctxname == "authn" and r.assertion is not None:
        nooa = r.session_info()["not_on_or_after"]      # the API the property names
    return [r.came_from, int(nooa)]


def call_entry(name, sp, xml, slack, asy, uns):
    ctxname, _fac, _combos, _test, from_conf, fn = ENTRIES[name]
    try:
        return observe(ctxname, fn(E(sp, xml, slack, asy, uns)))
    except BaseException as ex:  # noqa
        if isinstance(ex, (KeyboardInterrupt, SystemExit)):
            raise
        return Exn(type(ex).__name__)


# ---------------------------------------------------------------- (a) the grid through every entry point
_xml = {}


def xml_of(c04, c):
    """(now, spec, xml) of a cell; the XML text is built once per content (under UTC)"""
    k = (c["focus"], c["off"], c["slack"], tuple(c["present"]), c["spelling"], c["layout"])
    if k not in _xml:
        now, spec = c04.build(c["focus"], c["off"], c["slack"], tuple(c["present"]), c["spelling"], c["layout"])
        _xml[k] = (now, spec, pipeline.build_xml(spec), pipeline.response_coq(spec)[0])
    return _xml[k]


def ecell(name, asy, uns, focus, off, slack, present=("k_nooa", "d_nooa"), layout="F", spelling="Z"):
    return dict(entry=name, asy=asy, uns=uns, focus=focus, off=off, slack=slack, present=list(present), spelling=spelling, layout=layout)


def plan(c04, quick, rng):
    out = []
    for name, (ctxname, fac, combos, test, from_conf, fn) in sorted(ENTRIES.items()):
        for ci, (asy, uns) in enumerate(combos):
            dead = ctxname != "authn" and asy      # query classes get nothing outstanding: asynchop=True never accepts
            first = ci == 0
            for focus in c04.FOCI:
                # every combination of the flags: +-1 s around the edge and an hour off; the first one also +-2 s, 0, +-2 days
                offs = [-1, 1, 3600, -3600] + ([-2, 0, 2, -172800, 172800] if (first or not quick) and not dead else [])
                for off in offs:
                    slacks = (0,) if dead or abs(off) > 3600 else (0, 60) if (off in (-1, 1) or not quick) else (0,)
                    if not quick and off in (-1, 1) and not dead:
                        slacks = (0, 60, 10 ** 6)
                    for slack in slacks:
                        if from_conf and slack == 0 and abs(off) > 3600:
                            continue
                        out.append(ecell(name, asy, uns, focus, off, slack))
            if not dead and (first or not quick):
                # the other presence subsets and confirmation layouts, at the edges that matter most
                for focus, off in itertools.product(("k_nooa", "k_nb", "d_nooa", "sess"), (-1, 1, 3600, -3600)):
                    out.append(ecell(name, asy, uns, focus, off, 0, present=c04.ALL_PRESENT))
                    out.append(ecell(name, asy, uns, focus, off, 3600, present=()))
                for focus, off, layout in itertools.product(("d_nooa", "d_nb"), (-1, 1), ("g+F", "F+g", "sv+F")):
                    out.append(ecell(name, asy, uns, focus, off, 0, present=(), layout=layout))
        asy, uns = combos[0]
        for sp in ("frac", "noZ", "offset", "garbage"):
            for focus, off in itertools.product(("k_nooa", "ii_low"), (-1, 1)):
                out.append(ecell(name, asy, uns, focus, off, 0, spelling=sp))
    rng.shuffle(out)
    return out


def judge(ctx, c04, c, now, spec, got, zone=None):
    name = c["entry"]
    ctxname, fac, combos, test, from_conf, fn = ENTRIES[name]
    slack = c["slack"]
    flags = "asynchop=%s/allow_unsolicited=%s" % (c["asy"], c["uns"])
    rep = dict(c, unit="entry", zone=zone)
    ok = isinstance(got, list)
    if c["spelling"] in pipeline.BAD_SPELLINGS:
        if ok:
            ctx.oracle_fail("bad-timestamp-accepted:%s:%s" % (name, c["spelling"]), "timestamp spelling %s accepted through %s" % (c["spelling"], name), rep)
        return
    if c04.on_edge(now, slack, spec):
        return
    bad = c04.violated(now, slack, spec, VKIND[ctxname])
    if test:
        # lax mode asked for by name: Conditions time bounds (and the audience) are waived by the library; the other rules stay
        bad = [b for b in bad if b not in ("Conditions NotOnOrAfter", "Conditions NotBefore")]
    if ok and bad:
        if zone is not None:
            ctx.oracle_fail("verdict-depends-on-process-time-zone:%s:%s:%s" % (name, c["focus"], zone),
                            "TZ=%s: response accepted through %s (%s) although %s is violated (now=%d, allowance=%d)" % (zone, name, flags, ", ".join(bad), now, slack), rep)
        elif bad[0].startswith("Conditions Not") and not bad[0].endswith(">NotOnOrAfter") and abs(c["off"]) >= 3600:
            ctx.oracle_fail("lax-test-mode-without-being-asked:%s:%s" % (name, flags),
                            "%s (%s), `test` not named by the caller: a Conditions window violated by %d s is accepted (now=%d, allowance=%d)"
                            % (name, flags, abs(c["off"]), now, slack), rep)
        else:
            ctx.oracle_fail("accepted-outside-window:%s:%s:%s" % (name, flags, bad[0]),
                            "response accepted through %s (%s) although %s is violated (now=%d, allowance=%d)" % (name, flags, ", ".join(bad), now, slack), rep)
    deliverable = ctxname == "authn" or not c["asy"]
    if deliverable and not ok and c04.inside_with_margin(now, slack, spec):
        key = ("verdict-depends-on-process-time-zone:%s:%s:%s" % (name, c["focus"], zone)) if zone is not None else \
              ("rejected-inside-window:%s:%s:%s" % (name, flags, c["focus"]))
        ctx.oracle_fail(key, "%sprofile-conformant response inside every window (margin > allowance) rejected through %s (%s): %s"
                        % ("TZ=%s: " % zone if zone else "", name, flags, got), rep)
    if ok and ctxname == "authn" and not test and len(spec["assertions"]) == 1:
        a = spec["assertions"][0]
        want = a["authn"][0]["session_nooa"] or a["conditions"]["nooa"] or 0
        if got[1] != want:
            key = ("verdict-depends-on-process-time-zone:%s:session-expiry:%s" % (name, zone)) if zone is not None else \
                  ("session-expiry:%s:%s" % (name, "session-present" if a["authn"][0]["session_nooa"] else "conditions-only"))
            ctx.oracle_fail(key, "session expiry handed over through %s is %r, expected %r" % (name, got[1], want), rep)


def sp_for(slack):
    return pipeline.SPCase(slack=slack).sp()


def run_entries(ctx, c04):
    cells = plan(c04, ctx.quick, ctx.rng)
    cases = []
    with env.Clock(NOW) as clock:
        for n, c in enumerate(cells):
            now, spec, xml, rc = xml_of(c04, c)
            clock.now = now
            got = call_entry(c["entry"], sp_for(c["slack"]), xml, c["slack"], c["asy"], c["uns"])
            ctxname, fac, combos, test, from_conf, fn = ENTRIES[c["entry"]]
            ctx.count("entry:%s:%s" % (c["entry"], "accepted" if isinstance(got, list) else "rejected"))
            judge(ctx, c04, c, now, spec, got)
            if c04.on_edge(now, c["slack"], spec):
                ctx.evaluations += 1
                continue
            cases.append(dict(id=n, coq="(%s, %s, %s, %s)" % (XCOQ[ctxname], cbool(fac), entry_cfg_coq(ctxname, c["asy"], c["uns"], c["slack"], now, test), rc),
                              impl=got if isinstance(got, list) else Exn("rejected"), show=dict(c, seq=n, unit="entry")))
            if abs(c["off"]) <= 2 or abs(c["off"]) == 3600:
                ctx.nontriv(("entry",) + tuple(sorted((k, str(v)) for k, v in c.items())))
            if n % 2000 == 0:
                ctx.sample(dict(cell=c, now=now, outcome=got))
    ctx.correspond("entry_points_time_grid", pipeline.IMPORTS + " Model.C04Kinds Model.C04Entry", "show_entry", "(ectx * bool * cfg * response)", cases, shard=400)


# ---------------------------------------------------------------- (b) the process time zone
class _LocalFakeTime(env._FakeTime):
    """like env._FakeTime, and localtime() with no argument reads the controlled clock in the zone of the process"""

    def localtime(self, t=None):
        return _time.localtime(self._c.now if t is None else t)

    def ctime(self, t=None):
        return _time.ctime(self._c.now if t is None else t)


class ZoneClock(env.Clock):
    """env.Clock whose datetime.now() / datetime.today() / time.localtime() answer in LOCAL time like the real ones"""

    def __enter__(self):
        clock = self

        class FakeDT(_dt.datetime):
            @classmethod
            def utcnow(cls):
                return _dt.datetime.utcfromtimestamp(clock.now)

            @classmethod
            def now(cls, tz=None):
                return _dt.datetime.fromtimestamp(clock.now, tz)

            @classmethod
            def today(cls):
                return _dt.datetime.fromtimestamp(clock.now)
        self._saved = (time_util.time, time_util.datetime)
        time_util.time = _LocalFakeTime(self)
        time_util.datetime = FakeDT
        # the self-check compares against UTC readings: under another zone a library that reads local time is a FINDING
        # (reported by zone_text_layer with its own key), not a defeated clock patch
        if _time.timezone == 0 and _time.localtime(self.now).tm_gmtoff == 0:
            self.selfcheck()
        return self


class Zone(object):
    def __init__(self, name):
        self.name = name

    def __enter__(self):
        self._old = os.environ.get("TZ")
        os.environ["TZ"] = self.name
        _time.tzset()
        return self

    def __exit__(self, *a):
        if self._old is None:
            os.environ.pop("TZ", None)
        else:
            os.environ["TZ"] = self._old
        _time.tzset()


HOURS = [0, 1, 4, 5, 9, 10, 13, 14]


def zone_plan(c04, quick):
    """(kind of call, cell): IssueInstant at one day +- 0..14 h (+- 2 s), every other edge +- 2 s and +- k hours"""
    offs_h = sorted(set(s * (h * 3600 + d) for h in HOURS for s in (1, -1) for d in (2,)) | {-2, -1, 1, 2})
    out = []
    for focus in ("ii_low", "ii_high", "k_nooa", "k_nb", "d_nooa", "d_nb", "sess"):
        for off in offs_h:
            for slack in (0, 60):
                if slack and abs(off) > 2 and (abs(off) // 3600) not in (5, 9, 14):
                    continue
                out.append(("sp/post", c04.cell("authn", "post", focus, off, slack, ("k_nooa", "d_nooa"), "Z", "F")))
                if slack == 0:
                    out.append(("sp/soap", c04.cell("authn", "soap", focus, off, slack, c04.ALL_PRESENT, "Z", "F")))
                    out.append(("entry", ecell("factory/pos", True, False, focus, off, slack)))
                    out.append(("entry", ecell("AuthnResponse/kw", False, True, focus, off, slack, present=c04.ALL_PRESENT)))
                    if focus not in ("sess",):
                        out.append(("entry", ecell("AttributeResponse/pos", False, False, focus, off, slack)))
    for kind in ("logout", "mni", "attrq"):
        for focus, off in itertools.product(("ii_low", "ii_high"), offs_h):
            out.append(("sp/soap", c04.cell(kind, "soap", focus, off, 0, (), "Z", "F")))
    return out


def run_zone_cell(c04, how, c, clock):
    if how == "entry":
        now, spec, xml, _rc = xml_of(c04, c)
        clock.now = now
        return now, spec, call_entry(c["entry"], sp_for(c["slack"]), xml, c["slack"], c["asy"], c["uns"])
    now, spec = c04.build_cell(c)
    clock.now = now
    case = c04.case_for(c)
    _rc, ids = pipeline.response_coq(spec, case.enc_keys)
    return now, spec, c04.run_cell(case.sp(), c, spec, ids)


def run_zones(ctx, c04):
    cells = zone_plan(c04, ctx.quick)
    verdicts = {}
    for zone in ZONES:
        with Zone(zone):
            with ZoneClock(NOW) as clock:
                zone_text_layer(ctx, zone, clock)
                for i, (how, c) in enumerate(cells):
                    now, spec, got = run_zone_cell(c04, how, c, clock)
                    ok = isinstance(got, list) or got is True
                    verdicts.setdefault(i, {})[zone] = (ok, got)
                    ctx.count("zone:%s:%s" % (zone, "accepted" if ok else "rejected"))
                    ctx.evaluations += 1
                    if how == "entry":
                        judge(ctx, c04, c, now, spec, got, zone=zone)
                        continue
                    # the property, through the SP entry points, in this zone
                    if c04.on_edge(now, c["slack"], spec):
                        continue
                    bad = c04.violated(now, c["slack"], spec, c["kind"])
                    rep = dict(c, unit="zone", zone=zone)
                    if ok and bad:
                        ctx.oracle_fail("verdict-depends-on-process-time-zone:%s/%s:%s:%s" % (c["kind"], c["binding"], c["focus"], zone),
                                        "TZ=%s: %s response over %s accepted although %s is violated (now=%d, allowance=%d)"
                                        % (zone, c["kind"], c["binding"], ", ".join(bad), now, c["slack"]), rep)
                    if not ok and c04.inside_with_margin(now, c["slack"], spec):
                        ctx.oracle_fail("verdict-depends-on-process-time-zone:%s/%s:%s:%s" % (c["kind"], c["binding"], c["focus"], zone),
                                        "TZ=%s: %s response over %s inside every window rejected: %s" % (zone, c["kind"], c["binding"], got), rep)
                    if isinstance(got, list) and c["kind"] == "authn":
                        a = spec["assertions"][0]
                        want = a["authn"][0]["session_nooa"] or a["conditions"]["nooa"] or 0
                        if got[3] != want:
                            ctx.oracle_fail("verdict-depends-on-process-time-zone:%s/%s:session-expiry:%s" % (c["kind"], c["binding"], zone),
                                            "TZ=%s: session expiry handed over is %r, expected %r" % (zone, got[3], want), rep)
    # one verdict per cell whatever the zone (also the cells the property leaves unspecified)
    for i, (how, c) in enumerate(cells):
        v = verdicts[i]
        ref = v["UTC"]
        for zone in ZONES[1:]:
            if v[zone][0] != ref[0] or (isinstance(ref[1], list) and v[zone][1] != ref[1]):
                label = c.get("entry") or "%s/%s" % (c["kind"], c["binding"])
                ctx.oracle_fail("verdict-depends-on-process-time-zone:%s:%s:%s" % (label, c["focus"], zone),
                                "the same call at the same instant: %r under TZ=UTC, %r under TZ=%s" % (ref[1], v[zone][1], zone), dict(c, unit="zone" if how != "entry" else "entry", zone=zone))
        if abs(c["off"]) % 3600 <= 2:
            ctx.nontriv(("zone", how) + tuple(sorted((k, str(v2)) for k, v2 in c.items())))
    ctx.unit("process_time_zone", cases=len(cells) * len(ZONES), disagreements=0)


def zone_text_layer(ctx, zone, clock):
    """the time_util / validate functions themselves in this zone, against the instants the texts spell"""
    def fail(fn, what, arg):
        ctx.oracle_fail("verdict-depends-on-process-time-zone:time_util.%s:%s" % (fn, zone), "TZ=%s: %s" % (zone, what), dict(unit="zonetext", zone=zone, fn=fn, arg=arg))
    import calendar
    for t in (NOW, NOW + 86400 * 40, 1793494800, 1774749600, 0, 951782400):      # incl. instants around DST changes in New York 2026
        text = env.ts(t)
        clock.now = t
        ctx.evaluations += 1
        st = time_util.str_to_time(text)
        if calendar.timegm(st) != t or tuple(st) != tuple(_time.gmtime(t)):
            fail("str_to_time", "%s read as %r" % (text, tuple(st)), text)
        if time_util.utc_now() != t:
            fail("utc_now", "utc_now() = %r at instant %r" % (time_util.utc_now(), t), t)
        if time_util.instant() != text or time_util.instant(time_stamp=t) != text:
            fail("instant", "instant() = %r at %s" % (time_util.instant(), text), t)
        for h, d in itertools.product(HOURS, (-2, 2)):
            for s in (1, -1):
                delta = s * (h * 3600) + d
                clock.now = t + delta
                want_before = (t + delta) <= t
                for fn, want in (("before", want_before), ("after", not want_before), ("not_on_or_after", want_before), ("valid", want_before)):
                    got = getattr(time_util, fn)(text)
                    if got != want:
                        fail(fn, "%s(%s) = %r with now = text %+d s" % (fn, text, got, delta), [text, delta])
                try:
                    v = validate.validate_on_or_after(text, 0)
                    got = v == t
                except Exception:
                    got = False
                if got != (delta <= 0):
                    fail("validate_on_or_after", "validate_on_or_after(%s, 0) %s with now = text %+d s" % (text, "passes" if got else "fails", delta), [text, delta])
                try:
                    got = validate.validate_before(text, 0) is True
                except Exception:
                    got = False
                if got != (delta >= 0):
                    fail("validate_before", "validate_before(%s, 0) %s with now = text %+d s" % (text, "passes" if got else "fails", delta), [text, delta])
                lt = time_util.later_than(env.ts(t + delta), text)
                if lt != (delta >= 0):
                    fail("later_than", "later_than(text %+d s, text) = %r" % (delta, lt), [text, delta])
                ahead = calendar.timegm(time_util.time_in_a_while(seconds=5).timetuple())
                ago = calendar.timegm(time_util.time_a_while_ago(days=1).timetuple())
                if ahead != t + delta + 5 or ago != t + delta - 86400:
                    fail("time_in_a_while", "time_in_a_while / time_a_while_ago read %r / %r at instant %r" % (ahead, ago, t + delta), [text, delta])
                ctx.evaluations += 8


def run(ctx, c04):
    t0 = _time.time()
    run_entries(ctx, c04)
    t1 = _time.time()
    run_zones(ctx, c04)
    ctx.extra["seconds_entry_points_and_zones"] = [round(t1 - t0, 1), round(_time.time() - t1, 1)]


def replay(c04, c):
    """re-run one cell of this module (payload input with unit = entry / zone / zonetext)"""
    print("replay cell:", c)
    zone = c.get("zone")
    if c.get("unit") == "zonetext":
        text, delta = (c["arg"] if isinstance(c.get("arg"), list) else (c.get("arg"), 0))
        for z in ([zone] if zone else []) + ["UTC"]:
            with Zone(z):
                t = NOW if not isinstance(text, str) else __import__("calendar").timegm(_time.strptime(text, "%Y-%m-%dT%H:%M:%SZ"))
                with ZoneClock(t + delta):
                    fn = c["fn"]
                    f = getattr(time_util, fn, None) or getattr(validate, fn, None)
                    try:
                        print("TZ=%s now=text%+d s: %s ->" % (z, delta, fn), f(text) if fn in ("before", "after", "valid", "not_on_or_after", "str_to_time") else
                              (f(text, 0) if fn.startswith("validate") else f()))
                    except Exception as ex:  # noqa
                        print("TZ=%s now=text%+d s: %s raises %s" % (z, delta, fn, type(ex).__name__))
        return 0
    for z in ([zone] if zone else [None]) + (["UTC"] if zone and zone != "UTC" else []):
        class _N(object):
            def __enter__(self): return self
            def __exit__(self, *a): return False
        with (Zone(z) if z else _N()):
            with ZoneClock(NOW) as clock:
                how = "entry" if "entry" in c else "sp"
                now, spec, got = run_zone_cell(c04, how, c, clock)
                kind = VKIND[ENTRIES[c["entry"]][0]] if how == "entry" else c["kind"]
                print("TZ=%s now=%d allowance=%d violated bounds: %s" % (z or os.environ.get("TZ", "(unset)"), now, c["slack"], c04.violated(now, c["slack"], spec, kind)))
                print("   implementation outcome%s:" % (" through " + c["entry"] if how == "entry" else ""), got)
    return 0
