"""C02, encrypted advice: responses whose (plain or encrypted) assertion carries an <Advice> with
EncryptedAssertion element(s) whose decrypted assertion is unsigned / validly signed / signed with a corrupted
signature / signed with a foreign key (PEFIM layout).  The documents are the trees of harness/enc_tree.py
(Model.Encrypt.dtree, property C17's document model); here the RESPONSE may be signed too, the walk is over
all eight option settings, and the oracle is C02's documented rule extended to the advice signature:

  accepted  <=>  documented(options, response sig, assertion sig)  and  every advice signature present verifies.
"""
import itertools

import enc_tree
import env
import pipeline
from core import Exn, cbool, clist
from enc_tools import KEYID
from enc_tree import A as TA, EA, Enc
from env import NOW
from saml2_tophat import saml, samlp, sigver, class_name
import resp as R_

IMPORTS = "Model.Status Model.Response Model.Encrypt Model.AdviceSig"
MODEL = ("fun x : tcfg * cfg * response * list dtree => match x with (tc, c, r, root) => show_advice_run tc c r root end")
CTYPE = "(tcfg * cfg * response * list dtree)"

# advice kinds: (signature of the advice assertion, does it carry its own <Issuer>)
#   without an Issuer of its own the signer's certificates are found through the issuer of the ENCLOSING assertion
#   (the third argument of decrypt_assertions at the advice call site)
ADV_KINDS = {
    "unsigned": (None, True), "valid": ("valid", True), "corrupt": ("corrupt", True), "wrongkey": ("wrongkey", True),
    "valid-noissuer": ("valid", False), "wrongkey-noissuer": ("wrongkey", False),
}
SHAPES = ["plain", "encrypted", "plain-two-first", "plain-two-second", "encrypted-two-first", "encrypted-two-second"]


def main_spec(asig):
    return pipeline.A(id="a-1", name_id="subject-1", attributes={"urn:oid:2.5.4.42": ["Anna"]}, sig=asig)


def advice_spec(i, kind):
    sig, has_issuer = ADV_KINDS[kind]
    over = {} if has_issuer else {"issuer": None}
    return pipeline.A(id="b-%d" % i, name_id=None, attributes={"urn:oid:0.9.2342.19200300.100.1.3": ["mail-%d@example.org" % i]}, sig=sig,
                      confirmations=[], authn=[], **over)


def tree(shape, asig, kind):
    """the children of the Response"""
    base = shape.split("-")[0]
    if shape.endswith("-two-first"):        # two EncryptedAssertions in the advice: the one of interest first / second
        adv = [EA(Enc("sp", TA(advice_spec(1, kind)))), EA(Enc("sp", TA(advice_spec(2, "valid"))))]
    elif shape.endswith("-two-second"):
        adv = [EA(Enc("sp", TA(advice_spec(2, "valid")))), EA(Enc("sp", TA(advice_spec(1, kind))))]
    else:
        adv = [EA(Enc("sp", TA(advice_spec(1, kind))))]
    main = TA(main_spec(asig), advice=adv)
    return [main] if base == "plain" else [EA(Enc("sp", main))]


def render_response(kids, rsig):
    """enc_tree.render_response + a response signature (made last, over the ciphertexts, as an IdP does)"""
    env.tool_inprocess(True)
    rspec = pipeline.R(assertions=[], sig=rsig)
    r = samlp.Response(id=rspec["id"], in_response_to=rspec.get("irt"), version=rspec["version"],
                       issue_instant=pipeline.spell(rspec["issue_instant"], "Z"), destination=rspec.get("destination"),
                       issuer=saml.Issuer(text=rspec["issuer"]), status=R_._status(rspec.get("status")))
    if rsig:
        r.signature = sigver.pre_signature_part(r.id, env.cert_b64("idp"))
    text = str(r)
    i = text.rindex("</")
    text = text[:i] + "".join(enc_tree.render(k) for k in kids) + text[i:]
    if rsig:
        text = pipeline._sign(text, class_name(r), r.id, rsig)
    return text, rspec


_pool = {}


def message(shape, rsig, asig, kind):
    key = (shape, rsig, asig, kind)
    if key not in _pool:
        kids = tree(shape, asig, kind)
        xml, rspec = render_response(kids, rsig)
        _pool[key] = (xml, kids, enc_tree.id_table(kids), rspec)
    return _pool[key]


def case_coq(case, kids, ids, rspec):
    rc, _ = pipeline.response_coq(rspec)
    tc = "{| t_keys := %s; t_pol := PFail; t_fixed := true |}" % clist([KEYID[k] for k in case.enc_keys], str)
    return "(%s, %s, %s, %s)" % (tc, case.coq(NOW, rspec.get("destination")), rc, enc_tree.coq_root(kids, ids))


def run_impl(case, xml, ids):
    """[ids of the assertions read, name id] | Exn('rejected')  (= Model.AdviceSig.show_advice_run), + details"""
    import base64
    import copy
    sp = case.sp()
    wire = base64.b64encode(xml.encode("utf-8")).decode("ascii")
    try:
        r = sp.parse_authn_request_response(wire, case.binding_uri(), copy.copy(case.outstanding))
    except BaseException as e:  # noqa
        if isinstance(e, (KeyboardInterrupt, SystemExit)):
            raise
        return Exn("rejected"), type(e).__name__
    if r is None:
        return Exn("rejected"), "None"
    read = []
    for a in r.assertions:
        if ids.get(a.id, 0) not in read:
            read.append(ids.get(a.id, 0))
    return [read, r.name_id.text if r.name_id is not None else None], "accepted"


def documented(opts, rsig, asig, advice_sigs):
    """the documented rule, written independently of model and code"""
    wrs, was, waors = opts
    present_r, present_a = rsig is not None, asig is not None
    valid = all(s in (None, "valid") for s in [rsig, asig] + list(advice_sigs))
    return valid and (not wrs or present_r) and (not was or present_a) and (not waors or present_r or present_a)


def advice_sigs(shape, kind):
    return [ADV_KINDS[kind][0]] + (["valid"] if "-two-" in shape else [])


def plan(ctx):
    """(shape, rsig, asig, kind): the whole table for the one-advice shapes; the two-advice shapes on the signing
    patterns where the advice signature is the only thing that can decide"""
    out = []
    for shape, rsig, asig, kind in itertools.product(SHAPES[:2], [None, "valid", "corrupt"], [None, "valid", "corrupt"], ADV_KINDS):
        if "corrupt" in (rsig, asig) and kind not in ("valid", "corrupt"):
            continue
        out.append((shape, rsig, asig, kind))
    for shape, (rsig, asig), kind in itertools.product(SHAPES[2:], [(None, None), ("valid", "valid")] if ctx.quick else
                                                       list(itertools.product([None, "valid"], repeat=2)), ["valid", "corrupt", "wrongkey"]):
        out.append((shape, rsig, asig, kind))
    return out


def table(ctx):
    """every option setting (one long-lived client each) x every message of the plan, in a shuffled order in which
    each non-genuine message is directly followed by its genuine twin (same IDs r-1 / a-1 / b-1)"""
    cases, n = [], 0
    msgs = plan(ctx)
    for opts in itertools.product([False, True], repeat=3):
        case = pipeline.SPCase(wrs=opts[0], was=opts[1], waors=opts[2])
        order = list(msgs)
        ctx.rng.shuffle(order)
        walk = []
        for m in order:
            walk.append(m)
            if ADV_KINDS[m[3]][0] not in (None, "valid"):
                walk.append((m[0], m[1], m[2], "valid"))
        seen = set()
        for shape, rsig, asig, kind in walk:
            xml, kids, ids, rspec = message(shape, rsig, asig, kind)
            got, detail = run_impl(case, xml, ids)
            want = documented(opts, rsig, asig, advice_sigs(shape, kind))
            cell = dict(wrs=opts[0], was=opts[1], waors=opts[2], shape=shape, rsig=rsig, asig=asig, advice=kind)
            accepted = isinstance(got, list)
            ctx.count("advice:%s:%s" % (kind, "accepted" if accepted else "rejected"))
            if accepted != want:
                ctx.oracle_fail("advice:%s:adv=%s:R=%s:A=%s:wrs=%s:was=%s:waors=%s" % ((shape, kind, rsig, asig) + opts),
                                "%s although the documented rule says %s (advice assertion: %s)"
                                % ("accepted" if accepted else "rejected (%s)" % detail, "accept" if want else "refuse", kind), cell)
            if (shape, rsig, asig, kind) in seen:
                continue                      # the genuine twin again: oracle only
            seen.add((shape, rsig, asig, kind))
            ctx.nontriv(("advice",) + tuple(cell.items()))
            cases.append(dict(id=n, coq=case_coq(case, kids, ids, rspec), impl=got, show=cell))
            n += 1
            if n % 170 == 1:
                ctx.sample(dict(advice_cell=cell, tree=[enc_tree.describe(k) for k in kids], outcome=detail))
    return cases


def replay(cell, out=print):
    env.tool_inprocess(True)
    with env.Clock(NOW):
        case = pipeline.SPCase(wrs=cell["wrs"], was=cell["was"], waors=cell["waors"])
        xml, kids, ids, rspec = message(cell["shape"], cell["rsig"], cell["asig"], cell["advice"])
        out("document: response sig %s, children %s" % (cell["rsig"], [enc_tree.describe(k) for k in kids]))
        got, detail = run_impl(case, xml, ids)
        want = documented((cell["wrs"], cell["was"], cell["waors"]), cell["rsig"], cell["asig"], advice_sigs(cell["shape"], cell["advice"]))
        out("implementation outcome: %s (%s); documented: %s" % (got, detail, "accept" if want else "refuse"))
    return 0
