"""C13 - the duration validator (validate.valid_duration = time_util.parse_duration not raising) against
Model/Duration.v: value families, the independent statement of xs:duration, the observable of a parse."""
import re
from decimal import Decimal

from core import Exn, call, cstr

# XML Schema part 2, 3.2.6.1: -?PnYnMnDTnHnMnS, at least one item, T only before a time item, a fraction on the seconds only
XS_DURATION = re.compile(r"-?P(?=[0-9]|T[0-9])([0-9]+Y)?([0-9]+M)?([0-9]+D)?(T(?=[0-9])([0-9]+H)?([0-9]+M)?([0-9]+(\.[0-9]+)?S)?)?")
# what the code is meant to accept beyond that (ISO 8601; tests/test_10_time_util.py P0.5Y, P0,5Y; tests/test_13_validate.py
# P1Y2MT2.5H): a decimal fraction on the LAST item whatever it is, with . or , as the mark
_F = r"[0-9]+(?:[.,][0-9]+)?"
_LENIENT = re.compile(r"-?P(?=[0-9]|T[0-9])(?:%sY)?(?:%sM)?(?:%sD)?(?:T(?=[0-9])(?:%sH)?(?:%sM)?(?:%sS)?)?" % ((_F,) * 6))
_MARK_IN_LAST_ITEM = re.compile(r"[^.,]*(?:[.,][0-9]+)?[YMDHS]")


def iso_lenient(v):
    return bool(_LENIENT.fullmatch(v) and _MARK_IN_LAST_ITEM.fullmatch(v))


BASE = ["PT1H", "P1D", "P1Y2M3DT4H5M6S", "-P120D", "P1347Y", "P1Y2MT2H", "P0Y1347M0D", "P1DT1M", "P1DT30M", "PT30M", "P1MT1M", "P3Y6M4DT12H30M5S",
        "PT36H", "P1DT12H", "PT0.5S", "PT1M30.25S", "-PT5M", "P1Y2DT1M", "P10Y", "P1M", "PT1M", "P1YT1S", "P1DT1H1M", "P2Y3D"]
# spellings outside xs:duration the code accepts or accepted at some time, and near misses of them
LIBERAL = ["P", "PT", "-P", "-", "", "P1.5Y", "P 1D", "P+1D", "P1_0D", "P1DT", "P -1D", "PT1e3S", "PT1E3S", "PTinfS", "PTnanS", "PT.5S", "PT5.S", "PINFINITYD",
           "PTINFINITYS", "PTINFS", "PTNANS", "P1E3D", "PinfD", "PT1,5S", "PT,5S", "PT1,S", "P0,5Y", "P0.5Y", "PT1.5M", "PT2.5H", "P1Y2MT2.5H", "P1.5D", "P1.5M",
           "P١D", "PT１S", "P1D ", " P1D", "P1D\n", "PT 1 S", "PT+1.5S", "PT1_0.5S", "PT1_0S", "P1.5Y2M", "PT1.5H1S", "P1,5,Y", "PT1,5.S", "PT1.5.S",
           "PT1..5S", "PT1.S", "PT.S", "PT,S", "PT1.5", "PT1.5SS", "P1Y1.5M", "PT1H1.5S", "PT1.5H", "P-1D", "PT-1S", "P1Y-1M", "--P1D", "+P1D", "p1d", "P1d",
           "P1DT1Hx", "PT1Hjunk", "PT1H2", "PT1HPT1H", "PTjunk", "PT1H\nx", "PT1", "P1", "P1T", "PX", "P1YM", "PY", "PD", "PTS", "PTH", "PTM", "PT1HM", "PT1MH",
           "P1D1Y", "PT1S1H", "P1H", "P1S", "PT1D", "PT1Y", "P1YT1Y", "P1Y1Y", "PT1M1M", "P1M1M", "P1M1MT1M", "PTT1H", "P1DTT1H", "P1DT1HT", "P1YT", "P1Y2M3DT",
           "P1MT", "P00D", "P007D", "PT0S", "P0D", "PT0.0S", "PT00.50S", "PT0.000001S", "P999999999999Y", "PT1.123456789S", "P1DT1M1S", "P1MT1M1S", "P1Y2M3D",
           "PT0x10S", "P1e1D", "PT1ES", "PTE1S", "PT1e+3S", "PT1e-3S", "PT1.e1S", "PT.e1S", "PT1__0S", "PT_1S", "PT1_S", "PT1._5S", "PTInfinityS", "PTinfinityS",
           "PTinfinitS", "PT+infS", "PT nan S", "PT\t1S", "PT1\nS", "PT1\x0cS", "PT1\x1fS", "PT1\xa0S", "PT1 S", "P1éD"]
JUNK = ["junk", "x", " ", "2", "PT1H", "\nx", "T", "-", "1M", ".", ",", "0", "P"]
ALPHABET = ["0", "9", "1", ".", ",", "-", "+", " ", "_", "T", "P", "Y", "M", "D", "H", "S", "e", "x", "\n", "é", "١", "t", "s"]


def observable(r):
    """parse_duration's answer in the model's encoding: [negative?, year, mon, mday, hour, min, sec]; an int as it is, a float as
    [integer part, fraction digits without trailing zeros]; raises whatever the class"""
    if isinstance(r, Exn):
        return Exn("raises")
    sign, dic = r
    out = [sign == "-"]
    for k in ("tm_year", "tm_mon", "tm_mday", "tm_hour", "tm_min", "tm_sec"):
        x = dic[k]
        if isinstance(x, float):
            if x != x or x in (float("inf"), float("-inf")):
                out.append([repr(x)])
                continue
            ip, _, fp = format(Decimal(repr(x)), "f").partition(".")
            out.append([int(ip), fp.rstrip("0")])
        else:
            out.append(int(x))
    return out


def comparable_value(v):
    """float(text) and the digits agree exactly when there are at most 15 significant digits"""
    return all(len(n.replace(".", "").replace(",", "")) <= 15 for n in re.findall(r"[0-9.,]+", v))


def family(rng, quick):
    vals = list(BASE) + list(LIBERAL)
    for b in BASE:
        for i in range(len(b) + 1):
            vals += [b[:i], b[i:]]                                            # every prefix and suffix
        for i in range(len(b)):
            vals.append(b[:i] + b[i + 1:])                                    # every deletion
            if b[i] in "YMDTHS":
                for j in JUNK if not quick else rng.sample(JUNK, 6):         # junk after every designator
                    vals.append(b[:i + 1] + j + b[i + 1:])
        for i in range(len(b) + 1):
            for c in (ALPHABET if not quick else rng.sample(ALPHABET, 7)):    # single-character insertions / replacements
                vals.append(b[:i] + c + b[i:])
                if i < len(b):
                    vals.append(b[:i] + c + b[i + 1:])
    # durations made item by item: every subset of the seven places, numbers with leading zeros, a fraction on the last item
    codes = "YMDHMS"
    for n in range(600 if quick else 6000):
        pick = [rng.random() < 0.45 for _ in codes]
        if not any(pick):
            pick[rng.randrange(6)] = True
        last = max(i for i in range(6) if pick[i])
        s = rng.choice(["", "", "", "-"]) + "P"
        for i, c in enumerate(codes):
            if i == 3 and any(pick[3:]):
                s += "T"
            if pick[i]:
                num = rng.choice(["0", "1", "7", "12", "007", "30", "1347", str(rng.randrange(10 ** rng.randrange(1, 12)))])
                if i == last and rng.random() < 0.35:
                    num += rng.choice([".", ".", ","]) + rng.choice(["5", "25", "50", "0", "001", "125", "999"])
                s += num + c
        vals.append(s)
        if rng.random() < 0.6:                                                # ... and one mutation of it
            i = rng.randrange(len(s) + 1)
            c = rng.choice(ALPHABET)
            vals.append(rng.choice([s[:i] + c + s[i:], s[:i] + c + s[i + 1:], s[:i] + s[i + 1:], s + rng.choice(JUNK), s[:i] + s[i:][::-1]]))
    return list(dict.fromkeys(vals))


def classify(v):
    """accepted although outside xs:duration: which key"""
    if iso_lenient(v):
        return "duration-outside-xsd:comma-as-decimal-mark" if "," in v else "duration-outside-xsd:fraction-not-on-seconds"
    return "prim-sample:duration:%r" % v


def check(ctx, corr, imports, extra_values=()):
    from saml2_tophat import time_util, validate
    vals = list(dict.fromkeys(list(extra_values) + family(ctx.rng, ctx.quick)))
    verdict, value = [], []
    for v in vals:
        r = call(time_util.parse_duration, v)
        acc = call(validate.valid_duration, v)
        accepted = acc is True
        if accepted == isinstance(r, Exn) or (isinstance(acc, Exn) and acc.name != "NotValid"):
            ctx.oracle_fail("prim-raises:duration:%r" % v, "valid_duration(%r) -> %r but parse_duration -> %r" % (v, acc, r), {"unit": "duration", "value": v})
        xs = bool(XS_DURATION.fullmatch(v))
        ctx.count("duration:%s:%s" % ("accepted" if accepted else "refused", "xs" if xs else "not-xs"))
        ctx.nontriv(("duration", v))
        # the property, on the implementation alone: a value outside the lexical space of xs:duration is refused, one inside is not
        if accepted and not xs:
            ctx.oracle_fail(classify(v), "valid_duration accepts %r, which is no xs:duration (parse_duration -> %r)" % (v, r), {"unit": "duration", "value": v})
        elif xs and not accepted:
            ctx.oracle_fail("prim-sample:duration:%r" % v, "valid_duration refuses the valid xs:duration %r (parse_duration raises %s)" % (v, r.name if isinstance(r, Exn) else r),
                            {"unit": "duration", "value": v})
        verdict.append(dict(id="duration:%r" % v, coq="(%s,%s)" % (cstr("duration"), cstr(v)), impl=accepted, show=dict(key="duration", value=v)))
        if isinstance(r, Exn) or comparable_value(v):
            value.append(dict(id="duration_value:%r" % v, coq=cstr(v), impl=observable(r), show=dict(key="duration", value=v)))
    ctx.sample(dict(duration_family=len(vals), first=vals[:6]))
    # through prim_of: the validator key duration selects the Gallina definition (no table row involved)
    corr.correspond(ctx, "duration", imports, "fun p : str * str => VB (prim_of [] (fst p) (snd p))", "str * str", verdict, shard=700, timeout=600)
    corr.correspond(ctx, "duration_value", imports + " Model.Duration", "fun v : str => show_duration (parse_duration v)", "str", value, shard=700, timeout=600)
    return len(vals)
