"""Translator for C07: regenerate the entity-category release tables of EVERY
module in saml2_tophat/entity_category into coq/Gen/EntityCat.v (fail-closed).

Row encoding (Gen files may only depend on Lib.Base):
  key   : (bool * list str)   (true, [s]) = the string key s  ("" = always released)
                              (false, l)  = the tuple key l  (all of l must be categories of the SP)
  RELEASE        : list (key * list str)      attribute names exactly as written (Policy.compile lower-cases them)
  ONLY_REQUIRED  : option (list (key * bool)) None = the module has no such attribute
"""
import importlib
import os

from core import COQ, cstr, cbool, clist, write_if_changed, REPO

HDR = ("(* GENERATED from /repo/src/saml2_tophat/entity_category/*.py by harness/translate_c07.py on every run - do not edit *)\n"
       "From PV Require Import Lib.Base.\nOpen Scope N_scope.\n\n")


def ec_module_names():
    d = REPO + "/src/saml2_tophat/entity_category"
    return sorted(f[:-3] for f in os.listdir(d) if f.endswith(".py") and f != "__init__.py")


def _key(k):
    if isinstance(k, str):
        return (True, [k])
    if isinstance(k, tuple) and all(isinstance(x, str) for x in k):
        return (False, list(k))
    raise TypeError("entity-category key of unexpected shape: %r" % (k,))


def _ckey(k):
    return "(%s, %s)" % (cbool(k[0]), clist(k[1], cstr))


def read_tables():
    """{module: (release rows, only_required rows | None)} from the current working tree"""
    out = {}
    for name in ec_module_names():
        m = importlib.import_module("saml2_tophat.entity_category." + name)
        assert m.__file__.startswith(REPO + "/src/"), m.__file__
        rel = getattr(m, "RELEASE", None)
        if not isinstance(rel, dict):
            raise TypeError("%s.RELEASE is not a dict" % name)
        rows = []
        for k, items in rel.items():
            if not isinstance(items, (list, tuple)) or not all(isinstance(a, str) for a in items):
                raise TypeError("%s.RELEASE[%r] is not a list of names" % (name, k))
            rows.append((_key(k), list(items)))
        if hasattr(m, "ONLY_REQUIRED"):
            onr = m.ONLY_REQUIRED
            if not isinstance(onr, dict):
                raise TypeError("%s.ONLY_REQUIRED is not a dict" % name)
            orows = [(_key(k), bool(v)) for k, v in onr.items()]
        else:
            orows = None
        out[name] = (rows, orows)
    return out


def regen_entity_cat():
    tabs = read_tables()
    mods = []
    for name in sorted(tabs):
        rows, orows = tabs[name]
        rel = "[\n     " + ";\n     ".join("(%s, %s)" % (_ckey(k), clist(items, cstr)) for k, items in rows) + "]"
        if orows is None:
            onr = "None"
        else:
            onr = "(Some [" + "; ".join("(%s, %s)" % (_ckey(k), cbool(v)) for k, v in orows) + "])"
        mods.append("  (%s,\n    (%s,\n     %s))" % (cstr(name), rel, onr))
    text = (HDR +
            "Definition ec_rawkey := (bool * list str)%type.\n"
            "Definition ec_rawmodule := (list (ec_rawkey * list str) * option (list (ec_rawkey * bool)))%type.\n\n"
            "Definition ec_modules : list (str * ec_rawmodule) := [\n" + ";\n".join(mods) + "\n].\n")
    return write_if_changed(COQ + "/Gen/EntityCat.v", text)


if __name__ == "__main__":
    print(regen_entity_cat())
