"""Translators: regenerate coq/Gen/*.v from /repo's working tree (fail-closed).

Each function imports / parses the *current* source and writes a Coq file only
when its content changed (so that `make` rebuilds exactly what depends on it).
A translator that meets an unexpected shape raises -> broken obligation."""
import ast
import importlib
import os
import subprocess
import sys

from core import COQ, cstr, write_if_changed, REPO

HDR = "(* GENERATED from /repo by harness/translate.py on every run - do not edit *)\nFrom PV Require Import Lib.Base.\nOpen Scope N_scope.\n\n"


def _fresh(modname):
    """import a saml2_tophat module from the current working tree"""
    m = importlib.import_module(modname)
    assert m.__file__.startswith(REPO + "/src/"), m.__file__
    return m


def regen_status():
    resp = _fresh("saml2_tophat.response")
    samlp = _fresh("saml2_tophat.samlp")
    tab = resp.STATUSCODE2EXCEPTION
    if not isinstance(tab, dict):
        raise TypeError("STATUSCODE2EXCEPTION is not a dict")
    rows = []
    for k, v in tab.items():
        if not isinstance(k, str) or not isinstance(v, type):
            raise TypeError("unexpected STATUSCODE2EXCEPTION row %r" % ((k, v),))
        rows.append("  (%s, s2l \"%s\")" % (cstr(k), v.__name__))
    consts = []
    for name in sorted(dir(samlp)):
        if name.startswith("STATUS_") and isinstance(getattr(samlp, name), str):
            consts.append("Definition %s : str := %s.\n" % (name, cstr(getattr(samlp, name))))
    # which exception classes are StatusError subclasses (for "status-error class")
    subs = sorted(v.__name__ for v in set(tab.values()) if issubclass(v, resp.StatusError))
    text = (HDR + "".join(consts) +
            "\nDefinition status_table : list (str * str) := [\n" + ";\n".join(rows) + "\n].\n" +
            "\nDefinition status_error_subclasses : list str := [" +
            "; ".join('s2l "%s"' % s for s in subs) + "].\n")
    return write_if_changed(COQ + "/Gen/StatusTable.v", text)


ALL = [regen_status]


def regen_all():
    return [f() for f in ALL]
