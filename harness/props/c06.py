"""C06 — only successful SAML 2.0 responses ever yield an identity.

Exhaustive table: top-level status x second-level (21 standard + absent +
unknown) x message x {no assertion, valid signed assertion} x versions x
{POST (asynchop), SOAP (synchronous)}, real SP entry point vs Model/Status.v.
"""
import itertools

import env
import resp
import translate
from core import Exn, cstr, cbool, copt, call
from saml2_tophat import samlp, BINDING_HTTP_POST, BINDING_SOAP, BINDING_HTTP_REDIRECT

CLAIM = {
    "text": "Coq theorems (Props/C06.v) over the model of status_ok/_verify/verify and the None->error tail of _parse_response: a present non-Success top-level status or a Version other than 2.0 can never yield an accepted response, for every assertion content/signature state (the assertion stage is universally quantified) and every request-id/destination/time situation; when the earlier checks pass the error is exactly the documented class, with today's STATUSCODE2EXCEPTION regenerated from source and proved equal to the hand-written documented table. Tie to the code: exhaustive cross product of the property's quantifier through the real SP entry points vs the model on every run.",
    "note": "Trusted: Coq kernel + vm_compute; the model is hand-written and tied to the code by the exhaustive correspondence table (POST and SOAP, authn/logout responses, authn requests); float() of Version strings is an oracle input; stand-in xmlsec1 for the signed-assertion cells; reflection translator for the status table. A response lacking <Status> altogether is outside the quantifier and is accepted by the code (modelled, reported as an observation).",
    "technique": "machine-checked proof (Coq) + regenerated-table obligation + exhaustive model/implementation correspondence",
}
TRUSTED = [
    "Gen/StatusTable.v is regenerated from response.STATUSCODE2EXCEPTION / samlp.STATUS_* by reflection (harness/translate.py)",
    "float() of the Version string is an oracle input of the model (ver_lt2), computed by Python itself per case",
    "modelled: StatusResponse.status_ok/_verify, AuthnResponse.verify, StatusResponse.verify, Request._verify, the None->AttributeError tail of Entity._parse_response; the assertion stage is an abstract parameter `rest` (any value) in the theorems",
    "stand-in xmlsec1 (harness/tools/xmlsec_core.py) signs/verifies the 'valid signed assertion' cells",
]
ASSUMPTIONS = ["a response with no <Status> element at all is outside the property's quantifier (top-level status codes); the model carries it (C06_absent_status_passes) and the harness runs it without alarming"]
RULE = ("exhaustive cross product of the property's quantifier, every cell run through Saml2Client.parse_authn_request_response "
        "and through the model; a cell is non-trivial when the status is not Success or the version is not 2.0 (distinct by cell coordinates)")

SOAP_ENV = ('<ns0:Envelope xmlns:ns0="http://schemas.xmlsoap.org/soap/envelope/"><ns0:Body>%s</ns0:Body></ns0:Envelope>')

UNKNOWN = "urn:example:status:NotAStatus"


def regen(ctx):
    translate.regen_status()


def _status_coq(st):
    if st is None:
        return "None"
    if st.get("no_code"):
        return "(Some {| st_code := None; st_msg := %s |})" % cbool(bool(st.get("message")))
    sub = "None" if st["sub"] is None else "(Some (Code (Some %s) None))" % cstr(st["sub"])
    return "(Some {| st_code := Some (Code (Some %s) %s); st_msg := %s |})" % (
        cstr(st["code"]), sub, cbool(st["message"] is not None))


def _float_lt2(v):
    try:
        return float(v) < 2.0
    except ValueError:
        return None


def cells(ctx):
    tab = __import__("saml2_tophat.response", fromlist=["x"]).STATUSCODE2EXCEPTION
    tops = [samlp.STATUS_SUCCESS, samlp.STATUS_REQUESTER, samlp.STATUS_RESPONDER, samlp.STATUS_VERSION_MISMATCH,
            samlp.STATUS_AUTHN_FAILED, samlp.STATUS_NO_PASSIVE, samlp.STATUS_PARTIAL_LOGOUT, UNKNOWN]
    seconds = [None, UNKNOWN] + sorted(tab.keys())
    versions = ["2.0", "1.0", "1.1", "2.1", "3.0", "garbage", "2", "2.00", "NaN", " 2.0", "-1", "1e1"]
    out = []
    for top, sec, msg, has_a, ver, bind in itertools.product(
            tops, seconds, [None, "denied because"], [False, True], versions, ["post", "soap"]):
        # thin the product on the quick tier only where the two halves are independent:
        # non-2.0 versions are combined with 3 second-level codes only
        if ver != "2.0" and sec not in (None, UNKNOWN, samlp.STATUS_AUTHN_FAILED):
            continue
        if ctx.quick and bind == "soap" and msg is not None and ver == "2.0" and top not in (samlp.STATUS_SUCCESS, samlp.STATUS_RESPONDER):
            continue
        out.append(dict(top=top, sec=sec, msg=msg, has_a=has_a, ver=ver, bind=bind,
                        status={"code": top, "sub": sec, "message": msg}))
    # extra cells: Status without StatusCode, no Status at all
    for has_a, bind in itertools.product([False, True], ["post", "soap"]):
        out.append(dict(top=None, sec=None, msg=None, has_a=has_a, ver="2.0", bind=bind, status={"no_code": True}))
        out.append(dict(top=None, sec=None, msg=None, has_a=has_a, ver="2.0", bind=bind, status=None))
    return out


def run(ctx):
    env.tool_inprocess(True)
    sp = env.make_sp()
    cs = cells(ctx)
    cases = []
    with env.Clock(env.NOW):
        for n, c in enumerate(cs):
            spec = resp.default_response(
                version=c["ver"], status=c["status"],
                assertions=[resp.default_assertion(sign=True)] if c["has_a"] else [])
            xml = resp.build(spec)
            if c["bind"] == "soap":
                got = resp.observe(sp, SOAP_ENV % xml, binding=BINDING_SOAP)
            else:
                got = resp.observe(sp, xml)
            impl = True if isinstance(got, list) else got
            # the assertion stage as observed independently of status: what
            # parse_assertion does for this assertion content
            rest = "(Ok (Some tt))" if c["has_a"] else '(Err (s2l "Exception"))'
            vi = ("{| id_mismatch := false; version := Some %s; ver_lt2 := %s; asynchop := %s; dest_ok := true; "
                  "issue_ok := Ok true; status := %s |}" % (
                      cstr(c["ver"]), copt(_float_lt2(c["ver"]), cbool), cbool(c["bind"] == "post"), _status_coq(c["status"])))
            cases.append(dict(id=n, coq="(%s, %s)" % (vi, rest), impl=impl,
                              show={k: c[k] for k in ("top", "sec", "msg", "has_a", "ver", "bind")}))
            nonsucc = c["status"] is not None and c["top"] != samlp.STATUS_SUCCESS
            if nonsucc or c["ver"] != "2.0":
                ctx.nontriv((c["top"], c["sec"], c["msg"], c["has_a"], c["ver"], c["bind"], str(c["status"])))
            ctx.count("outcome:" + (impl.name if isinstance(impl, Exn) else str(impl)))
            # implementation-level oracle: the property itself
            if nonsucc and impl is True:
                ctx.oracle_fail("accepted-nonsuccess:%s:%s:%s:%s" % (c["top"], c["sec"], c["ver"], c["bind"]),
                                "response with top-level status %s accepted" % c["top"], dict(c, xml=xml))
            if c["ver"] != "2.0" and impl is True:
                ctx.oracle_fail("accepted-version:%s:%s" % (c["ver"], c["bind"]),
                                "response with Version %r accepted" % c["ver"], dict(c, xml=xml))
            if nonsucc and c["ver"] == "2.0" and c["sec"] in _documented() and isinstance(impl, Exn) \
                    and impl.name != _documented()[c["sec"]]:
                ctx.oracle_fail("wrong-class:%s:%s" % (c["sec"], c["bind"]),
                                "second-level %s raised %s, documented %s" % (c["sec"], impl.name, _documented()[c["sec"]]),
                                dict(c, xml=xml))
            if n % 400 == 0:
                ctx.sample(dict(cell=cases[-1]["show"], outcome=impl))
    ctx.exhaustive = True
    ctx.correspond("authn_response_status", "Model.Status",
                   "fun c : verify_in * result (option unit) => show_result (fun _ => VB true) (parse_tail (authn_verify (fst c) (snd c)))",
                   "(verify_in * result (option unit))", cases)
    run_logout(ctx, sp)
    run_request(ctx)


_DOC = None


def _documented():
    """the documented table, independent of the code: SAML core names -> class names"""
    global _DOC
    if _DOC is None:
        P = "urn:oasis:names:tc:SAML:2.0:status:"
        names = {"VersionMismatch": "StatusVersionMismatch", "AuthnFailed": "StatusAuthnFailed",
                 "InvalidAttrNameOrValue": "StatusInvalidAttrNameOrValue", "InvalidNameIDPolicy": "StatusInvalidNameidPolicy",
                 "NoAuthnContext": "StatusNoAuthnContext", "NoAvailableIDP": "StatusNoAvailableIdp",
                 "NoPassive": "StatusNoPassive", "NoSupportedIDP": "StatusNoSupportedIdp",
                 "PartialLogout": "StatusPartialLogout", "ProxyCountExceeded": "StatusProxyCountExceeded",
                 "RequestDenied": "StatusRequestDenied", "RequestUnsupported": "StatusRequestUnsupported",
                 "RequestVersionDeprecated": "StatusRequestVersionDeprecated",
                 "RequestVersionTooHigh": "StatusRequestVersionTooHigh", "RequestVersionTooLow": "StatusRequestVersionTooLow",
                 "ResourceNotRecognized": "StatusResourceNotRecognized", "TooManyResponses": "StatusTooManyResponses",
                 "UnknownAttrProfile": "StatusUnknownAttrProfile", "UnknownPrincipal": "StatusUnknownPrincipal",
                 "UnsupportedBinding": "StatusUnsupportedBinding", "Responder": "StatusResponder"}
        _DOC = {P + k: v for k, v in names.items()}
    return _DOC


def run_logout(ctx, sp):
    """StatusResponse.verify (AssertionError swallowed) through parse_logout_request_response"""
    from saml2_tophat import saml
    cases = []
    tops = [samlp.STATUS_SUCCESS, samlp.STATUS_REQUESTER, samlp.STATUS_PARTIAL_LOGOUT, UNKNOWN]
    seconds = [None, UNKNOWN, samlp.STATUS_PARTIAL_LOGOUT, samlp.STATUS_UNKNOWN_PRINCIPAL]
    with env.Clock(env.NOW):
        for top, sec, ver in itertools.product(tops, seconds, ["2.0", "1.1", "3.0", "x", "2.00"]):
            st = {"code": top, "sub": sec, "message": None}
            r = samlp.LogoutResponse(id="lr-1", in_response_to="req-1", version=ver, issue_instant=env.ts(env.NOW),
                                     issuer=saml.Issuer(text=env.IDP_ID), status=resp._status(st))
            got = call(sp.parse_logout_request_response, SOAP_ENV % str(r), BINDING_SOAP)
            impl = got if isinstance(got, Exn) or got is None else True
            vi = ("{| id_mismatch := false; version := Some %s; ver_lt2 := %s; asynchop := false; dest_ok := true; "
                  "issue_ok := Ok true; status := %s |}" % (cstr(ver), copt(_float_lt2(ver), cbool), _status_coq(st)))
            cases.append(dict(id=len(cases), coq=vi, impl=impl, show=dict(top=top, sec=sec, ver=ver, kind="logout_response")))
            if top != samlp.STATUS_SUCCESS or ver != "2.0":
                ctx.nontriv(("logout", top, sec, ver))
                if impl is True:
                    ctx.oracle_fail("logout-accepted:%s:%s" % (top, ver), "logout response status %s version %s accepted" % (top, ver),
                                    dict(top=top, sec=sec, ver=ver, xml=str(r)))
    # Entity._parse_response tail applies here too (verify() -> None -> AttributeError in finally)
    ctx.correspond("logout_response_status", "Model.Status",
                   "fun i : verify_in => show_result (fun _ => VB true) (parse_tail (status_verify i))", "verify_in", cases)


def run_request(ctx):
    """Request.verify: version assertion / destination / issue instant, through Server.parse_authn_request"""
    import base64
    from saml2_tophat import saml
    idp = env.make_idp()
    cases = []
    with env.Clock(env.NOW):
        for ver, dest, dt in itertools.product(["2.0", "1.0", "1.1", "2.1", "3.0", "garbage", "2.00", "2"],
                                               [None, env.IDP_SSO, "https://evil.example.org/sso"],
                                               [0, 86400 * 2, -86400 * 2]):
            rq = samlp.AuthnRequest(id="rq-1", version=ver, issue_instant=env.ts(env.NOW + dt), destination=dest,
                                    issuer=saml.Issuer(text=env.SP_ID),
                                    assertion_consumer_service_url=env.SP_ACS_POST)
            b64 = base64.b64encode(str(rq).encode()).decode()
            got = call(idp.parse_authn_request, b64, BINDING_HTTP_POST)
            impl = got if isinstance(got, Exn) or got is None else True
            # the IdP has an SSO endpoint only for Redirect; for POST receiver_addrs == []
            ri = ("{| r_version := Some %s; r_dest_present := %s; r_have_addrs := false; r_dest_in_addrs := false; r_issue_ok := Ok %s |}"
                  % (cstr(ver), cbool(dest is not None), cbool(dt == 0)))
            cases.append(dict(id=len(cases), coq=ri, impl=impl, show=dict(ver=ver, dest=dest, dt=dt, kind="authn_request/post")))
            if ver != "2.0":
                ctx.nontriv(("request", ver, dest, dt))
                if impl is True:
                    ctx.oracle_fail("request-version:%s" % ver, "request with Version %r handed over" % ver, dict(ver=ver, xml=str(rq)))
    ctx.correspond("request_verify", "Model.Status", "fun i : req_verify_in => show_unit_opt (request_verify i)", "req_verify_in", cases)


def replay(ctx, payload):
    env.tool_inprocess(True)
    sp = env.make_sp()
    inp = payload.get("input", {})
    xml = inp.get("xml")
    print("replay input:", {k: v for k, v in inp.items() if k != "xml"})
    if xml is None:
        print("no concrete input in this replay file (broken obligation / correspondence): see its fields")
        return 0
    with env.Clock(env.NOW):
        if "<ns0:LogoutResponse" in xml or ":LogoutResponse" in xml[:200]:
            got = call(sp.parse_logout_request_response, SOAP_ENV % xml, BINDING_SOAP)
        elif "AuthnRequest" in xml[:200]:
            import base64
            got = call(env.make_idp().parse_authn_request, base64.b64encode(xml.encode()).decode(), BINDING_HTTP_POST)
        elif inp.get("bind") == "soap":
            got = resp.observe(sp, SOAP_ENV % xml, binding=BINDING_SOAP)
        else:
            got = resp.observe(sp, xml)
    print("implementation outcome:", got)
    return 0
