"""C06 — only successful SAML 2.0 responses ever yield an identity.

Exhaustive table: top-level status x second-level (21 standard + absent +
unknown) x message x {no assertion, valid signed assertion} x versions x
{POST (asynchop), SOAP (synchronous)}, real SP entry point vs Model/Status.v.
"""
import itertools

import re

import c06_near as near
import env
import resp
import translate
from core import Exn, cstr, cbool, copt, call
from saml2_tophat import samlp, BINDING_HTTP_POST, BINDING_SOAP, BINDING_HTTP_REDIRECT

CLAIM = {
    "text": "Coq theorems (Props/C06.v) over the model of status_ok/_verify/verify and the None->error tail of _parse_response: a present non-Success top-level status or a Version other than 2.0 can never yield an accepted response, for every assertion content/signature state (the assertion stage is universally quantified) and every request-id/destination/time situation; when the earlier checks pass the error is exactly the documented class, with today's STATUSCODE2EXCEPTION regenerated from source and proved equal to the hand-written documented table. The model compares codes by exact string equality, and it is proved that a top-level value other than the literal specification URN of Success - every proper substring or superstring, every string of another length, every member of a Gallina-generated near-miss set (one character dropped/inserted/replaced/case-changed, proper prefixes and suffixes incl. the empty string, white space around; proved different from the original for ANY string by induction) - is not Success and is never accepted; a second-level code outside the documented 21 gets the generic error, and no generated near-miss of a documented code is documented. Tie to the code: exhaustive cross product of the property's quantifier through the real SP entry points vs the model on every run, plus ~275 textual near-misses of the Success URN (literal spec strings) x second-level kinds x POST/SOAP with a valid signed assertion, the same through logout responses, the 21 second-level URNs as literal spec strings (exact documented class) and ~60 near-misses of each (refused, never a specific class).",
    "note": "Trusted: Coq kernel + vm_compute; the model is hand-written and tied to the code by the exhaustive correspondence table (POST and SOAP, authn/logout responses, authn requests); float() of Version strings is an oracle input; stand-in xmlsec1 for the signed-assertion cells; reflection translator for the status table. For near-miss top-level codes only accepted/refused is compared (the class is unspecified there; Value="" / no Value are refused by the schema check before status_ok). A response lacking <Status> altogether was accepted by the library until the repair in /repo (fix: a response without Status is refused); the model carries both states (status_ok / status_ok_before_fix), C06_identity_only_from_success_2_0 states the title at full strength, and the oracle key accepted-without-status demands refusal.",
    "technique": "machine-checked proof (Coq) + regenerated-table obligation + exhaustive model/implementation correspondence",
}
TRUSTED = [
    "Gen/StatusTable.v is regenerated from response.STATUSCODE2EXCEPTION / samlp.STATUS_* by reflection (harness/translate.py)",
    "float() of the Version string is an oracle input of the model (ver_lt2), computed by Python itself per case",
    "modelled: StatusResponse.status_ok/_verify, AuthnResponse.verify, StatusResponse.verify, Request._verify, the None->AttributeError tail of Entity._parse_response; the assertion stage is an abstract parameter `rest` (any value) in the theorems",
    "stand-in xmlsec1 (harness/tools/xmlsec_core.py) signs/verifies the 'valid signed assertion' cells",
    "near-miss cells: the <Status> element of a built response (assertion signed, response not) is replaced textually by literal XML; the XML parser's attribute handling is part of the real run, the model receives the intended string",
]
ASSUMPTIONS = ["the assertion stage is an abstract parameter `rest` of the theorems (any value): what it does is the subject of C01-C05/C17"]
RULE = ("exhaustive cross product of the property's quantifier, every cell run through Saml2Client.parse_authn_request_response "
        "and through the model; a cell is non-trivial when the status is not Success or the version is not 2.0 (distinct by cell coordinates); "
        "near-miss cells: the full literal near-miss list (harness/c06_near.py) x second-level kind x binding with a signed assertion, "
        "assertion-less and extra top-level picks sampled by the seed on the quick tier, full cross on thorough")

SOAP_ENV = ('<ns0:Envelope xmlns:ns0="http://schemas.xmlsoap.org/soap/envelope/"><ns0:Body>%s</ns0:Body></ns0:Envelope>')

UNKNOWN = "urn:example:status:NotAStatus"


def regen(ctx):
    translate.regen_status()


def _status_coq(st):
    if st is None:
        return "None"
    if st.get("no_code"):
        return "(Some {| st_code := None; st_msg := %s |})" % cbool(bool(st.get("message")))
    sub = "None" if st["sub"] is None else "(Some (Code (Some %s) None))" % cstr(st["sub"])
    return "(Some {| st_code := Some (Code (Some %s) %s); st_msg := %s |})" % (
        cstr(st["code"]), sub, cbool(st["message"] is not None))


def _float_lt2(v):
    try:
        return float(v) < 2.0
    except ValueError:
        return None


def cells(ctx):
    tab = __import__("saml2_tophat.response", fromlist=["x"]).STATUSCODE2EXCEPTION
    tops = [samlp.STATUS_SUCCESS, samlp.STATUS_REQUESTER, samlp.STATUS_RESPONDER, samlp.STATUS_VERSION_MISMATCH,
            samlp.STATUS_AUTHN_FAILED, samlp.STATUS_NO_PASSIVE, samlp.STATUS_PARTIAL_LOGOUT, UNKNOWN]
    seconds = [None, UNKNOWN] + sorted(tab.keys())
    versions = ["2.0", "1.0", "1.1", "2.1", "3.0", "garbage", "2", "2.00", "NaN", " 2.0", "-1", "1e1"]
    out = []
    for top, sec, msg, has_a, ver, bind in itertools.product(
            tops, seconds, [None, "denied because"], [False, True], versions, ["post", "soap"]):
        # thin the product on the quick tier only where the two halves are independent:
        # non-2.0 versions are combined with 3 second-level codes only
        if ver != "2.0" and sec not in (None, UNKNOWN, samlp.STATUS_AUTHN_FAILED):
            continue
        if ctx.quick and bind == "soap" and msg is not None and ver == "2.0" and top not in (samlp.STATUS_SUCCESS, samlp.STATUS_RESPONDER):
            continue
        out.append(dict(top=top, sec=sec, msg=msg, has_a=has_a, ver=ver, bind=bind,
                        status={"code": top, "sub": sec, "message": msg}))
    # extra cells: Status without StatusCode, no Status at all
    for has_a, bind in itertools.product([False, True], ["post", "soap"]):
        out.append(dict(top=None, sec=None, msg=None, has_a=has_a, ver="2.0", bind=bind, status={"no_code": True}))
        out.append(dict(top=None, sec=None, msg=None, has_a=has_a, ver="2.0", bind=bind, status=None))
    return out


def run(ctx):
    env.tool_inprocess(True)
    sp = env.make_sp()
    cs = cells(ctx)
    cases = []
    with env.Clock(env.NOW):
        for n, c in enumerate(cs):
            spec = resp.default_response(
                version=c["ver"], status=c["status"],
                assertions=[resp.default_assertion(sign=True)] if c["has_a"] else [])
            xml = resp.build(spec)
            if c["bind"] == "soap":
                got = resp.observe(sp, SOAP_ENV % xml, binding=BINDING_SOAP)
            else:
                got = resp.observe(sp, xml)
            impl = True if isinstance(got, list) else got
            # the assertion stage as observed independently of status: what
            # parse_assertion does for this assertion content
            rest = "(Ok (Some tt))" if c["has_a"] else '(Err (s2l "Exception"))'
            vi = ("{| id_mismatch := false; version := Some %s; ver_lt2 := %s; asynchop := %s; dest_ok := true; "
                  "issue_ok := Ok true; status := %s |}" % (
                      cstr(c["ver"]), copt(_float_lt2(c["ver"]), cbool), cbool(c["bind"] == "post"), _status_coq(c["status"])))
            cases.append(dict(id=n, coq="(%s, %s)" % (vi, rest), impl=impl,
                              show={k: c[k] for k in ("top", "sec", "msg", "has_a", "ver", "bind")}))
            nonsucc = c["status"] is not None and c["top"] != samlp.STATUS_SUCCESS
            if nonsucc or c["ver"] != "2.0" or c["status"] is None:
                ctx.nontriv((c["top"], c["sec"], c["msg"], c["has_a"], c["ver"], c["bind"], str(c["status"])))
            ctx.count("outcome:" + (impl.name if isinstance(impl, Exn) else str(impl)))
            # implementation-level oracle: the property itself
            if nonsucc and impl is True:
                ctx.oracle_fail("accepted-nonsuccess:%s:%s:%s:%s" % (c["top"], c["sec"], c["ver"], c["bind"]),
                                "response with top-level status %s accepted" % c["top"], dict(c, xml=xml))
            if c["status"] is None and impl is True:
                ctx.oracle_fail("accepted-without-status:%s:%s" % ("assertion" if c["has_a"] else "no-assertion", c["bind"]),
                                "response without any <Status> element accepted", dict(c, xml=xml))
            if c["ver"] != "2.0" and impl is True:
                ctx.oracle_fail("accepted-version:%s:%s" % (c["ver"], c["bind"]),
                                "response with Version %r accepted" % c["ver"], dict(c, xml=xml))
            if nonsucc and c["ver"] == "2.0" and c["sec"] in _documented() and isinstance(impl, Exn) \
                    and impl.name != _documented()[c["sec"]]:
                ctx.oracle_fail("wrong-class:%s:%s" % (c["sec"], c["bind"]),
                                "second-level %s raised %s, documented %s" % (c["sec"], impl.name, _documented()[c["sec"]]),
                                dict(c, xml=xml))
            if n % 400 == 0:
                ctx.sample(dict(cell=cases[-1]["show"], outcome=impl))
    ctx.exhaustive = True
    ctx.correspond("authn_response_status", "Model.Status",
                   "fun c : verify_in * result (option unit) => show_result (fun _ => VB true) (parse_tail (authn_verify (fst c) (snd c)))",
                   "(verify_in * result (option unit))", cases)
    run_logout(ctx, sp)
    run_request(ctx)
    run_near(ctx, sp)


_DOC = None


def _documented():
    """the documented table, independent of the code: SAML core names -> class names"""
    global _DOC
    if _DOC is None:
        P = "urn:oasis:names:tc:SAML:2.0:status:"
        names = {"VersionMismatch": "StatusVersionMismatch", "AuthnFailed": "StatusAuthnFailed",
                 "InvalidAttrNameOrValue": "StatusInvalidAttrNameOrValue", "InvalidNameIDPolicy": "StatusInvalidNameidPolicy",
                 "NoAuthnContext": "StatusNoAuthnContext", "NoAvailableIDP": "StatusNoAvailableIdp",
                 "NoPassive": "StatusNoPassive", "NoSupportedIDP": "StatusNoSupportedIdp",
                 "PartialLogout": "StatusPartialLogout", "ProxyCountExceeded": "StatusProxyCountExceeded",
                 "RequestDenied": "StatusRequestDenied", "RequestUnsupported": "StatusRequestUnsupported",
                 "RequestVersionDeprecated": "StatusRequestVersionDeprecated",
                 "RequestVersionTooHigh": "StatusRequestVersionTooHigh", "RequestVersionTooLow": "StatusRequestVersionTooLow",
                 "ResourceNotRecognized": "StatusResourceNotRecognized", "TooManyResponses": "StatusTooManyResponses",
                 "UnknownAttrProfile": "StatusUnknownAttrProfile", "UnknownPrincipal": "StatusUnknownPrincipal",
                 "UnsupportedBinding": "StatusUnsupportedBinding", "Responder": "StatusResponder"}
        _DOC = {P + k: v for k, v in names.items()}
    return _DOC


def run_logout(ctx, sp):
    """StatusResponse.verify (AssertionError swallowed) through parse_logout_request_response"""
    from saml2_tophat import saml
    cases = []
    tops = [samlp.STATUS_SUCCESS, samlp.STATUS_REQUESTER, samlp.STATUS_PARTIAL_LOGOUT, UNKNOWN]
    seconds = [None, UNKNOWN, samlp.STATUS_PARTIAL_LOGOUT, samlp.STATUS_UNKNOWN_PRINCIPAL]
    with env.Clock(env.NOW):
        for top, sec, ver in list(itertools.product(tops, seconds, ["2.0", "1.1", "3.0", "x", "2.00"])) + [(None, None, "2.0"), (None, None, "1.1")]:
            st = {"code": top, "sub": sec, "message": None} if top is not None else None     # None: no <Status> element at all
            r = samlp.LogoutResponse(id="lr-1", in_response_to="req-1", version=ver, issue_instant=env.ts(env.NOW),
                                     issuer=saml.Issuer(text=env.IDP_ID), status=resp._status(st) if st is not None else None)
            got = call(sp.parse_logout_request_response, SOAP_ENV % str(r), BINDING_SOAP)
            impl = got if isinstance(got, Exn) or got is None else True
            vi = ("{| id_mismatch := false; version := Some %s; ver_lt2 := %s; asynchop := false; dest_ok := true; "
                  "issue_ok := Ok true; status := %s |}" % (cstr(ver), copt(_float_lt2(ver), cbool), _status_coq(st)))
            cases.append(dict(id=len(cases), coq=vi, impl=impl, show=dict(top=top, sec=sec, ver=ver, kind="logout_response")))
            if top != samlp.STATUS_SUCCESS or ver != "2.0":
                ctx.nontriv(("logout", top, sec, ver))
                if impl is True:
                    ctx.oracle_fail("logout-accepted:%s:%s" % (top, ver), "logout response status %s version %s accepted" % (top, ver),
                                    dict(top=top, sec=sec, ver=ver, xml=str(r)))
    # Entity._parse_response tail applies here too (verify() -> None -> AttributeError in finally)
    ctx.correspond("logout_response_status", "Model.Status",
                   "fun i : verify_in => show_result (fun _ => VB true) (parse_tail (status_verify i))", "verify_in", cases)


def run_request(ctx):
    """Request.verify: version assertion / destination / issue instant, through Server.parse_authn_request"""
    import base64
    from saml2_tophat import saml
    idp = env.make_idp()
    cases = []
    with env.Clock(env.NOW):
        for ver, dest, dt in itertools.product(["2.0", "1.0", "1.1", "2.1", "3.0", "garbage", "2.00", "2"],
                                               [None, env.IDP_SSO, "https://evil.example.org/sso"],
                                               [0, 86400 * 2, -86400 * 2]):
            rq = samlp.AuthnRequest(id="rq-1", version=ver, issue_instant=env.ts(env.NOW + dt), destination=dest,
                                    issuer=saml.Issuer(text=env.SP_ID),
                                    assertion_consumer_service_url=env.SP_ACS_POST)
            b64 = base64.b64encode(str(rq).encode()).decode()
            got = call(idp.parse_authn_request, b64, BINDING_HTTP_POST)
            impl = got if isinstance(got, Exn) or got is None else True
            # the IdP has an SSO endpoint only for Redirect; for POST receiver_addrs == []
            ri = ("{| r_version := Some %s; r_dest_present := %s; r_have_addrs := false; r_dest_in_addrs := false; r_issue_ok := Ok %s |}"
                  % (cstr(ver), cbool(dest is not None), cbool(dt == 0)))
            cases.append(dict(id=len(cases), coq=ri, impl=impl, show=dict(ver=ver, dest=dest, dt=dt, kind="authn_request/post")))
            if ver != "2.0":
                ctx.nontriv(("request", ver, dest, dt))
                if impl is True:
                    ctx.oracle_fail("request-version:%s" % ver, "request with Version %r handed over" % ver, dict(ver=ver, xml=str(rq)))
    ctx.correspond("request_verify", "Model.Status", "fun i : req_verify_in => show_unit_opt (request_verify i)", "req_verify_in", cases)


# --------------------------------------------------------------------------
# near-miss status codes (literal spec strings, harness/c06_near.py)
# --------------------------------------------------------------------------
PLACEHOLDER = "urn:PLACEHOLDER:STATUS"
# coarse observables: only what the property fixes for these cells
ACCEPTED = "fun r : result unit => match r with Ok _ => VB true | Err _ => VB false end"
CLASS = ("fun r : result unit => match r with Ok _ => VB true | Err e => "
         "if mem_str e (map snd status_table) then VE e else VE (s2l \"generic\") end")


def _codes_coq(codes):
    """[v0, v1, ...] (top first; None = StatusCode without Value) -> code_view term"""
    t = "None"
    for v in reversed(codes):
        t = "(Some (Code %s %s))" % (copt(v, cstr), t)
    return t


def _status_xml(pfx, codes, msg, raw_ws=False):
    """literal <Status> XML; raw_ws: white space written literally (the parser
    normalises it to spaces) instead of as character references"""
    def attr(v):
        if v is None:
            return ""
        if raw_ws:
            return ' Value="%s"' % near.xml_attr(v.replace("\t", "\x00T").replace("\n", "\x00N").replace("\r", "\x00R")) \
                .replace("\x00T", "\t").replace("\x00N", "\n").replace("\x00R", "\r")
        return ' Value="%s"' % near.xml_attr(v)
    inner = ""
    for v in reversed(codes):
        inner = "<%s:StatusCode%s>%s</%s:StatusCode>" % (pfx, attr(v), inner, pfx)
    m = "<%s:StatusMessage>%s</%s:StatusMessage>" % (pfx, msg, pfx) if msg is not None else ""
    return "<%s:Status>%s%s</%s:Status>" % (pfx, inner, m, pfx)


def _vin(bind, codes, msg):
    st = "(Some {| st_code := %s; st_msg := %s |})" % (_codes_coq(codes), cbool(msg is not None))
    return ("{| id_mismatch := false; version := Some (s2l \"2.0\"); ver_lt2 := Some false; asynchop := %s; dest_ok := true; "
            "issue_ok := Ok true; status := %s |}" % (cbool(bind == "post"), st))


class _Templates:
    """one built (and signed) response per has_a; the <Status> element is
    replaced textually afterwards (the response itself is not signed)"""

    def __init__(self):
        self.t = {}
        for has_a in (False, True):
            spec = resp.default_response(status={"code": PLACEHOLDER, "sub": None, "message": None},
                                         assertions=[resp.default_assertion(sign=True)] if has_a else [])
            xml = resp.build(spec)
            m = re.search(r"<(\w+):Status>.*?</\1:Status>", xml, re.S)
            assert m and PLACEHOLDER in m.group(0) and xml.count(PLACEHOLDER) == 1
            self.t[has_a] = (xml[:m.start()], m.group(1), xml[m.end():])

    def xml(self, has_a, codes, msg, raw_ws=False):
        a, pfx, b = self.t[has_a]
        return a + _status_xml(pfx, codes, msg, raw_ws) + b


def _observe(sp, xml, bind):
    if bind == "soap":
        return resp.observe(sp, SOAP_ENV % xml, binding=BINDING_SOAP)
    return resp.observe(sp, xml)


def _short(v):
    return repr(v) if len(v) < 70 else repr(v[:30] + "..." + v[-30:])


def run_near(ctx, sp):
    S = near.SUCCESS
    rng = ctx.rng
    std_second = sorted(near.DOCUMENTED)
    UNK = "urn:example:status:NotAStatus"
    with env.Clock(env.NOW):
        tpl = _Templates()
        # sanity of the template itself: with the Success URN literally in place the response IS accepted
        for bind in ("post", "soap"):
            got = _observe(sp, tpl.xml(True, [S], None), bind)
            if not isinstance(got, list):
                ctx.oracle_fail("success-literal-refused:%s" % bind,
                                "response with the literal spec Success URN and a valid signed assertion not accepted: %r" % (got,),
                                dict(bind=bind, xml=tpl.xml(True, [S], None)))

        # ---- A. near-miss TOP-level codes: none may yield an identity ----------------------------------
        tops = near.near_misses(S)
        cases = []
        for n, (kind, v) in enumerate(tops):
            subs = [("none", []), ("standard", [std_second[n % len(std_second)]]), ("success", [S]),
                    ("unknown", [UNK]), ("unknown>success", [UNK, S]), ("novalue", [None])]
            for (sk, sub), bind in itertools.product(subs, ["post", "soap"]):
                variants = [(True, None if (n + len(sk)) % 2 else "denied because", False)]
                if not ctx.quick:
                    variants = [(a, m, False) for a in (True, False) for m in (None, "denied because")]
                elif rng.random() < 0.1:
                    variants.append((False, None, False))
                if any(c in v for c in "\t\n\r"):
                    variants.append((True, None, True))
                for has_a, msg, raw in variants:
                    codes = [v] + sub
                    xml = tpl.xml(has_a, codes, msg, raw)
                    got = _observe(sp, xml, bind)
                    acc = isinstance(got, list)
                    rest = "(Ok (Some tt))" if has_a else '(Err (s2l "Exception"))'
                    cases.append(dict(id=len(cases), coq="(%s, %s)" % (_vin(bind, codes, msg), rest), impl=acc,
                                      show=dict(kind=kind, top=v, sub=sub, msg=msg, has_a=has_a, bind=bind, raw_ws=raw)))
                    ctx.nontriv(("near-top", v, sk, msg, has_a, bind, raw))
                    ctx.count("near-top:" + kind.split("-")[0])
                    ctx.count("near-top-outcome:" + (got.name if isinstance(got, Exn) else "accepted" if acc else str(got)))
                    if acc:
                        ctx.oracle_fail("accepted-nearmiss-top:%s:%s:sub=%s:%s" % (kind, _short(v), sk, bind),
                                        "top-level status %r (%s of the Success URN, not Success) with second-level %r yields identity %r"
                                        % (v, kind, sub, got[1]), dict(top=v, sub=sub, msg=msg, has_a=has_a, bind=bind, xml=xml))
            if n % 60 == 0:
                ctx.sample(dict(cell=cases[-1]["show"], outcome="accepted" if cases[-1]["impl"] else "refused"))
        ctx.correspond("near_miss_top_status", "Model.Status Gen.StatusTable",
                       "fun c : verify_in * result (option unit) => (%s) (parse_tail (authn_verify (fst c) (snd c)))" % ACCEPTED,
                       "(verify_in * result (option unit))", cases)

        # ---- A'. the same through StatusResponse.verify (logout response, SOAP) -------------------------
        from saml2_tophat import saml
        lr = samlp.LogoutResponse(id="lr-1", in_response_to="req-1", version="2.0", issue_instant=env.ts(env.NOW),
                                  issuer=saml.Issuer(text=env.IDP_ID),
                                  status=resp._status({"code": PLACEHOLDER, "sub": None, "message": None}))
        lx = str(lr)
        m = re.search(r"<(\w+):Status>.*?</\1:Status>", lx, re.S)
        assert m and lx.count(PLACEHOLDER) == 1
        got = call(sp.parse_logout_request_response, SOAP_ENV % (lx[:m.start()] + _status_xml(m.group(1), [S], None) + lx[m.end():]), BINDING_SOAP)
        if got is None or isinstance(got, Exn):
            ctx.oracle_fail("logout-success-literal-refused", "logout response with the literal Success URN refused: %r" % (got,), dict())
        cases = []
        for n, (kind, v) in enumerate(tops):
            for sk, sub in [("none", []), ("success", [S])]:
                codes = [v] + sub
                xml = lx[:m.start()] + _status_xml(m.group(1), codes, None) + lx[m.end():]
                got = call(sp.parse_logout_request_response, SOAP_ENV % xml, BINDING_SOAP)
                acc = not (got is None or isinstance(got, Exn))
                cases.append(dict(id=len(cases), coq=_vin("soap", codes, None), impl=acc,
                                  show=dict(kind=kind, top=v, sub=sub, msg_kind="logout_response")))
                ctx.nontriv(("near-top-logout", v, sk))
                if acc:
                    ctx.oracle_fail("logout-accepted-nearmiss-top:%s:%s:sub=%s" % (kind, _short(v), sk),
                                    "logout response with top-level status %r (%s of the Success URN) accepted" % (v, kind),
                                    dict(top=v, sub=sub, xml=xml))
        ctx.correspond("near_miss_top_logout", "Model.Status Gen.StatusTable",
                       "fun i : verify_in => (%s) (parse_tail (status_verify i))" % ACCEPTED, "verify_in", cases)

        # ---- B. the 21 standard second-level codes as LITERAL spec URNs: the documented class ----------
        cases = []
        for top, sec, has_a, bind in itertools.product(
                [t for t in near.TOP_STANDARD if t != S], std_second, [False, True], ["post", "soap"]):
            for codes in ([top, sec], [top, sec, S]):
                if len(codes) == 3 and not (has_a and bind == "post"):
                    continue
                msg = None if rng.random() < 0.5 else "denied because"
                xml = tpl.xml(has_a, codes, msg)
                got = _observe(sp, xml, bind)
                impl = True if isinstance(got, list) else got
                rest = "(Ok (Some tt))" if has_a else '(Err (s2l "Exception"))'
                cases.append(dict(id=len(cases), coq="(%s, %s)" % (_vin(bind, codes, msg), rest), impl=impl,
                                  show=dict(codes=codes, msg=msg, has_a=has_a, bind=bind)))
                ctx.nontriv(("second-literal", tuple(codes), has_a, bind))
                want = near.DOCUMENTED[sec]
                if impl is True:
                    ctx.oracle_fail("accepted-nonsuccess-literal:%s:%s:%s" % (top, sec, bind),
                                    "response with top-level status %r accepted" % top, dict(codes=codes, has_a=has_a, bind=bind, xml=xml))
                elif top in near.TOP_STANDARD and not (isinstance(impl, Exn) and impl.name == want):
                    ctx.oracle_fail("wrong-class-literal:%s:%s" % (sec, bind),
                                    "spec second-level code %s under %s raised %s, documented class %s" % (sec, top, impl, want),
                                    dict(codes=codes, has_a=has_a, bind=bind, xml=xml))
        ctx.correspond("second_level_literal", "Model.Status Gen.StatusTable",
                       "fun c : verify_in * result (option unit) => show_result (fun _ => VB true) (parse_tail (authn_verify (fst c) (snd c)))",
                       "(verify_in * result (option unit))", cases)

        # ---- C. near-misses of the standard second-level codes: refused, and not with a specific class --
        cases = []
        std_tops = [t for t in near.TOP_STANDARD if t != S]
        seconds = [("success-as-second", S)] + [("near-success:" + k, v) for k, v in near.near_misses(S, full=False)]
        for sec in std_second:
            seconds += [(k, v) for k, v in near.near_misses(sec, full=False) if v not in near.DOCUMENTED]
        for n, (kind, v) in enumerate(seconds):
            picks = [(std_tops[n % 3], True, "post" if n % 2 else "soap")]
            if not ctx.quick:
                picks = [(t, a, b) for t in std_tops for a in (True, False) for b in ("post", "soap")]
            elif rng.random() < 0.3:
                picks.append((rng.choice(std_tops), rng.random() < 0.5, rng.choice(["post", "soap"])))
            for top, has_a, bind in picks:
                codes = [top, v]
                msg = None if rng.random() < 0.5 else "denied because"
                xml = tpl.xml(has_a, codes, msg)
                got = _observe(sp, xml, bind)
                if isinstance(got, list):
                    impl = True
                elif isinstance(got, Exn) and got.name in near.SPECIFIC:
                    impl = got
                else:
                    impl = Exn("generic")
                rest = "(Ok (Some tt))" if has_a else '(Err (s2l "Exception"))'
                cases.append(dict(id=len(cases), coq="(%s, %s)" % (_vin(bind, codes, msg), rest), impl=impl,
                                  show=dict(kind=kind, codes=codes, msg=msg, has_a=has_a, bind=bind)))
                ctx.nontriv(("near-second", tuple(codes), has_a, bind))
                ctx.count("near-second:" + kind.split(":")[0].split("-")[0])
                if impl is True:
                    ctx.oracle_fail("accepted-nearmiss-second:%s:%s:%s" % (top, _short(v), bind),
                                    "response with top-level status %r and second-level %r accepted" % (top, v),
                                    dict(codes=codes, has_a=has_a, bind=bind, xml=xml))
                elif impl.name != "generic":
                    ctx.oracle_fail("specific-class-for-nonstandard-second:%s:%s" % (_short(v), impl.name),
                                    "second-level code %r is not a standard code (%s) but raised the specific class %s"
                                    % (v, kind, impl.name), dict(codes=codes, has_a=has_a, bind=bind, xml=xml))
        ctx.correspond("near_miss_second_level", "Model.Status Gen.StatusTable",
                       "fun c : verify_in * result (option unit) => (%s) (parse_tail (authn_verify (fst c) (snd c)))" % CLASS,
                       "(verify_in * result (option unit))", cases)


def replay(ctx, payload):
    env.tool_inprocess(True)
    sp = env.make_sp()
    inp = payload.get("input", {})
    xml = inp.get("xml")
    print("replay input:", {k: v for k, v in inp.items() if k != "xml"})
    if xml is None:
        print("no concrete input in this replay file (broken obligation / correspondence): see its fields")
        return 0
    with env.Clock(env.NOW):
        if "<ns0:LogoutResponse" in xml or ":LogoutResponse" in xml[:200]:
            got = call(sp.parse_logout_request_response, SOAP_ENV % xml, BINDING_SOAP)
        elif "AuthnRequest" in xml[:200]:
            import base64
            got = call(env.make_idp().parse_authn_request, base64.b64encode(xml.encode()).decode(), BINDING_HTTP_POST)
        elif inp.get("bind") == "soap":
            got = resp.observe(sp, SOAP_ENV % xml, binding=BINDING_SOAP)
        else:
            got = resp.observe(sp, xml)
    print("implementation outcome:", got)
    return 0
