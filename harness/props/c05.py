"""C05 — responses are accepted only if addressed to this SP and solicited.

The whole cross product of the property's quantifier through
Saml2Client.parse_authn_request_response vs Model.Response.parse_response, plus
the property itself as an oracle on the implementation's verdicts."""
import itertools
import json

import core
import env
import pipeline
import c05gen as G
import c05opts as O
from pipeline import A, R, SPCase
from core import Exn
from env import NOW, SP_ID, SP_ACS_POST, SP_ACS_REDIRECT
from saml2_tophat.saml import SCM_BEARER

CLAIM = {
    "text": "Coq theorems (Props/C05.v) over the model of the SP response pipeline (Model/Response.v: _parse_response, loads, verify, _assertion, condition_ok, for_me, get_subject, _bearer_confirmed, verify_recipient) and of where its return addresses come from (Model/Endpoints.v: Config.endpoint, Base.service_urls, asynchop choice, parse_authn_request_response with an ARBITRARY assertion_consumer_service table and arriving binding), for every response content, signature state, clock and configuration: unless unsolicited responses are allowed an accepted response's InResponseTo is an outstanding request and every retained confirmation of its plain and decrypted assertions names that request; service_urls hands out exactly the urls registered for the binding; an accepted browser-binding response's Destination matches the pattern or is registered for THAT binding (an own endpoint of another binding, a foreign url, any url when the SP has no endpoint for the binding is refused); with conversation info every retained confirmation's Recipient is the entity id or registered for that binding; the same for the n-th call of any history of calls on one SP; the solicited clause holds in terms of the EFFECTIVE allow_unsolicited of an SP built from a configuration of any class whose sp section SPELLS the option any way (Model/C05Opts.v over Client.load_special / resolve of C02: exactly the strings true / false become booleans, None and absence give the default False, anything else counts by truth): the string false is False, the effective value is false exactly for absent / None / False / 'false' / '' / 0, and such an SP refuses unsolicited responses at every call of any history; every audience restriction of every accepted assertion names the SP (the two deviations of the earlier code are refuted with witnesses, repaired by fix: commits). Tie: the cross product of the quantifier, 18 endpoint tables x arriving binding x Destination / Recipient kinds x pattern x conv info, confirmation layouts x plain / encrypted / multi-assertion delivery x outstanding-request variants on long-lived SP objects, call histories on fresh SP objects, and 18 spellings of allow_unsolicited x {SPConfig, Config, config_factory} x solicited / unsolicited messages on long-lived and fresh SP objects, implementation vs model every run.",
    "note": "Trusted: Coq kernel + vm_compute; the hand-written pipeline model is tied to the code by the exhaustive cross-product correspondence at accept/reject + returned-observables granularity; strings other than the exact true / false ('False', 'no', '0' ...) are modelled as the code treats them (non-empty string = allowed); the regular-expression engine is an oracle input (re.search verdict); responses with <Advice> and attribute-query responses are outside the model; signatures are irrelevant here (unsigned path, proved independent).",
    "technique": "machine-checked proof (Coq) + exhaustive cross-product correspondence + implementation-level oracle",
}
TRUSTED = ["modelled: the SP response pipeline of response.py / entity.py as Model/Response.v, Config.endpoint / Base.service_urls as Model/Endpoints.v, Config.load_special / getattr / Base.__init__ option resolution as Model/Client.v + Model/C05Opts.v (see their headers); not modelled: attribute-query responses, Advice, EncryptedID, holder-of-key extension parsing beyond 'has KeyInfo'",
           "re.search on the destination pattern is computed by Python and passed to the model as dest_regex_match"]
ASSUMPTIONS = ["the response arrives over a browser binding unless the cell says SOAP", "regex verdict supplied per case"]
RULE = ("cells = InResponseTo{match,other-outstanding,unknown,absent} x SCD-InResponseTo{match,other-outstanding,unknown,absent} x Destination{own,foreign,absent} "
        "x audience layouts (9) x Recipient{own,entity-id,foreign} x allow_unsolicited x conv-info{none,entity,entity+addr} x pattern{unset,matching,non-matching} "
        "x binding{post, redirect with and without an endpoint} x shape{single confirmation, data-less confirmation first, two confirmations, encrypted assertion}; non-trivial = every cell (each differs in at least one addressing input); quick tier samples the "
        "product by a covering design (every pair of factor values), thorough runs it whole.  Per-binding part (c05gen.py): service_urls for 18 ACS tables x 5 bindings (whole); "
        "block D = tables x arriving {post,redirect,artifact} x Destination {P,R,A,bare,foreign,near-miss,absent} x pattern (whole); block R = tables x arriving x Recipient (6) x conv-info (3) x {plain,encrypted} "
        "(whole for the 10 small tables); block S = irt x scd x allow_unsolicited x confirmation layout (5) x delivery {plain,encrypted,plain+encrypted, 3 multi-assertion} x outstanding variant (4) "
        "(whole for the first two variants); 700 random cells; 60 histories of 6 calls on a fresh SP object; spellings (c05opts.py): 18 spellings of allow_unsolicited x 3 configuration classes "
        "x messages (irt x scd whole, hidden confirmations, encrypted, each browser binding, SOAP) - quick: whole for SPConfig, the ten core spellings x single-confirmation messages for the other classes - "
        "and one 6-call history per spelling and class on a fresh SP object; non-trivial = distinct cell / history")

AUD_LAYOUTS = {
    "none": [], "me": [[SP_ID]], "other": [["https://other.example.org/sp"]],
    "me+other-restr": [[SP_ID], ["https://other.example.org/sp"]], "other+me-restr": [["https://other.example.org/sp"], [SP_ID]],
    "me,other-one-restr": [[SP_ID, "https://other.example.org/sp"]], "me+me": [[SP_ID], [SP_ID]],
    "other+other": [["https://other.example.org/sp"], ["https://third.example.org/sp"]],
    "me-padded": [["  " + SP_ID + " "]],
}
FACTORS = [
    ("irt", ["match", "other-outstanding", "unknown", "absent"]),
    ("scd", ["match", "other-outstanding", "unknown", "absent"]),
    ("dest", ["own", "foreign", "absent"]),
    ("aud", list(AUD_LAYOUTS)),
    ("recip", ["own", "entity", "foreign"]),
    ("unsol", [False, True]),
    ("conv", ["none", "entity", "entity+addr"]),
    ("pattern", ["unset", "matching", "non-matching"]),
    ("bind", ["post", "redirect", "redirect-no-endpoint"]),
    ("shape", ["single", "nodata-first", "encrypted", "two-confirmations"]),
]
G_IMPORTS = "Model.Status Model.Response Model.Endpoints"
O_IMPORTS = "Model.Status Model.Response Model.Client Model.Endpoints Model.C05Opts"
OUTSTANDING = {"req-1": "/came-from-1", "req-2": "/came-from-2"}


def cells(ctx):
    names = [n for n, _ in FACTORS]
    full = list(itertools.product(*[v for _, v in FACTORS]))
    if not ctx.quick:
        return [dict(zip(names, c)) for c in full]
    # quick: pairwise-covering sample + a seeded random slice (every run covers every PAIR of factor values)
    chosen, seen = [], set()
    ctx.rng.shuffle(full)
    for c in full:
        pairs = {(i, c[i], j, c[j]) for i in range(len(c)) for j in range(i + 1, len(c))}
        if pairs - seen:
            seen |= pairs
            chosen.append(c)
    chosen += full[:2200]
    # the (audience x unsolicited) and (irt x scd x unsol) sub-products are the core of the statement: whole
    for aud, unsol, irt, scd in itertools.product(AUD_LAYOUTS, [False, True], FACTORS[0][1], FACTORS[1][1]):
        for shape in ("single", "nodata-first", "encrypted", "two-confirmations"):
            if shape == "single" or aud in ("me", "other", "me+other-restr"):
                chosen.append((irt, scd, "own", aud, "own", unsol, "none", "unset", "post", shape))
    uniq = []
    s = set()
    for c in chosen:
        if c not in s:
            s.add(c)
            uniq.append(c)
    return [dict(zip(names, c)) for c in uniq]


def build(cell):
    irt = {"match": "req-1", "other-outstanding": "req-2", "unknown": "req-zzz", "absent": None}
    own = SP_ACS_POST if cell["bind"] == "post" else SP_ACS_REDIRECT
    dest = {"own": own, "foreign": "https://evil.example.org/acs", "absent": None}[cell["dest"]]
    recip = {"own": own, "entity": SP_ID, "foreign": "https://evil.example.org/acs"}[cell["recip"]]
    conf = {"method": SCM_BEARER, "irt": irt[cell["scd"]], "recipient": recip, "nooa": NOW + 300, "nb": None, "address": None, "data": True}
    confs = [conf]
    if cell["shape"] == "nodata-first":
        confs = [{"method": SCM_BEARER, "data": False}, conf]
    elif cell["shape"] == "two-confirmations":
        confs = [dict(conf, irt=irt[cell["irt"]]), conf]
    a = A(confirmations=confs, conditions={"nb": NOW - 300, "nooa": NOW + 300, "audiences": AUD_LAYOUTS[cell["aud"]]})
    if cell["shape"] == "encrypted":
        spec = R(irt=irt[cell["irt"]], destination=dest, assertions=[], encrypted=[a])
    else:
        spec = R(irt=irt[cell["irt"]], destination=dest, assertions=[a])
    regex = {"unset": None, "matching": r"^https://sp\.example\.org/acs/", "non-matching": r"^https://portal\.example\.org/"}[cell["pattern"]]
    conv = {"none": None, "entity": {"entity_id": SP_ID}, "entity+addr": {"entity_id": SP_ID, "remote_addr": "192.0.2.7"}}[cell["conv"]]
    case = SPCase(allow_unsolicited=cell["unsol"], regex=regex, binding="post" if cell["bind"] == "post" else "redirect",
                  endpoints="post-only" if cell["bind"] == "redirect-no-endpoint" else "both", outstanding=OUTSTANDING, conv_info=conv)
    return case, spec


def oracle(ctx, cell, case, spec, got):
    """the property, stated on the implementation's verdict"""
    if not isinstance(got, list):
        return
    a = (spec["assertions"] + spec["encrypted"])[0]
    if not cell["unsol"]:
        if spec["irt"] not in OUTSTANDING:
            ctx.oracle_fail("unsolicited-accepted:irt=%s" % cell["irt"], "response with InResponseTo %r accepted although no such request is outstanding" % spec["irt"], cell)
        for c in a["confirmations"]:
            if c.get("data", True) and c["irt"] is not None and c["irt"] != spec["irt"]:
                ctx.oracle_fail("confirmation-names-other-request:shape=%s:irt=%s:scd=%s" % (cell["shape"], cell["irt"], cell["scd"]),
                                "accepted although a bearer confirmation names request %r and the response %r" % (c["irt"], spec["irt"]), cell)
    if spec["destination"] is not None:
        import re
        own = case.return_addrs() or []
        ok = bool(re.search(case.regex, spec["destination"])) if case.regex is not None else spec["destination"] in own
        if not ok:
            ctx.oracle_fail("foreign-destination-accepted:bind=%s:pattern=%s" % (cell["bind"], cell["pattern"]),
                            "accepted with Destination %r (own endpoints %r, pattern %r)" % (spec["destination"], own, case.regex), cell)
    for auds in a["conditions"]["audiences"]:
        if SP_ID not in [x.strip() for x in auds]:
            which = "allow_unsolicited" if cell["unsol"] else "any-restriction-suffices"
            ctx.oracle_fail("audience:%s" % which,
                            "accepted although an AudienceRestriction (%r) does not list this SP (allow_unsolicited=%s)" % (auds, cell["unsol"]), cell)
            break
    if case.conv_info:
        own = case.return_addrs() or []
        for c in a["confirmations"]:
            if c.get("data", True) and c["recipient"] != SP_ID and c["recipient"] not in own:
                ctx.oracle_fail("foreign-recipient-accepted:bind=%s" % cell["bind"], "accepted with bearer Recipient %r" % c["recipient"], cell)


def oracle_e(ctx, c, case, spec, got):
    """the property on the verdicts of the per-binding / hidden-confirmation cells (no model involved)"""
    if not isinstance(got, list):
        return
    browser = c["arrive"] in G.BROWSER
    outs = G.OUT_VARIANTS[c["outs"]]
    every = spec["assertions"] + spec["encrypted"]
    if browser and not c["unsol"]:
        if spec["irt"] not in outs:
            ctx.oracle_fail("unsolicited-accepted:irt=%s:arrive=%s" % (c["irt"], c["arrive"]),
                            "response with InResponseTo %r accepted although no such request is outstanding (%r)" % (spec["irt"], sorted(outs)), c)
        for a in every:
            for sc in a["confirmations"]:
                if sc.get("data", True) and sc["irt"] is not None and sc["irt"] != spec["irt"]:
                    ctx.oracle_fail("confirmation-names-other-request:confs=%s:delivery=%s:irt=%s:scd=%s" % (c["confs"], c["delivery"], c["irt"], c["scd"]),
                                    "accepted although a bearer confirmation names request %r and the response %r (outstanding %r)"
                                    % (sc["irt"], spec["irt"], sorted(outs)), c)
    if browser and spec["destination"] is not None:
        import re
        if case.regex is not None:
            ok = bool(re.search(case.regex, spec["destination"]))
        else:
            ok = G.registered_for(c["layout"], c["arrive"], spec["destination"])
        if not ok:
            ctx.oracle_fail("destination-not-registered-for-binding:arrive=%s:dest=%s:pattern=%s" % (c["arrive"], c["dest"], c["pattern"]),
                            "accepted over %s with Destination %r; ACS table %r, pattern %r" % (c["arrive"], spec["destination"], G.LAYOUTS[c["layout"]], case.regex), c)
    if case.conv_info:
        for a in every:
            for sc in a["confirmations"]:
                if not sc.get("data", True):
                    continue
                rc = sc["recipient"]
                if rc != case.conv_info.get("entity_id") and not G.registered_for(c["layout"], c["arrive"], rc):
                    ctx.oracle_fail("recipient-not-registered-for-binding:arrive=%s:recip=%s:delivery=%s" % (c["arrive"], c["recip"], c["delivery"]),
                                    "accepted over %s with bearer Recipient %r; ACS table %r" % (c["arrive"], rc, G.LAYOUTS[c["layout"]]), c)


def run_service_urls(ctx):
    """Base.service_urls / Config.endpoint for every table x every binding vs Model.Endpoints.service_urls"""
    cases = []
    for lay in G.LAYOUTS:
        sp = G.SPCaseE(layout=lay).sp()
        for bk, b in G.BIND.items():
            for how in ("service_urls", "config.endpoint"):
                if how == "service_urls":
                    got = sp.service_urls(b)
                else:
                    got = sp.config.endpoint("assertion_consumer_service", b, "sp") or None
                impl = None if got is None else [x for x in got if isinstance(x, str)]
                cases.append(dict(id="%s/%s/%s" % (lay, bk, how), coq="(%s, %s)" % (G.table_coq(lay), core.cstr(b)), impl=impl,
                                  show=dict(layout=lay, binding=bk, call=how)))
                ctx.nontriv(("urls", lay, bk))
                # the statement itself: exactly the urls registered for that binding
                want = [u for u in G.URL.values() if G.registered_for(lay, bk, u)]
                if sorted(impl or []) != sorted(want):
                    ctx.oracle_fail("service-urls-not-those-of-the-binding:binding=%s:layout=%s" % (bk, lay),
                                    "%s(%s) = %r but the table %r registers %r for it" % (how, bk, got, G.LAYOUTS[lay], want), dict(kind="urls", layout=lay, binding=bk))
    ctx.correspond("service_urls_per_binding", G_IMPORTS, "show_service_urls", "(list endp * str)", cases)


def oracle_spelled(ctx, c, case, spec, got):
    """the solicited clause for a configuration that SPELLS allow_unsolicited some way (no model involved): whenever
    the spelling does not mean 'allowed' (absent, None, False, 'false', '', 0) an unsolicited response is refused"""
    if not isinstance(got, list) or O.documented(c["spell"]) is not False or c["arrive"] not in G.BROWSER:
        return
    outs = G.OUT_VARIANTS[c["outs"]]
    if spec["irt"] not in outs:
        ctx.oracle_fail("unsolicited-accepted:allow_unsolicited-spelled=%s:class=%s:irt=%s" % (c["spell"], c["cls"], c["irt"]),
                        "SP configured with allow_unsolicited %s (%s) accepted a response with InResponseTo %r; outstanding %r"
                        % (c["spell"], c["cls"], spec["irt"], sorted(outs)), c)
    for a in spec["assertions"] + spec["encrypted"]:
        for sc in a["confirmations"]:
            if sc.get("data", True) and sc["irt"] is not None and sc["irt"] != spec["irt"]:
                ctx.oracle_fail("confirmation-names-other-request:allow_unsolicited-spelled=%s:class=%s:confs=%s:delivery=%s"
                                % (c["spell"], c["cls"], c["confs"], c["delivery"]),
                                "SP configured with allow_unsolicited %s (%s) accepted although a bearer confirmation names request %r and the response %r"
                                % (c["spell"], c["cls"], sc["irt"], spec["irt"]), c)


def run_spellings(ctx):
    """every spelling of allow_unsolicited x configuration class x solicited / unsolicited message, on long-lived SP
    objects (one per spelling and class, calls interleave in seeded order) vs Model.C05Opts"""
    q = ctx.quick
    # (a) the option as the client object holds it (truth value) vs effective_unsolicited
    cases = []
    for cls in O.CLASSES:
        for sp in O.SPELLINGS:
            case = O.SPCaseO(spell=sp, cls=cls)
            val = getattr(case.sp(), "allow_unsolicited", None)
            cases.append(dict(id="%s/%s" % (cls, sp), coq=case.effective_coq(), impl=bool(val), show=dict(kind="OV", spell=sp, cls=cls)))
            ctx.nontriv(("option", cls, sp))
            doc = O.documented(sp)
            if doc is not None and bool(val) != doc:
                ctx.oracle_fail("option-value:allow_unsolicited-spelled=%s:class=%s" % (sp, cls),
                                "client.allow_unsolicited is %r for the spelling %s, which means %s" % (val, sp, doc), dict(kind="OV", spell=sp, cls=cls))
    ctx.correspond("sp_option_effective", O_IMPORTS, "show_effective", "((str * list (str * section)) * (section * spelling))", cases)

    # (b) spelling x class x message
    ocells = O.block_spellings(q)
    ctx.rng.shuffle(ocells)
    cases, seen = [], {}
    with env.Clock(NOW):
        for n, c in enumerate(ocells):
            case, spec = O.build(c)
            xml = pipeline.build_xml(spec)
            coq, ids = pipeline.case_coq(case, spec, NOW)
            got = G.call_sp(case.sp(), case, xml, ids)
            cases.append(dict(id="o%d" % n, coq=coq, impl=G.verdict(got), show=c))
            ctx.nontriv(tuple(sorted(c.items())))
            acc = isinstance(got, list)
            ctx.count("O:%s:%s" % (c["spell"], "accepted" if acc else "rejected"))
            oracle_spelled(ctx, c, case, spec, got)
            mk = tuple(sorted((k, v) for k, v in c.items() if k not in ("spell", "msg")))
            seen[(c["spell"], mk)] = (acc, c)
            if n % 600 == 0:
                ctx.sample(dict(cell=c, outcome=got))
    # a documented spelling behaves exactly like the boolean it stands for, on every message (no model involved)
    for (sp, mk), (acc, c) in seen.items():
        twin = O.TWIN.get(sp)
        if twin is not None and (twin, mk) in seen and seen[(twin, mk)][0] != acc:
            ctx.oracle_fail("spelling-differs-from-boolean:allow_unsolicited-spelled=%s:class=%s:irt=%s:scd=%s" % (sp, c["cls"], c["irt"], c["scd"]),
                            "the same response is %s by an SP configured with allow_unsolicited %s and %s with %s"
                            % ("accepted" if acc else "refused", sp, "accepted" if seen[(twin, mk)][0] else "refused", twin), c)
    ctx.correspond("sp_option_spellings", O_IMPORTS, "show_accept_spelled", "(scfg * response)", cases, shard=110)

    # (c) histories: a FRESH SP object per spelling and class, solicited / unsolicited calls alternate
    cases = []
    with env.Clock(NOW):
        for cls in O.CLASSES:
            for spn in O.SPELLINGS:
                if q and cls != "SPConfig" and spn not in O.CORE:
                    continue
                hist = O.history(ctx.rng, spn, cls)
                sp, terms, outs, case0 = None, [], [], None
                for c in hist:
                    case, spec = O.build(c)
                    if sp is None:
                        sp, case0 = case.fresh_sp(), case
                    xml = pipeline.build_xml(spec)
                    rc, ids = pipeline.response_coq(spec, case.enc_keys)
                    got = G.call_sp(sp, case, xml, ids)
                    terms.append("(%s, %s, %s)" % (SPCase.coq(case, NOW, spec.get("destination")), core.cstr(G.BIND[c["arrive"]]), rc))
                    outs.append(G.verdict(got))
                    oracle_spelled(ctx, dict(c, position=len(outs) - 1, history=hist[:len(outs)]), case, spec, got)
                cases.append(dict(id="oh/%s/%s" % (cls, spn), coq="(%s, [%s])" % (case0.coq(NOW), "; ".join(terms)), impl=outs, show=hist))
                ctx.nontriv(("ohistory", json.dumps(hist, sort_keys=True)))
                ctx.count("OH:%d-accepted" % sum(isinstance(o, list) for o in outs))
    ctx.correspond("sp_option_spelling_history", O_IMPORTS, "show_spelled_calls", "(scfg * list call)", cases, shard=20)


def run(ctx):
    env.tool_inprocess(True)
    cs = cells(ctx)
    cases = []
    with env.Clock(NOW):
        for n, cell in enumerate(cs):
            case, spec = build(cell)
            xml = pipeline.build_xml(spec)
            coq, ids = pipeline.case_coq(case, spec, NOW)
            got = pipeline.run_impl(case, xml, ids)
            impl = got if isinstance(got, list) or got is None else Exn("rejected")
            cases.append(dict(id=n, coq=coq, impl=impl, show=cell))
            ctx.nontriv(tuple(sorted(cell.items())))
            ctx.count("accepted" if isinstance(got, list) else "rejected:" + (got.name if isinstance(got, Exn) else "None"))
            oracle(ctx, cell, case, spec, got)
            if n % 700 == 0:
                ctx.sample(dict(cell=cell, outcome=got))
    ctx.exhaustive = not ctx.quick
    ctx.correspond("sp_pipeline_addressing", pipeline.IMPORTS, pipeline.MODEL_ACCEPT, pipeline.CTYPE, cases, shard=250)

    # ---- endpoint table quantified per binding; hidden confirmations; on long-lived SP objects
    run_service_urls(ctx)
    q = ctx.quick
    ecells = G.block_destination(q) + G.block_recipient(q) + G.block_solicited(q)
    ecells += [G.random_cell(ctx.rng) for _ in range(700 if q else 12000)]
    ctx.rng.shuffle(ecells)          # the SP objects are shared by all cells of one configuration: bindings interleave
    cases = []
    with env.Clock(NOW):
        for n, c in enumerate(ecells):
            case, spec = G.build(c)
            xml = pipeline.build_xml(spec)
            coq, ids = pipeline.case_coq(case, spec, NOW)
            got = G.call_sp(case.sp(), case, xml, ids)
            cases.append(dict(id="e%d" % n, coq=coq, impl=G.verdict(got), show=c))
            ctx.nontriv(tuple(sorted(c.items())))
            ctx.count("%s:%s" % (c["kind"], "accepted" if isinstance(got, list) else "rejected"))
            oracle_e(ctx, c, case, spec, got)
            if n % 1500 == 0:
                ctx.sample(dict(cell=c, outcome=got))
    ctx.correspond("sp_addressing_per_binding", G_IMPORTS, "show_accept_e", "(ecfg * response)", cases, shard=250)

    # ---- histories: a FRESH SP object per history, several calls over changing bindings
    cases = []
    with env.Clock(NOW):
        for h in range(60 if q else 1200):
            hist = G.history(ctx.rng, 6)
            sp, terms, outs = None, [], []
            for c in hist:
                case, spec = G.build(c)
                if sp is None:
                    sp = case.fresh_sp()
                xml = pipeline.build_xml(spec)
                rc, ids = pipeline.response_coq(spec, case.enc_keys)
                got = G.call_sp(sp, case, xml, ids)
                terms.append("(%s, %s, %s)" % (SPCase.coq(case, NOW, spec.get("destination")), core.cstr(G.BIND[c["arrive"]]), rc))
                outs.append(G.verdict(got))
                oracle_e(ctx, dict(c, kind="H", position=len(outs) - 1, history=hist[:len(outs)]), case, spec, got)
            cases.append(dict(id="h%d" % h, coq="(%s, [%s])" % (G.table_coq(hist[0]["layout"]), "; ".join(terms)), impl=outs, show=hist))
            ctx.nontriv(("history", json.dumps(hist, sort_keys=True)))
            ctx.count("history:%d-accepted" % sum(isinstance(o, list) for o in outs))
    ctx.correspond("sp_call_history", G_IMPORTS, "show_calls", "(list endp * list call)", cases, shard=20)

    # ---- the spellings of allow_unsolicited in the configuration
    run_spellings(ctx)


def replay(ctx, payload):
    env.tool_inprocess(True)
    cell = payload.get("input")
    if cell is None and isinstance(payload.get("case"), dict):
        cell = payload["case"].get("show")
    print("replay cell:", cell)
    with env.Clock(NOW):
        if isinstance(cell, dict) and cell.get("kind") == "urls":
            sp = G.SPCaseE(layout=cell["layout"]).sp()
            print("implementation: service_urls(%s) = %r on table %r" % (cell["binding"], sp.service_urls(G.BIND[cell["binding"]]), G.table_conf(cell["layout"])))
        elif isinstance(cell, dict) and "call" in cell and "layout" in cell:
            sp = G.SPCaseE(layout=cell["layout"]).sp()
            print("implementation: service_urls(%s) = %r on table %r" % (cell["binding"], sp.service_urls(G.BIND[cell["binding"]]), G.table_conf(cell["layout"])))
        elif isinstance(cell, dict) and cell.get("kind") == "OV":
            sp = O.SPCaseO(spell=cell["spell"], cls=cell["cls"]).fresh_sp()
            print("implementation: allow_unsolicited spelled %s on a %s configuration -> client.allow_unsolicited = %r"
                  % (cell["spell"], cell["cls"], getattr(sp, "allow_unsolicited", None)))
        elif (isinstance(cell, dict) and "spell" in cell) or (isinstance(cell, list) and cell and "spell" in cell[0]):
            hist = cell if isinstance(cell, list) else cell.get("history") or [cell]
            sp = None
            for c in hist:
                case, spec = O.build(c)
                sp = sp or case.fresh_sp()
                xml = pipeline.build_xml(spec)
                _, ids = pipeline.response_coq(spec, case.enc_keys)
                print("allow_unsolicited spelled %-8s (%s) call over %-8s InResponseTo %-17s confirmation %-17s -> implementation outcome: %r"
                      % (c["spell"], c["cls"], c["arrive"], c["irt"], c["scd"], G.call_sp(sp, case, xml, ids)))
        elif isinstance(cell, (dict, list)) and (isinstance(cell, list) or "history" in cell or "kind" in cell):
            # a per-binding cell, or a history (list of cells) on one fresh SP object
            hist = cell if isinstance(cell, list) else cell.get("history") or [cell]
            sp = None
            for c in hist:
                case, spec = G.build(c)
                sp = sp or case.fresh_sp()
                xml = pipeline.build_xml(spec)
                _, ids = pipeline.response_coq(spec, case.enc_keys)
                print("call over %-8s table %-5s Destination %-8s Recipient %-7s -> implementation outcome: %r"
                      % (c["arrive"], c["layout"], c["dest"], c["recip"], G.call_sp(sp, case, xml, ids)))
        elif isinstance(cell, dict) and "irt" in cell:
            case, spec = build(cell)
            xml = pipeline.build_xml(spec)
            _, ids = pipeline.case_coq(case, spec, NOW)
            print("implementation outcome:", pipeline.run_impl(case, xml, ids))
    return 0
